#!/bin/bash
# usage: [SRCBASE=/tmp/mut2 IDPREFIX=R2] confirm_seed.sh <PROP> <X> <demo-pkg-dir> [demo-run-regex]
# Confirms a seeded change from /tmp/mut/<PROP>/<X>/ in a scratch worktree of /repo HEAD:
# patch applies + builds + whole suite passes with it; demo fails with it and passes without.
# On success stores it as /verif/seeded/<PROP><X>/.
set -u
P="$1"; X="$2"; PKG="$3"; RUN="${4:-Demo}"
SRC=${SRCBASE:-/tmp/mut}/$P/$X
WT=/tmp/confirm/$P$X/wt
OUT=/verif/seeded/${IDPREFIX:-}$P$X
export GOFLAGS=-mod=mod GOPROXY=off TMPDIR=/tmp/confirm/$P$X/tmp
rm -rf /tmp/confirm/$P$X; mkdir -p $TMPDIR
git -C /repo worktree add -q --detach $WT HEAD || exit 2
cd $WT
DEMO=$(ls $SRC/zz_demo_*_test.go | grep -v stress | head -1)
res() { echo "$1" | tee -a /tmp/confirm/$P$X/result.txt; }
git apply $SRC/patch.diff || { res "PATCH-DOES-NOT-APPLY"; cd /; git -C /repo worktree remove --force $WT; exit 1; }
go build ./... || { res "BUILD-FAILS"; cd /; git -C /repo worktree remove --force $WT; exit 1; }
go test -vet=off -count=1 -p 6 ./... > /tmp/confirm/$P$X/suite.log 2>&1; SUITE=$?
if [ $SUITE != 0 ]; then
  # test/versus_test.go hard-codes /tmp/bleve-versus-test-a: concurrent suite runs collide; retry failing packages alone
  FAILED=$(grep -E "^FAIL\s+github.com" /tmp/confirm/$P$X/suite.log | awk '{print $2}' | sed 's#github.com/blevesearch/bleve/v2#.#')
  SUITE=0
  for fp in $FAILED; do
    ok=1
    for try in 1 2 3; do go test -vet=off -count=1 $fp >> /tmp/confirm/$P$X/suite_retry.log 2>&1 && { ok=0; break; }; sleep 3; done
    [ $ok != 0 ] && SUITE=1
  done
fi
res "suite_exit_with_patch=$SUITE"
cp $DEMO $PKG/
go test -vet=off -count=1 ${DEMOFLAGS:-} -run "$RUN" ./$PKG/ > /tmp/confirm/$P$X/demo_with.log 2>&1; DW=$?
res "demo_exit_with_patch=$DW"
git checkout -q -- . 
go test -vet=off -count=1 ${DEMOFLAGS:-} -run "$RUN" ./$PKG/ > /tmp/confirm/$P$X/demo_without.log 2>&1; DWO=$?
res "demo_exit_without_patch=$DWO"
if [ $SUITE = 0 ] && [ $DW != 0 ] && [ $DWO = 0 ]; then
  mkdir -p $OUT; cp $SRC/patch.diff $DEMO $OUT/; [ -f $SRC/notes.md ] && cp $SRC/notes.md $OUT/
  tail -5 /tmp/confirm/$P$X/demo_with.log > $OUT/demo_with_patch.tail.txt
  res "CONFIRMED"
else
  res "NOT-CONFIRMED"; grep -E "^(FAIL|---)" /tmp/confirm/$P$X/suite.log | head -10
fi
cd /; git -C /repo worktree remove --force $WT; rm -rf $TMPDIR
