#!/bin/sh
# usage: ./trymut.sh <patch.diff> <prop> [<prop>...]
# Applies a seeded change to /repo, runs the named checks, reverts /repo.
PATCH="$1"; shift
cd /repo || exit 2
if ! git diff --quiet; then echo "/repo has uncommitted changes; refusing"; exit 2; fi
git apply "$PATCH" || { echo "patch does not apply"; exit 2; }
for p in "$@"; do
  (cd /verif && ./check.sh "$p" quick 2>&1 | grep -E "violated|VIOLATION|UNDECIDED|^property=" | cut -c1-300 | head -8)
done
git -C /repo checkout -- . 
git -C /repo status --short | head -3
