#!/usr/bin/env python3
"""Rewrites the trailing 'Rules evaluated: ...' sentence of every claim text in claims.json from the
rule inventory of the current evidence files (run after runall.sh)."""
import json, re
c = json.load(open('/verif/claims.json'))
for pid, v in c['claimed'].items():
    try:
        ev = json.load(open('/verif/evidence/%s.json' % pid))
    except Exception:
        continue
    rules = sorted(ev['coverage']['per_rule'].keys())
    t = re.sub(r'\s*Rules evaluated: [^"]*$', '', v['text']).rstrip()
    v['text'] = t + ' Rules evaluated: ' + ', '.join(rules) + '.'
json.dump(c, open('/verif/claims.json', 'w'), indent=1)
print('ok')
