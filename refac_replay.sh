#!/bin/bash
# usage: refac_replay.sh <group-dir>   replays every <ID>/<n>/patch.diff under it against ALL checks (overlay); prints any non-silent result
G="$1"
for d in $(ls -d $G/C*/[0-9] 2>/dev/null | sort); do
  out=$(/verif/tryseed.sh $d/patch.diff all 2>&1 | grep -E "violated|VIOLATION|UNDECIDED" | cut -c1-260)
  if [ -n "$out" ]; then echo "### $d"; echo "$out"; else echo "ok  $d"; fi
done
