#!/usr/bin/env python3
"""Writes seeded/<id>/meta.json for the stored round-2..5 seeds from the confirmation logs,
the authors' notes and the first-contact logs.  Idempotent."""
import json, os, re, glob
os.chdir('/verif')
fc = {}
for rnd in (2, 3, 4, 5):
    p = 'seeded/round%d_first_contact.json' % rnd
    if os.path.exists(p):
        d = json.load(open(p)); d = {k: v for k, v in d.items() if not k.startswith('_')}
        fc[rnd] = d
for d in sorted(os.listdir('seeded')):
    m = re.match(r'R(\d)(C\d\d)([A-Z])$', d)
    if not m:
        continue
    rnd, prop, x = int(m.group(1)), m.group(2), m.group(3)
    dirp = 'seeded/' + d
    patch = open(dirp + '/patch.diff').read()
    files = re.findall(r'^\+\+\+ b/(\S+)', patch, re.M)
    funcs = sorted(set(re.findall(r'^@@.*@@ func (?:\([^)]*\) )?(\w+)', patch, re.M)))
    site = ', '.join(files)
    notes = open(dirp + '/notes.md').read() if os.path.exists(dirp + '/notes.md') else ''
    need = ''
    mm = re.search(r'(?im)^#+.*(manifest|trigger|needs).*\n+((?:.+\n?){1,6})', notes)
    if mm:
        need = ' '.join(mm.group(2).split())[:400]
    else:
        mm = re.search(r'(?i)(trigger[^\n]*\n(?:.+\n?){0,3})', notes)
        need = ' '.join(mm.group(1).split())[:400] if mm else 'see notes.md'
    res = {}
    rp = '/tmp/confirm/%s%s/result.txt' % (prop, x)
    old = json.load(open(dirp + '/meta.json')) if os.path.exists(dirp + '/meta.json') else {}
    if os.path.exists(rp) and rnd == 5 and not old.get('confirmed_by_me'):
        for line in open(rp):
            if '=' in line:
                k, v = line.strip().split('=', 1)
                res[k] = int(v)
    else:
        res = {k: v for k, v in old.get('confirmed_by_me', {}).items() if k != 'how'}
    first = fc.get(rnd, {}).get(prop + x, old.get('first_contact', 'unknown'))
    demos = sorted(os.path.basename(f) for f in glob.glob(dirp + '/zz_demo_*_test.go'))
    meta = {
        'seed': d, 'round': rnd, 'breaks_property': prop,
        'origin': 'independent sub-agent given only the property record, the list of earlier rounds\' ideas to avoid, and a scratch worktree (round %d)' % rnd,
        'site': site,
        'needs_to_manifest': need,
        'files': {'patch': 'patch.diff', 'demonstration': demos, 'notes': 'notes.md'},
        'confirmed_by_me': dict({'how': 'confirm_seed.sh in a scratch git worktree of /repo HEAD with a private TMPDIR: git apply patch; go build ./...; go test -vet=off -count=1 ./... (whole suite, failing packages retried alone because of the shared /tmp/bleve-versus-test-a path); demo with patch; demo without patch'}, **res),
        'first_contact': first,
        'caught_unseen': first in ('caught', 'other'),
        'rule_origin': ('caught on first contact by rules that existed when the seed arrived' if first in ('caught', 'other') else ('UNDECIDED on first contact (anchor/floor lost); rule made to follow the refactor afterwards' if first == 'undecided' else 'missed on first contact; generalised rule written afterwards (post-hoc)')),
    }
    json.dump(meta, open(dirp + '/meta.json', 'w'), indent=1)
print('ok')
