#!/bin/bash
# usage: silence.sh <PROP>
# Other direction of the checker's self-validation (thorough tier): every stored
# behaviour-preserving refactoring written for <PROP> (refactors/*/<PROP>/<n>/patch.diff,
# produced by independent authors who did not know the checker; see DESIGN.md §6) is
# applied to scratch copies of the files it touches, overlaid on /repo's current
# working tree, and the property's check must give the SAME verdict as on the tree
# itself (it is only called when that verdict is "holds").  Patches that no longer
# apply to the current tree are skipped.  Writes evidence/<PROP>.silence.json;
# exit 0 = silent on all, exit 2 = some refactoring changes the verdict.
cd "$(dirname "$0")"
P="$1"; REPO="${VERIF_REPO:-/repo}"
export PATH="$PWD/bin/gobin:$PATH" GOFLAGS=-mod=mod GOPROXY=off GOSUMDB=off GOTOOLCHAIN=local GOWORK=off
out="evidence/$P.silence.json"; mkdir -p evidence
echo "[" > "$out.tmp"; first=1; rc=0; n=0
for d in refactors/*/$P/*/; do
  [ -f "$d/patch.diff" ] || continue
  id=$(echo "$d" | sed 's#refactors/##; s#/$##')
  tmp=$(mktemp -d /tmp/bleveverif-silence.XXXXXX)
  mkdir -p "$tmp/ov" "$tmp/verif"; cp known_findings.json "$tmp/verif/" 2>/dev/null
  files=$(grep -E '^\+\+\+ b/' "$d/patch.diff" | sed 's#^+++ b/##')
  for f in $files; do mkdir -p "$tmp/ov/$(dirname "$f")"; cp "$REPO/$f" "$tmp/ov/$f" 2>/dev/null; done
  status="silent"
  if ( cd "$tmp/ov" && patch -p1 -s --dry-run < "/verif/$d/patch.diff" >/dev/null 2>&1 ); then
    ( cd "$tmp/ov" && patch -p1 -s < "/verif/$d/patch.diff" )
    res=$(./bin/bleveverif -prop "$P" -tier quick -repo "$REPO" -overlay-root "$tmp/ov" -verif "$tmp/verif" 2>&1); code=$?
    if [ $code -ne 0 ]; then status="VERDICT-CHANGED(exit=$code): $(echo "$res" | grep -E '^  violated|^UNDECIDED' | head -1 | cut -c1-160 | tr '"' "'")"; rc=2; fi
  else
    status="not-applicable(patch does not apply to the current tree)"
  fi
  rm -rf "$tmp"
  [ $first -eq 0 ] && echo "," >> "$out.tmp"; first=0
  printf '{"refactoring":"%s","status":"%s"}' "$id" "$status" >> "$out.tmp"
  echo "refactoring $id: $status"
  n=$((n+1))
done
echo "]" >> "$out.tmp"; mv "$out.tmp" "$out"
echo "refactorings replayed for $P: $n"
exit $rc
