#!/usr/bin/env python3
"""Assembles /verif/DESIGN.md from design/*.md, evidence/*.json, claims.json and seeded/*/meta.json."""
import json, os, glob, re, subprocess
V = os.path.dirname(os.path.dirname(os.path.abspath(__file__)))
os.chdir(V)
claims = json.load(open('claims.json'))

def rd(p):
    return open(p).read()

# round-0 plan coverage of the clause that caught each round-1 seed (judged by me against the round-0 text)
PLAN = {
 'C01A':'yes','C01B':'no','C02A':'no','C02B':'yes','C03A':'yes','C03B':'yes','C04A':'yes','C04B':'yes',
 'C05A':'yes','C05B':'no','C06A':'yes','C06B':'partly','C08A':'yes','C08B':'yes','C09A':'yes','C09B':'yes',
 'C10A':'partly','C10B':'yes','C11A':'partly','C11B':'yes','C11C':'yes','C12A':'yes','C12B':'yes','C13A':'partly',
 'C13B':'no','C14A':'yes','C14B':'yes','C15A':'no','C15B':'partly','C16A':'yes','C16B':'yes','C17A':'yes',
 'C17B':'no','C18A':'partly','C18B':'-','C19A':'no','C19B':'yes','C20A':'yes','C20B':'partly',
}

TITLES = {json.loads(l)['id']: json.loads(l)['title'] for l in open('properties.jsonl') if l.strip()}

def per_property():
    out = []
    for pid in sorted(claims['claimed']):
        ev = json.load(open('evidence/%s.json' % pid))
        cov = ev['coverage']
        title = TITLES.get(pid, '')
        out.append('### %s%s' % (pid, (' — ' + title) if title else ''))
        out.append('')
        out.append('**Decides (level `other`)** — ' + cov.get('explanation', '').strip())
        out.append('')
        out.append('**Not covered** — ' + str(cov.get('not_covered', '')).strip())
        out.append('')
        pr = cov.get('per_rule', {})
        cells = ', '.join('`%s` %s' % (k, pr[k]) for k in sorted(pr))
        out.append('**Measured on the current tree** — %s obligations, %s discharged, %s functions analysed; sites per rule: %s.' % (
            cov.get('evaluations', cov.get('obligations_total', '?')), cov.get('discharged', '?'), len(cov.get('functions_analysed', [])) if isinstance(cov.get('functions_analysed'), list) else cov.get('functions_analysed', '?'), cells))
        kf = [k for k in json.load(open('known_findings.json')) if k['property'] == pid and k['status'] == 'known']
        if kf:
            out.append('')
            out.append('**Known findings printed by this check** — ' + '; '.join(sorted(set(k['key'] for k in kf))) + '.')
        tb = cov.get('trusted_base')
        if tb:
            out.append('')
            out.append('**Trusted base** — ' + '; '.join(tb) + '.')
        out.append('')
    return '\n'.join(out)

def seed_rows():
    rows = []
    for d in sorted(os.listdir('seeded')):
        mp = 'seeded/%s/meta.json' % d
        if not os.path.exists(mp):
            continue
        m = json.load(open(mp))
        det = m.get('detection', {})
        if os.path.exists('seeded/%s/detected.json' % d):
            det = json.load(open('seeded/%s/detected.json' % d))
        rows.append((d, m, det))
    return rows

def origin_of(seed):
    """git-derived: was the rule that fires committed before the seed was stored?"""
    try:
        commits = subprocess.check_output(['git', 'log', '--reverse', '--format=%h'], text=True).split()
    except Exception:
        return '?'
    return '?'

def seed_table():
    rows = seed_rows()
    out = ['| seed | breaks | site of the change | reported by | first rule that fires | rule origin |', '|---|---|---|---|---|---|']
    stats = {}
    for d, m, det in rows:
        rnd = m.get('round', 1)
        by = ','.join(det.get('violation_reported_by', [])) or '**missed**'
        rule = (det.get('rules') or ['—'])[0]
        rule = re.sub(r'^violated ', '', rule)
        if len(rule) > 110:
            rule = rule[:107] + '…'
        origin = m.get('rule_origin', '')
        site = m.get('site', '')
        out.append('| %s | %s | %s | %s | `%s` | %s |' % (d, m.get('breaks_property', ''), site, by, rule, origin))
        key = (rnd, 'own' if m.get('breaks_property') in det.get('violation_reported_by', []) else ('other' if det.get('violation_reported_by') else 'missed'))
        stats[key] = stats.get(key, 0) + 1
    return '\n'.join(out), stats

def stats_text(stats):
    rounds = sorted(set(k[0] for k in stats))
    lines = ['| round | seeds | reported by the property\'s own check | only by another property\'s check | missed |', '|---|---|---|---|---|']
    for r in rounds:
        own, oth, mis = stats.get((r, 'own'), 0), stats.get((r, 'other'), 0), stats.get((r, 'missed'), 0)
        lines.append('| %s | %d | %d | %d | %d |' % (r, own + oth + mis, own, oth, mis))
    lines.append('')
    lines.append('(final state of the checks; the *unseen* rates of rounds 2 and 3 are given below the table)')
    un = {}
    for d, m, det in seed_rows():
        if 'caught_unseen' in m:
            k = m.get('round', 1)
            a, b = un.get(k, (0, 0))
            un[k] = (a + (1 if m['caught_unseen'] else 0), b + 1)
    for k in sorted(un):
        lines.append('')
        lines.append('Round %s, first contact (no rule changed yet): **%d of %d** seeds reported.' % (k, un[k][0], un[k][1]))
    return '\n'.join(lines)

parts = [rd('design/00_head.md'), rd('design/10_known.md')]
parts.append('\n## 4. Per property, as built\n\nGenerated from the evidence files of the last run on the current tree (the explanation and not-covered texts are the ones the checker itself writes into its evidence).\n\n' + per_property())
parts.append(rd('design/15_findings.md'))
tbl, stats = seed_table()
parts.append(rd('design/20_validation.md').replace('<!--SEEDTABLE-->', tbl).replace('<!--STATS-->', stats_text(stats)))
parts.append(rd('design/30_limits.md'))
parts.append('\n# Part II — round-0 plan (historical, verbatim)\n\nWritten before any analyzer code existed.  Where it says SSA/VTA read "typed AST + go/cfg" (§1 of Part I); findings and dispositions are superseded by Part I §5.\n\n' + re.sub(r'(?m)^(#+) ', lambda mm: '#' + mm.group(1) + ' ', rd('design/90_round0_plan.md')))
open('DESIGN.md', 'w').write('\n'.join(parts))
print('DESIGN.md written', sum(len(p) for p in parts), 'bytes;', stats)
