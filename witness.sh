#!/bin/bash
# usage: witness.sh <PROP>
# Self-validation of the checker (thorough tier): every confirmed seeded change
# recorded as detectable for <PROP> is applied to scratch copies of the files it touches (under mktemp -d, removed
# immediately) which are overlaid on /repo's current working tree for the
# analysis (go/packages Overlay); the property's check must report a VIOLATION.
# Writes evidence/<PROP>.witness.json; exit 0 = all witnesses fired (or were
# not applicable to the current tree), exit 2 = the checker missed a witness.
cd "$(dirname "$0")"
P="$1"; REPO="${VERIF_REPO:-/repo}"
export PATH="$PWD/bin/gobin:$PATH" GOFLAGS=-mod=mod GOPROXY=off GOSUMDB=off GOTOOLCHAIN=local GOWORK=off
out="evidence/$P.witness.json"; mkdir -p evidence
echo "[" > "$out.tmp"; first=1; rc=0; n=0
for d in seeded/*/; do
  id=$(basename "$d")
  [ -f "$d/detected.json" ] || continue
  python3 -c "import json,sys; d=json.load(open('$d/detected.json')); sys.exit(0 if '$P' in d.get('violation_reported_by',[]) else 1)" || continue
  tmp=$(mktemp -d /tmp/bleveverif-witness.XXXXXX)
  mkdir -p "$tmp/ov" "$tmp/verif"; cp known_findings.json "$tmp/verif/" 2>/dev/null
  # copy only the files the patch touches, patch the copies, analyse /repo with them overlaid
  files=$(grep -E '^\+\+\+ b/' "$d/patch.diff" | sed 's#^+++ b/##')
  okcopy=1
  for f in $files; do mkdir -p "$tmp/ov/$(dirname "$f")"; cp "$REPO/$f" "$tmp/ov/$f" 2>/dev/null || okcopy=0; done
  status="fired"; rules=""
  if [ $okcopy = 1 ] && ( cd "$tmp/ov" && patch -p1 -s --dry-run < "/verif/$d/patch.diff" >/dev/null 2>&1 ); then
    ( cd "$tmp/ov" && patch -p1 -s < "/verif/$d/patch.diff" )
    res=$(./bin/bleveverif -prop "$P" -tier quick -repo "$REPO" -overlay-root "$tmp/ov" -verif "$tmp/verif" 2>&1); code=$?
    if [ $code -ne 1 ]; then status="MISSED(exit=$code)"; rc=2; fi
    rules=$(echo "$res" | grep -E "^  violated" | sed 's/^  violated \([^ ]*\) at.*/\1/' | sort -u | head -5 | tr '\n' ';')
  else
    status="not-applicable(patch does not apply to the current tree)"
  fi
  rm -rf "$tmp"
  [ $first -eq 0 ] && echo "," >> "$out.tmp"; first=0
  printf '{"seed":"%s","status":"%s","rules":"%s"}' "$id" "$status" "$rules" >> "$out.tmp"
  echo "witness $id: $status"
  n=$((n+1))
done
echo "]" >> "$out.tmp"; mv "$out.tmp" "$out"
echo "witnesses replayed for $P: $n"
exit $rc
