#!/usr/bin/env python3
"""Regenerates /verif/MANIFEST.json from claims.json (claimed checks) and
properties.jsonl (everything not claimed goes to not_applicable with its reason
from claims.json['not_applicable'] or a default)."""
import json, os
here = os.path.dirname(os.path.abspath(__file__))
claims = json.load(open(os.path.join(here, "claims.json")))
props = [json.loads(l) for l in open(os.path.join(here, "properties.jsonl"))]
checks, na = [], []
for p in props:
    pid = p["id"]
    c = claims["claimed"].get(pid)
    if c:
        checks.append({
            "property_id": pid,
            "quick_cmd": f"./check.sh {pid} quick",
            "thorough_cmd": f"./check.sh {pid} thorough",
            "evidence_file": f"/verif/evidence/{pid}.json",
            "replay_cmd_template": f"./check.sh {pid} quick  # offending obligations are listed in {{path}}",
            "engine": "bleveverif",
            "level_claimed": {"category": "other", "text": c["text"], "design_ref": f"DESIGN.md section 4, {pid}"},
            "level_note": c["note"],
            "technique": c["technique"],
        })
    else:
        na.append({"property_id": pid, "reason": claims["not_applicable"].get(pid, "no sound structural rule built for this property; it quantifies over runtime values/schedules that static analysis cannot bound")})
m = {
    "version": 1,
    "setup_cmd": "./setup.sh",
    "hooks": {"guard": "verif", "enable": "none needed: static analysis reads the source; no instrumentation is compiled in", "baseline_off_cmd": claims["baseline_off_cmd"], "source_commits": [], "add_only": True},
    "engines": [{"name": "bleveverif", "path": "/verif/analyzer", "serves_properties": sorted(claims["claimed"].keys()), "kind_free_text": "custom static analyzer (go/packages + go/types + go/cfg dataflow/dominance + go/ssa) specific to blevesearch/bleve; never executes bleve code"}],
    "checks": checks,
    "notes": claims["notes"],
    "not_applicable": na,
}
json.dump(m, open(os.path.join(here, "MANIFEST.json"), "w"), indent=1)
print("claimed", len(checks), "not_applicable", len(na))
