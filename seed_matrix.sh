#!/bin/bash
# For every stored seeded change: overlay the patched files on /repo's current
# tree (no change to /repo), run ALL checks in one analyzer process, record which
# properties/rules fire.  Writes seeded/<id>/detected.json, prints a line per seed.
cd /verif
export PATH="$PWD/bin/gobin:$PATH" GOFLAGS=-mod=mod GOPROXY=off GOSUMDB=off GOTOOLCHAIN=local GOWORK=off
# optional: SHARD=i/n processes every n-th seed starting at i (run n of them in parallel); NOBUILD=1 skips the build
[ -z "$NOBUILD" ] && { ( cd analyzer && go build -o ../bin/bleveverif . ) || exit 2; }
k=-1
for d in seeded/*/; do
  id=$(basename $d)
  [ -f "$d/patch.diff" ] || continue
  [ -n "$1" ] && [ "$1" != "$id" ] && continue
  k=$((k+1))
  if [ -n "$SHARD" ]; then si=${SHARD%/*}; sn=${SHARD#*/}; [ $((k % sn)) -ne $si ] && continue; fi
  tmp=$(mktemp -d /tmp/bleveverif-matrix.XXXXXX); mkdir -p "$tmp/ov" "$tmp/verif"; cp known_findings.json "$tmp/verif/"
  okcopy=1
  for f in $(grep -E '^\+\+\+ b/' "$d/patch.diff" | sed 's#^+++ b/##'); do mkdir -p "$tmp/ov/$(dirname "$f")"; cp "/repo/$f" "$tmp/ov/$f" 2>/dev/null || okcopy=0; done
  if [ $okcopy = 0 ] || ! ( cd "$tmp/ov" && patch -p1 -s < "/verif/$d/patch.diff" >/dev/null 2>&1 ); then echo "$id PATCH-DOES-NOT-APPLY"; rm -rf "$tmp"; continue; fi
  out=$(./bin/bleveverif -prop all -repo /repo -overlay-root "$tmp/ov" -verif "$tmp/verif" 2>&1)
  rm -rf "$tmp"
  fired=$(echo "$out" | grep -E "^VIOLATION" | sed 's/.*property=\([A-Z0-9]*\).*/\1/' | sort -u | tr '\n' ' ')
  und=$(echo "$out" | grep -E "^UNDECIDED" | sed 's/.*property=\([A-Za-z0-9]*\).*/\1/' | sort -u | tr '\n' ' ')
  rules=$(echo "$out" | grep -E "^  violated" | sed 's/^  violated \([^ ]*\) at.*/\1/' | sort -u)
  python3 - "$id" "$fired" "$und" <<PY
import json,sys
idd,fired,und=sys.argv[1],sys.argv[2].split(),sys.argv[3].split()
rules="""$rules""".strip().split("\n") if """$rules""".strip() else []
json.dump({"seed":idd,"violation_reported_by":fired,"undecided":und,"rules":rules},open(f"seeded/{idd}/detected.json","w"),indent=1)
PY
  echo "$id fired=[$fired] undecided=[$und]"
done
