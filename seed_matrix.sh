#!/bin/bash
# For every confirmed seeded change: apply it to /repo, run ALL checks in one
# analyzer process, record which properties/rules fire, revert.  Writes
# seeded/<id>/detected.json and prints a matrix line per seed.
cd /verif
export PATH="$PWD/bin/gobin:$PATH" GOFLAGS=-mod=mod GOPROXY=off GOSUMDB=off GOTOOLCHAIN=local GOWORK=off
( cd analyzer && go build -o ../bin/bleveverif . ) || exit 2
if ! git -C /repo diff --quiet; then echo "/repo dirty"; exit 2; fi
for d in seeded/*/; do
  id=$(basename $d)
  [ -n "$1" ] && [ "$1" != "$id" ] && continue
  git -C /repo apply /verif/$d/patch.diff 2>/dev/null || { echo "$id PATCH-DOES-NOT-APPLY"; continue; }
  out=$(./bin/bleveverif -prop all -repo /repo -verif /tmp/seedmatrix_verif 2>&1)
  git -C /repo checkout -- .
  fired=$(echo "$out" | grep -E "^VIOLATION" | sed 's/.*property=\([A-Z0-9]*\).*/\1/' | sort -u | tr '\n' ' ')
  und=$(echo "$out" | grep -E "^UNDECIDED" | sed 's/.*property=\([A-Za-z0-9]*\).*/\1/' | sort -u | tr '\n' ' ')
  rules=$(echo "$out" | grep -E "^  violated" | sed 's/^  violated \([^ ]*\) at.*/\1/' | sort -u)
  python3 - "$id" "$fired" "$und" <<PY
import json,sys
idd,fired,und=sys.argv[1],sys.argv[2].split(),sys.argv[3].split()
rules="""$rules""".strip().split("\n") if """$rules""".strip() else []
json.dump({"seed":idd,"violation_reported_by":fired,"undecided":und,"rules":rules},open(f"seeded/{idd}/detected.json","w"),indent=1)
PY
  echo "$id fired=[$fired] undecided=[$und]"
done
rm -rf /tmp/seedmatrix_verif
