#!/bin/sh
# usage: ./check.sh <property-id> [quick|thorough]
# Decides the property's structural obligations on /repo's CURRENT working
# tree by static analysis (nothing from /repo is executed).
cd "$(dirname "$0")"
PROP="$1"; TIER="${2:-${VERIF_TIER:-quick}}"
REPO="${VERIF_REPO:-/repo}"
mkdir -p bin/gobin evidence
[ -e bin/gobin/go ] || ln -sf "$(command -v go1.26.8)" bin/gobin/go
export PATH="$PWD/bin/gobin:$PATH" GOFLAGS=-mod=mod GOPROXY=off GOSUMDB=off GOTOOLCHAIN=local GOWORK=off
unset GOWORK; export GOWORK=off
( cd analyzer && go build -o ../bin/bleveverif . ) || { echo "UNDECIDED property=$PROP analyzer build failed"; exit 2; }
if [ "$TIER" = thorough ] && [ -x ./witness.sh ]; then
  # thorough = the same static rules + self-validation of the checker against the stored seeded changes
  ./witness.sh "$PROP" > "evidence/$PROP.witness.log" 2>&1; W=$?
  tail -3 "evidence/$PROP.witness.log"
  # identifier independence: the verdict on a copy in which every local variable, parameter and
  # receiver is renamed (overlay, nothing written to /repo) must equal the verdict on the tree itself
  R=0
  if ( cd tools/renamelocals && go build -o ../../bin/renamelocals . ) 2>/dev/null; then
    rn=$(mktemp -d /tmp/bleveverif-rename.XXXXXX); mkdir -p "$rn/verif"; cp known_findings.json "$rn/verif/" 2>/dev/null
    ( cd "$REPO" && "$OLDPWD/bin/renamelocals" -repo "$REPO" -out "$rn/ov" ./... ) > "evidence/$PROP.rename.log" 2>&1
    ./bin/bleveverif -prop "$PROP" -tier quick -repo "$REPO" -overlay-root "$rn/ov" -verif "$rn/verif" >> "evidence/$PROP.rename.log" 2>&1; R=$?
    rm -rf "$rn"
  else
    echo "renamelocals tool did not build" > "evidence/$PROP.rename.log"; R=2
  fi
  ./bin/bleveverif -prop "$PROP" -tier thorough -repo "$REPO" -verif "$PWD"; C=$?
  [ $C -ne 0 ] && exit $C
  # silence on the stored behaviour-preserving refactorings of this property's code
  S=0
  if [ -x ./silence.sh ] && [ -d refactors ]; then
    ./silence.sh "$PROP" > "evidence/$PROP.silence.log" 2>&1; S=$?
    tail -1 "evidence/$PROP.silence.log"
  fi
  if [ $W -ne 0 ]; then echo "UNDECIDED property=$PROP the checker missed a stored witness (see evidence/$PROP.witness.log)"; exit 2; fi
  if [ $R -ne 0 ]; then echo "UNDECIDED property=$PROP the verdict changes when local identifiers are renamed (see evidence/$PROP.rename.log): a rule depends on names"; exit 2; fi
  if [ $S -ne 0 ]; then echo "UNDECIDED property=$PROP the verdict changes under a stored behaviour-preserving refactoring (see evidence/$PROP.silence.log)"; exit 2; fi
  echo "thorough: witnesses fired, verdict independent of local identifier names, silent on the stored refactorings"
  exit 0
fi
exec ./bin/bleveverif -prop "$PROP" -tier "$TIER" -repo "$REPO" -verif "$PWD"
