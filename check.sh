#!/bin/sh
# usage: ./check.sh <property-id> [quick|thorough]
# Decides the property's structural obligations on /repo's CURRENT working
# tree by static analysis (nothing from /repo is executed).
cd "$(dirname "$0")"
PROP="$1"; TIER="${2:-${VERIF_TIER:-quick}}"
REPO="${VERIF_REPO:-/repo}"
mkdir -p bin/gobin evidence
[ -e bin/gobin/go ] || ln -sf "$(command -v go1.26.8)" bin/gobin/go
export PATH="$PWD/bin/gobin:$PATH" GOFLAGS=-mod=mod GOPROXY=off GOSUMDB=off GOTOOLCHAIN=local GOWORK=off
unset GOWORK; export GOWORK=off
( cd analyzer && go build -o ../bin/bleveverif . ) || { echo "UNDECIDED property=$PROP analyzer build failed"; exit 2; }
if [ "$TIER" = thorough ] && [ -x ./witness.sh ]; then
  ./bin/bleveverif -prop "$PROP" -tier thorough -repo "$REPO" -verif "$PWD" || exit $?
  exec ./witness.sh "$PROP"
fi
exec ./bin/bleveverif -prop "$PROP" -tier "$TIER" -repo "$REPO" -verif "$PWD"
