#!/bin/bash
# usage: tryseed.sh <patch.diff> <PROP|all>...
# Analyses /repo with the patched copies of the files named by the patch overlaid
# (no change to /repo, no evidence written under /verif).
cd "$(dirname "$0")"
PATCH=$(readlink -f "$1"); shift; REPO="${VERIF_REPO:-/repo}"
export PATH="$PWD/bin/gobin:$PATH" GOFLAGS=-mod=mod GOPROXY=off GOSUMDB=off GOTOOLCHAIN=local GOWORK=off
tmp=$(mktemp -d /tmp/bleveverif-try.XXXXXX); mkdir -p "$tmp/ov" "$tmp/verif"; cp known_findings.json "$tmp/verif/"
for f in $(grep -E '^\+\+\+ b/' "$PATCH" | sed 's#^+++ b/##'); do mkdir -p "$tmp/ov/$(dirname "$f")"; cp "$REPO/$f" "$tmp/ov/$f"; done
( cd "$tmp/ov" && patch -p1 -s < "$PATCH" ) || { echo "patch does not apply"; rm -rf "$tmp"; exit 2; }
for p in "$@"; do
  "${BLEVEVERIF_BIN:-./bin/bleveverif}" -prop "$p" -tier quick -repo "$REPO" -overlay-root "$tmp/ov" -verif "$tmp/verif" 2>&1 | grep -E "violated|VIOLATION|UNDECIDED" | cut -c1-${CUT:-260} | head -${HEAD:-8}
done
rm -rf "$tmp"
