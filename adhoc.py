#!/usr/bin/env python3
"""adhoc.py <repo-relative-file> <old> <new> -> writes /tmp/adhoc/adhoc.diff (a -p1 patch) for tryseed.sh"""
import sys,os,subprocess,shutil
f,old,new=sys.argv[1],sys.argv[2],sys.argv[3]
s=open('/repo/'+f).read()
assert s.count(old)>=1,"old text not found"
shutil.rmtree('/tmp/adhoc/x',ignore_errors=True)
for d in ('a','b'):
    os.makedirs('/tmp/adhoc/x/%s/%s'%(d,os.path.dirname(f)),exist_ok=True)
open('/tmp/adhoc/x/a/'+f,'w').write(s)
open('/tmp/adhoc/x/b/'+f,'w').write(s.replace(old,new,1))
out=subprocess.run(['diff','-u','a/'+f,'b/'+f],cwd='/tmp/adhoc/x',capture_output=True,text=True).stdout
import re
out=re.sub(r'^(---|\+\+\+) (\S+)\t.*$',r'\1 \2',out,flags=re.M)
open('/tmp/adhoc/adhoc.diff','w').write(out)
print(len(out.splitlines()),'lines')
