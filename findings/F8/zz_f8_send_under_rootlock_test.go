package scorch

// Demonstration for finding F8 (C11): (*Scorch).DropFileWriterIDs performs an
// UNSELECTED send on forceMergeRequestCh (capacity 1) while holding rootLock
// (write).  Schedule: the merger is inside a merge task (held here at
// EventKindMergeTaskIntroductionStart, exactly as TestObsoleteSegmentMergeIntroduction
// does); a ForceMerge request arrives and sits in the channel's single buffer
// slot; DropFileWriterIDs takes rootLock and blocks on the send.  When the
// merger resumes it hands its result to the introducer, which needs rootLock:
// nobody can ever drain the channel, so the index is dead-locked (Batch and
// Close hang).  Place in index/scorch/.

import (
	"context"
	"fmt"
	"sync/atomic"
	"testing"
	"time"

	"github.com/blevesearch/bleve/v2/document"
	"github.com/blevesearch/bleve/v2/index/scorch/mergeplan"
	index "github.com/blevesearch/bleve_index_api"
)

func TestF8SendUnderRootLockDeadlock(t *testing.T) {
	hold := make(chan struct{})
	var inTask int32
	reached := make(chan struct{}, 1)
	RegistryEventCallbacks["f8"] = func(e Event) bool {
		if e.Kind == EventKindMergeTaskIntroductionStart && atomic.CompareAndSwapInt32(&inTask, 0, 1) {
			reached <- struct{}{}
			<-hold
		}
		return true
	}
	cfg := CreateConfig("TestF8")
	cfg["eventCallbackName"] = "f8"
	defer DestroyTest(cfg)
	aq := index.NewAnalysisQueue(1)
	defer aq.Close()
	idx, err := NewScorch(Name, cfg, aq)
	if err != nil {
		t.Fatal(err)
	}
	if err := idx.Open(); err != nil {
		t.Fatal(err)
	}
	s := idx.(*Scorch)
	// a few persisted segments so that the merger has a task
	for i := 0; i < 12; i++ {
		b := index.NewBatch()
		d := document.NewDocument(fmt.Sprintf("d%d", i))
		d.AddField(document.NewTextField("f", nil, []byte("hello")))
		b.Update(d)
		if err := idx.Batch(b); err != nil {
			t.Fatal(err)
		}
	}
	go func() { _ = s.ForceMerge(context.Background(), &mergeplan.SingleSegmentMergePlanOptions) }()
	select {
	case <-reached: // the merger is inside a merge task and parked in our callback
	case <-time.After(30 * time.Second):
		t.Skip("merger never started a task; schedule not reached")
	}
	// 1. a ForceMerge request fills the single buffer slot
	atomic.StoreUint64(&s.stats.TotFileMergeForceOpsCompleted, atomic.LoadUint64(&s.stats.TotFileMergeForceOpsStarted))
	go func() { _ = s.ForceMerge(context.Background(), &mergeplan.SingleSegmentMergePlanOptions) }()
	deadline := time.Now().Add(10 * time.Second)
	for len(s.forceMergeRequestCh) == 0 && time.Now().Before(deadline) {
		time.Sleep(10 * time.Millisecond)
	}
	if len(s.forceMergeRequestCh) == 0 {
		t.Skip("second request not buffered; schedule not reached")
	}
	// 2. DropFileWriterIDs takes rootLock and blocks on the send
	dropDone := make(chan error, 1)
	go func() { dropDone <- s.DropFileWriterIDs(map[string]struct{}{"x": {}}) }()
	time.Sleep(500 * time.Millisecond)
	// 3. let the merger continue
	close(hold)
	// the index must still be usable
	batchDone := make(chan error, 1)
	go func() {
		b := index.NewBatch()
		d := document.NewDocument("after")
		d.AddField(document.NewTextField("f", nil, []byte("hello")))
		b.Update(d)
		batchDone <- idx.Batch(b)
	}()
	select {
	case <-batchDone:
	case <-time.After(20 * time.Second):
		t.Fatal("Batch blocked for 20s: DropFileWriterIDs holds rootLock while blocked sending on the full forceMergeRequestCh; the merger/introducer need rootLock and can never drain it (deadlock)")
	}
	select {
	case <-dropDone:
	case <-time.After(60 * time.Second):
		t.Fatal("DropFileWriterIDs never returned")
	}
	closed := make(chan struct{})
	go func() { idx.Close(); close(closed) }()
	select {
	case <-closed:
	case <-time.After(20 * time.Second):
		t.Fatal("Close blocked")
	}
}
