package bleve

// Demonstration for finding F1 (C11): (*indexImpl).DropFileWriterIDs returns
// with i.mutex write-locked when index-meta rewriting fails (here: a stale
// index_meta.json_temp left by an earlier crash makes O_EXCL fail).  Every
// later API call, including Close, then blocks forever.  Place in repo root.

import (
	"os"
	"path/filepath"
	"testing"
	"time"
)

func TestF1DropFileWriterIDsErrorLeaksLock(t *testing.T) {
	dir := t.TempDir()
	path := filepath.Join(dir, "idx")
	idx, err := New(path, NewIndexMapping())
	if err != nil {
		t.Fatal(err)
	}
	if err := os.WriteFile(filepath.Join(path, "index_meta.json_temp"), []byte("stale"), 0o600); err != nil {
		t.Fatal(err)
	}
	ic, ok := idx.(interface {
		DropFileWriterIDs(map[string]struct{}) error
	})
	if !ok {
		t.Skip("no DropFileWriterIDs")
	}
	if err := ic.DropFileWriterIDs(map[string]struct{}{"": {}}); err == nil {
		t.Fatal("expected an error from DropFileWriterIDs")
	}
	done := make(chan error, 1)
	go func() { _, err := idx.DocCount(); done <- err }()
	select {
	case <-done:
	case <-time.After(2 * time.Second):
		t.Fatal("DocCount blocked: DropFileWriterIDs returned with the index mutex held")
	}
	idx.Close()
}
