package moss

// Demonstration for finding F10 (C15): moss incrementBytes (used to compute
// the exclusive end key of PrefixIterator) zeroes trailing 0xff bytes instead
// of truncating them, so the end key of prefix "a\xff" becomes "b\x00" and
// the iterator also returns the key "b", which does not have the prefix.
// Place in index/upsidedown/store/moss/.

import (
	"bytes"
	"testing"
)

func TestF10MossPrefixIteratorTrailingFF(t *testing.T) {
	s, err := New(nil, map[string]interface{}{})
	if err != nil {
		t.Fatal(err)
	}
	defer s.Close()
	w, _ := s.Writer()
	b := w.NewBatch()
	for _, k := range []string{"a", "a\xff", "a\xffz", "b", "b\x00", "c"} {
		b.Set([]byte(k), []byte("v"))
	}
	if err := w.ExecuteBatch(b); err != nil {
		t.Fatal(err)
	}
	w.Close()
	r, _ := s.Reader()
	defer r.Close()
	prefix := []byte("a\xff")
	it := r.PrefixIterator(prefix)
	defer it.Close()
	var got []string
	for ; it.Valid(); it.Next() {
		k, _, _ := it.Current()
		got = append(got, string(k))
		if !bytes.HasPrefix(k, prefix) {
			t.Errorf("PrefixIterator(%q) returned key %q which does not have the prefix", prefix, k)
		}
	}
	if len(got) != 2 {
		t.Errorf("PrefixIterator(%q) = %q, want exactly [\"a\\xff\" \"a\\xffz\"]", prefix, got)
	}
}
