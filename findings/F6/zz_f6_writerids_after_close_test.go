package bleve

// Demonstration for finding F6 (C11): FileWriterIDsInUse and DropFileWriterIDs
// use the underlying engine without taking the index mutex or testing the
// open flag.  Called after Close they dereference the closed scorch (nil root
// / nil bolt) and panic instead of returning ErrorIndexClosed; called
// concurrently with Close they race with it.  Place in repo root.

import (
	"path/filepath"
	"testing"
)

func TestF6WriterIDCallsAfterClose(t *testing.T) {
	path := filepath.Join(t.TempDir(), "idx")
	idx, err := New(path, NewIndexMapping())
	if err != nil {
		t.Fatal(err)
	}
	if err := idx.Index("a", map[string]interface{}{"x": "y"}); err != nil {
		t.Fatal(err)
	}
	if err := idx.Close(); err != nil {
		t.Fatal(err)
	}
	ic := idx.(interface {
		FileWriterIDsInUse() (map[string]struct{}, error)
		DropFileWriterIDs(map[string]struct{}) error
	})
	call := func(name string, f func() error) {
		defer func() {
			if r := recover(); r != nil {
				t.Errorf("%s after Close panicked: %v (want ErrorIndexClosed)", name, r)
			}
		}()
		if err := f(); err != ErrorIndexClosed {
			t.Errorf("%s after Close returned %v, want ErrorIndexClosed", name, err)
		}
	}
	call("FileWriterIDsInUse", func() error { _, err := ic.FileWriterIDsInUse(); return err })
	call("DropFileWriterIDs", func() error { return ic.DropFileWriterIDs(map[string]struct{}{"zzz": {}}) })
}
