package bleve

import (
	"sort"
	"testing"

	"github.com/blevesearch/bleve/v2/index/scorch"
	"github.com/blevesearch/bleve/v2/index/upsidedown"
	"github.com/blevesearch/bleve/v2/index/upsidedown/store/gtreap"
)

// F14: a boolean query with a must clause and a should clause with min 1 must
// return only documents that satisfy at least one should term, whatever the
// scoring option is.  On scorch with Score:"none" the should disjunction is
// replaced by an unadorned bitmap term searcher whose Min() is 0, and
// BooleanSearcher then treats the should clause as optional.
func TestZZF14ShouldMinIgnoredWithScoreNone(t *testing.T) {
	docs := map[string]string{
		"d00": "ant bee",
		"d01": "ant",
		"d02": "ant cat",
		"d03": "bee",
		"d04": "ant dog",
	}
	for _, kind := range []string{"scorch", "upsidedown"} {
		var idx Index
		var err error
		if kind == "scorch" {
			idx, err = NewUsing("", NewIndexMapping(), scorch.Name, scorch.Name, nil)
		} else {
			idx, err = NewUsing("", NewIndexMapping(), upsidedown.Name, gtreap.Name, nil)
		}
		if err != nil {
			t.Fatal(err)
		}
		for id, body := range docs {
			if err := idx.Index(id, map[string]interface{}{"body": body}); err != nil {
				t.Fatal(err)
			}
		}
		must := NewTermQuery("ant")
		must.SetField("body")
		s1 := NewTermQuery("bee")
		s1.SetField("body")
		s2 := NewTermQuery("cat")
		s2.SetField("body")
		bq := NewBooleanQuery()
		bq.AddMust(must)
		bq.AddShould(s1, s2)
		bq.SetMinShould(1)
		for _, score := range []string{"", "none"} {
			req := NewSearchRequest(bq)
			req.Score = score
			res, err := idx.Search(req)
			if err != nil {
				t.Fatal(err)
			}
			var ids []string
			for _, h := range res.Hits {
				ids = append(ids, h.ID)
			}
			sort.Strings(ids)
			t.Logf("%s score=%q -> %v", kind, score, ids)
			if len(ids) != 2 || ids[0] != "d00" || ids[1] != "d02" {
				t.Errorf("%s score=%q: got %v, want [d00 d02]", kind, score, ids)
			}
		}
		idx.Close()
	}
}
