package bleve

import (
	"context"
	"encoding/json"
	"fmt"
	"testing"

	"github.com/blevesearch/bleve/v2/mapping"
	"github.com/blevesearch/bleve/v2/search"
	"github.com/blevesearch/bleve/v2/search/query"
	index "github.com/blevesearch/bleve_index_api"
)

// Demo for C08 / change A.
//
// A conjunction over two different nested paths (emps.name, locs.city) is
// executed by the NestedConjunctionSearcher.  One of its children is a
// (scoring) disjunction, i.e. a compound searcher that does not re-seek when
// it is asked to Advance to an id it has already passed.
//
// For every program "k x Next, then Advance(target), then Next to the end"
// with a forward target, the visited ids must be a subsequence of the
// Next-only enumeration that contains every match at or after the target.
func TestZZF15NestedAdvanceChildTargets(t *testing.T) {
	imap := NewIndexMapping()
	emps := mapping.NewNestedDocumentMapping()
	emps.AddFieldMappingsAt("name", mapping.NewTextFieldMapping())
	imap.DefaultMapping.AddSubDocumentMapping("emps", emps)
	locs := mapping.NewNestedDocumentMapping()
	locs.AddFieldMappingsAt("city", mapping.NewTextFieldMapping())
	imap.DefaultMapping.AddSubDocumentMapping("locs", locs)

	tmpIndexPath := createTmpIndexPath(t)
	defer cleanupTmpIndexPath(t, tmpIndexPath)
	idx, err := New(tmpIndexPath, imap)
	if err != nil {
		t.Fatal(err)
	}
	defer func() { _ = idx.Close() }()

	docs := []string{
		`{"emps":[{"name":"ann"}],"locs":[{"city":"rome"}]}`,
		`{"emps":[{"name":"bob"}],"locs":[{"city":"oslo"}]}`,
		`{"emps":[{"name":"ann"},{"name":"bob"}],"locs":[{"city":"rome"}]}`,
		`{"emps":[{"name":"bob"}],"locs":[{"city":"oslo"},{"city":"rome"}]}`,
		`{"emps":[{"name":"cid"}],"locs":[{"city":"rome"}]}`,
		`{"emps":[{"name":"ann"}],"locs":[{"city":"rome"}]}`,
		`{"emps":[{"name":"cid"}],"locs":[{"city":"oslo"}]}`,
	}
	// one introduction per document => root documents get ascending ids in
	// this order, each followed by its nested children
	for i, d := range docs {
		var v map[string]interface{}
		if err := json.Unmarshal([]byte(d), &v); err != nil {
			t.Fatal(err)
		}
		if err := idx.Index(fmt.Sprintf("r%d", i+1), v); err != nil {
			t.Fatal(err)
		}
	}

	adv, err := idx.Advanced()
	if err != nil {
		t.Fatal(err)
	}
	reader, err := adv.Reader()
	if err != nil {
		t.Fatal(err)
	}
	defer func() { _ = reader.Close() }()

	mkQuery := func() query.Query {
		ann := query.NewTermQuery("ann")
		ann.SetField("emps.name")
		bob := query.NewTermQuery("bob")
		bob.SetField("emps.name")
		rome := query.NewTermQuery("rome")
		rome.SetField("locs.city")
		return query.NewConjunctionQuery([]query.Query{
			query.NewDisjunctionQuery([]query.Query{ann, bob}),
			rome,
		})
	}
	ctx := context.WithValue(context.Background(), search.NestedSearchKey, true)
	mk := func() (search.Searcher, *search.SearchContext) {
		s, err := mkQuery().Searcher(ctx, reader, idx.Mapping(), search.SearcherOptions{})
		if err != nil {
			t.Fatal(err)
		}
		return s, &search.SearchContext{
			DocumentMatchPool: search.NewDocumentMatchPool(s.DocumentMatchPoolSize()+16, 0),
		}
	}

	// reference: Next-only enumeration
	s, sctx := mk()
	t.Logf("searcher type: %T", s)
	var ref []uint64
	for {
		dm, err := s.Next(sctx)
		if err != nil {
			t.Fatal(err)
		}
		if dm == nil {
			break
		}
		id := dm.IndexInternalID.Value()
		if len(ref) > 0 && id <= ref[len(ref)-1] {
			t.Fatalf("Next-only enumeration not strictly ascending: %v then %d", ref, id)
		}
		ref = append(ref, id)
	}
	_ = s.Close()
	t.Logf("Next-only enumeration: %v", ref)
	if len(ref) < 4 {
		t.Fatalf("expected several matches, got %v", ref)
	}
	maxTarget := ref[len(ref)-1] + 1

	// Only root document ids are used as Advance targets: this is what a
	// parent searcher joining on a root level field would ask for.
	nr, ok := reader.(index.NestedReader)
	if !ok {
		t.Fatal("reader is not a NestedReader")
	}
	isRoot := func(id uint64) bool {
		anc, err := nr.Ancestors(index.NewIndexInternalID(nil, id), nil)
		if err != nil {
			t.Fatal(err)
		}
		return len(anc) == 1
	}

	failures := 0
	for k := 0; k <= len(ref); k++ {
		var lo uint64
		if k > 0 {
			lo = ref[k-1] + 1
		}
		for target := lo; target <= maxTarget; target++ {
			if false && !isRoot(target) {
				continue
			}
			s, sctx := mk()
			for j := 0; j < k; j++ {
				dm, err := s.Next(sctx)
				if err != nil {
					t.Fatal(err)
				}
				if dm == nil || dm.IndexInternalID.Value() != ref[j] {
					t.Fatalf("prefix mismatch at %d", j)
				}
			}
			// expected remainder: every reference id >= target
			var want []uint64
			for _, id := range ref {
				if id >= target {
					want = append(want, id)
				}
			}
			var got []uint64
			dm, err := s.Advance(sctx, index.NewIndexInternalID(nil, target))
			if err != nil {
				t.Fatal(err)
			}
			for dm != nil {
				got = append(got, dm.IndexInternalID.Value())
				dm, err = s.Next(sctx)
				if err != nil {
					t.Fatal(err)
				}
			}
			_ = s.Close()
			if fmt.Sprint(got) != fmt.Sprint(want) {
				failures++
				if failures <= 10 {
					t.Errorf("%d x Next, Advance(%d), Next...: got %v, want %v", k, target, got, want)
				}
			}
		}
	}
	if failures > 0 {
		t.Errorf("%d Next/Advance programs violated the contract", failures)
	}
}
