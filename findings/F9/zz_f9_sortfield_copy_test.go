package bleve

import (
	"fmt"
	"reflect"
	"testing"
)

func TestZZSideReuseRequest(t *testing.T) {
	newIdx := func(name string) Index {
		im := NewIndexMapping()
		im.DefaultAnalyzer = "keyword"
		idx, err := NewMemOnly(im)
		if err != nil {
			t.Fatal(err)
		}
		idx.SetName(name)
		return idx
	}
	single := newIdx("single")
	const nShards = 4
	shards := make([]Index, nShards)
	for i := range shards {
		shards[i] = newIdx(fmt.Sprintf("s%d", i))
	}
	const n = 4000
	bs := single.NewBatch()
	bb := make([]*Batch, nShards)
	for i := range bb {
		bb[i] = shards[i].NewBatch()
	}
	for i := 0; i < n; i++ {
		id := fmt.Sprintf("d%05d", i)
		doc := map[string]interface{}{"name": fmt.Sprintf("n%05d", (i*7919)%n)}
		bs.Index(id, doc)
		bb[i%nShards].Index(id, doc)
	}
	single.Batch(bs)
	for i := range bb {
		shards[i].Batch(bb[i])
	}
	alias := NewIndexAlias(shards...)
	ids := func(sr *SearchResult) []string {
		var rv []string
		for _, h := range sr.Hits {
			rv = append(rv, h.ID)
		}
		return rv
	}
	bad := 0
	for round := 0; round < 30; round++ {
		req := NewSearchRequestOptions(NewMatchAllQuery(), 20, 100, false)
		req.SortBy([]string{"name"})
		want, err := single.Search(req)
		if err != nil {
			t.Fatal(err)
		}
		got, err := alias.Search(req) // same request object reused
		if err != nil {
			t.Fatal(err)
		}
		if !reflect.DeepEqual(ids(want), ids(got)) {
			bad++
			if bad == 1 {
				t.Logf("round %d: want %v got %v", round, ids(want), ids(got))
			}
		}
	}
	if bad > 0 {
		t.Errorf("%d/30 rounds differ when the request object is reused", bad)
	}
}
