package upsidedown

// Demonstration for finding F5 (C04), recorded as a KNOWN finding (not fixed):
// (*UpsideDownCouch).Reader takes the KV snapshot (store.Reader()) and then,
// separately, reads the cached docCount under udc.m; writers write the KV
// store and only afterwards update docCount under udc.m.  A reader can
// therefore pair the snapshot taken after batch N with the count from before
// it (or the reverse): its DocCount() disagrees with the ids it enumerates, a
// state the index never had.  Place in index/upsidedown/.

import (
	"fmt"
	"sync"
	"testing"

	"github.com/blevesearch/bleve/v2/document"
	"github.com/blevesearch/bleve/v2/index/upsidedown/store/gtreap"
	index "github.com/blevesearch/bleve_index_api"
)

func TestF5ReaderCountVsSnapshot(t *testing.T) {
	aq := index.NewAnalysisQueue(1)
	defer aq.Close()
	idx, err := NewUpsideDownCouch(gtreap.Name, map[string]interface{}{"path": ""}, aq)
	if err != nil {
		t.Fatal(err)
	}
	if err := idx.Open(); err != nil {
		t.Fatal(err)
	}
	defer idx.Close()
	stop := make(chan struct{})
	var wg sync.WaitGroup
	wg.Add(1)
	go func() {
		defer wg.Done()
		for i := 0; ; i++ {
			select {
			case <-stop:
				return
			default:
			}
			id := fmt.Sprintf("doc%02d", i%20)
			b := index.NewBatch()
			if (i/20)%2 == 0 {
				d := document.NewDocument(id)
				d.AddField(document.NewTextField("f", nil, []byte("x")))
				b.Update(d)
			} else {
				b.Delete(id)
			}
			if err := idx.Batch(b); err != nil {
				return
			}
		}
	}()
	mismatches := 0
	var first string
	for round := 0; round < 200000 && mismatches == 0; round++ {
		r, err := idx.Reader()
		if err != nil {
			t.Fatal(err)
		}
		cnt, _ := r.DocCount()
		ids, err := r.DocIDReaderAll()
		if err != nil {
			t.Fatal(err)
		}
		n := uint64(0)
		for {
			id, err := ids.Next()
			if err != nil || id == nil {
				break
			}
			n++
		}
		ids.Close()
		r.Close()
		if n != cnt {
			mismatches++
			first = fmt.Sprintf("reader reports DocCount=%d but enumerates %d ids", cnt, n)
		}
	}
	close(stop)
	wg.Wait()
	if mismatches > 0 {
		t.Fatalf("a reader observed a state the index never had: %s", first)
	}
}
