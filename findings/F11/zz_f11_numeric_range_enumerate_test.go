package searcher

// Demonstration for finding F11 (C07): termRange.Enumerate walks from the
// start term to the end term with incrementBytes, which counts base 256 over
// prefix-coded terms whose data bytes only use 7 bits.  A leaf range that
// straddles a 7-bit group boundary (e.g. int64 -1..1: date range
// [epoch-1ns, epoch+1ns], or 127..129, 16383..16385) makes it enumerate
// 256^k garbage terms; for -1..1 that is ~2^72 steps: the range query never
// terminates.  Place in search/searcher/.

import (
	"testing"
	"time"

	"github.com/blevesearch/bleve/v2/numeric"
)

func TestF11NumericRangeEnumerateTerminates(t *testing.T) {
	for _, c := range [][2]int64{{127, 129}, {16383, 16385}, {-1, 1}} {
		done := make(chan [][]byte, 1)
		go func() { done <- splitInt64Range(c[0], c[1], 4).Enumerate(nil) }()
		select {
		case terms := <-done:
			var got []int64
			for _, tm := range terms {
				v, err := numeric.PrefixCoded(tm).Int64()
				if err != nil {
					t.Errorf("range [%d,%d]: enumerated an invalid prefix-coded term %x", c[0], c[1], tm)
					continue
				}
				got = append(got, v)
			}
			if len(got) != 3 || got[0] != c[0] || got[2] != c[1] {
				t.Errorf("range [%d,%d]: enumerated values %v, want the 3 values of the range", c[0], c[1], got)
			}
		case <-time.After(5 * time.Second):
			t.Fatalf("range [%d,%d]: Enumerate did not terminate within 5s (base-256 walk over 7-bit packed terms)", c[0], c[1])
		}
	}
}
