package bleve

// Demonstration for finding F4 (C18): the rectangle / distance / polygon
// doc-value filters stop decoding after the first shift-0 term of a document,
// so a document with several points in one field is judged on one of them
// only and is missed when that point lies outside the shape while another lies
// inside.  Place in repo root.

import (
	"testing"

	"github.com/blevesearch/bleve/v2/geo"
	"github.com/blevesearch/bleve/v2/mapping"
	"github.com/blevesearch/bleve/v2/search/query"
)

func TestF4GeoMultiPointDocuments(t *testing.T) {
	im := mapping.NewIndexMapping()
	dm := mapping.NewDocumentMapping()
	dm.AddFieldMappingsAt("loc", mapping.NewGeoPointFieldMapping())
	im.DefaultMapping = dm
	for _, typ := range []string{"scorch", "upside_down"} {
		var idx Index
		var err error
		if typ == "scorch" {
			idx, err = NewMemOnly(im)
		} else {
			idx, err = NewUsing("", im, typ, "gtreap", nil)
		}
		if err != nil {
			t.Fatal(err)
		}
		far := map[string]interface{}{"lon": 100.0, "lat": 50.0}
		far2 := map[string]interface{}{"lon": -100.0, "lat": -50.0}
		near := map[string]interface{}{"lon": 0.001, "lat": 0.001}
		idx.Index("a", map[string]interface{}{"loc": []interface{}{far, near}})
		idx.Index("b", map[string]interface{}{"loc": []interface{}{near, far}})
		idx.Index("c", map[string]interface{}{"loc": []interface{}{far2, near}})
		idx.Index("d", map[string]interface{}{"loc": []interface{}{near, far2}})
		idx.Index("z", map[string]interface{}{"loc": []interface{}{far, far2}})

		dq := NewGeoDistanceQuery(0, 0, "10km")
		dq.SetField("loc")
		bq := NewGeoBoundingBoxQuery(-0.1, 0.1, 0.1, -0.1)
		bq.SetField("loc")
		pq := query.NewGeoBoundingPolygonQuery([]geo.Point{{Lon: -0.1, Lat: -0.1}, {Lon: 0.1, Lat: -0.1}, {Lon: 0.1, Lat: 0.1}, {Lon: -0.1, Lat: 0.1}, {Lon: -0.1, Lat: -0.1}})
		pq.SetField("loc")
		for name, q := range map[string]query.Query{"distance": dq, "box": bq, "polygon": pq} {
			res, err := idx.Search(NewSearchRequest(q))
			if err != nil {
				t.Fatal(err)
			}
			got := map[string]bool{}
			for _, h := range res.Hits {
				got[h.ID] = true
			}
			for _, want := range []string{"a", "b", "c", "d"} {
				if !got[want] {
					t.Errorf("%s/%s: document %q has a point inside the shape but was not returned (hits=%v)", typ, name, want, got)
				}
			}
			if got["z"] {
				t.Errorf("%s/%s: document z has no point inside", typ, name)
			}
		}
		idx.Close()
	}
}
