package scorch

import (
	"os/signal"
	"syscall"
	"testing"

	"github.com/blevesearch/bleve/v2/document"
	index "github.com/blevesearch/bleve_index_api"
)

// F13 (goes into index/scorch/): scorch.Rollback had an unnamed error result,
// but commits its bolt transaction (and syncs, and closes the file) inside
// deferred closures that store the outcome in the local variable err.  The
// value returned to the caller was fixed before those closures ran, so a
// failing Commit/Sync/Close was reported as success: Rollback returned nil
// although nothing was rolled back.  The commit failure is provoked with
// RLIMIT_FSIZE (writes past the first two pages of root.bolt fail with EFBIG).
func TestZZF13RollbackReportsCommitFailure(t *testing.T) {
	cfg := CreateConfig("TestZZF13")
	orig := NumSnapshotsToKeep
	NumSnapshotsToKeep = 1000
	if err := InitTest(cfg); err != nil {
		t.Fatal(err)
	}
	defer func() {
		NumSnapshotsToKeep = orig
		_ = DestroyTest(cfg)
	}()
	aq := index.NewAnalysisQueue(1)
	idx, err := NewScorch(Name, cfg, aq)
	if err != nil {
		t.Fatal(err)
	}
	path, _ := cfg["path"].(string)
	count := func() uint64 {
		if err := idx.Open(); err != nil {
			t.Fatal(err)
		}
		r, err := idx.Reader()
		if err != nil {
			t.Fatal(err)
		}
		n, _ := r.DocCount()
		_ = r.Close()
		if err := idx.Close(); err != nil {
			t.Fatal(err)
		}
		return n
	}
	addBatch := func(ids ...string) {
		if err := idx.Open(); err != nil {
			t.Fatal(err)
		}
		b := index.NewBatch()
		for _, id := range ids {
			d := document.NewDocument(id)
			d.AddField(document.NewTextField("name", []uint64{}, []byte("v"+id)))
			b.Update(d)
		}
		if err := idx.Batch(b); err != nil {
			t.Fatal(err)
		}
		if err := idx.Close(); err != nil {
			t.Fatal(err)
		}
	}
	addBatch("1", "2")
	pts, err := RollbackPoints(path)
	if err != nil || len(pts) == 0 {
		t.Fatalf("no rollback point after first batch: %v", err)
	}
	target := pts[0]
	addBatch("3", "4", "5")
	if n := count(); n != 5 {
		t.Fatalf("setup: count %d", n)
	}

	// make every write beyond the two meta pages of root.bolt fail
	signal.Ignore(syscall.SIGXFSZ)
	var old syscall.Rlimit
	if err := syscall.Getrlimit(syscall.RLIMIT_FSIZE, &old); err != nil {
		t.Fatal(err)
	}
	if err := syscall.Setrlimit(syscall.RLIMIT_FSIZE, &syscall.Rlimit{Cur: 8192, Max: old.Max}); err != nil {
		t.Fatal(err)
	}
	rerr := Rollback(path, target)
	if err := syscall.Setrlimit(syscall.RLIMIT_FSIZE, &old); err != nil {
		t.Fatal(err)
	}

	after := count()
	t.Logf("Rollback returned %v; doc count afterwards %d (2 = rolled back, 5 = not rolled back)", rerr, after)
	if rerr == nil && after != 2 {
		t.Fatalf("Rollback reported success but the index still has %d documents: the commit failure was swallowed", after)
	}
}
