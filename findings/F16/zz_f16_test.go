package bleve

import (
	"fmt"
	"testing"
)

// F16: an alias applies From/Size to the merged hit list in hitsInCurrentPage,
// which only trims to Size when Size > 0.  A request with Size 0 and From > 0
// (members are asked for Size+From hits from offset 0) therefore returns hits
// through an alias, while a single index returns none.
func TestZZF16AliasSizeZero(t *testing.T) {
	mk := func(n int, prefix string) Index {
		idx, err := NewMemOnly(NewIndexMapping())
		if err != nil {
			t.Fatal(err)
		}
		for i := 0; i < n; i++ {
			if err := idx.Index(fmt.Sprintf("%s%02d", prefix, i), map[string]interface{}{"f": "x"}); err != nil {
				t.Fatal(err)
			}
		}
		return idx
	}
	single := mk(20, "d")
	a, b := mk(10, "a"), mk(10, "b")
	alias := NewIndexAlias(a, b)
	for _, from := range []int{0, 3, 15} {
		req := NewSearchRequestOptions(NewMatchAllQuery(), 0, from, false)
		req.SortBy([]string{"_id"})
		rs, err := single.Search(req)
		if err != nil {
			t.Fatal(err)
		}
		ra, err := alias.Search(req)
		if err != nil {
			t.Fatal(err)
		}
		if len(rs.Hits) != 0 {
			t.Fatalf("single index returned %d hits for size 0", len(rs.Hits))
		}
		if len(ra.Hits) != len(rs.Hits) || ra.Total != rs.Total {
			t.Errorf("size=0 from=%d: alias returned %d hits (total %d), single index %d hits (total %d)", from, len(ra.Hits), ra.Total, len(rs.Hits), rs.Total)
		}
	}
}
