package scorch

// Demonstration for finding F2 (C11): (*Scorch).FileWriterIDsInUse returns
// with rootLock read-locked on its error exits.  The error exit is reached
// when the call overlaps Close between rootBolt.Close() and rootLock.Lock():
// the leaked read lock then blocks Close forever.  Place in index/scorch/.

import (
	"sync"
	"testing"
	"time"

	index "github.com/blevesearch/bleve_index_api"
)

func TestF2FileWriterIDsInUseLeaksRootLockOnError(t *testing.T) {
	for round := 0; round < 300; round++ {
		cfg := CreateConfig("TestF2")
		analysisQueue := index.NewAnalysisQueue(1)
		idx, err := NewScorch(Name, cfg, analysisQueue)
		if err != nil {
			t.Fatal(err)
		}
		if err := idx.Open(); err != nil {
			t.Fatal(err)
		}
		s := idx.(*Scorch)
		stop := make(chan struct{})
		var wg sync.WaitGroup
		sawErr := false
		for g := 0; g < 4; g++ {
			wg.Add(1)
			go func() {
				defer wg.Done()
				for {
					select {
					case <-stop:
						return
					default:
					}
					func() {
						defer func() { recover() }() // after Close s.root is nil
						if _, err := s.FileWriterIDsInUse(); err != nil {
							sawErr = true
						}
					}()
				}
			}()
		}
		done := make(chan struct{})
		go func() { idx.Close(); close(done) }()
		select {
		case <-done:
		case <-time.After(3 * time.Second):
			t.Fatalf("round %d: Close blocked: FileWriterIDsInUse returned an error with rootLock read-held (sawErr=%v)", round, sawErr)
		}
		close(stop)
		wg.Wait()
		DestroyTest(cfg)
		analysisQueue.Close()
	}
}
