package bleve

import (
	"testing"

	"github.com/blevesearch/bleve/v2/analysis/analyzer/keyword"
	"github.com/blevesearch/bleve/v2/index/scorch"
)

// F12: scorch computes the exclusive end of a term prefix by incrementing the
// prefix as a number and keeping the overflowed 0x00 bytes: for the prefix
// "a\xff" the end key is "b\x00", so the term "b" (which does not start with
// the prefix) is enumerated by FieldDictPrefix and matched by a prefix query.
func TestZZF12PrefixEndKey(t *testing.T) {
	m := NewIndexMapping()
	m.DefaultAnalyzer = keyword.Name
	idx, err := NewUsing("", m, scorch.Name, scorch.Name, nil)
	if err != nil {
		t.Fatal(err)
	}
	defer idx.Close()
	docs := map[string]string{"d1": "b", "d2": "bzz", "d3": "a\xffz", "d4": "a"}
	for id, v := range docs {
		if err := idx.Index(id, map[string]interface{}{"f": v}); err != nil {
			t.Fatal(err)
		}
	}
	pq := NewPrefixQuery("a\xff")
	pq.SetField("f")
	res, err := idx.Search(NewSearchRequest(pq))
	if err != nil {
		t.Fatal(err)
	}
	var ids []string
	for _, h := range res.Hits {
		ids = append(ids, h.ID)
	}
	if len(ids) != 1 || ids[0] != "d3" {
		t.Errorf("prefix query \"a\\xff\" returned %v, want [d3]", ids)
	}
	// the dictionary itself
	r, err := idx.Advanced()
	if err != nil {
		t.Fatal(err)
	}
	rd, err := r.Reader()
	if err != nil {
		t.Fatal(err)
	}
	defer rd.Close()
	fd, err := rd.FieldDictPrefix("f", []byte("a\xff"))
	if err != nil {
		t.Fatal(err)
	}
	defer fd.Close()
	for e, err := fd.Next(); e != nil && err == nil; e, err = fd.Next() {
		if len(e.Term) < 2 || e.Term[:2] != "a\xff" {
			t.Errorf("FieldDictPrefix(\"a\\xff\") enumerated %q", e.Term)
		}
	}
}
