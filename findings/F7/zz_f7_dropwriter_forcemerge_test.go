package scorch

// Demonstration for finding F7 (C11): (*Scorch).DropFileWriterIDs sends on
// forceMergeRequestCh (capacity 1) without a select while holding rootLock
// (write).  If a ForceMerge request is already buffered while the merger is
// busy, the send blocks with the lock held; the merger needs rootLock to
// finish its current task and can never drain the channel: the index
// deadlocks (every later Batch / Close hangs).  Place in index/scorch/.

import (
	"context"
	"fmt"
	"sync"
	"sync/atomic"
	"testing"
	"time"

	"github.com/blevesearch/bleve/v2/document"
	"github.com/blevesearch/bleve/v2/index/scorch/mergeplan"
	index "github.com/blevesearch/bleve_index_api"
)

func TestF7DropFileWriterIDsVsForceMerge(t *testing.T) {
	cfg := CreateConfig("TestF7")
	defer DestroyTest(cfg)
	aq := index.NewAnalysisQueue(2)
	defer aq.Close()
	idx, err := NewScorch(Name, cfg, aq)
	if err != nil {
		t.Fatal(err)
	}
	if err := idx.Open(); err != nil {
		t.Fatal(err)
	}
	s := idx.(*Scorch)
	var progress uint64
	stop := make(chan struct{})
	var wg sync.WaitGroup
	// writer keeps the merger busy
	wg.Add(1)
	go func() {
		defer wg.Done()
		for i := 0; ; i++ {
			select {
			case <-stop:
				return
			default:
			}
			b := index.NewBatch()
			for j := 0; j < 20; j++ {
				d := document.NewDocument(fmt.Sprintf("d%d-%d", i, j))
				d.AddField(document.NewTextField("f", nil, []byte("hello world")))
				b.Update(d)
			}
			if err := idx.Batch(b); err != nil {
				return
			}
			atomic.AddUint64(&progress, 1)
		}
	}()
	for g := 0; g < 2; g++ {
		wg.Add(1)
		go func() {
			defer wg.Done()
			for {
				select {
				case <-stop:
					return
				default:
				}
				ctx, cancel := context.WithTimeout(context.Background(), 2*time.Second)
				_ = s.ForceMerge(ctx, &mergeplan.SingleSegmentMergePlanOptions)
				cancel()
			}
		}()
	}
	wg.Add(1)
	go func() {
		defer wg.Done()
		for {
			select {
			case <-stop:
				return
			default:
			}
			_ = s.DropFileWriterIDs(map[string]struct{}{"no-such-id": {}})
		}
	}()
	// watchdog: the writer must keep making progress
	deadline := time.Now().Add(60 * time.Second)
	last := atomic.LoadUint64(&progress)
	stalled := 0
	for time.Now().Before(deadline) {
		time.Sleep(2 * time.Second)
		cur := atomic.LoadUint64(&progress)
		if cur == last {
			stalled++
		} else {
			stalled = 0
		}
		last = cur
		if stalled >= 5 {
			t.Fatalf("no batch completed for 10s (progress=%d): DropFileWriterIDs is blocked sending on forceMergeRequestCh while holding rootLock", cur)
		}
	}
	close(stop)
	done := make(chan struct{})
	go func() { wg.Wait(); idx.Close(); close(done) }()
	select {
	case <-done:
	case <-time.After(30 * time.Second):
		t.Fatal("shutdown blocked")
	}
}
