package scorch

// Demonstration for finding F7 (C11): planMergeAtSnapshot registered the
// deferred reply on the requester's done channel only after its early returns
// (merge-plan error, "nothing to merge").  A DropFileWriterIDs request whose
// forced merge plan turns out empty was therefore never answered: the call
// blocked forever on <-doneCh (and, through the index handle's read lock, so
// did every later Close).  Place in index/scorch/.

import (
	"testing"
	"time"

	index "github.com/blevesearch/bleve_index_api"
)

func TestF7DropFileWriterIDsWithNothingToMergeReturns(t *testing.T) {
	cfg := CreateConfig("TestF7b")
	defer DestroyTest(cfg)
	aq := index.NewAnalysisQueue(1)
	defer aq.Close()
	idx, err := NewScorch(Name, cfg, aq)
	if err != nil {
		t.Fatal(err)
	}
	if err := idx.Open(); err != nil {
		t.Fatal(err)
	}
	s := idx.(*Scorch)
	done := make(chan error, 1)
	go func() { done <- s.DropFileWriterIDs(map[string]struct{}{"no-such-id": {}}) }()
	select {
	case err := <-done:
		if err != nil {
			t.Fatalf("unexpected error: %v", err)
		}
	case <-time.After(20 * time.Second):
		t.Fatal("DropFileWriterIDs never returned: the merger took the request, found nothing to merge and returned before registering the reply on the done channel")
	}
	closed := make(chan struct{})
	go func() { idx.Close(); close(closed) }()
	select {
	case <-closed:
	case <-time.After(20 * time.Second):
		t.Fatal("Close blocked")
	}
}
