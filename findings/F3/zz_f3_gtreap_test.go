package gtreap

// Demonstration for finding F3 (C15/C11): a failing merge operator makes
// (*Writer).ExecuteBatch return with the store mutex held (every later write
// or Reader() blocks forever) and with the merges processed so far already
// visible (batch not atomic).  Place in index/upsidedown/store/gtreap/.

import (
	"testing"
	"time"
)

type failOnB struct{}

func (failOnB) FullMerge(key, existing []byte, operands [][]byte) ([]byte, bool) {
	if string(key) == "b" {
		return nil, false
	}
	return []byte("merged"), true
}
func (failOnB) PartialMerge(key, l, r []byte) ([]byte, bool) { return nil, false }
func (failOnB) Name() string                                 { return "failOnB" }

func TestF3MergeFailureLeaksLockAndPartialBatch(t *testing.T) {
	for attempt := 0; attempt < 20; attempt++ { // map iteration order: need "a" before "b" to see the partial batch
		s, err := New(failOnB{}, map[string]interface{}{"path": ""})
		if err != nil {
			t.Fatal(err)
		}
		w, _ := s.Writer()
		b := w.NewBatch()
		b.Merge([]byte("a"), []byte("x"))
		b.Merge([]byte("b"), []byte("x"))
		if err := w.ExecuteBatch(b); err == nil {
			t.Fatal("expected merge failure")
		}
		done := make(chan struct{})
		go func() {
			r, err := s.Reader() // takes the store mutex
			if err == nil {
				v, _ := r.Get([]byte("a"))
				if v != nil {
					t.Errorf("failed batch partially applied: a=%q", v)
				}
				r.Close()
			}
			close(done)
		}()
		select {
		case <-done:
		case <-time.After(2 * time.Second):
			t.Fatal("Reader() blocked: ExecuteBatch returned with the store mutex held")
		}
	}
}
