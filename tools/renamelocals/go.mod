module renamelocals

go 1.26.8

require golang.org/x/tools v0.50.0

require (
	golang.org/x/mod v0.41.0 // indirect
	golang.org/x/sync v0.23.0 // indirect
)
