// renamelocals: robustness aid (not a check).  Writes, under -out, copies of the
// non-test Go files of the given bleve packages in which every local variable,
// parameter and named result is renamed (suffix "_rn").  The copies are used
// as an overlay: a check that changes its verdict on them depends on
// identifier names rather than on roles.
package main

import (
	"bytes"
	"flag"
	"fmt"
	"go/ast"
	"go/format"
	"go/types"
	"os"
	"path/filepath"
	"strings"

	"golang.org/x/tools/go/packages"
)

func main() {
	repo := flag.String("repo", "/repo", "")
	out := flag.String("out", "", "overlay root to write")
	flag.Parse()
	cfg := &packages.Config{Mode: packages.LoadSyntax, Dir: *repo}
	pkgs, err := packages.Load(cfg, flag.Args()...)
	if err != nil {
		panic(err)
	}
	n := 0
	for _, pk := range pkgs {
		for i, f := range pk.Syntax {
			name := pk.CompiledGoFiles[i]
			if strings.HasSuffix(name, "_test.go") || !strings.HasPrefix(name, *repo) {
				continue
			}
			changed := false
			implicit := map[types.Object]bool{}
			for _, o := range pk.TypesInfo.Implicits {
				implicit[o] = true
			}
			ast.Inspect(f, func(x ast.Node) bool {
				id, ok := x.(*ast.Ident)
				if !ok || id.Name == "_" {
					return true
				}
				obj := pk.TypesInfo.ObjectOf(id)
				v, ok := obj.(*types.Var)
				if ok && implicit[obj] {
					return true
				}
				if !ok || v.IsField() || v.Parent() == nil || v.Parent() == types.Universe || (v.Pkg() != nil && v.Parent() == v.Pkg().Scope()) {
					return true
				}
				// receivers keep their names (reports mention them), everything else local is renamed
				id.Name = v.Name() + "_rn"
				changed = true
				return true
			})
			if !changed {
				continue
			}
			var buf bytes.Buffer
			if err := format.Node(&buf, pk.Fset, f); err != nil {
				panic(err)
			}
			rel, _ := filepath.Rel(*repo, name)
			dst := filepath.Join(*out, rel)
			os.MkdirAll(filepath.Dir(dst), 0o755)
			os.WriteFile(dst, buf.Bytes(), 0o644)
			n++
		}
	}
	fmt.Println("files written:", n)
}
