package main

import (
	"go/ast"
	"go/token"
	"go/types"
	"sort"
)

// K2 guarded-by: every access to a table-listed field happens with the
// table-listed mutex held (W for writes, R or W for reads), either in the
// accessing function itself or — for helpers — at every call site of the
// helper (one level, callers resolved statically).

type guardedField struct {
	Owner, Field string
	Lock         string // mutex field name
}

type accessSite struct {
	fi    *FuncInfo
	bu    bodyUnit
	sel   *ast.SelectorExpr
	write bool
}

// isWriteAccess: the selector (or an index/slice of it) is assigned, inc/dec'd,
// deleted from, or appended-to-and-stored.
func classifyAccesses(fi *FuncInfo, owner, field string) []accessSite {
	info := fi.Pkg.TypesInfo
	var out []accessSite
	for _, bu := range bodiesOf(fi) {
		writes := map[*ast.SelectorExpr]bool{}
		markWrite := func(e ast.Expr) {
			for {
				e = ast.Unparen(e)
				switch x := e.(type) {
				case *ast.IndexExpr:
					e = x.X
					continue
				case *ast.SelectorExpr:
					if isField(info, x, owner, field) {
						writes[x] = true
					}
				}
				return
			}
		}
		inspectNoLit(bu.Body, func(n ast.Node) bool {
			switch s := n.(type) {
			case *ast.AssignStmt:
				for _, l := range s.Lhs {
					markWrite(l)
				}
			case *ast.IncDecStmt:
				markWrite(s.X)
			case *ast.CallExpr:
				if calleeBuiltin(info, s) == "delete" && len(s.Args) == 2 {
					markWrite(s.Args[0])
				}
			}
			return true
		})
		inspectNoLit(bu.Body, func(n ast.Node) bool {
			if sel, ok := n.(*ast.SelectorExpr); ok && isField(info, sel, owner, field) {
				out = append(out, accessSite{fi, bu, sel, writes[sel]})
			}
			return true
		})
	}
	return out
}

func ruleGuardedBy(r *Report, rule string, pkgRel string, table []guardedField, exempt map[string]string) {
	p := r.P
	cfgs := map[*ast.BlockStmt]*FCFG{}
	getCFG := func(fi *FuncInfo, body *ast.BlockStmt) *FCFG {
		if g, ok := cfgs[body]; ok {
			return g
		}
		g := buildCFG(fi.Pkg.TypesInfo, body)
		cfgs[body] = g
		return g
	}
	// callers index: callee object -> call sites
	type callSite struct {
		fi   *FuncInfo
		call *ast.CallExpr
	}
	callers := map[*types.Func][]callSite{}
	for _, fi := range p.funcsInPkg(pkgRel) {
		info := fi.Pkg.TypesInfo
		for _, c := range callsDeep(fi.Decl.Body) {
			if f := callee(info, c); f != nil {
				callers[f] = append(callers[f], callSite{fi, c})
			}
		}
	}
	total := 0
	for _, gf := range table {
		for _, fi := range p.funcsInPkg(pkgRel) {
			sites := classifyAccesses(fi, gf.Owner, gf.Field)
			if len(sites) == 0 {
				continue
			}
			r.Fn(fi)
			info := fi.Pkg.TypesInfo
			// group per body unit and access kind
			type key struct {
				bu    string
				write bool
			}
			done := map[key]bool{}
			for _, s := range sites {
				total++
				mode := "R"
				kind := "read"
				if s.write {
					mode, kind = "W", "write"
				}
				g := getCFG(fi, s.bu.Body)
				held := lockHeldAt(g, info, s.sel, gf.Lock, mode)
				construct := s.bu.Name + "/" + gf.Owner + "." + gf.Field + "/" + kind
				if why, ok := exempt[fi.Name]; ok {
					k := key{s.bu.Name, s.write}
					if !done[k] {
						done[k] = true
						r.Allow(rule, construct, s.sel.Pos(), why)
					}
					continue
				}
				if !held && s.bu.Lit == nil {
					// helper: every static caller holds the lock at the call site
					cs := callers[fi.Obj]
					if len(cs) > 0 {
						all := true
						for _, c := range cs {
							cg := getCFG(c.fi, innermostFuncBody(c.fi.Decl, c.call))
							if !lockHeldAt(cg, c.fi.Pkg.TypesInfo, c.call, gf.Lock, mode) {
								all = false
							}
						}
						if all {
							held = true
						}
					}
				}
				if !held && s.bu.Lit != nil {
					// closure: locked in the enclosing body at the point the literal is evaluated
					// only counts when the literal is invoked in place (defer func(){}() / func(){}())
					for _, anc := range enclosing(fi.Decl.Body, s.bu.Lit) {
						if c, ok := anc.(*ast.CallExpr); ok && ast.Unparen(c.Fun) == ast.Expr(s.bu.Lit) {
							isDefer := false
							for _, a2 := range enclosing(fi.Decl.Body, c) {
								if _, ok := a2.(*ast.DeferStmt); ok {
									isDefer = true
								}
								if _, ok := a2.(*ast.GoStmt); ok {
									isDefer = true
								}
							}
							if !isDefer {
								og := getCFG(fi, innermostFuncBody(fi.Decl, c))
								held = lockHeldAt(og, info, c, gf.Lock, mode)
							}
						}
					}
				}
				r.Ob(rule, construct, s.sel.Pos(), held, kind+" of "+gf.Owner+"."+gf.Field+" without "+gf.Lock+" held in mode "+mode+" (neither here nor at every call site of this helper)")
			}
		}
	}
	if total == 0 {
		undecidedf("guarded-by table matched no access")
	}
}

func sortedKeys(m map[string]string) []string {
	var ks []string
	for k := range m {
		ks = append(ks, k)
	}
	sort.Strings(ks)
	return ks
}

var _ = token.NoPos
