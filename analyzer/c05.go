package main

func init() { register("C05", propC05) }

func snapshotConstructors(r *Report, in introducers) []*FuncInfo {
	return []*FuncInfo{in.Segment, in.Persist, in.Merge, r.P.MustFunc("index/scorch.(*Scorch).loadSnapshot")}
}

func propC05(r *Report, tier string) {
	r.Explanation = "Structural necessary conditions of 'merging/persisting never change results' (doc-number remapping and layout bookkeeping only): (a) K14 the segments/drops/snapshots handed to MergeUsing are extended pairwise from one SegmentSnapshot and the merge history pairs newDocNums[j] with snapshots[j] keyed by that segment's id; (b) K14 every constructor of a published snapshot pairs each .segment append with an .offsets append and advances the running offset by the segment's FULL Count(); (c) K5-dep the merge introducer's exclusion bitmap of a merged segment depends on the current root's deletions, the merge-time deletions and the old->new map, unconditionally on the merge-time snapshot having deletions, including inputs dropped from the root meanwhile; (d) the persist introducer carries deleted/stats/cachedDocs of each replaced segment; (e) carried segments keep their own id/segment/deleted. (e) K14 the unadorned disjunction builds each per-segment result from all of its input collections (1-hit doc numbers and bitmaps) unless the ignored one is provably empty; (f) K6 nil ActualBitmap() means 'skip', or 'empty' only after DocNum1Hit() was excluded."
	r.NotCovered = "equality of hits, order, scores, facets, highlights across layouts; zapx merge correctness"
	in := findIntroducers(r.P)
	ruleMergeUsingAlignment(r, "K14-merge-input-alignment")
	ruleFlushableAlignment(r, "K14-merge-input-alignment")
	ruleParallelSlicesResetTogether(r, "K14-parallel-slices-reset-together", "index/scorch", "search/searcher", "search/collector", "index/upsidedown")
	ruleOffsetsAlignment(r, "K14-offsets-alignment", snapshotConstructors(r, in))
	ruleMergeIntroducerRemap(r, in, "K5dep-merge-remap")
	rulePersistIntroducerCarry(r, in, "K9b-persist-carry")
	ruleRosterRemovedByMembership(r, "K8-merge-plan-roster-removed")
	rulePerSegmentFieldsInvalidatedOnSwitch(r, "K5-per-segment-fields-invalidated")
	ruleExclusionAtReadSites(r, "K8-exclusion-at-read-sites")
	ruleUnionConsumesAllCollections(r, "K14-union-consumes-all-inputs", "index/scorch.(*OptimizeTFRDisjunctionUnadorned).Finish", "IndexSnapshotTermFieldReader", "iterators")
	ruleNilActualBitmapIsNotEmpty(r, "K6-nil-actual-bitmap-is-not-empty")
	r.Floor("K14-merge-input-alignment", 6)
	r.Floor("K14-offsets-alignment", 6)
	r.Floor("K5dep-merge-remap", 8)
	r.Floor("K9b-persist-carry", 3)
}
