package main

import (
	"fmt"
	"go/ast"
	"go/token"
	"go/types"
	"sort"
	"strings"
)

func init() { register("C15", propC15) }

const storeBase = "index/upsidedown/store/"

func propC15(r *Report, tier string) {
	r.Explanation = "Structural necessary conditions of 'KV adapters are ordered maps with atomic batches and snapshot readers' as sibling agreement over the adapters registered with RegisterKVStore (boltdb, goleveldb, gtreap, moss, metrics): (a) every adapter's ExecuteBatch handles merges (through the configured merge operator with the existing value), sets and deletes, or hands the whole batch object to one engine batch write; (b) atomic shape: boltdb = one writable tx with deferred Commit/Rollback around all writes; gtreap = built on a local copy-on-write root published by a single store under the store mutex, released on all exits; goleveldb/moss = exactly one engine batch write; (c) snapshot readers: Store.Reader obtains the engine's snapshot primitive and Reader/Iterator types never touch the live handle; gtreap items are immutable once inserted (no store to Item fields outside literals), so an old reader's root can never change; (d) K1 lock pairing inside the adapters; (e) moss pre-sized batches: every mutating Batch method accounts its bytes in bufUsed when a buffer is attached (ExecuteBatch appends merge operands after bufUsed). (f) K8 moss's prefix successor keeps the incremented byte and drops the overflowed ones. (g) Kerr error discipline over index/upsidedown and its store adapters (same rule as C03(i); three named exceptions for moss's end-of-iteration errors and leveldb GetSnapshot)."
	r.NotCovered = "byte-order iteration, seek semantics, merge results, correctness of the engines themselves (bbolt, goleveldb, moss, gtreap)"
	ruleAdaptersRegistered(r, "K13-adapters")
	ruleExecuteBatchShapes(r, "K12-execute-batch")
	ruleSnapshotReaders(r, "K7-snapshot-readers")
	ruleTreapItemsImmutable(r, "K6-treap-items-immutable")
	ruleMossBufAccounting(r, "K12-moss-buffer-accounting")
	ruleKVGetCopyKeepsEmptyValues(r, "K12-get-copy-keeps-empty-values")
	ruleOneKVBatchPerIndexBatch(r, "K12-one-kv-batch-per-index-batch")
	ruleKVGetAbsenceIsNil(r, "K12-kv-get-absence-is-nil")
	ruleSeekAlwaysRepositions(r, "K12-seek-always-repositions")
	ruleCarryLoopCoversIndexZero(r, "K8-carry-loop-covers-index-zero", func(rel string) bool { return strings.HasPrefix(rel, "index/upsidedown") }, 3)
	ruleErrorsLookedAt(r, "Kerr-errors-looked-at", func(rel string) bool { return strings.HasPrefix(rel, storeBase) || rel == "index/upsidedown" }, errAllowStores)
	ruleSuccessorKeepsIncrementedByte(r, "K8-prefix-successor", func(rel string) bool { return strings.HasPrefix(rel, storeBase) }, 1)
	k1Locks(r, "K1-lock-pairing", func(rel string) bool { return strings.HasPrefix(rel, storeBase) })
	r.Floor("K13-adapters", 5)
	r.Floor("K12-execute-batch", 8)
	r.Floor("K7-snapshot-readers", 8)
	r.Floor("K6-treap-items-immutable", 1)
	r.Floor("K12-moss-buffer-accounting", 3)
	r.Floor("K1-lock-pairing", 4)
	r.Floor("K8-prefix-successor", 1)
}

var kvAdapters = []string{"boltdb", "goleveldb", "gtreap", "moss", "metrics"}

func ruleAdaptersRegistered(r *Report, rule string) {
	p := r.P
	found := map[string]bool{}
	for _, fi := range p.flist {
		rel := relPkg(fi.Pkg.PkgPath)
		if !strings.HasPrefix(rel, storeBase) || fi.Decl.Body == nil {
			continue
		}
		for _, c := range callsDeep(fi.Decl.Body) {
			if f := callee(fi.Pkg.TypesInfo, c); f != nil && f.Name() == "RegisterKVStore" {
				found[strings.TrimPrefix(rel, storeBase)] = true
			}
		}
	}
	var names []string
	for n := range found {
		names = append(names, n)
	}
	sort.Strings(names)
	for _, a := range kvAdapters {
		r.Ob(rule, a+"/registered", p.Pkg(storeBase + a).Syntax[0].Pos(), found[a], "adapter "+a+" registers itself with registry.RegisterKVStore")
	}
	for _, n := range names {
		known := n == "null"
		for _, a := range kvAdapters {
			if a == n {
				known = true
			}
		}
		if !known {
			r.Ob(rule, n+"/covered-by-the-sibling-rules", p.Pkg(storeBase + n).Syntax[0].Pos(), false, "a new KV adapter "+n+" is registered but not covered by the adapter sibling rules")
		}
	}
}

func ruleExecuteBatchShapes(r *Report, rule string) {
	p := r.P
	for _, a := range kvAdapters {
		fi := p.MustFunc(storeBase + a + ".(*Writer).ExecuteBatch")
		r.Fn(fi)
		info := fi.Pkg.TypesInfo
		g := buildCFG(info, fi.Decl.Body)
		switch a {
		case "boltdb", "gtreap":
			merges := loopsOverField(info, fi.Decl.Body, "EmulatedMerge", "Merges")
			ops := loopsOverField(info, fi.Decl.Body, "EmulatedBatch", "Ops")
			fm := callsMatching(info, fi.Decl.Body, func(f *types.Func) bool { return f.Name() == "FullMerge" })
			okKinds := merges == 1 && ops == 1 && len(fm) == 1
			// FullMerge gets the existing value
			if okKinds {
				d := newDeps(info, fi.Decl.Body)
				sl := d.SliceOfExpr(fm[0].Args[1])
				okKinds = sliceHasSuffix(sl, ".Get")
			}
			r.Ob(rule, a+"/handles-merges-with-existing-value,sets,deletes", fi.Decl.Pos(), okKinds, "ExecuteBatch folds every accumulated merge through MergeOperator.FullMerge with the key's existing value and applies every set/delete op")
			// delete vs set decided on op.V != nil
			// some call runs only for ops with a value, another only for ops without (whatever the
			// spelling: if/else, guard clause with continue, inverted test)
			setDel := false
			{
				var withV, withoutV []*ast.CallExpr
				for _, c := range callsIn(fi.Decl.Body) {
					for _, fc := range g.GuardsOf(c) {
						xx, isEq, isNil := nilTest(info, fc.Expr)
						if fc.Tag != nil || !isNil {
							continue
						}
						sel, isSel := ast.Unparen(xx).(*ast.SelectorExpr)
						if !isSel || sel.Sel.Name != "V" {
							continue
						}
						if isEq == fc.Truth {
							withoutV = append(withoutV, c)
						} else {
							withV = append(withV, c)
						}
					}
				}
				setDel = len(withV) > 0 && len(withoutV) > 0
			}
			r.Ob(rule, a+"/nil-value-means-delete", fi.Decl.Pos(), setDel, "an op with a nil value deletes the key, any other value sets it")
			if a == "boltdb" {
				begins := callsMatching(info, fi.Decl.Body, func(f *types.Func) bool { return f.Name() == "Begin" && strings.Contains(qname(f), "bbolt") })
				okTx := len(begins) == 1 && exprStr(begins[0].Args[0]) == "true"
				deferred := false
				ast.Inspect(fi.Decl.Body, func(x ast.Node) bool {
					if ds, ok := x.(*ast.DeferStmt); ok {
						var c, rb bool
						for _, cc := range callsDeep(ds) {
							if f := callee(info, cc); f != nil {
								c = c || f.Name() == "Commit"
								rb = rb || f.Name() == "Rollback"
							}
						}
						if c && rb && okTx && g.DominatesNode(begins[0], ds) {
							deferred = true
							for _, w := range callsMatching(info, fi.Decl.Body, func(f *types.Func) bool {
								return (f.Name() == "Put" || f.Name() == "Delete") && strings.Contains(qname(f), "bbolt")
							}) {
								if !g.DominatesNode(ds, w) {
									deferred = false
								}
							}
						}
					}
					return true
				})
				r.Ob(rule, a+"/all-writes-in-one-tx-commit-or-rollback", fi.Decl.Pos(), okTx && deferred, "all Put/Delete calls of a batch run inside one writable bbolt transaction whose Commit (no error) or Rollback (error) is deferred before the first write")
			} else {
				// gtreap: local root, single publication, lock held to the end
				stores := storesToField(info, fi.Decl.Body, "Store", "t")
				okPub := len(stores) == 1
				if okPub {
					for _, anc := range enclosing(fi.Decl.Body, stores[0].Stmt) {
						switch anc.(type) {
						case *ast.ForStmt, *ast.RangeStmt:
							okPub = false // published inside a loop: partial batch visible
						}
					}
					// every failure return precedes the publication
					for _, ret := range returnsOf(fi.Decl.Body) {
						if !successReturn(info, g, fi, ret) && g.ReachesNode(stores[0].Stmt, ret) {
							okPub = false
						}
					}
					okPub = okPub && lockHeldAt(g, info, stores[0].Stmt, "m", "W")
				}
				r.Ob(rule, a+"/built-on-local-root-published-once-under-lock", fi.Decl.Pos(), okPub, "the batch is applied to a local copy-on-write root and published by exactly one store to Store.t, under the store mutex, after every operation succeeded (all-or-nothing)")
			}
		case "goleveldb", "moss", "metrics":
			// exactly one engine batch write / delegation, on the success path
			var writes []*ast.CallExpr
			for _, c := range callsDeep(fi.Decl.Body) {
				f := callee(info, c)
				if f == nil {
					continue
				}
				q := qname(f)
				if (a == "goleveldb" && f.Name() == "Write" && strings.Contains(q, "leveldb")) ||
					(a == "moss" && f.Name() == "ExecuteBatch" && strings.Contains(q, "couchbase/moss")) ||
					(a == "metrics" && f.Name() == "ExecuteBatch" && strings.Contains(q, "upsidedown_store_api")) {
					writes = append(writes, c)
				}
			}
			r.Ob(rule, a+"/one-engine-batch-write", fi.Decl.Pos(), len(writes) == 1, fmt.Sprintf("the whole batch reaches the engine through exactly one atomic batch write (found %d)", len(writes)))
			if a != "metrics" {
				merges := rangesOverField(info, fi.Decl.Body, "EmulatedMerge", "Merges")
				okM := len(merges) == 1 && len(writes) == 1 && g.DominatesNode(merges[0].X, writes[0])
				if a == "goleveldb" {
					okM = okM && len(callsMatching(info, fi.Decl.Body, func(f *types.Func) bool { return f.Name() == "FullMerge" })) == 1
				}
				r.Ob(rule, a+"/merges-folded-into-the-same-batch-before-the-write", fi.Decl.Pos(), okM, "accumulated merges are added to the engine batch before the single write")
			}
		}
	}
}

func ruleSnapshotReaders(r *Report, rule string) {
	p := r.P
	prim := map[string]func(f *types.Func) bool{
		"boltdb":    func(f *types.Func) bool { return f.Name() == "Begin" && strings.Contains(qname(f), "bbolt") },
		"goleveldb": func(f *types.Func) bool { return f.Name() == "GetSnapshot" },
		"moss":      func(f *types.Func) bool { return f.Name() == "Snapshot" && strings.Contains(qname(f), "moss") },
		"metrics": func(f *types.Func) bool {
			return f.Name() == "Reader" && strings.Contains(qname(f), "upsidedown_store_api")
		},
	}
	for _, a := range kvAdapters {
		fi := p.MustFunc(storeBase + a + ".(*Store).Reader")
		r.Fn(fi)
		info := fi.Pkg.TypesInfo
		if a == "gtreap" {
			g := buildCFG(info, fi.Decl.Body)
			reads := selsOfField(info, fi.Decl.Body, "Store", "t")
			ok := len(reads) == 1 && lockHeldAt(g, info, reads[0], "m", "W")
			r.Ob(rule, a+"/Reader-copies-root-under-store-mutex", fi.Decl.Pos(), ok, "the reader captures the current (immutable) treap root under the store mutex")
		} else {
			calls := callsMatching(info, fi.Decl.Body, prim[a])
			ok := len(calls) == 1
			if a == "boltdb" && ok {
				ok = exprStr(calls[0].Args[0]) == "false"
			}
			r.Ob(rule, a+"/Reader-takes-engine-snapshot", fi.Decl.Pos(), ok, "Store.Reader obtains the engine's snapshot primitive (read-only tx / GetSnapshot / Snapshot / wrapped reader)")
		}
		// Reader and Iterator types never touch the live handle
		live := map[string]string{"boltdb": "db", "goleveldb": "db", "gtreap": "t", "moss": "ms", "metrics": "o"}[a]
		for _, ffi := range p.funcsInPkg(storeBase + a) {
			if ffi.Decl.Recv == nil {
				continue
			}
			rt := namedOf(ffi.Obj.Type().(*types.Signature).Recv().Type())
			if rt == nil || (rt.Obj().Name() != "Reader" && rt.Obj().Name() != "Iterator") {
				continue
			}
			uses := selsOfField(ffi.Pkg.TypesInfo, ffi.Decl.Body, "Store", live)
			if len(uses) > 0 {
				r.Fn(ffi)
				r.Ob(rule, a+"/"+ffi.Obj.Name()+"-uses-live-handle", uses[0].Pos(), false, rt.Obj().Name()+"."+ffi.Obj.Name()+" reads Store."+live+" (the live handle): a reader must only see its snapshot")
			}
		}
		r.Ob(rule, a+"/reader-methods-checked", fi.Decl.Pos(), true, "no Reader/Iterator method of "+a+" reads Store."+live)
	}
}

func ruleTreapItemsImmutable(r *Report, rule string) {
	p := r.P
	n := 0
	bad := 0
	for _, fi := range p.funcsInPkg(storeBase + "gtreap") {
		info := fi.Pkg.TypesInfo
		for _, fld := range []string{"k", "v"} {
			for _, st := range storesToField(info, fi.Decl.Body, "Item", fld) {
				bad++
				r.Fn(fi)
				r.Ob(rule, fi.Name+"/store-Item."+fld, st.Stmt.Pos(), false, "assignment to "+exprStr(st.Lhs)+": treap items are shared by every reader root that contains them; changing one in place changes what existing readers see")
			}
		}
		n++
	}
	r.Ob(rule, "gtreap/no-in-place-item-mutation", p.Pkg(storeBase + "gtreap").Syntax[0].Pos(), bad == 0, fmt.Sprintf("no function of package gtreap (%d checked) assigns to Item.k / Item.v; items are created by literals only", n))
}

func ruleMossBufAccounting(r *Report, rule string) {
	p := r.P
	for _, m := range []string{"Set", "Delete", "Merge"} {
		fi := p.MustFunc(storeBase + "moss.(*Batch)." + m)
		r.Fn(fi)
		info := fi.Pkg.TypesInfo
		g := buildCFG(info, fi.Decl.Body)
		sig := fi.Obj.Type().(*types.Signature)
		ok := false
		for _, st := range storesToField(info, fi.Decl.Body, "Batch", "bufUsed") {
			if st.Tok != token.ADD_ASSIGN {
				continue
			}
			guarded := false
			for _, f := range g.GuardsOf(st.Stmt) {
				if x, isEq, isNil := nilTest(info, f.Expr); isNil && isField(info, x, "Batch", "buf") && (isEq != f.Truth) {
					guarded = true
				}
			}
			all := true
			for i := 0; i < sig.Params().Len(); i++ {
				if !usesObj(info, st.Rhs, sig.Params().At(i)) {
					all = false
				}
			}
			if guarded && all {
				ok = true
			}
		}
		r.Ob(rule, "moss.Batch."+m+"/accounts-bytes-in-bufUsed", fi.Decl.Pos(), ok, "with a pre-sized buffer attached every byte-slice argument of Batch."+m+" is accounted in bufUsed; ExecuteBatch later copies merge operands into the buffer starting at bufUsed, so an unaccounted method makes it overwrite operands that are still referenced")
	}
}

var errAllowStores = map[string]string{
	"index/upsidedown/store/goleveldb.(*Store).Reader/GetSnapshot": "leveldb GetSnapshot only fails on a closed DB; the resulting reader has a nil snapshot and fails on first use (use-after-Close is outside the KVStore contract)",
	"index/upsidedown/store/moss.(*Iterator).Seek/SeekTo":          "moss signals 'no such key / iterator done' through the error result; the adapter re-reads the position with Current()",
	"index/upsidedown/store/moss.(*Iterator).Next/Next":            "moss signals end of iteration through the error result; the adapter re-reads the position with Current()",
}
