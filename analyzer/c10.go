package main

import (
	"fmt"
	"go/ast"
	"go/constant"
	"go/token"
	"go/types"
	"sort"
	"strings"
)

func init() { register("C10", propC10) }

func propC10(r *Report, tier string) {
	r.Explanation = "Structural necessary conditions of 'facet counts describe all matches, not the page': (a) in TopNCollector.Collect every match handed to the document-match handler (where it may be evicted from the bounded store) has first gone through prepareDocumentMatch, which visits the doc values of the needed fields, unless the fast path applies; the fast path requires that no field is needed; SetFacetsBuilder makes every facet field needed exactly once (no duplicate entry: a field listed twice is visited twice and every value counted twice); (b) typestate StartDoc -> VisitDocValues -> EndDoc per match; (c) K12 sibling agreement of the facet builders: StartDoc clears sawValue, UpdateVisitor is the only writer of total and the bucket counts, EndDoc counts a missing document only when no value was seen, range builders test the value against EVERY range (no early exit from the range loop); (d) the doc-value visitor forwards each value to both the facets builder and the sort; (e) the predicate whose truth lets a segment skip filling its uninverted doc-value cache answers for all wanted fields, never from inside its loop over them; (f) the tally a facet builder subtracts from the total to give Other is taken over the result's own (sorted, trimmed) list."
	r.NotCovered = "the counts themselves, bucket ordering, the [min,max) boundary arithmetic, doc-value contents"
	ruleCollectPreparesBeforeHandler(r, "K5-prepare-before-store")
	ruleNeededFieldsComplete(r, "K8-facet-fields-needed-once")
	ruleVisitTypestate(r, "K1-startdoc-visit-enddoc")
	ruleFacetBuilderSiblings(r, "K12-facet-builder-protocol")
	ruleVisitorForwardsBoth(r, "K5-visitor-forwards-both")
	ruleOptionalFieldEqualityKeepsAbsence(r, "K9b-optional-bound-equality", "search")
	rulePerSegmentFieldsInvalidatedOnSwitch(r, "K5-per-segment-fields-invalidated")
	ruleLookupMissSkipsOnlyTheItem(r, "K13-lookup-miss-skips-only-the-item", "index/scorch", "search/facet", "search/collector", "search")
	ruleRegistriesUpdatedTogether(r, "K14-registries-updated-together", "search.(*FacetsBuilder).Add", "FacetsBuilder", []string{"facetNames", "facets", "facetsByField"})
	ruleCacheCompletePredicateIsUniversal(r, "K13-cache-complete-predicate-universal")
	ruleOtherCountsTheListedBuckets(r, "K5-other-counts-listed-buckets")
	r.Floor("K5-prepare-before-store", 3)
	r.Floor("K8-facet-fields-needed-once", 2)
	r.Floor("K1-startdoc-visit-enddoc", 3)
	r.Floor("K12-facet-builder-protocol", 12)
	r.Floor("K5-visitor-forwards-both", 2)
}

func ruleCollectPreparesBeforeHandler(r *Report, rule string) {
	p := r.P
	fi := p.MustFunc("search/collector.(*TopNCollector).Collect")
	r.Fn(fi)
	info := fi.Pkg.TypesInfo
	g := buildCFG(info, fi.Decl.Body)
	// handler variable: result of the handler maker
	var handlerCalls []*ast.CallExpr
	for _, c := range callsIn(fi.Decl.Body) {
		if id, ok := ast.Unparen(c.Fun).(*ast.Ident); ok && isMatchHandlerVar(info, id) && len(c.Args) == 1 && !isNilIdent(info, c.Args[0]) {
			handlerCalls = append(handlerCalls, c)
		}
	}
	if len(handlerCalls) < 2 {
		undecidedf("%s: handler call sites not found", fi.Name)
	}
	prepares := callsMatching(info, fi.Decl.Body, func(f *types.Func) bool {
		return f.Name() == "prepareDocumentMatch" || f.Name() == "prepareKNNDocumentMatch"
	})
	for _, hcall := range handlerCalls {
		arg := objOf(info, hcall.Args[0])
		// on every path to the handler call either the fast path flag held or prepare ran on the same match
		ok := false
		l, _ := g.Locate(hcall)
		// must-pass-through: remove prepare nodes and fast-path assignment; handler must become unreachable
		fl := &Flow{F: g, Must: true, Entry: Set{}}
		fl.Transfer = func(n ast.Node, in Set) Set {
			out := in
			for _, c := range callsIn(n) {
				for _, pc := range prepares {
					if c == pc && len(pc.Args) >= 3 && objOf(info, pc.Args[len(pc.Args)-1]) == arg {
						out = out.with("prepared")
					}
				}
			}
			if as, isAs := n.(*ast.AssignStmt); isAs && len(as.Lhs) == 1 {
				// next.Sort = sortByScoreOpt on the fast path
				if sel, isSel := ast.Unparen(as.Lhs[0]).(*ast.SelectorExpr); isSel && sel.Sel.Name == "Sort" && objOf(info, sel.X) == arg {
					facts := g.GuardsOf(as)
					for _, f := range facts {
						if f.Truth && isField(info, f.Expr, "TopNCollector", "fastPrepare") {
							out = out.with("prepared")
						}
					}
				}
				// a new match is fetched into the variable: not yet prepared
				if objOf(info, as.Lhs[0]) == arg {
					out = out.without("prepared")
				}
			}
			return out
		}
		fl.Solve()
		if s, reach := fl.At(l); reach && s["prepared"] {
			ok = true
		}
		r.Ob(rule, fi.Name+"/handler("+exprStr(hcall.Args[0])+")-after-prepare", hcall.Pos(), ok, "on every path the match given to the document-match handler (bounded store: may be evicted) was prepared first: prepareDocumentMatch visited its doc values for facets/sort, or the fast path applied")
	}
	// fast path requires no needed fields
	cf := p.MustFunc("search/collector.(*TopNCollector).canFastPrepare")
	r.Fn(cf)
	cinfo := cf.Pkg.TypesInfo
	okFast := false
	for _, rs := range returnsOf(cf.Decl.Body) {
		var facts []Fact
		splitCond(rs.Results[0], true, &facts)
		for _, f := range facts {
			be, isB := ast.Unparen(f.Expr).(*ast.BinaryExpr)
			if !isB || !f.Truth || be.Op != token.EQL || exprStr(be.Y) != "0" {
				continue
			}
			if c, isC := ast.Unparen(be.X).(*ast.CallExpr); isC && calleeBuiltin(cinfo, c) == "len" && isField(cinfo, c.Args[0], "TopNCollector", "neededFields") {
				okFast = true
			}
		}
	}
	r.Ob(rule, cf.Name+"/requires-no-needed-fields", cf.Decl.Pos(), okFast, "the fast path (no doc-value visit) is taken only when len(neededFields) == 0")
	// fastPrepare is computed from canFastPrepare after the facets builder may have been set: in Collect itself
	okFlag := false
	for _, st := range storesToField(info, fi.Decl.Body, "TopNCollector", "fastPrepare") {
		if c, isC := st.Rhs.(*ast.CallExpr); isC {
			if f := callee(info, c); f != nil && f == cf.Obj {
				okFlag = true
			}
		}
	}
	r.Ob(rule, fi.Name+"/fastPrepare=canFastPrepare()-at-collect-time", fi.Decl.Pos(), okFlag, "the fast-path flag is recomputed in Collect (after SetFacetsBuilder may have added facet fields)")
}

func ruleNeededFieldsComplete(r *Report, rule string) {
	p := r.P
	fi := p.MustFunc("search/collector.(*TopNCollector).SetFacetsBuilder")
	r.Fn(fi)
	info := fi.Pkg.TypesInfo
	g := buildCFG(info, fi.Decl.Body)
	d := newDeps(info, fi.Decl.Body)
	var app *ast.AssignStmt
	for _, st := range storesToField(info, fi.Decl.Body, "TopNCollector", "neededFields") {
		if c, ok := st.Rhs.(*ast.CallExpr); ok && calleeBuiltin(info, c) == "append" {
			app = st.Stmt
		}
	}
	if app == nil {
		r.Ob(rule, fi.Name+"/appends-facet-fields", fi.Decl.Pos(), false, "SetFacetsBuilder does not add the facet fields to neededFields")
		return
	}
	appCall := app.Rhs[0].(*ast.CallExpr)
	sl := d.SliceOfExpr(appCall.Args[1])
	r.Ob(rule, fi.Name+"/appends-facet-fields", app.Pos(), sliceHasSuffix(sl, ".RequiredFields"), "every field required by the facets builder is appended to neededFields")
	// the loop covers all required fields
	var outer *ast.RangeStmt
	for _, anc := range enclosing(fi.Decl.Body, app) {
		if rs, ok := anc.(*ast.RangeStmt); ok && outer == nil {
			outer = rs
		}
	}
	if outer == nil {
		undecidedf("%s: append not inside a loop", fi.Name)
	}
	// duplicate suppression consults the CURRENT list
	facts := g.GuardsOf(app)
	okDedupe := false
	detail := "the append is not guarded by a membership test"
	for _, f := range facts {
		id, ok := ast.Unparen(f.Expr).(*ast.Ident)
		if !ok || f.Truth {
			continue
		}
		obj := info.ObjectOf(id)
		// (1) found-flag computed by a nested range over hc.neededFields inside the outer loop
		ast.Inspect(outer.Body, func(x ast.Node) bool {
			if rs, ok := x.(*ast.RangeStmt); ok && isField(info, rs.X, "TopNCollector", "neededFields") {
				ast.Inspect(rs.Body, func(y ast.Node) bool {
					if as, ok := y.(*ast.AssignStmt); ok && len(as.Lhs) == 1 && objOf(info, as.Lhs[0]) == obj {
						okDedupe = true
					}
					return true
				})
			}
			return true
		})
		// (2) comma-ok lookup in a set that is updated next to the append
		ast.Inspect(outer.Body, func(x ast.Node) bool {
			as, ok := x.(*ast.AssignStmt)
			if !ok || len(as.Lhs) != 2 || len(as.Rhs) != 1 || objOf(info, as.Lhs[1]) != obj {
				return true
			}
			ix, ok := ast.Unparen(as.Rhs[0]).(*ast.IndexExpr)
			if !ok {
				return true
			}
			set := objOf(info, ix.X)
			updated := false
			ast.Inspect(outer.Body, func(y ast.Node) bool {
				if a2, ok := y.(*ast.AssignStmt); ok && len(a2.Lhs) == 1 {
					if ix2, ok := ast.Unparen(a2.Lhs[0]).(*ast.IndexExpr); ok && objOf(info, ix2.X) == set && set != nil {
						if factsString(g.GuardsOf(a2)) == factsString(facts) {
							updated = true
						}
					}
				}
				return true
			})
			if updated {
				okDedupe = true
			} else {
				detail = "the membership set `" + exprStr(ix.X) + "` is consulted but never updated when a field is appended: a field required by two facets is appended twice"
			}
			return true
		})
	}
	// (4) the library membership test on the CURRENT list: !slices.Contains(hc.neededFields, field)
	for _, f := range facts {
		c, ok := ast.Unparen(f.Expr).(*ast.CallExpr)
		if !ok || f.Truth || f.Tag != nil || len(c.Args) != 2 {
			continue
		}
		if fn := callee(info, c); fn != nil && fn.Pkg() != nil && fn.Pkg().Path() == "slices" && fn.Name() == "Contains" {
			o := objOf(info, resolveCopies(info, fi.Decl.Body, c.Args[1]))
			if isField(info, c.Args[0], "TopNCollector", "neededFields") && o != nil && outer.Value != nil && o == objOf(info, outer.Value) {
				okDedupe = true
			}
		}
	}
	if !okDedupe {
		// (3) whatever the spelling (found flag, helper, early continue): some test compares an element of the
		// CURRENT list with the field being added, and from its "equal" side the append cannot be reached
		// within the same iteration of the outer loop
		appLoc, okLoc := g.Locate(app)
		for _, b := range g.G.Blocks {
			cond, tag, okc := branchCond(b)
			if !okc || tag != nil || len(b.Succs) != 2 || !okLoc {
				continue
			}
			var atoms []Fact
			splitCond(cond, true, &atoms)
			for _, a := range atoms {
				be, isB := ast.Unparen(a.Expr).(*ast.BinaryExpr)
				if !isB || be.Op != token.EQL || !a.Truth {
					continue
				}
				isElem := func(e ast.Expr) bool {
					coll, _, ok := elemOfCollection(info, fi.Decl.Body, e)
					return ok && isField(info, coll, "TopNCollector", "neededFields")
				}
				isNew := func(e ast.Expr) bool {
					o := objOf(info, resolveCopies(info, fi.Decl.Body, e))
					return o != nil && outer.Value != nil && o == objOf(info, outer.Value)
				}
				if (isElem(be.X) && isNew(be.Y)) || (isElem(be.Y) && isNew(be.X)) {
					if b.Succs[0] != appLoc.B && !g.reachableForward(b.Succs[0], appLoc) {
						okDedupe = true
					}
				}
			}
		}
	}
	r.Ob(rule, fi.Name+"/no-duplicate-needed-field", app.Pos(), okDedupe, "a field is appended only if it is not already in the CURRENT neededFields list ("+detail+"); a duplicate entry makes the doc-value reader visit the field twice and every facet count double")
}

func ruleVisitTypestate(r *Report, rule string) {
	p := r.P
	fi := p.MustFunc("search/collector.(*TopNCollector).visitFieldTerms")
	r.Fn(fi)
	info := fi.Pkg.TypesInfo
	g := buildCFG(info, fi.Decl.Body)
	var start, end *ast.CallExpr
	var visits []*ast.CallExpr
	for _, c := range callsIn(fi.Decl.Body) {
		f := callee(info, c)
		if f == nil {
			continue
		}
		switch f.Name() {
		case "StartDoc":
			start = c
		case "EndDoc":
			end = c
		case "VisitDocValues":
			visits = append(visits, c)
		}
	}
	if start == nil || end == nil || len(visits) == 0 {
		r.Ob(rule, fi.Name+"/protocol-present", fi.Decl.Pos(), false, "StartDoc / VisitDocValues / EndDoc not all present")
		return
	}
	okStart := true
	for _, v := range visits {
		if !g.DominatesNode(g.condOf(start), v) || g.ReachesNode(v, start) {
			okStart = false
		}
	}
	r.Ob(rule, fi.Name+"/StartDoc-before-every-visit", start.Pos(), okStart, "StartDoc (clears the per-document 'saw a value' flag) precedes every VisitDocValues of the match")
	okEnd := true
	for _, v := range visits {
		if !g.ReachesNode(v, end) || g.ReachesNode(end, v) {
			okEnd = false
		}
	}
	// EndDoc is on the success path: the final return is dominated by its if
	last := returnsOf(fi.Decl.Body)
	okRet := len(last) > 0 && g.DominatesNode(g.condOf(end), last[len(last)-1])
	r.Ob(rule, fi.Name+"/EndDoc-after-every-visit", end.Pos(), okEnd && okRet, "EndDoc (counts the document as missing when no value was seen) follows all visits of the match and is on the path to the normal return")
	// both guarded by the same facetsBuilder != nil test
	r.Ob(rule, fi.Name+"/StartDoc-EndDoc-same-guard", start.Pos(), sameGuardModuloErrors(info, g.RawGuardsOf(start), g.RawGuardsOf(end)), "StartDoc and EndDoc are executed under the same condition (error exits in between aside)")
}

func ruleFacetBuilderSiblings(r *Report, rule string) {
	p := r.P
	builders := []string{"TermsFacetBuilder", "NumericFacetBuilder", "DateTimeFacetBuilder"}
	for _, b := range builders {
		get := func(m string) *FuncInfo { return p.MustFunc("search/facet.(*" + b + ")." + m) }
		sd, uv, ed, res := get("StartDoc"), get("UpdateVisitor"), get("EndDoc"), get("Result")
		for _, f := range []*FuncInfo{sd, uv, ed, res} {
			r.Fn(f)
		}
		info := sd.Pkg.TypesInfo
		// StartDoc: sawValue = false
		okSD := false
		for _, st := range storesToField(info, sd.Decl.Body, b, "sawValue") {
			if exprStr(st.Rhs) == "false" {
				okSD = true
			}
		}
		r.Ob(rule, b+".StartDoc/clears-sawValue", sd.Decl.Pos(), okSD, "StartDoc resets the per-document flag")
		// EndDoc: missing++ only under !sawValue
		eg := buildCFG(info, ed.Decl.Body)
		okED := false
		ast.Inspect(ed.Decl.Body, func(x ast.Node) bool {
			if s, ok := x.(*ast.IncDecStmt); ok && s.Tok == token.INC && isField(info, s.X, b, "missing") {
				for _, f := range eg.GuardsOf(s) {
					if !f.Truth && isField(info, f.Expr, b, "sawValue") {
						okED = true
					}
				}
			}
			return true
		})
		r.Ob(rule, b+".EndDoc/missing-iff-no-value-seen", ed.Decl.Pos(), okED, "EndDoc counts the document as missing exactly when no value was seen")
		// UpdateVisitor sets sawValue = true
		okUV := false
		onlyTrue := true
		for _, st := range storesToField(info, uv.Decl.Body, b, "sawValue") {
			if st.Rhs != nil && exprStr(st.Rhs) == "true" {
				okUV = true
			} else {
				onlyTrue = false
			}
		}
		r.Ob(rule, b+".UpdateVisitor/sets-sawValue", uv.Decl.Pos(), okUV, "UpdateVisitor records that the document has a value")
		r.Ob(rule, b+".UpdateVisitor/never-clears-sawValue", uv.Decl.Pos(), onlyTrue, "within one document the flag only goes up: UpdateVisitor runs once per VALUE, so a store of anything but true lets a later value of a multi-valued field erase what an earlier value established, and the document is counted as missing although it was counted in a bucket")
		// total and termsCount written only by UpdateVisitor
		for _, fld := range []string{"total", "termsCount", "missing"} {
			var writers []string
			for _, fi := range p.funcsInPkg("search/facet") {
				w := false
				for _, a := range classifyAccesses(fi, b, fld) {
					if a.write {
						w = true
					}
				}
				if w {
					writers = append(writers, fi.Obj.Name())
				}
			}
			want := "UpdateVisitor"
			if fld == "missing" {
				want = "EndDoc"
			}
			ok := true
			for _, w := range writers {
				if w != want && w[:3] != "New" {
					ok = false
				}
			}
			r.Ob(rule, b+"."+fld+"/written-only-by-"+want, uv.Decl.Pos(), ok && len(writers) > 0, "counter "+fld+" of "+b+" is modified only by "+want+" (and the constructor)")
		}
		// range builders: the loop over ranges has no early exit
		if b != "TermsFacetBuilder" {
			okLoop := false
			for _, rs := range rangesOverField(info, uv.Decl.Body, b, "ranges") {
				okLoop = true
				ast.Inspect(rs.Body, func(x ast.Node) bool {
					switch y := x.(type) {
					case *ast.BranchStmt:
						if y.Tok == token.BREAK || (y.Tok == token.GOTO && !gotoStaysInside(rs.Body, y)) {
							okLoop = false
						}
					case *ast.ReturnStmt:
						okLoop = false
					}
					return true
				})
			}
			r.Ob(rule, b+".UpdateVisitor/every-range-tested", uv.Decl.Pos(), okLoop, "a value is tested against EVERY configured range (ranges may overlap); an early exit credits it to only one of them")
		}
		// Result: Total, Missing from the counters
		rinfo := res.Pkg.TypesInfo
		okRes := false
		ast.Inspect(res.Decl.Body, func(x ast.Node) bool {
			cl, ok := x.(*ast.CompositeLit)
			if !ok {
				return true
			}
			if nt := namedOf(rinfo.TypeOf(cl)); nt == nil || nt.Obj().Name() != "FacetResult" {
				return true
			}
			t, m := false, false
			for _, el := range cl.Elts {
				if kv, ok := el.(*ast.KeyValueExpr); ok {
					if kv.Key.(*ast.Ident).Name == "Total" && isField(rinfo, kv.Value, b, "total") {
						t = true
					}
					if kv.Key.(*ast.Ident).Name == "Missing" && isField(rinfo, kv.Value, b, "missing") {
						m = true
					}
				}
			}
			okRes = t && m
			return true
		})
		r.Ob(rule, b+".Result/Total,Missing-from-counters", res.Decl.Pos(), okRes, "the facet result reports the builder's total and missing counters")
	}
}

func ruleVisitorForwardsBoth(r *Report, rule string) {
	p := r.P
	fi := p.MustFunc("search/collector.(*TopNCollector).Collect")
	info := fi.Pkg.TypesInfo
	var lit *ast.FuncLit
	for _, st := range storesToField(info, fi.Decl.Body, "TopNCollector", "updateFieldVisitor") {
		if l, ok := st.Rhs.(*ast.FuncLit); ok {
			lit = l
		}
	}
	if lit == nil {
		undecidedf("%s: updateFieldVisitor closure not found", fi.Name)
	}
	toFacets, toSort := false, false
	for _, c := range callsDeep(lit.Body) {
		f := callee(info, c)
		if f == nil || f.Name() != "UpdateVisitor" {
			continue
		}
		sel := ast.Unparen(c.Fun).(*ast.SelectorExpr)
		if isField(info, sel.X, "TopNCollector", "facetsBuilder") {
			toFacets = true
		}
		if isField(info, sel.X, "TopNCollector", "sort") {
			toSort = true
		}
	}
	r.Ob(rule, fi.Name+"/visitor->facets", lit.Pos(), toFacets, "every visited doc value is forwarded to the facets builder")
	r.Ob(rule, fi.Name+"/visitor->sort", lit.Pos(), toSort, "every visited doc value is forwarded to the sort")
	// prepareDocumentMatch passes this visitor
	pf := p.MustFunc("search/collector.(*TopNCollector).prepareDocumentMatch")
	r.Fn(pf)
	pinfo := pf.Pkg.TypesInfo
	ok := false
	for _, c := range callsMatching(pinfo, pf.Decl.Body, func(f *types.Func) bool { return f.Name() == "visitFieldTerms" }) {
		if isField(pinfo, c.Args[len(c.Args)-1], "TopNCollector", "updateFieldVisitor") {
			pg := buildCFG(pinfo, pf.Decl.Body)
			for _, f := range pg.GuardsOf(c) {
				if be, isB := ast.Unparen(f.Expr).(*ast.BinaryExpr); isB && f.Truth && be.Op == token.GTR && exprStr(be.Y) == "0" {
					ok = true
				}
			}
		}
	}
	r.Ob(rule, pf.Name+"/visits-when-fields-needed", pf.Decl.Pos(), ok, "prepareDocumentMatch visits the doc values with the shared visitor whenever len(neededFields) > 0")
}

// isMatchHandlerVar: the identifier is a variable of the named type search.DocumentMatchHandler (role by type).
func isMatchHandlerVar(info *types.Info, id *ast.Ident) bool {
	v, ok := info.ObjectOf(id).(*types.Var)
	if !ok {
		return false
	}
	nt := namedOf(v.Type())
	return nt != nil && nt.Obj().Name() == "DocumentMatchHandler"
}

// sameGuardModuloErrors: both locations execute under the same branch facts once
// "no error so far" facts (the complement of an early error return) are set aside.
func sameGuardModuloErrors(info *types.Info, a, b []Fact) bool {
	strip := func(fs []Fact) []string {
		var out []string
		for _, f := range fs {
			if x, _, isNil := nilTest(info, f.Expr); isNil && f.Tag == nil && isErrorType(info.TypeOf(x)) {
				continue
			}
			out = append(out, f.String())
		}
		sort.Strings(out)
		return out
	}
	x, y := strip(a), strip(b)
	if len(x) != len(y) {
		return false
	}
	for i := range x {
		if x[i] != y[i] {
			return false
		}
	}
	return true
}

// ruleCacheCompletePredicateIsUniversal (K13): the uninverted doc-value cache
// of a segment is filled by cachedDocs.prepareFields, and the fill is skipped
// when a boolean method of the cache says that the wanted fields are already
// there.  That method therefore has to mean "ALL of them": a `return true`
// issued from inside its loop over the wanted fields answers after looking at
// one field only, the remaining fields are never uninverted and their values
// silently miss from facets and sorts.  The predicate is found by its role (the
// call whose falsity guards prepareFields), not by its name.
func ruleCacheCompletePredicateIsUniversal(r *Report, rule string) {
	p := r.P
	n := 0
	for _, fi := range p.flist {
		if fi.Decl == nil || fi.Decl.Body == nil || !strings.HasSuffix(fi.Pkg.PkgPath, "index/scorch") {
			continue
		}
		info := fi.Pkg.TypesInfo
		fills := callsMatching(info, fi.Decl.Body, func(f *types.Func) bool {
			return strings.HasSuffix(funcName(f), "index/scorch.(*cachedDocs).prepareFields")
		})
		if len(fills) == 0 {
			continue
		}
		g := buildCFG(info, fi.Decl.Body)
		for _, fill := range fills {
			var preds []*types.Func
			// a fill started in a closure (`go func() { ... }()`) is guarded by what guards that statement
			var at ast.Node = fill
			anc := enclosing(fi.Decl.Body, fill)
			for i, a := range anc {
				if _, isLit := a.(*ast.FuncLit); isLit {
					for j := i - 1; j >= 0; j-- {
						if st, isStmt := anc[j].(ast.Stmt); isStmt {
							at = st
							break
						}
					}
					break
				}
			}
			for _, fc := range g.GuardsOf(at) {
				if fc.Tag != nil {
					continue
				}
				e := ast.Unparen(fc.Expr)
				truth := fc.Truth
				for {
					u, isNot := e.(*ast.UnaryExpr)
					if !isNot || u.Op != token.NOT {
						break
					}
					e, truth = ast.Unparen(u.X), !truth
				}
				c, isCall := e.(*ast.CallExpr)
				if !isCall || truth {
					continue
				}
				f := callee(info, c)
				if f == nil {
					continue
				}
				if sig, _ := f.Type().(*types.Signature); sig != nil && sig.Recv() != nil {
					if nt := namedOf(sig.Recv().Type()); nt != nil && nt.Obj().Name() == "cachedDocs" {
						preds = append(preds, f)
					}
				}
			}
			seen := map[*types.Func]bool{}
			for _, f := range preds {
				if seen[f] {
					continue
				}
				seen[f] = true
				pfi := p.Func(funcName(f))
				if pfi == nil || pfi.Decl == nil || pfi.Decl.Body == nil {
					continue
				}
				r.Fn(pfi)
				pinfo := pfi.Pkg.TypesInfo
				psig := f.Type().(*types.Signature)
				coll := map[types.Object]bool{}
				for i := 0; i < psig.Params().Len(); i++ {
					if _, isSlice := psig.Params().At(i).Type().Underlying().(*types.Slice); isSlice {
						coll[psig.Params().At(i)] = true
					}
				}
				bad := token.NoPos
				ast.Inspect(pfi.Decl.Body, func(x ast.Node) bool {
					var body *ast.BlockStmt
					switch l := x.(type) {
					case *ast.RangeStmt:
						if coll[objOf(pinfo, l.X)] {
							body = l.Body
						}
					case *ast.ForStmt:
						if be, ok := l.Cond.(*ast.BinaryExpr); ok {
							if c, ok := ast.Unparen(be.Y).(*ast.CallExpr); ok && calleeBuiltin(pinfo, c) == "len" && len(c.Args) == 1 && coll[objOf(pinfo, c.Args[0])] {
								body = l.Body
							}
						}
					}
					if body == nil {
						return true
					}
					ast.Inspect(body, func(y ast.Node) bool {
						if _, isLit := y.(*ast.FuncLit); isLit {
							return false
						}
						if rs, ok := y.(*ast.ReturnStmt); ok && len(rs.Results) == 1 {
							if tv, has := pinfo.Types[rs.Results[0]]; has && tv.Value != nil && tv.Value.Kind() == constant.Bool && constant.BoolVal(tv.Value) {
								bad = rs.Pos()
							}
						}
						return true
					})
					return true
				})
				n++
				pos := pfi.Decl.Pos()
				if bad != token.NoPos {
					pos = bad
				}
				r.Ob(rule, fi.Name+"/"+f.Name()+"/true-only-after-all-fields", pos, bad == token.NoPos, "the fill of the doc-value cache is skipped when this predicate is true, so it has to hold for ALL wanted fields; it returns true from inside its loop over them, i.e. after looking at one")
			}
		}
	}
	if n == 0 {
		undecidedf("no predicate guarding cachedDocs.prepareFields found")
	}
}

// ruleOtherCountsTheListedBuckets (K5): a facet's Other is "total minus the
// buckets that are LISTED", and the list is sorted and cut to the requested
// size first.  The tally that is subtracted from the total must therefore be
// accumulated while walking the result's own (trimmed) list - a tally taken
// while walking the builder's count map covers every bucket, Other becomes 0
// and listed + Other no longer adds up to Total.
func ruleOtherCountsTheListedBuckets(r *Report, rule string) {
	p := r.P
	n := 0
	for _, fi := range p.flist {
		if fi.Decl == nil || fi.Decl.Body == nil || fi.Decl.Recv == nil || fi.Decl.Name.Name != "Result" || !strings.HasSuffix(fi.Pkg.PkgPath, "search/facet") {
			continue
		}
		info := fi.Pkg.TypesInfo
		recv := recvObj(fi)
		rootedLoop := func(at ast.Node) bool {
			var over ast.Expr
			for _, anc := range enclosing(fi.Decl.Body, at) {
				if rs, ok := anc.(*ast.RangeStmt); ok {
					over = rs.X
				}
			}
			if over == nil {
				return false
			}
			usesRecv, usesLocal := false, false
			ast.Inspect(over, func(y ast.Node) bool {
				if id, ok := y.(*ast.Ident); ok {
					if o := info.ObjectOf(id); o == recv {
						usesRecv = true
					} else if v, isVar := o.(*types.Var); isVar && !v.IsField() && declaredWithin(info, fi.Decl.Body, v) {
						usesLocal = true
					}
				}
				return true
			})
			return usesLocal && !usesRecv
		}
		for _, st := range storesToField(info, fi.Decl.Body, "FacetResult", "Other") {
			if st.Tok == token.SUB_ASSIGN {
				// `rv.Other = total` ... `rv.Other -= listed.Count`: the subtraction itself is the tally
				n++
				r.Fn(fi)
				r.Ob(rule, fmt.Sprintf("%s/subtraction@%d-over-the-listed-buckets", fi.Name, n), st.Stmt.Pos(), rootedLoop(st.Stmt), "the counts subtracted from the total to give Other are taken while ranging over the builder's own counts, not over the result's sorted and trimmed list: every bucket is counted as listed and Other comes out too small")
				continue
			}
			be, ok := ast.Unparen(st.Rhs).(*ast.BinaryExpr)
			if st.Rhs == nil || !ok || be.Op != token.SUB {
				continue
			}
			tally := objOf(info, be.Y)
			if tally == nil {
				continue
			}
			r.Fn(fi)
			k := 0
			ast.Inspect(fi.Decl.Body, func(x ast.Node) bool {
				as, ok := x.(*ast.AssignStmt)
				if !ok || len(as.Lhs) != 1 || objOf(info, as.Lhs[0]) != tally || (as.Tok != token.ADD_ASSIGN && as.Tok != token.ASSIGN) {
					return true
				}
				if as.Tok == token.ASSIGN {
					if tv, has := info.Types[as.Rhs[0]]; has && tv.Value != nil {
						return true // reset to a constant
					}
				}
				// the loop the tally is taken in
				var over ast.Expr
				for _, anc := range enclosing(fi.Decl.Body, as) {
					if rs, ok := anc.(*ast.RangeStmt); ok {
						over = rs.X
					}
				}
				rooted := false
				if over != nil {
					usesRecv, usesLocal := false, false
					ast.Inspect(over, func(y ast.Node) bool { // rv.NumericRanges, rv.Terms.Terms()
						if id, ok := y.(*ast.Ident); ok {
							if o := info.ObjectOf(id); o == recv {
								usesRecv = true
							} else if v, isVar := o.(*types.Var); isVar && !v.IsField() && declaredWithin(info, fi.Decl.Body, v) {
								usesLocal = true
							}
						}
						return true
					})
					rooted = usesLocal && !usesRecv
				}
				n++
				k++
				r.Ob(rule, fmt.Sprintf("%s/tally#%d-over-the-listed-buckets", fi.Name, k), as.Pos(), rooted, "the tally subtracted from the total to give Other is accumulated while ranging over the builder's own counts, not over the result's sorted and trimmed list: every bucket is counted as listed and Other comes out too small")
				return true
			})
		}
	}
	if n < 3 {
		undecidedf("facet builders' Other computation not recognised (%d tallies)", n)
	}
}
