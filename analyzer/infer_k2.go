package main

import (
	"fmt"
	"go/types"
	"sort"
	"strings"
)

// Discovery aid (not a check): for every struct with a mutex field, how often is
// each other field accessed with that mutex held?  Output is reviewed by hand
// and frozen into guarded-by tables.
func init() { register("INFER-K2", inferK2) }

func inferK2(r *Report, tier string) {
	p := r.P
	type row struct {
		owner, field, lock string
		held, unheld       int
		wHeld, wUnheld     int
		unheldSites        []string
		pkg                string
	}
	var rows []row
	for _, pk := range p.Pkgs {
		rel := relPkg(pk.PkgPath)
		scope := pk.Types.Scope()
		for _, name := range scope.Names() {
			tn, ok := scope.Lookup(name).(*types.TypeName)
			if !ok {
				continue
			}
			st, ok := tn.Type().Underlying().(*types.Struct)
			if !ok {
				continue
			}
			var locks []string
			for i := 0; i < st.NumFields(); i++ {
				t := st.Field(i).Type().String()
				if t == "sync.Mutex" || t == "sync.RWMutex" {
					locks = append(locks, st.Field(i).Name())
				}
			}
			if len(locks) == 0 {
				continue
			}
			for i := 0; i < st.NumFields(); i++ {
				f := st.Field(i)
				ft := f.Type().String()
				if ft == "sync.Mutex" || ft == "sync.RWMutex" {
					continue
				}
				for _, lk := range locks {
					rw := row{owner: name, field: f.Name(), lock: lk, pkg: rel}
					for _, fi := range p.funcsInPkg(rel) {
						if fi.Decl.Body == nil {
							continue
						}
						sites := classifyAccesses(fi, name, f.Name())
						for _, s := range sites {
							g := buildCFG(fi.Pkg.TypesInfo, s.bu.Body)
							mode := "R"
							if s.write {
								mode = "W"
							}
							h := lockHeldAt(g, fi.Pkg.TypesInfo, s.sel, lk, mode)
							if h {
								rw.held++
								if s.write {
									rw.wHeld++
								}
							} else {
								rw.unheld++
								if s.write {
									rw.wUnheld++
								}
								rw.unheldSites = append(rw.unheldSites, s.bu.Name)
							}
						}
					}
					if rw.held > 0 {
						rows = append(rows, rw)
					}
				}
			}
		}
	}
	sort.Slice(rows, func(i, j int) bool {
		return rows[i].pkg+rows[i].owner+rows[i].field < rows[j].pkg+rows[j].owner+rows[j].field
	})
	for _, rw := range rows {
		us := map[string]int{}
		for _, s := range rw.unheldSites {
			us[s[strings.LastIndex(s, "/")+1:]]++
		}
		var ul []string
		for k, v := range us {
			ul = append(ul, fmt.Sprintf("%s×%d", k, v))
		}
		sort.Strings(ul)
		fmt.Printf("INFER %s %s.%s by %s: held=%d (w%d) unheld=%d (w%d) %s\n", rw.pkg, rw.owner, rw.field, rw.lock, rw.held, rw.wHeld, rw.unheld, rw.wUnheld, strings.Join(ul, " "))
	}
	r.InfoOb("infer", "done", 0, "discovery only")
}

func init() {
	register("INFER-MEMO", func(r *Report, tier string) {
		ruleMemoKeyCoversInputs(r, "memo", 0, nil, "")
	})
}

func init() {
	register("INFER-BASELINE", func(r *Report, tier string) {})
}
