package main

import (
	"fmt"
	"go/ast"
	"go/constant"
	"go/token"
	"go/types"
	"sort"
	"strings"
)

func init() { register("C01", propC01) }

func propC01(r *Report, tier string) {
	r.Explanation = "Structural necessary conditions of last-write-wins contents: (a) the scorch segment introducer builds each carried-over segment's exclusion bitmap from its previous exclusion bitmap AND the batch ids looked up in that segment (optimistic map or recomputed on a miss), unconditionally; (b) every reader-side use of a raw segment's doc sets subtracts the exclusion bitmap (K8 call-site argument rule); (c) the new root's internal map = copy of old overridden by the batch ops with nil => delete; (d) one root swap per batch publishing the freshly built snapshot, populated before the swap; (e) upsidedown: back-index lookups and KV writes happen under the write mutex and the cached doc count changes only on the appeared/disappeared branches; (f) every stored-field type tag written by document.*Field.EncodedFieldType is decoded by both engines' Document(); (g) every id of a batch (updates and deletes) is forwarded to the obsoletion lookup; (h) both engines' Batch acknowledge a batch only on paths that consumed both op maps (documents and internal keys) or know the skipped one to be empty."
	r.NotCovered = "that DocNumbers/postings inside zapx are right; equality of stored field contents; equivalence across batch partitions; upsidedown row-diff arithmetic; KV store behaviour"
	in := findIntroducers(r.P)
	ruleSegmentIntroducerObsoletes(r, in)
	ruleIntroducerInternalMap(r, in)
	ruleSingleRootStore(r, in.Segment, "K5-single-publication")
	ruleMergeIntroducerRemap(r, in, "K5dep-merge-remap")
	ruleExclusionAtReadSites(r, "K8-exclusion-at-read-sites")
	ruleBatchIdsForwarded(r)
	ruleUpsidedownWriters(r)
	ruleUpsidedownDeleteKeys(r, "K8-upsidedown-delete-keys")
	ruleStoredTypeTags(r)
	ruleNilGuardProtectsItsSubject(r, "K12-nil-guard-subject", "index/upsidedown", "index/scorch")
	rulePersistIntroducerCarry(r, in, "K9b-persist-carry")
	ruleKVGetAbsenceIsNil(r, "K12-kv-get-absence-is-nil")
	ruleMergeUsingAlignment(r, "K14-merge-input-alignment")
	ruleFlushableAlignment(r, "K14-merge-input-alignment")
	ruleParallelSlicesResetTogether(r, "K14-parallel-slices-reset-together", "index/scorch", "index/upsidedown")
	ruleBatchConsumesAllOps(r, "K13-batch-consumes-all-ops")
	r.Floor("K5dep-obsoletes-union", 3)
	r.Floor("K8-exclusion-at-read-sites", 6)
	r.Floor("K5-upsidedown-count", 4)
	r.Floor("K11-stored-type-tags", 8)
}

// ruleExclusionAtReadSites (shared by C01/C02/C20): K8.
//   - every PostingsList/SynonymsList call in package scorch passes, as its
//     "except" argument, the .deleted field of the SegmentSnapshot the loop is
//     visiting (allow-list by function with reason);
//   - SegmentSnapshot.{Count,DocNumbers,DocNumbersLive,CountRoot} subtract
//     s.deleted from the raw segment answer.
func ruleExclusionAtReadSites(r *Report, rule string) {
	p := r.P
	allow := map[string]string{
		"index/scorch.(*cachedFieldDocs).prepareField": "uninverts all docs of a segment into a cache indexed by local doc number; consumers only look up live doc numbers",
	}
	for _, fi := range p.funcsInPkg(scorchPkg) {
		info := fi.Pkg.TypesInfo
		calls := callsMatching(info, fi.Decl.Body, func(f *types.Func) bool {
			if f.Name() != "PostingsList" && f.Name() != "SynonymsList" {
				return false
			}
			sig := f.Type().(*types.Signature)
			return sig.Recv() != nil && sig.Params().Len() == 3
		})
		for _, c := range calls {
			r.Fn(fi)
			construct := fi.Name + "/" + callee(info, c).Name() + ".except"
			if why, ok := allow[fi.Name]; ok {
				r.Allow(rule, construct, c.Pos(), why)
				continue
			}
			arg := c.Args[1]
			ok := isField(info, arg, "SegmentSnapshot", "deleted")
			detail := "the 'except' argument must be the visited SegmentSnapshot's .deleted bitmap, got " + exprStr(arg)
			if ok {
				// same loop element: the base of arg is the value variable of a
				// range over IndexSnapshot.segment whose key indexes the receiver
				ok = sameSegmentLoop(info, fi, c)
				if !ok {
					detail = "the .deleted bitmap passed does not belong to the segment whose dictionary is queried (index/loop mismatch)"
				}
			}
			r.Ob(rule, construct, c.Pos(), ok, detail)
		}
	}
	// SegmentSnapshot accessors
	type acc struct{ name, raw, sub string }
	for _, a := range []acc{
		{"index/scorch.(*SegmentSnapshot).Count", "Count", "GetCardinality"},
		{"index/scorch.(*SegmentSnapshot).DocNumbers", "DocNumbers", "AndNot"},
		{"index/scorch.(*SegmentSnapshot).DocNumbersLive", "Count", "AndNot"},
	} {
		fi := p.MustFunc(a.name)
		r.Fn(fi)
		info := fi.Pkg.TypesInfo
		d := newDeps(info, fi.Decl.Body)
		okAll := true
		nret := 0
		g := buildCFG(info, fi.Decl.Body)
		ast.Inspect(fi.Decl.Body, func(n ast.Node) bool {
			rs, ok := n.(*ast.ReturnStmt)
			if !ok || len(rs.Results) == 0 {
				return true
			}
			if isNilIdent(info, rs.Results[0]) {
				return true
			}
			nret++
			// a return taken only when there is nothing to subtract (deleted == nil) hands out the raw answer
			nothingDeleted := factMatch(g.GuardsOf(rs), func(fc Fact) bool {
				x, isEq, isNil := nilTest(info, fc.Expr)
				return fc.Tag == nil && isNil && isEq == fc.Truth && isField(info, x, "SegmentSnapshot", "deleted")
			})
			sl := d.SliceOfExpr(rs.Results[0])
			if nothingDeleted {
				if !sliceHasSuffix(sl, "."+a.raw) {
					okAll = false
				}
				return true
			}
			if !(sl["fld:SegmentSnapshot.deleted"] && sliceHasSuffix(sl, "."+a.sub) && sliceHasSuffix(sl, "."+a.raw)) {
				okAll = false
			}
			return true
		})
		// the subtraction must not be skipped except when deleted == nil
		for _, c := range callsMatching(info, fi.Decl.Body, func(f *types.Func) bool { return f.Name() == a.sub }) {
			for _, f := range g.GuardsOf(c) {
				if _, _, isNil := nilTest(info, f.Expr); !isNil {
					okAll = false
				}
			}
			// receiver / operand must involve s.deleted
			sl := d.SliceOfExpr(c)
			if !sl["fld:SegmentSnapshot.deleted"] {
				okAll = false
			}
		}
		r.Ob(rule, a.name+"/subtracts-deleted", fi.Decl.Pos(), okAll && nret > 0,
			"the returned value must be the raw segment's "+a.raw+"() with s.deleted subtracted ("+a.sub+"), skipped only when deleted == nil")
	}
	// CountRoot passes s.deleted to the nested segment and falls back to Count
	{
		fi := p.MustFunc("index/scorch.(*SegmentSnapshot).CountRoot")
		r.Fn(fi)
		info := fi.Pkg.TypesInfo
		ok := false
		for _, c := range callsMatching(info, fi.Decl.Body, func(f *types.Func) bool { return f.Name() == "CountRoot" }) {
			if len(c.Args) == 1 && isField(info, c.Args[0], "SegmentSnapshot", "deleted") {
				ok = true
			}
		}
		fallback := len(callsMatching(info, fi.Decl.Body, methodIs(scorchPkg, "SegmentSnapshot", "Count"))) > 0
		r.Ob(rule, fi.Name+"/passes-deleted", fi.Decl.Pos(), ok && fallback, "root-document count excludes s.deleted (nested) or falls back to the live Count()")
	}
	// IndexSnapshot doc-id readers go through the excluding accessors
	for _, nm := range []string{"index/scorch.(*IndexSnapshot).DocIDReaderAll", "index/scorch.(*IndexSnapshot).DocIDReaderOnly"} {
		fi := p.MustFunc(nm)
		r.Fn(fi)
		info := fi.Pkg.TypesInfo
		raw := callsMatching(info, fi.Decl.Body, func(f *types.Func) bool {
			if f.Name() != "DocNumbers" && f.Name() != "DocNumbersLive" {
				return false
			}
			return !methodIs(scorchPkg, "SegmentSnapshot", f.Name())(f)
		})
		good := callsMatching(info, fi.Decl.Body, func(f *types.Func) bool {
			return methodIs(scorchPkg, "SegmentSnapshot", "DocNumbers")(f) || methodIs(scorchPkg, "SegmentSnapshot", "DocNumbersLive")(f)
		})
		r.Ob(rule, nm+"/via-excluding-accessor", fi.Decl.Pos(), len(raw) == 0 && len(good) > 0, "doc-id readers obtain doc numbers through SegmentSnapshot accessors (which subtract .deleted), never from the raw segment")
	}
	// IndexSnapshot.DocCount sums CountRoot of SegmentSnapshot
	{
		fi := p.MustFunc("index/scorch.(*IndexSnapshot).DocCount")
		r.Fn(fi)
		info := fi.Pkg.TypesInfo
		d := newDeps(info, fi.Decl.Body)
		ok := false
		ast.Inspect(fi.Decl.Body, func(n ast.Node) bool {
			if rs, isRet := n.(*ast.ReturnStmt); isRet && len(rs.Results) > 0 {
				sl := d.SliceOfExpr(rs.Results[0])
				if sl["call:"+blevePath+"/index/scorch.(*SegmentSnapshot).CountRoot"] && sl["fld:IndexSnapshot.segment"] {
					ok = true
				}
			}
			return true
		})
		loops := loopsOverField(info, fi.Decl.Body, "IndexSnapshot", "segment") // range or index form
		r.Ob(rule, fi.Name+"/sums-live-root-counts", fi.Decl.Pos(), ok && loops == 1, "DocCount is the sum over all segments of the live root-document count")
	}
}

// sameSegmentLoop: call `recv[i].M(term, s.deleted, ...)` sits in a loop
// `for i, s := range X.segment` and recv is indexed by the same i.
func sameSegmentLoop(info *types.Info, fi *FuncInfo, c *ast.CallExpr) bool {
	arg := ast.Unparen(c.Args[1]).(*ast.SelectorExpr)
	base := objOf(info, arg.X)
	if base == nil {
		return false
	}
	for _, n := range enclosing(fi.Decl.Body, c) {
		rs, ok := n.(*ast.RangeStmt)
		if !ok || !isField(info, rs.X, "IndexSnapshot", "segment") {
			continue
		}
		if rs.Value == nil || objOf(info, rs.Value) != base {
			continue
		}
		// receiver of the call: sel.X possibly an IndexExpr with index == key
		sel, ok := ast.Unparen(c.Fun).(*ast.SelectorExpr)
		if !ok {
			return false
		}
		if ix, ok := ast.Unparen(sel.X).(*ast.IndexExpr); ok {
			return rs.Key != nil && objOf(info, ix.Index) == objOf(info, rs.Key)
		}
		// receiver is a local derived from s (e.g. dict := s.segment.Dictionary)
		return true
	}
	return false
}

// ruleBatchIdsForwarded: C01(g) — Scorch.Batch collects the id of EVERY
// IndexOps entry (update or delete) and hands that list to prepareSegment,
// which uses it for the optimistic lookup and stores it in the introduction.
func ruleBatchIdsForwarded(r *Report) {
	const rule = "K8-batch-ids-forwarded"
	p := r.P
	fi := p.MustFunc("index/scorch.(*Scorch).Batch")
	r.Fn(fi)
	info := fi.Pkg.TypesInfo
	prep := callsMatching(info, fi.Decl.Body, methodIs(scorchPkg, "Scorch", "prepareSegment"))
	if len(prep) != 1 {
		undecidedf("%s: expected one prepareSegment call, got %d", fi.Name, len(prep))
	}
	idsObj := objOf(info, prep[0].Args[1])
	g := buildCFG(info, fi.Decl.Body)
	ok := false
	var pos token.Pos = prep[0].Pos()
	for _, rs := range rangesOverField(info, fi.Decl.Body, "Batch", "IndexOps") {
		ast.Inspect(rs.Body, func(n ast.Node) bool {
			as, isAs := n.(*ast.AssignStmt)
			if !isAs || len(as.Lhs) != 1 || objOf(info, as.Lhs[0]) != idsObj || idsObj == nil {
				return true
			}
			c, isCall := as.Rhs[0].(*ast.CallExpr)
			if !isCall || calleeBuiltin(info, c) != "append" || len(c.Args) != 2 {
				return true
			}
			if objOf(info, c.Args[1]) != objOf(info, rs.Key) {
				return true
			}
			pos = as.Pos()
			// unconditional inside the loop
			if len(g.GuardsOf(as)) == len(g.GuardsOf(rs.X)) {
				ok = true
			}
			return true
		})
	}
	r.Ob(rule, fi.Name+"/ids=all-op-keys", pos, ok, "the id of every IndexOps entry (updates AND deletes) is appended unconditionally to the list passed to prepareSegment")
	// prepareSegment: ids -> introduction.ids and -> DocNumbers(ids) for every root segment
	ps := p.MustFunc("index/scorch.(*Scorch).prepareSegment")
	r.Fn(ps)
	pinfo := ps.Pkg.TypesInfo
	sig := ps.Obj.Type().(*types.Signature)
	var idsParam *types.Var
	for i := 0; i < sig.Params().Len(); i++ {
		if sig.Params().At(i).Type().String() == "[]string" {
			idsParam = sig.Params().At(i)
		}
	}
	if idsParam == nil {
		undecidedf("%s: no []string parameter", ps.Name)
	}
	stored := false
	ast.Inspect(ps.Decl.Body, func(n ast.Node) bool {
		if kv, isKV := n.(*ast.KeyValueExpr); isKV {
			if id, isID := kv.Key.(*ast.Ident); isID && id.Name == "ids" && objOf(pinfo, kv.Value) == idsParam {
				stored = true
			}
		}
		return true
	})
	for _, st := range storesToField(pinfo, ps.Decl.Body, "segmentIntroduction", "ids") {
		if objOf(pinfo, st.Rhs) == idsParam {
			stored = true
		}
	}
	r.Ob(rule, ps.Name+"/introduction.ids=ids", ps.Decl.Pos(), stored, "the introduction carries the batch's full id list (needed for the introducer's recomputation)")
	// optimistic loop: for every root segment, obsoletes[seg.id] = seg.segment.DocNumbers(ids)
	okLoop := false
	pg := buildCFG(pinfo, ps.Decl.Body)
	{
		d := newDeps(pinfo, ps.Decl.Body)
		ast.Inspect(ps.Decl.Body, func(n ast.Node) bool {
			as, isAs := n.(*ast.AssignStmt)
			if !isAs || len(as.Lhs) != 1 {
				return true
			}
			// inside a loop over the root's segments (range or index form)
			if loopOverFieldAround(pinfo, ps.Decl.Body, as, "IndexSnapshot", "segment") == nil {
				return true
			}
			ix, isIx := ast.Unparen(as.Lhs[0]).(*ast.IndexExpr)
			if !isIx {
				return true
			}
			// the map written is the introduction's obsoletes, or a local map that is stored into it
			isObs := isField(pinfo, ix.X, "segmentIntroduction", "obsoletes")
			if lm := objOf(pinfo, ix.X); lm != nil && !isObs {
				for _, st := range storesToField(pinfo, ps.Decl.Body, "segmentIntroduction", "obsoletes") {
					if st.Rhs != nil && objOf(pinfo, st.Rhs) == lm {
						isObs = true
					}
				}
				ast.Inspect(ps.Decl.Body, func(m ast.Node) bool {
					if kv, ok := m.(*ast.KeyValueExpr); ok {
						if id, ok := kv.Key.(*ast.Ident); ok && id.Name == "obsoletes" && objOf(pinfo, kv.Value) == lm {
							isObs = true
						}
					}
					return true
				})
			}
			if !isObs {
				return true
			}
			if !isField(pinfo, ix.Index, "SegmentSnapshot", "id") {
				return true
			}
			// the key is the id of the loop's own element: the range value, root.segment[i], or a local holding it
			if coll, _, okE := elemOfCollection(pinfo, ps.Decl.Body, resolveCopies(pinfo, ps.Decl.Body, ast.Unparen(ix.Index).(*ast.SelectorExpr).X)); !okE || !isField(pinfo, coll, "IndexSnapshot", "segment") {
				return true
			}
			sl := d.SliceOfExpr(as.Rhs[0])
			if sliceHasSuffix(sl, ".DocNumbers") && (sl[varKeyOf(idsParam)] || (stored && sl["fld:segmentIntroduction.ids"])) {
				// only error-exit guards allowed
				extra := false
				for _, f := range pg.RawGuardsOf(as) {
					if _, isNil, isErr := errNilFact(pinfo, f); !(isErr && isNil) {
						extra = true
					}
				}
				if !extra {
					okLoop = true
				}
			}
			return true
		})
	}
	r.Ob(rule, ps.Name+"/obsoletes[seg.id]=DocNumbers(ids)", ps.Decl.Pos(), okLoop, "for every segment of the root at prepare time the batch ids are looked up and recorded under that segment's id")
}

// ruleUpsidedownWriters: C01(e).
func ruleUpsidedownWriters(r *Report) {
	p := r.P
	const ud = "index/upsidedown"
	lockRule := "K5-upsidedown-write-lock"
	for _, nm := range []string{"Update", "Delete", "Batch", "SetInternal", "DeleteInternal"} {
		fi := p.MustFunc(ud + ".(*UpsideDownCouch)." + nm)
		r.Fn(fi)
		info := fi.Pkg.TypesInfo
		g := buildCFG(info, fi.Decl.Body)
		// the lock acquisition
		var lock *ast.CallExpr
		for _, c := range callsIn(fi.Decl.Body) {
			if ev, ok := lockSpec.Classify(info, c); ok && ev.Acquire && strings.HasSuffix(ev.Key, ".writeMutex:W") {
				lock = c
			}
		}
		if lock == nil {
			r.Ob(lockRule, fi.Name+"/writeMutex.Lock", fi.Decl.Pos(), false, "writer does not take the write mutex")
			continue
		}
		// deferred unlock (held to the end)
		deferred := false
		ast.Inspect(fi.Decl.Body, func(n ast.Node) bool {
			if ds, ok := n.(*ast.DeferStmt); ok {
				if ev, ok := lockSpec.Classify(info, ds.Call); ok && !ev.Acquire && strings.HasSuffix(ev.Key, ".writeMutex:W") {
					deferred = g.DominatesNode(lock, ds)
				}
			}
			return true
		})
		r.Ob(lockRule, fi.Name+"/held-until-return", lock.Pos(), deferred, "the write mutex is released only by a defer registered right after acquisition")
		// every store access (Reader/Writer of the KV store, backIndexRowForDoc, and calls
		// to the *WithAnalysis helper) is dominated by the Lock — closures: the go/func literal
		// that contains the access must itself be created after the Lock
		accesses := callsMatching(info, fi.Decl.Body, func(f *types.Func) bool {
			q := qname(f)
			return strings.HasSuffix(q, "upsidedown_store_api.(KVStore).Reader") || strings.HasSuffix(q, "upsidedown_store_api.(KVStore).Writer") ||
				q == blevePath+"/"+ud+".backIndexRowForDoc" || q == blevePath+"/"+ud+".(*UpsideDownCouch).UpdateWithAnalysis"
		})
		for _, c := range accesses {
			anchor := ast.Node(c)
			// lift to the outermost closure containing the call
			for _, anc := range enclosing(fi.Decl.Body, c) {
				if _, ok := anc.(*ast.FuncLit); ok {
					anchor = anc
					break
				}
			}
			ok := g.DominatesNode(lock, anchor)
			r.Ob(lockRule, fi.Name+"/"+callee(info, c).Name()+"-under-writeMutex", c.Pos(), ok, "KV access "+exprShort(c)+" must happen after writeMutex.Lock() (read-modify-write of the back index is not atomic otherwise)")
		}
	}
	// UpdateWithAnalysis is only called with the lock held
	{
		target := p.MustFunc(ud + ".(*UpsideDownCouch).UpdateWithAnalysis")
		n := 0
		for _, fi := range p.flist {
			if fi.Decl.Body == nil {
				continue
			}
			info := fi.Pkg.TypesInfo
			for _, c := range callsMatching(info, fi.Decl.Body, func(f *types.Func) bool { return f == target.Obj }) {
				n++
				g := buildCFG(info, innermostFuncBody(fi.Decl, c))
				r.Ob(lockRule, fi.Name+"/calls-UpdateWithAnalysis-locked", c.Pos(), lockHeldAt(g, info, c, "writeMutex", "W"), "UpdateWithAnalysis writes the KV store without locking; its caller must hold writeMutex")
			}
		}
		if n == 0 {
			undecidedf("no caller of UpdateWithAnalysis found")
		}
	}
	// docCount adjustments
	countRule := "K5-upsidedown-count"
	checkCount := func(fnName string, match func(info *types.Info, n ast.Node) (string, bool), want func(info *types.Info, facts []Fact) (bool, string)) {
		fi := p.MustFunc(fnName)
		r.Fn(fi)
		info := fi.Pkg.TypesInfo
		g := buildCFG(info, fi.Decl.Body)
		found := 0
		ast.Inspect(fi.Decl.Body, func(n ast.Node) bool {
			if _, isLit := n.(*ast.FuncLit); isLit {
				return false
			}
			label, ok := match(info, n)
			if !ok {
				return true
			}
			found++
			facts := g.GuardsOf(n)
			good, why := want(info, facts)
			r.Ob(countRule, fi.Name+"/"+label, n.Pos(), good, why+" (guards: "+factsString(facts)+")")
			return true
		})
		if found == 0 {
			r.Ob(countRule, fi.Name+"/count-adjustment-present", fi.Decl.Pos(), false, "expected doc-count adjustment not found")
		}
	}
	isDocCountIncDec := func(tok token.Token) func(info *types.Info, n ast.Node) (string, bool) {
		return func(info *types.Info, n ast.Node) (string, bool) {
			if s, ok := n.(*ast.IncDecStmt); ok && s.Tok == tok && isField(info, s.X, "UpsideDownCouch", "docCount") {
				return "docCount" + tok.String(), true
			}
			// `docCount += 1` / `docCount -= 1` (a shared adjust helper called with constants)
			if as, ok := n.(*ast.AssignStmt); ok && len(as.Lhs) == 1 && len(as.Rhs) == 1 && isField(info, as.Lhs[0], "UpsideDownCouch", "docCount") {
				if k, isC := intConst(info, as.Rhs[0]); isC && k == 1 {
					if (tok == token.INC && as.Tok == token.ADD_ASSIGN) || (tok == token.DEC && as.Tok == token.SUB_ASSIGN) {
						return "docCount" + tok.String(), true
					}
				}
			}
			return "", false
		}
	}
	errNil := func(info *types.Info, facts []Fact) bool {
		for _, f := range facts {
			if _, isNil, ok := errNilFact(info, f); ok && isNil {
				if t := info.TypeOf(nilTestOperand(info, f.Expr)); isErrorType(t) {
					return true
				}
			}
		}
		return false
	}
	// nil facts are matched by the ROLE of the tested value (its named type), not by its name:
	// "backIndexRow" = a *BackIndexRow, "doc" = the Document of a batch operation
	nilOf := func(info *types.Info, facts []Fact, role string, wantNil bool) bool {
		typeName := map[string]string{"backIndexRow": "BackIndexRow", "doc": "Document"}[role]
		for _, f := range facts {
			if _, isNil, ok := errNilFact(info, f); ok && isNil == wantNil {
				if nt := namedOf(info.TypeOf(nilTestOperand(info, f.Expr))); nt != nil && nt.Obj().Name() == typeName {
					return true
				}
			}
		}
		return false
	}
	checkCount(ud+".(*UpsideDownCouch).UpdateWithAnalysis", isDocCountIncDec(token.INC), func(info *types.Info, facts []Fact) (bool, string) {
		return errNil(info, facts) && nilOf(info, facts, "backIndexRow", true), "docCount++ only when the write succeeded and the document did not exist before (backIndexRow == nil)"
	})
	checkCount(ud+".(*UpsideDownCouch).Delete", isDocCountIncDec(token.DEC), func(info *types.Info, facts []Fact) (bool, string) {
		return errNil(info, facts) && nilOf(info, facts, "backIndexRow", false), "docCount-- only when the write succeeded and the document existed (backIndexRow != nil)"
	})
	batch := ud + ".(*UpsideDownCouch).Batch"
	// the two local counters by role: the variable added to / subtracted from udc.docCount
	counters := map[string]types.Object{}
	{
		bfi := p.MustFunc(batch)
		binfo := bfi.Pkg.TypesInfo
		ast.Inspect(bfi.Decl.Body, func(n ast.Node) bool {
			if as, ok := n.(*ast.AssignStmt); ok && len(as.Lhs) == 1 && len(as.Rhs) == 1 && isField(binfo, as.Lhs[0], "UpsideDownCouch", "docCount") {
				if o := objOf(binfo, as.Rhs[0]); o != nil {
					switch as.Tok {
					case token.ADD_ASSIGN:
						counters["docsAdded"] = o
					case token.SUB_ASSIGN:
						counters["docsDeleted"] = o
					}
				}
			}
			return true
		})
	}
	isLocalInc := func(role string) func(info *types.Info, n ast.Node) (string, bool) {
		return func(info *types.Info, n ast.Node) (string, bool) {
			if s, ok := n.(*ast.IncDecStmt); ok && s.Tok == token.INC {
				if o := objOf(info, s.X); o != nil && o == counters[role] {
					return role + "++", true
				}
			}
			return "", false
		}
	}
	checkCount(batch, isLocalInc("docsAdded"), func(info *types.Info, facts []Fact) (bool, string) {
		return nilOf(info, facts, "backIndexRow", true) && nilOf(info, facts, "doc", false), "docsAdded++ only for an update op (doc != nil) of an id with no back-index row"
	})
	checkCount(batch, isLocalInc("docsDeleted"), func(info *types.Info, facts []Fact) (bool, string) {
		return nilOf(info, facts, "backIndexRow", false) && nilOf(info, facts, "doc", true), "docsDeleted++ only for a delete op (doc == nil) of an id that has a back-index row"
	})
	checkCount(batch, func(info *types.Info, n ast.Node) (string, bool) {
		if as, ok := n.(*ast.AssignStmt); ok && len(as.Lhs) == 1 && isField(info, as.Lhs[0], "UpsideDownCouch", "docCount") {
			if _, ok := as.Rhs[0].(*ast.Ident); ok {
				want := map[token.Token]string{token.ADD_ASSIGN: "docsAdded", token.SUB_ASSIGN: "docsDeleted"}
				if role := want[as.Tok]; role != "" {
					return "docCount" + as.Tok.String() + role, true
				}
				return "docCount" + as.Tok.String() + "(UNEXPECTED-OPERATOR)", true
			}
		}
		return "", false
	}, func(info *types.Info, facts []Fact) (bool, string) {
		return errNil(info, facts), "the cached count is adjusted only after the batch was written successfully"
	})
	// both adjustments present with the right operators
	{
		fi := p.MustFunc(batch)
		info := fi.Pkg.TypesInfo
		have := map[string]bool{}
		ast.Inspect(fi.Decl.Body, func(n ast.Node) bool {
			if as, ok := n.(*ast.AssignStmt); ok && len(as.Lhs) == 1 && isField(info, as.Lhs[0], "UpsideDownCouch", "docCount") {
				if _, ok := as.Rhs[0].(*ast.Ident); ok {
					have[as.Tok.String()] = true
				}
			}
			return true
		})
		r.Ob(countRule, fi.Name+"/adds-added-subtracts-deleted", fi.Decl.Pos(), have["+="] && have["-="] && len(have) == 2 && counters["docsAdded"] != nil && counters["docsDeleted"] != nil && counters["docsAdded"] != counters["docsDeleted"], fmt.Sprintf("docCount is adjusted by `+= <added counter>` and `-= <deleted counter>` with two different local counters (which counter is which is decided by the guards of their ++ sites, checked above), found operators %v", keysSorted(have)))
	}
}

func keysSorted(m map[string]bool) []string {
	var ks []string
	for k := range m {
		ks = append(ks, k)
	}
	sort.Strings(ks)
	return ks
}

func nilTestOperand(info *types.Info, e ast.Expr) ast.Expr {
	x, _, _ := nilTest(info, e)
	return x
}

// ruleStoredTypeTags: C01(f) / K11.
func ruleStoredTypeTags(r *Report) {
	const rule = "K11-stored-type-tags"
	p := r.P
	doc := p.Pkg("document")
	// tags written: return constants of EncodedFieldType methods
	tags := map[string]string{} // tag -> type name
	for _, fi := range p.funcsInPkg("document") {
		if fi.Obj.Name() != "EncodedFieldType" {
			continue
		}
		ast.Inspect(fi.Decl.Body, func(n ast.Node) bool {
			if rs, ok := n.(*ast.ReturnStmt); ok && len(rs.Results) == 1 {
				if tv, ok := doc.TypesInfo.Types[rs.Results[0]]; ok && tv.Value != nil {
					if v, ok := constant.Int64Val(tv.Value); ok {
						sig := fi.Obj.Type().(*types.Signature)
						tags[string(rune(v))] = namedOf(sig.Recv().Type()).Obj().Name()
					}
				}
			}
			return true
		})
	}
	if len(tags) < 8 {
		undecidedf("only %d EncodedFieldType tags found", len(tags))
	}
	neverStored := map[string]string{
		"CompositeField":    "composite (_all) fields are never stored",
		"VectorField":       "vector fields are never stored",
		"VectorBase64Field": "vector fields are never stored",
		"SynonymField":      "synonym fields are never stored",
	}
	caseTags := func(fnName string, tagParam string) map[string]bool {
		fi := p.MustFunc(fnName)
		r.Fn(fi)
		info := fi.Pkg.TypesInfo
		out := map[string]bool{}
		ast.Inspect(fi.Decl.Body, func(n ast.Node) bool {
			sw, ok := n.(*ast.SwitchStmt)
			if !ok || sw.Tag == nil {
				return true
			}
			if t := info.TypeOf(sw.Tag); t == nil || t.String() != "byte" {
				return true
			}
			for _, c := range sw.Body.List {
				cc := c.(*ast.CaseClause)
				if len(cc.Body) == 0 {
					continue
				}
				for _, v := range cc.List {
					if tv, ok := info.Types[v]; ok && tv.Value != nil {
						if x, ok := constant.Int64Val(tv.Value); ok {
							out[string(rune(x))] = true
						}
					}
				}
			}
			return true
		})
		// table-driven spelling: a map literal keyed by the tag byte, indexed with the tag
		ast.Inspect(fi.Decl.Body, func(n ast.Node) bool {
			ix, ok := n.(*ast.IndexExpr)
			if !ok {
				return true
			}
			mt, isMap := info.TypeOf(ix.X).Underlying().(*types.Map)
			if !isMap || mt.Key().String() != "byte" {
				return true
			}
			holder := objOf(info, ix.X)
			if holder == nil {
				return true
			}
			var lit *ast.CompositeLit
			find := func(m ast.Node) bool {
				switch y := m.(type) {
				case *ast.ValueSpec:
					for i, nm := range y.Names {
						if info.Defs[nm] == holder && i < len(y.Values) {
							lit, _ = ast.Unparen(y.Values[i]).(*ast.CompositeLit)
						}
					}
				case *ast.AssignStmt:
					if len(y.Lhs) == 1 && len(y.Rhs) == 1 && objOf(info, y.Lhs[0]) == holder {
						lit, _ = ast.Unparen(y.Rhs[0]).(*ast.CompositeLit)
					}
				}
				return true
			}
			ast.Inspect(fi.Decl.Body, find)
			for _, file := range fi.Pkg.Syntax {
				for _, d := range file.Decls {
					if gd, ok := d.(*ast.GenDecl); ok && gd.Tok == token.VAR {
						ast.Inspect(gd, find)
					}
				}
			}
			if lit == nil {
				return true
			}
			for _, el := range lit.Elts {
				if kv, ok := el.(*ast.KeyValueExpr); ok {
					if tv, ok := info.Types[kv.Key]; ok && tv.Value != nil {
						if x, ok := constant.Int64Val(tv.Value); ok {
							out[string(rune(x))] = true
						}
					}
				}
			}
			return true
		})
		return out
	}
	scorchTags := caseTags("index/scorch.(*IndexSnapshot).Document", "typ")
	udTags := caseTags("index/upsidedown.decodeFieldType", "typ")
	var ks []string
	for t := range tags {
		ks = append(ks, t)
	}
	sort.Strings(ks)
	for _, t := range ks {
		tn := tags[t]
		if why, ok := neverStored[tn]; ok {
			r.Allow(rule, "tag-"+t+"/"+tn, token.NoPos, why)
			continue
		}
		r.Ob(rule, "scorch.Document/tag-"+t+"/"+tn, token.NoPos, scorchTags[t], "stored-field type tag '"+t+"' written by "+tn+".EncodedFieldType must be decoded by scorch IndexSnapshot.Document")
		if tn == "GeoShapeField" {
			r.Allow(rule, "upsidedown.decodeFieldType/tag-"+t+"/"+tn, token.NoPos, "geoshape fields are a scorch-only feature")
			continue
		}
		r.Ob(rule, "upsidedown.decodeFieldType/tag-"+t+"/"+tn, token.NoPos, udTags[t], "stored-field type tag '"+t+"' must be decoded by upsidedown decodeFieldType")
	}
}

// ruleUpsidedownDeleteKeys: the rows deleteSingle schedules for deletion are
// keyed by EVERY key component the back index recorded for them (a stored row
// of an array element is keyed by doc, field AND array positions; a term row
// by term, field and doc).  A key component left out leaves orphan rows that
// resurface when the id is re-created.
func ruleUpsidedownDeleteKeys(r *Report, rule string) {
	p := r.P
	fi := p.MustFunc("index/upsidedown.(*UpsideDownCouch).deleteSingle")
	r.Fn(fi)
	info := fi.Pkg.TypesInfo
	sig := fi.Obj.Type().(*types.Signature)
	idParam := sig.Params().At(0)
	d := newDeps(info, fi.Decl.Body)
	n := 0
	for _, spec := range []struct{ listField, ctor string }{{"storedEntries", "NewStoredRow"}, {"termsEntries", "NewTermFrequencyRow"}} {
		for _, rs := range rangesOverField(info, fi.Decl.Body, "BackIndexRow", spec.listField) {
			entry := objOf(info, rs.Value)
			if entry == nil {
				continue
			}
			et := entry.Type()
			if pt, ok := et.(*types.Pointer); ok {
				et = pt.Elem()
			}
			st, ok := et.Underlying().(*types.Struct)
			if !ok {
				continue
			}
			for _, c := range callsMatching(info, rs.Body, func(f *types.Func) bool { return f.Name() == spec.ctor }) {
				n++
				at := map[string]bool{}
				for _, a := range c.Args {
					for k := range d.SliceOfExpr(a) {
						at[k] = true
					}
				}
				var missing []string
				for i := 0; i < st.NumFields(); i++ {
					f := st.Field(i)
					if !f.Exported() || strings.HasPrefix(f.Name(), "XXX") {
						continue
					}
					if !at[varKeyOf(entry.(*types.Var))+"."+f.Name()] {
						missing = append(missing, f.Name())
					}
				}
				usesID := at[varKeyOf(idParam)]
				r.Ob(rule, fi.Name+"/"+spec.ctor+"-keyed-by-all-recorded-components", c.Pos(), len(missing) == 0 && usesID,
					fmt.Sprintf("the %s built for deletion must be keyed by the document id and every component the back-index entry records (missing: %v)", spec.ctor, missing))
			}
		}
	}
	if n < 2 {
		undecidedf("%s: delete-row constructors not found (%d)", fi.Name, n)
	}
	// the back index row itself is deleted too
	okSelf := false
	ast.Inspect(fi.Decl.Body, func(x ast.Node) bool {
		if c, ok := x.(*ast.CallExpr); ok && calleeBuiltin(info, c) == "append" && len(c.Args) == 2 && objOf(info, c.Args[1]) == sig.Params().At(1) {
			okSelf = true
		}
		return true
	})
	r.Ob(rule, fi.Name+"/back-index-row-deleted", fi.Decl.Pos(), okSelf, "the back-index row of the document is deleted together with the rows it lists")
}

// ruleBatchConsumesAllOps (K13): a batch carries two op maps - document ops and
// internal key/value ops.  An index's Batch method acknowledges the batch by
// returning without error; every path to such a return must have gone through
// a use of BOTH maps (ranging over it, or handing it to the code that applies
// it), unless the path's own conditions say that the map is empty.  A fast
// path that tests only one of the maps ("nothing to index") silently drops
// the other kind of operation.
func ruleBatchConsumesAllOps(r *Report, rule string) {
	p := r.P
	n := 0
	for _, name := range []string{"index/upsidedown.(*UpsideDownCouch).Batch", "index/scorch.(*Scorch).Batch"} {
		fi := p.MustFunc(name)
		r.Fn(fi)
		info := fi.Pkg.TypesInfo
		sig := fi.Obj.Type().(*types.Signature)
		var batch types.Object
		for i := 0; i < sig.Params().Len(); i++ {
			if nt := namedOf(sig.Params().At(i).Type()); nt != nil && nt.Obj().Name() == "Batch" {
				batch = sig.Params().At(i)
			}
		}
		if batch == nil {
			undecidedf("%s: no *index.Batch parameter", fi.Name)
		}
		g := buildCFG(info, fi.Decl.Body)
		for _, fld := range []string{"IndexOps", "InternalOps"} {
			// consuming uses: batch.<fld> anywhere except as the operand of len()
			var uses []ast.Node
			inLen := map[ast.Node]bool{}
			ast.Inspect(fi.Decl.Body, func(x ast.Node) bool {
				if c, ok := x.(*ast.CallExpr); ok && calleeBuiltin(info, c) == "len" && len(c.Args) == 1 {
					inLen[ast.Unparen(c.Args[0])] = true
				}
				return true
			})
			ast.Inspect(fi.Decl.Body, func(x ast.Node) bool {
				if _, isLit := x.(*ast.FuncLit); isLit {
					return false
				}
				if sel, ok := x.(*ast.SelectorExpr); ok && !inLen[sel] && objOf(info, sel.X) == batch && isField(info, sel, "Batch", fld) {
					uses = append(uses, sel)
				}
				return true
			})
			if len(uses) == 0 {
				r.Ob(rule, fi.Name+"/"+fld+"/consumed", fi.Decl.Pos(), false, "Batch never reads batch."+fld)
				continue
			}
			k := 0
			ast.Inspect(fi.Decl.Body, func(x ast.Node) bool {
				if _, isLit := x.(*ast.FuncLit); isLit {
					return false
				}
				rs, ok := x.(*ast.ReturnStmt)
				if !ok || !successReturn(info, g, fi, rs) {
					return true
				}
				if !g.entryReachesAvoiding(rs, uses) {
					return true
				}
				// acknowledged without having looked at the ops: only fine when known to be empty
				empty := factMatch(g.GuardsOf(rs), func(fc Fact) bool {
					be, isB := ast.Unparen(fc.Expr).(*ast.BinaryExpr)
					if !isB || fc.Tag != nil {
						return false
					}
					c, isCall := ast.Unparen(be.X).(*ast.CallExpr)
					if !isCall || calleeBuiltin(info, c) != "len" || len(c.Args) != 1 {
						return false
					}
					sel, isSel := ast.Unparen(c.Args[0]).(*ast.SelectorExpr)
					if !isSel || objOf(info, sel.X) != batch || !isField(info, sel, "Batch", fld) {
						return false
					}
					tv, has := info.Types[be.Y]
					if !has || tv.Value == nil || constant.Sign(tv.Value) != 0 {
						return false
					}
					return (be.Op == token.EQL && fc.Truth) || ((be.Op == token.NEQ || be.Op == token.GTR) && !fc.Truth)
				})
				n++
				r.Ob(rule, fmt.Sprintf("%s/%s/ack#%d-after-consuming", fi.Name, fld, k), rs.Pos(), empty, "the batch is acknowledged here on a path that never looked at batch."+fld+" and is not known to be empty: operations of that kind are dropped")
				k++
				return true
			})
			n++
			r.Ob(rule, fi.Name+"/"+fld+"/consumed", uses[0].Pos(), true, "batch."+fld+" is consumed on the way to every acknowledgement")
		}
	}
	if n < 4 {
		undecidedf("Batch methods not recognised")
	}
}
