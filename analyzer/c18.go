package main

import (
	"fmt"
	"go/ast"
	"go/constant"
	"go/token"
	"go/types"
	"strings"
)

func init() { register("C18", propC18) }

func propC18(r *Report, tier string) {
	r.Explanation = "Structural necessary conditions of 'geo point queries match exactly the points inside the shape': (a) K15 visitor value-completeness: a doc-value visitor of a geo filter must not stop decoding because of state it set on an earlier value when the verdict is computed afterwards from the values it accumulated (a document with several points is judged on all of them); (b) candidate terms that may contain outside points are always post-filtered on the decoded point: every searcher returned by the distance and polygon constructors is a FilteringSearcher over their filter, in the box constructor the boundary term set and the whole s2 path are wrapped; (c) date line: both split sites (searcher boxSearcher, GeoBoundingBoxQuery.Searcher) split exactly when bottom-right lon < top-left lon into two boxes joined by a disjunction with min 0, and every bounding-box call passes values of the right role (lon vs lat, min vs max) to each parameter; (d) K11 lat/lon role consistency of plain assignments in the geo rectangle code, and the indexer's GeoPrecisionStep object is the one the searcher derives its shifts from."
	r.NotCovered = "Morton coding round trip, rectangle/pole/haversine arithmetic, completeness of the cell enumeration, the s2 plugin's coverings, distance sort"
	ruleVisitorCompleteness(r, "K15-visitor-latch")
	ruleGeoPostFilter(r, "K5-geo-post-filter")
	ruleDateLineSplit(r, "K12-date-line-split")
	ruleLatLonRoles(r, "K11-lat-lon-roles")
	ruleGeoStepAgreement(r, "K11-geo-precision-step")
	ruleScratchResetBeforeVisit(r, "K5-scratch-reset-before-visit", "search/searcher")
	ruleFilteringWrappersFilterEveryResult(r, "K5-filter-wrapper-filters-every-result")
	ruleFullPrecisionDecodeNeedsShiftZero(r, "K11-decode-only-shift-zero", "search/searcher", "search/facet")
	ruleGeoPointTermsOneIndexer(r, "K12-geopoint-terms-one-indexer")
	ruleAxisDiscipline(r, "K11-axis-discipline", "geo", "search/searcher", "search/query", "search")
	r.Floor("K15-visitor-latch", 4)
	r.Floor("K5-geo-post-filter", 4)
	r.Floor("K12-date-line-split", 6)
	r.Floor("K11-lat-lon-roles", 2)
	r.Floor("K11-geo-precision-step", 2)
}

// ruleVisitorCompleteness (K15).
func ruleVisitorCompleteness(r *Report, rule string) {
	p := r.P
	n := 0
	for _, fi := range p.funcsInPkg(searcherPkg) {
		info := fi.Pkg.TypesInfo
		visits := callsMatching(info, fi.Decl.Body, func(f *types.Func) bool { return f.Name() == "VisitDocValues" })
		if len(visits) == 0 {
			continue
		}
		for _, v := range visits {
			if len(v.Args) != 2 {
				continue
			}
			// the visitor: a closure literal or a variable assigned one
			var lit *ast.FuncLit
			if l, ok := ast.Unparen(v.Args[1]).(*ast.FuncLit); ok {
				lit = l
			} else if obj := objOf(info, v.Args[1]); obj != nil {
				ast.Inspect(fi.Decl.Body, func(x ast.Node) bool {
					if as, ok := x.(*ast.AssignStmt); ok && len(as.Lhs) == 1 && len(as.Rhs) == 1 && objOf(info, as.Lhs[0]) == obj {
						if l, ok := as.Rhs[0].(*ast.FuncLit); ok {
							lit = l
						}
					}
					return true
				})
			}
			if lit == nil {
				continue
			}
			n++
			r.Fn(fi)
			// captured variables assigned by the closure
			assigned := map[types.Object]bool{}
			appended := map[types.Object]bool{}
			ast.Inspect(lit.Body, func(x ast.Node) bool {
				as, ok := x.(*ast.AssignStmt)
				if !ok {
					return true
				}
				for i, l := range as.Lhs {
					obj := objOf(info, l)
					if obj == nil || declaredWithin(info, lit, obj) {
						continue
					}
					assigned[obj] = true
					if i < len(as.Rhs) {
						if c, ok := as.Rhs[i].(*ast.CallExpr); ok && calleeBuiltin(info, c) == "append" {
							appended[obj] = true
						}
					}
				}
				return true
			})
			// early return controlled by a captured variable the closure assigns
			var latch types.Object
			for _, st := range lit.Body.List {
				is, ok := st.(*ast.IfStmt)
				if !ok {
					continue
				}
				onlyReturn := len(is.Body.List) == 1
				if onlyReturn {
					_, onlyReturn = is.Body.List[0].(*ast.ReturnStmt)
				}
				if !onlyReturn {
					continue
				}
				ast.Inspect(is.Cond, func(y ast.Node) bool {
					if id, ok := y.(*ast.Ident); ok && assigned[info.ObjectOf(id)] {
						latch = info.ObjectOf(id)
					}
					return true
				})
			}
			ok := true
			detail := "the visitor has no latch on its own earlier state"
			if latch != nil && len(appended) > 0 {
				// is an accumulator read after the visit (verdict computed later)?
				usedLater := false
				ast.Inspect(fi.Decl.Body, func(x ast.Node) bool {
					if id, isID := x.(*ast.Ident); isID && appended[info.Uses[id]] && id.Pos() > v.End() {
						usedLater = true
					}
					return true
				})
				if usedLater {
					ok = false
					detail = "the visitor returns early once `" + latch.Name() + "` is set (which it sets itself after decoding the first value) while the verdict is computed afterwards from the values it accumulates: later points of the document are never looked at"
				}
			} else if latch != nil {
				detail = "the latch `" + latch.Name() + "` is the verdict itself (nothing is accumulated for later): stopping after the first positive value is sound"
			}
			r.Ob(rule, fi.Name, lit.Pos(), ok, detail)
		}
	}
	if n < 4 {
		undecidedf("visitor rule matched %d doc-value visitors in %s", n, searcherPkg)
	}
}

func ruleGeoPostFilter(r *Report, rule string) {
	p := r.P
	type spec struct{ ctor, filter string }
	for _, s := range []spec{
		{searcherPkg + ".NewGeoPointDistanceSearcher", "buildDistFilter"},
		{searcherPkg + ".NewGeoBoundedPolygonSearcher", "buildPolygonFilter"},
	} {
		fi := p.MustFunc(s.ctor)
		r.Fn(fi)
		info := fi.Pkg.TypesInfo
		g := buildCFG(info, fi.Decl.Body)
		ok := true
		n := 0
		for _, rs := range returnsOf(fi.Decl.Body) {
			if !successReturn(info, g, fi, rs) || isNilIdent(info, rs.Results[0]) {
				continue
			}
			n++
			c, isCall := ast.Unparen(rs.Results[0]).(*ast.CallExpr)
			if !isCall {
				ok = false
				continue
			}
			f := callee(info, c)
			if f == nil || f.Name() != "NewFilteringSearcher" {
				ok = false
				continue
			}
			inner, isCall := ast.Unparen(c.Args[len(c.Args)-1]).(*ast.CallExpr)
			if !isCall || callee(info, inner) == nil || callee(info, inner).Name() != s.filter {
				ok = false
			}
		}
		r.Ob(rule, fi.Name+"/always-returns-FilteringSearcher("+s.filter+")", fi.Decl.Pos(), ok && n > 0, "candidate terms only bound the shape from outside; every searcher this constructor returns re-checks the decoded point with "+s.filter)
	}
	// box constructor
	fi := p.MustFunc(searcherPkg + ".NewGeoBoundingBoxSearcher")
	r.Fn(fi)
	info := fi.Pkg.TypesInfo
	d := newDeps(info, fi.Decl.Body)
	// which variable holds the on-boundary terms: first result of ComputeGeoRange
	var onB, notOnB types.Object
	ast.Inspect(fi.Decl.Body, func(x ast.Node) bool {
		as, ok := x.(*ast.AssignStmt)
		if !ok || len(as.Rhs) != 1 || len(as.Lhs) < 2 {
			return true
		}
		if c, ok := as.Rhs[0].(*ast.CallExpr); ok {
			if f := callee(info, c); f != nil && f.Name() == "ComputeGeoRange" {
				onB, notOnB = objOf(info, as.Lhs[0]), objOf(info, as.Lhs[1])
			}
		}
		return true
	})
	if onB == nil {
		undecidedf("%s: ComputeGeoRange results not found", fi.Name)
	}
	// every multi-term searcher built from the on-boundary terms is wrapped by a filtering searcher
	okWrap := false
	okS2 := false
	for _, c := range callsDeep(fi.Decl.Body) {
		f := callee(info, c)
		if f == nil || f.Name() != "NewFilteringSearcher" {
			continue
		}
		sl := d.SliceOfExpr(c.Args[1])
		if sl[varKeyOf(onB.(*types.Var))] {
			okWrap = true
		}
		if sliceHasSuffix(sl, ".GetQueryTokens") {
			okS2 = true
		}
		inner, isCall := ast.Unparen(c.Args[len(c.Args)-1]).(*ast.CallExpr)
		if !isCall || callee(info, inner) == nil || callee(info, inner).Name() != "buildRectFilter" {
			okWrap, okS2 = false, false
		}
	}
	r.Ob(rule, fi.Name+"/boundary-terms-filtered", fi.Decl.Pos(), okWrap, "the searcher over the on-boundary cell terms is wrapped in a FilteringSearcher(buildRectFilter)")
	r.Ob(rule, fi.Name+"/s2-path-filtered", fi.Decl.Pos(), okS2, "the s2 covering path is wrapped in a FilteringSearcher(buildRectFilter)")
	// the two term sets are not confused: the unfiltered searcher is built from the NOT-on-boundary set
	okSets := true
	for _, c := range callsDeep(fi.Decl.Body) {
		f := callee(info, c)
		if f == nil || f.Name() != "NewMultiTermSearcherBytes" {
			continue
		}
		usesOn := objOf(info, c.Args[2]) == onB
		usesNot := objOf(info, c.Args[2]) == notOnB
		wrapped := false
		// is its result (variable) later an argument of NewFilteringSearcher?
		for _, anc := range enclosing(fi.Decl.Body, c) {
			if as, ok := anc.(*ast.AssignStmt); ok {
				res := objOf(info, as.Lhs[0])
				for _, fc := range callsDeep(fi.Decl.Body) {
					if ff := callee(info, fc); ff != nil && ff.Name() == "NewFilteringSearcher" && objOf(info, fc.Args[1]) == res && res != nil {
						wrapped = true
					}
				}
			}
		}
		if usesOn && !wrapped {
			okSets = false
		}
		if !usesOn && !usesNot {
			okSets = false
		}
	}
	r.Ob(rule, fi.Name+"/only-interior-cells-unfiltered", fi.Decl.Pos(), okSets, "only the term set of cells lying wholly inside the box is searched without the point filter")
}

type geoRole struct{ axis, side string }

func roleOfName(name string) (geoRole, bool) {
	l := strings.ToLower(name)
	var g geoRole
	switch {
	case strings.Contains(l, "lon") && !strings.Contains(l, "lat"):
		g.axis = "lon"
	case strings.Contains(l, "lat") && !strings.Contains(l, "lon"):
		g.axis = "lat"
	default:
		return g, false
	}
	switch {
	case strings.HasPrefix(l, "min"):
		g.side = "min"
	case strings.HasPrefix(l, "max"):
		g.side = "max"
	case strings.HasPrefix(l, "topleft"):
		if g.axis == "lon" {
			g.side = "min"
		} else {
			g.side = "max"
		}
	case strings.HasPrefix(l, "bottomright"):
		if g.axis == "lon" {
			g.side = "max"
		} else {
			g.side = "min"
		}
	}
	return g, true
}

func roleOfArg(info *types.Info, e ast.Expr) (geoRole, bool) {
	e = ast.Unparen(e)
	if tv, ok := info.Types[e]; ok && tv.Value != nil {
		if f, ok := constant.Float64Val(constant.ToFloat(tv.Value)); ok {
			if f == -180 {
				return geoRole{"lon", "min"}, true
			}
			if f == 180 {
				return geoRole{"lon", "max"}, true
			}
		}
	}
	switch x := e.(type) {
	case *ast.Ident:
		return roleOfName(x.Name)
	case *ast.IndexExpr: // q.TopLeft[0] = lon, [1] = lat
		sel, ok := ast.Unparen(x.X).(*ast.SelectorExpr)
		if !ok {
			return geoRole{}, false
		}
		tv, ok := info.Types[x.Index]
		if !ok || tv.Value == nil {
			return geoRole{}, false
		}
		idx, _ := constant.Int64Val(tv.Value)
		axis := "lon"
		if idx == 1 {
			axis = "lat"
		}
		return roleOfName(sel.Sel.Name + axis)
	}
	return geoRole{}, false
}

func ruleDateLineSplit(r *Report, rule string) {
	p := r.P
	sites := []string{searcherPkg + ".boxSearcher", queryPkg + ".(*GeoBoundingBoxQuery).Searcher"}
	for _, nm := range sites {
		fi := p.MustFunc(nm)
		r.Fn(fi)
		info := fi.Pkg.TypesInfo
		g := buildCFG(info, fi.Decl.Body)
		calls := callsMatching(info, fi.Decl.Body, func(f *types.Func) bool { return f.Name() == "NewGeoBoundingBoxSearcher" })
		if len(calls) != 3 {
			r.Ob(rule, fi.Name+"/three-box-calls", fi.Decl.Pos(), false, fmt.Sprintf("expected 3 bounding-box calls (left half, right half, non-crossing), found %d", len(calls)))
			continue
		}
		tf := callee(info, calls[0])
		sig := tf.Type().(*types.Signature)
		// split condition
		var splitCondOK bool
		nSplit := 0
		for _, c := range calls {
			facts := g.GuardsOf(c)
			for _, f := range facts {
				be, ok := ast.Unparen(f.Expr).(*ast.BinaryExpr)
				if !ok || be.Op != token.LSS {
					continue
				}
				a, ok1 := roleOfArg(info, be.X)
				b, ok2 := roleOfArg(info, be.Y)
				if ok1 && ok2 && a == (geoRole{"lon", "max"}) && b == (geoRole{"lon", "min"}) {
					splitCondOK = true
					if f.Truth {
						nSplit++
					}
				}
			}
		}
		r.Ob(rule, fi.Name+"/split-iff-bottomRightLon<topLeftLon", fi.Decl.Pos(), splitCondOK && nSplit == 2, "the box is split in two exactly when its bottom-right longitude is smaller than its top-left longitude (it crosses the date line)")
		// role check of every call's four coordinates
		for i, c := range calls {
			bad := ""
			for k := 0; k < sig.Params().Len() && k < len(c.Args); k++ {
				pr, isGeo := roleOfName(sig.Params().At(k).Name())
				if !isGeo || pr.side == "" {
					continue
				}
				ar, ok := roleOfArg(info, c.Args[k])
				if !ok {
					bad = fmt.Sprintf("argument %s for parameter %s has no recognisable role", exprStr(c.Args[k]), sig.Params().At(k).Name())
					continue
				}
				if ar != pr {
					bad = fmt.Sprintf("parameter %s (%s/%s) receives %s (%s/%s)", sig.Params().At(k).Name(), pr.axis, pr.side, exprStr(c.Args[k]), ar.axis, ar.side)
				}
			}
			r.Ob(rule, fmt.Sprintf("%s/box-call-%d-roles", fi.Name, i+1), c.Pos(), bad == "", "each bounding-box call passes (minLon, minLat, maxLon, maxLat) = (west, south, east, north): "+bad)
		}
		// the halves use -180 and 180
		has := map[float64]bool{}
		for _, c := range calls {
			for _, a := range c.Args {
				if tv, ok := info.Types[a]; ok && tv.Value != nil {
					if f, ok := constant.Float64Val(constant.ToFloat(tv.Value)); ok {
						has[f] = true
					}
				}
			}
		}
		r.Ob(rule, fi.Name+"/halves-meet-at-the-date-line", fi.Decl.Pos(), has[-180] && has[180], "the two halves extend to -180 and +180")
		// joined by a disjunction with min 0
		okDisj := false
		for _, c := range callsDeep(fi.Decl.Body) {
			if f := callee(info, c); f != nil && f.Name() == "NewDisjunctionSearcher" && len(c.Args) >= 4 {
				if v, ok := constUint(info, c.Args[3]); ok && v == 0 {
					okDisj = true
				}
			}
		}
		r.Ob(rule, fi.Name+"/halves-joined-by-disjunction-min-0", fi.Decl.Pos(), okDisj, "a point in either half matches")
	}
	// the distance searcher builds its rectangle through boxSearcher
	ds := p.MustFunc(searcherPkg + ".NewGeoPointDistanceSearcher")
	r.Fn(ds)
	dinfo := ds.Pkg.TypesInfo
	okBox := false
	for _, c := range callsMatching(dinfo, ds.Decl.Body, func(f *types.Func) bool { return f.Name() == "boxSearcher" }) {
		sig := callee(dinfo, c).Type().(*types.Signature)
		okBox = true
		for k := 0; k < sig.Params().Len() && k < len(c.Args); k++ {
			pr, isGeo := roleOfName(sig.Params().At(k).Name())
			if !isGeo {
				continue
			}
			if ar, ok := roleOfArg(dinfo, c.Args[k]); !ok || ar != pr {
				okBox = false
			}
		}
	}
	r.Ob(rule, ds.Name+"/rectangle-through-boxSearcher", ds.Decl.Pos(), okBox, "the circle's bounding rectangle (which may cross the date line) is searched through boxSearcher with matching roles")
}

// ruleLatLonRoles: plain identifier-to-identifier assignments in the geo
// rectangle code never move a latitude-named value into a longitude-named
// variable or vice versa.
func ruleLatLonRoles(r *Report, rule string) {
	p := r.P
	n := 0
	for _, nm := range []string{"geo.RectFromPointDistance", "geo.BoundingBoxContains", "geo.RectIntersects", "geo.RectWithin"} {
		fi := p.Func(nm)
		if fi == nil {
			continue
		}
		r.Fn(fi)
		info := fi.Pkg.TypesInfo
		bad := ""
		cnt := 0
		ast.Inspect(fi.Decl.Body, func(x ast.Node) bool {
			as, ok := x.(*ast.AssignStmt)
			if !ok || len(as.Lhs) != len(as.Rhs) {
				return true
			}
			for i := range as.Lhs {
				l, ok1 := as.Lhs[i].(*ast.Ident)
				rr, ok2 := ast.Unparen(as.Rhs[i]).(*ast.Ident)
				if !ok1 || !ok2 {
					continue
				}
				lr, okL := roleOfName(l.Name)
				rrole, okR := roleOfName(rr.Name)
				if !okL || !okR {
					continue
				}
				cnt++
				if lr.axis != rrole.axis {
					bad = l.Name + " = " + rr.Name
				}
				if lr.side != "" && rrole.side != "" && lr.side != rrole.side {
					bad = l.Name + " = " + rr.Name
				}
			}
			return true
		})
		_ = info
		if cnt > 0 {
			n++
			r.Ob(rule, fi.Name+"/assignments-keep-axis-and-side", fi.Decl.Pos(), bad == "", "a plain assignment moves a value between variables of different geographic role: "+bad+" (latitude bounds are ±π/2, longitude bounds ±π)")
		}
	}
	// result order of RectFromPointDistance: (topLeftLon, topLeftLat, bottomRightLon, bottomRightLat) = (minLon, maxLat, maxLon, minLat)
	fi := p.MustFunc("geo.RectFromPointDistance")
	okRet := false
	for _, rs := range returnsOf(fi.Decl.Body) {
		if len(rs.Results) != 5 || isNilIdent(fi.Pkg.TypesInfo, rs.Results[4]) == false {
			continue
		}
		want := []geoRole{{"lon", "min"}, {"lat", "max"}, {"lon", "max"}, {"lat", "min"}}
		okRet = true
		for k := 0; k < 4; k++ {
			c, ok := ast.Unparen(rs.Results[k]).(*ast.CallExpr)
			if !ok || len(c.Args) != 1 {
				okRet = false
				continue
			}
			if ar, ok := roleOfArg(fi.Pkg.TypesInfo, c.Args[0]); !ok || ar != want[k] {
				okRet = false
			}
		}
	}
	n++
	r.Ob(rule, fi.Name+"/returns-(west,north,east,south)", fi.Decl.Pos(), okRet, "the rectangle is returned as (top-left lon, top-left lat, bottom-right lon, bottom-right lat) = (min lon, max lat, max lon, min lat)")
	if n < 2 {
		undecidedf("lat/lon role rule matched %d functions", n)
	}
}

func ruleGeoStepAgreement(r *Report, rule string) {
	p := r.P
	stepObj := p.Pkg("document").Types.Scope().Lookup("GeoPrecisionStep")
	if stepObj == nil {
		undecidedf("document.GeoPrecisionStep not found")
	}
	uses := map[string]int{}
	for _, pk := range []string{"document", searcherPkg} {
		for _, f := range p.Pkg(pk).Syntax {
			ast.Inspect(f, func(x ast.Node) bool {
				if id, ok := x.(*ast.Ident); ok && p.Pkg(pk).TypesInfo.Uses[id] == stepObj {
					uses[pk]++
				}
				return true
			})
		}
	}
	r.Ob(rule, "indexer/steps-by-GeoPrecisionStep", stepObj.Pos(), uses["document"] >= 2, "the geo point indexer emits terms at multiples of document.GeoPrecisionStep")
	r.Ob(rule, "searcher/derives-shifts-from-GeoPrecisionStep", stepObj.Pos(), uses[searcherPkg] >= 2, "the box searcher derives its maximum shift and its cell-alignment test from the same document.GeoPrecisionStep object")
}
