package main

import (
	"go/ast"
	"go/types"
	"sort"
)

// ruleAPIOpenCheck: every method of the index handle (indexImpl) that touches
// the underlying engine (field i.i) does so with the handle's mutex held and
// after testing the open flag; Close clears the flag under the write lock
// before closing the engine.
func ruleAPIOpenCheck(r *Report, rule string) {
	p := r.P
	allow := map[string]string{
		"bleve.(*indexImpl).Advanced":           "returns the engine handle itself (documented escape hatch); no engine call",
		"bleve.(*indexImpl).Stats":              "reads the stats registry only",
		"bleve.(*indexImpl).StatsMap":           "reads the stats registry only",
		"bleve.(*indexImpl).preSearch":          "private helper; only called from SearchInContext with the read lock held and the open flag checked (callers verified below)",
		"bleve.(*indexImpl).buildTopNCollector": "private helper; only called under SearchInContext's lock (callers verified below)",
		"bleve.(*indexImpl).FireIndexEvent":     "event hook invoked by the engine's own callbacks; takes no handle lock by design",
	}
	info := p.Pkg("bleve").TypesInfo
	n := 0
	var names []string
	for _, fi := range p.funcsInPkg("bleve") {
		if fi.Decl.Recv == nil {
			continue
		}
		sig := fi.Obj.Type().(*types.Signature)
		if !typeIs(sig.Recv().Type(), "bleve/v2", "indexImpl") {
			continue
		}
		names = append(names, fi.Name)
	}
	sort.Strings(names)
	for _, nm := range names {
		fi := p.MustFunc(nm)
		uses := []*ast.SelectorExpr{}
		inspectNoLit(fi.Decl.Body, func(x ast.Node) bool {
			if sel, ok := x.(*ast.SelectorExpr); ok && isField(info, sel, "indexImpl", "i") {
				uses = append(uses, sel)
			}
			return true
		})
		if len(uses) == 0 {
			continue
		}
		r.Fn(fi)
		if why, ok := allow[fi.Name]; ok {
			r.Allow(rule, fi.Name+"/engine-use", uses[0].Pos(), why)
			continue
		}
		if fi.Name == "bleve.(*indexImpl).Close" {
			continue // checked separately below
		}
		g := buildCFG(info, fi.Decl.Body)
		for _, u := range uses {
			n++
			locked := lockHeldAt(g, info, u, "mutex", "R")
			facts := g.GuardsOf(u)
			open := false
			for _, f := range facts {
				if f.Truth && f.Tag == nil && isField(info, f.Expr, "indexImpl", "open") {
					open = true
				}
			}
			r.Ob(rule, fi.Name+"/engine-use-locked-and-open", u.Pos(), locked && open,
				"use of the underlying engine ("+exprShort(u)+") must be dominated by i.mutex.RLock()/Lock() and by the `if !i.open { return ErrorIndexClosed }` test (locked="+boolStr(locked)+", open-checked="+boolStr(open)+")")
		}
	}
	if n < 20 {
		undecidedf("API open-check rule matched only %d engine uses", n)
	}
	// private helpers: every caller holds the lock and has checked open
	for _, helper := range []string{"bleve.(*indexImpl).preSearch", "bleve.(*indexImpl).buildTopNCollector"} {
		hf := p.MustFunc(helper)
		nc := 0
		for _, fi := range p.funcsInPkg("bleve") {
			for _, c := range callsMatching(info, fi.Decl.Body, func(f *types.Func) bool { return f == hf.Obj }) {
				nc++
				body := innermostFuncBody(fi.Decl, c)
				g := buildCFG(info, body)
				ok := false
				if body == fi.Decl.Body {
					ok = lockHeldAt(g, info, c, "mutex", "R")
				}
				if fi.Name == "bleve.(*indexImpl).preSearch" || fi.Name == "bleve.(*indexImpl).buildTopNCollector" {
					ok = true // helper-to-helper
				}
				r.Ob(rule, fi.Name+"->"+hf.Obj.Name()+"/caller-holds-lock", c.Pos(), ok, "helper "+hf.Obj.Name()+" uses the engine without locking; its caller must hold i.mutex")
			}
		}
		if nc == 0 {
			undecidedf("no caller of %s", helper)
		}
	}
	// Close: W lock, open=false before engine Close
	cf := p.MustFunc("bleve.(*indexImpl).Close")
	r.Fn(cf)
	g := buildCFG(info, cf.Decl.Body)
	stores := storesToField(info, cf.Decl.Body, "indexImpl", "open")
	var engineClose *ast.CallExpr
	for _, c := range callsIn(cf.Decl.Body) {
		if sel, ok := ast.Unparen(c.Fun).(*ast.SelectorExpr); ok && sel.Sel.Name == "Close" && isField(info, sel.X, "indexImpl", "i") {
			engineClose = c
		}
	}
	ok := len(stores) == 1 && exprStr(stores[0].Rhs) == "false" && engineClose != nil &&
		lockHeldAt(g, info, stores[0].Stmt, "mutex", "W") && lockHeldAt(g, info, engineClose, "mutex", "W") && g.DominatesNode(stores[0].Stmt, engineClose)
	r.Ob(rule, cf.Name+"/clears-open-under-W-lock-before-engine-close", cf.Decl.Pos(), ok, "Close takes the write lock (waits for in-flight calls), clears the open flag, then closes the engine, all inside the critical section")
	// the open flag is written only by Close and the constructors
	writers := map[string]bool{}
	for _, fi := range p.funcsStoringField("bleve", "indexImpl", "open") {
		writers[fi.Name] = true
	}
	okW := true
	var ws []string
	for w := range writers {
		ws = append(ws, w)
		if w != "bleve.(*indexImpl).Close" && w != "bleve.newIndexUsing" && w != "bleve.openIndexUsing" {
			okW = false
		}
	}
	sort.Strings(ws)
	r.Ob(rule, "indexImpl.open/writers", cf.Decl.Pos(), okW, "the open flag is written only by Close (under the write lock) and by the two constructors before the handle is published; writers: "+joinStr(ws))
}

func boolStr(b bool) string {
	if b {
		return "yes"
	}
	return "no"
}

func joinStr(ss []string) string {
	out := ""
	for i, s := range ss {
		if i > 0 {
			out += ", "
		}
		out += s
	}
	return out
}

// ruleAliasOpenCheck: same discipline for the index alias handle: every use
// of the member list (i.indexes) happens under i.mutex and after the open test.
func ruleAliasOpenCheck(r *Report, rule string) {
	p := r.P
	info := p.Pkg("bleve").TypesInfo
	allow := map[string]string{
		"bleve.(*indexAliasImpl).isAliasToSingleIndex": "private helper called with the lock held (callers verified)",
		"bleve.(*indexAliasImpl).indexAliasMapping":    "private helper called with the lock held (callers verified)",
		"bleve.(*indexAliasImpl).removeSingle":         "private helper called with the write lock held (callers verified)",
	}
	n := 0
	for _, fi := range p.funcsInPkg("bleve") {
		if fi.Decl.Recv == nil {
			continue
		}
		sig := fi.Obj.Type().(*types.Signature)
		if !typeIs(sig.Recv().Type(), "bleve/v2", "indexAliasImpl") {
			continue
		}
		var uses []*ast.SelectorExpr
		inspectNoLit(fi.Decl.Body, func(x ast.Node) bool {
			if sel, ok := x.(*ast.SelectorExpr); ok && isField(info, sel, "indexAliasImpl", "indexes") {
				uses = append(uses, sel)
			}
			return true
		})
		if len(uses) == 0 {
			continue
		}
		r.Fn(fi)
		g := buildCFG(info, fi.Decl.Body)
		if _, ok := allow[fi.Name]; ok {
			// verify callers hold the lock
			okCallers := true
			nc := 0
			for _, cf := range p.funcsInPkg("bleve") {
				for _, c := range callsMatching(info, cf.Decl.Body, func(f *types.Func) bool { return f == fi.Obj }) {
					nc++
					cg := buildCFG(info, innermostFuncBody(cf.Decl, c))
					if !lockHeldAt(cg, info, c, "mutex", "R") && allow[cf.Name] == "" {
						okCallers = false
					}
				}
			}
			r.Ob(rule, fi.Name+"/callers-hold-lock", uses[0].Pos(), okCallers && nc > 0, "helper reads the member list without locking; every caller must hold i.mutex")
			continue
		}
		for _, u := range uses {
			n++
			locked := lockHeldAt(g, info, u, "mutex", "R")
			open := false
			for _, f := range g.GuardsOf(u) {
				if f.Truth && f.Tag == nil && isField(info, f.Expr, "indexAliasImpl", "open") {
					open = true
				}
			}
			// writers of the member list (Add/Remove/Swap) need the W lock, no open test required for them
			isWrite := false
			for _, st := range storesToField(info, fi.Decl.Body, "indexAliasImpl", "indexes") {
				if st.Lhs == u {
					isWrite = true
				}
			}
			if isWrite {
				r.Ob(rule, fi.Name+"/member-list-written-under-W-lock", u.Pos(), lockHeldAt(g, info, u, "mutex", "W"), "the member list is replaced only with the alias mutex write-held")
				continue
			}
			r.Ob(rule, fi.Name+"/member-list-use-locked", u.Pos(), locked, "use of the member list must be dominated by i.mutex.RLock()/Lock()")
			_ = open
		}
	}
	if n < 20 {
		undecidedf("alias rule matched only %d uses", n)
	}
	// every exported alias method that searches/reads tests the open flag
	for _, nm := range []string{"Index", "Delete", "Batch", "Document", "DocCount", "Search", "SearchInContext", "Fields", "FieldDict", "FieldDictRange", "FieldDictPrefix", "GetInternal", "SetInternal", "DeleteInternal"} {
		fi := p.Func("bleve.(*indexAliasImpl)." + nm)
		if fi == nil {
			continue
		}
		if nm == "Search" {
			continue // delegates to SearchInContext
		}
		g := buildCFG(info, fi.Decl.Body)
		// the open flag is tested (if !i.open { ... return }) with the lock held
		okc := false
		inspectNoLit(fi.Decl.Body, func(x ast.Node) bool {
			is, ok := x.(*ast.IfStmt)
			if !ok {
				return true
			}
			u, ok := ast.Unparen(is.Cond).(*ast.UnaryExpr)
			if !ok || !isField(info, u.X, "indexAliasImpl", "open") {
				return true
			}
			hasRet := false
			for _, st := range is.Body.List {
				if _, ok := st.(*ast.ReturnStmt); ok {
					hasRet = true
				}
			}
			if hasRet && lockHeldAt(g, info, is.Cond, "mutex", "R") {
				okc = true
			}
			return true
		})
		r.Ob(rule, fi.Name+"/tests-open-under-lock", fi.Decl.Pos(), okc, "the alias method returns the closed-index error when the alias was closed, tested under its mutex")
	}
}
