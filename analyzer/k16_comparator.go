package main

import (
	"fmt"
	"go/ast"
	"go/constant"
	"go/token"
	"go/types"
)

// K16: finite abstract interpretation of hit comparators.  The two compared
// DocumentMatch values are abstracted to the relation (<,=,>) of each compared
// field pair; the comparator's AST is executed over that abstraction together
// with concrete values for the small integer temporaries and the per-key
// flags.  The whole space is enumerated (exhaustive).

type rel int

const (
	relLT rel = -1
	relEQ rel = 0
	relGT rel = 1
)

type cmpEnv struct {
	info    *types.Info
	i, j    types.Object // the two *DocumentMatch parameters
	scoring []bool       // cachedScoring per key
	desc    []bool       // cachedDesc per key
	nkeys   int
	score   rel   // relation of i.Score vs j.Score
	keys    []rel // relation of i.Sort[x] vs j.Sort[x]
	hit     rel   // relation of i.HitNumber vs j.HitNumber
	ints    map[types.Object]int
	alias   map[types.Object]ast.Expr     // iVal := i.Sort[x]
	flagArr map[types.Object]string       // parameter object -> "scoring"/"desc"
	rangeOf types.Object                  // the `so` receiver being ranged
	funcs   map[*types.Func]*ast.FuncDecl // same-package functions, for helper calls
	depth   int
	roots   map[types.Object]types.Object // helper parameter -> the comparator's own match parameter it was given
	bools   map[types.Object]bool         // helper boolean parameter -> value
}

func (e *cmpEnv) rootOf(o types.Object) types.Object {
	for hop := 0; hop < 4; hop++ {
		r, ok := e.roots[o]
		if !ok {
			break
		}
		o = r
	}
	return o
}

type ctrl int

const (
	ctrlNext ctrl = iota
	ctrlContinue
	ctrlBreak
	ctrlReturn
)

type cmpAbort struct{ msg string }

func (e *cmpEnv) fail(format string, args ...interface{}) {
	panic(cmpAbort{fmt.Sprintf(format, args...)})
}

// side classifies an expression as (root parameter, field kind, key index).
func (e *cmpEnv) side(x ast.Expr) (root types.Object, kind string, key int, ok bool) {
	x = ast.Unparen(x)
	if id, isID := x.(*ast.Ident); isID {
		if a, has := e.alias[e.info.ObjectOf(id)]; has {
			return e.side(a)
		}
		return nil, "", 0, false
	}
	if ix, isIx := x.(*ast.IndexExpr); isIx {
		sel, isSel := ast.Unparen(ix.X).(*ast.SelectorExpr)
		if !isSel || sel.Sel.Name != "Sort" {
			return nil, "", 0, false
		}
		k, okK := e.intOf(ix.Index)
		if !okK {
			return nil, "", 0, false
		}
		return e.rootOf(e.info.ObjectOf(baseIdent(sel.X))), "Sort", k, true
	}
	if sel, isSel := x.(*ast.SelectorExpr); isSel {
		base := baseIdent(sel.X)
		if base == nil {
			return nil, "", 0, false
		}
		switch sel.Sel.Name {
		case "Score", "HitNumber":
			return e.rootOf(e.info.ObjectOf(base)), sel.Sel.Name, 0, true
		}
	}
	return nil, "", 0, false
}

func (e *cmpEnv) intOf(x ast.Expr) (int, bool) {
	x = ast.Unparen(x)
	if tv, ok := e.info.Types[x]; ok && tv.Value != nil && tv.Value.Kind() == constant.Int {
		v, _ := constant.Int64Val(tv.Value)
		return int(v), true
	}
	switch y := x.(type) {
	case *ast.Ident:
		v, ok := e.ints[e.info.ObjectOf(y)]
		return v, ok
	case *ast.UnaryExpr:
		if y.Op == token.SUB {
			v, ok := e.intOf(y.X)
			return -v, ok
		}
	case *ast.CallExpr:
		// the library three-way comparisons of one field pair: cmp.Compare(i.F, j.F), strings.Compare, bytes.Compare
		if f := callee(e.info, y); f != nil && f.Pkg() != nil && f.Name() == "Compare" && len(y.Args) == 2 {
			switch f.Pkg().Path() {
			case "cmp", "strings", "bytes":
				if r, ok := e.pairRel(y.Args[0], y.Args[1]); ok {
					return int(r), true
				}
			}
		}
		return e.call(y)
	}
	return 0, false
}

// pairRel: the order of x and y when they are the same field of the two matches.
func (e *cmpEnv) pairRel(x, y ast.Expr) (rel, bool) {
	ra, ka, xa, ok1 := e.side(x)
	rb, kb, xb, ok2 := e.side(y)
	if !(ok1 && ok2 && ka == kb && xa == xb && ra != rb && (ra == e.i || ra == e.j) && (rb == e.i || rb == e.j)) {
		return 0, false
	}
	var r rel
	switch ka {
	case "Score":
		r = e.score
	case "HitNumber":
		r = e.hit
	case "Sort":
		if xa >= e.nkeys {
			e.fail("sort key index %d out of range", xa)
		}
		r = e.keys[xa]
	}
	if ra == e.j {
		r = -r
	}
	return r, true
}

// call evaluates a helper of the same package (a three-way compare extracted
// from the comparator): parameters are bound to the caller's argument
// expressions (field pairs) or integer values.
func (e *cmpEnv) call(c *ast.CallExpr) (int, bool) {
	f := callee(e.info, c)
	if f == nil || e.funcs[f] == nil || e.depth > 4 {
		return 0, false
	}
	fd := e.funcs[f]
	if fd.Body == nil || fd.Recv != nil {
		return 0, false
	}
	k := 0
	savedInts, savedAlias := map[types.Object]int{}, map[types.Object]ast.Expr{}
	var bound []types.Object
	var boundRoots []types.Object
	for _, fl := range fd.Type.Params.List {
		for _, nm := range fl.Names {
			if k >= len(c.Args) {
				return 0, false
			}
			po := e.info.Defs[nm]
			arg := c.Args[k]
			k++
			if po == nil {
				continue
			}
			bound = append(bound, po)
			if v, ok := e.ints[po]; ok {
				savedInts[po] = v
			}
			if a, ok := e.alias[po]; ok {
				savedAlias[po] = a
			}
			delete(e.ints, po)
			delete(e.alias, po)
			if ao := e.rootOf(objOf(e.info, arg)); ao != nil && (ao == e.i || ao == e.j) {
				if e.roots == nil {
					e.roots = map[types.Object]types.Object{}
				}
				e.roots[po] = ao
				boundRoots = append(boundRoots, po)
			} else if b, isB := po.Type().Underlying().(*types.Basic); isB && b.Kind() == types.Bool {
				if e.bools == nil {
					e.bools = map[types.Object]bool{}
				}
				e.bools[po] = e.boolOf(arg)
			} else if v, ok := e.intOf(arg); ok {
				e.ints[po] = v
			} else if _, _, _, ok := e.side(arg); ok {
				// resolve through the caller's aliases now, so that the binding does not depend on the callee's names
				res := arg
				for hop := 0; hop < 4; hop++ {
					id, isID := ast.Unparen(res).(*ast.Ident)
					if !isID {
						break
					}
					a, has := e.alias[e.info.ObjectOf(id)]
					if !has {
						break
					}
					res = a
				}
				e.alias[po] = res
			} else {
				return 0, false
			}
		}
	}
	e.depth++
	ctl, v := e.exec(fd.Body.List)
	e.depth--
	for _, po := range boundRoots {
		delete(e.roots, po)
	}
	for _, po := range bound {
		delete(e.ints, po)
		delete(e.alias, po)
		if sv, ok := savedInts[po]; ok {
			e.ints[po] = sv
		}
		if sa, ok := savedAlias[po]; ok {
			e.alias[po] = sa
		}
	}
	if ctl != ctrlReturn {
		return 0, false
	}
	return v, true
}

func applyRel(op token.Token, r rel) bool {
	switch op {
	case token.LSS:
		return r == relLT
	case token.GTR:
		return r == relGT
	case token.LEQ:
		return r != relGT
	case token.GEQ:
		return r != relLT
	case token.EQL:
		return r == relEQ
	case token.NEQ:
		return r != relEQ
	}
	return false
}

func (e *cmpEnv) boolOf(x ast.Expr) bool {
	x = ast.Unparen(x)
	switch y := x.(type) {
	case *ast.Ident:
		if v, ok := e.bools[e.info.ObjectOf(y)]; ok {
			return v
		}
	case *ast.UnaryExpr:
		if y.Op == token.NOT {
			return !e.boolOf(y.X)
		}
	case *ast.IndexExpr:
		// cachedScoring[x] / cachedDesc[x]
		arr := e.flagArr[e.info.ObjectOf(baseIdent(y.X))]
		k, ok := e.intOf(y.Index)
		if arr == "" || !ok || k >= e.nkeys {
			e.fail("flag expression %s not understood", exprStr(x))
		}
		if arr == "scoring" {
			return e.scoring[k]
		}
		return e.desc[k]
	case *ast.BinaryExpr:
		switch y.Op {
		case token.LAND:
			return e.boolOf(y.X) && e.boolOf(y.Y)
		case token.LOR:
			return e.boolOf(y.X) || e.boolOf(y.Y)
		}
		// integer comparison of temporaries
		if a, ok1 := e.intOf(y.X); ok1 {
			if b, ok2 := e.intOf(y.Y); ok2 {
				r := relEQ
				if a < b {
					r = relLT
				} else if a > b {
					r = relGT
				}
				return applyRel(y.Op, r)
			}
		}
		// comparison of a field pair of the two matches
		ra, ka, xa, ok1 := e.side(y.X)
		rb, kb, xb, ok2 := e.side(y.Y)
		if ok1 && ok2 && ka == kb && xa == xb && ra != rb && (ra == e.i || ra == e.j) && (rb == e.i || rb == e.j) {
			var r rel
			switch ka {
			case "Score":
				r = e.score
			case "HitNumber":
				r = e.hit
			case "Sort":
				if xa >= e.nkeys {
					e.fail("sort key index %d out of range", xa)
				}
				r = e.keys[xa]
			}
			if ra == e.j { // j.F op i.F
				r = -r
			}
			return applyRel(y.Op, r)
		}
	}
	e.fail("condition %s not understood", exprStr(x))
	return false
}

func (e *cmpEnv) exec(stmts []ast.Stmt) (ctrl, int) {
	for _, s := range stmts {
		if c, v := e.stmt(s); c != ctrlNext {
			return c, v
		}
	}
	return ctrlNext, 0
}

func (e *cmpEnv) stmt(s ast.Stmt) (ctrl, int) {
	switch x := s.(type) {
	case *ast.BlockStmt:
		return e.exec(x.List)
	case *ast.ReturnStmt:
		if len(x.Results) != 1 {
			e.fail("return with %d results", len(x.Results))
		}
		v, ok := e.intOf(x.Results[0])
		if !ok {
			e.fail("return value %s not understood", exprStr(x.Results[0]))
		}
		return ctrlReturn, v
	case *ast.BranchStmt:
		if x.Tok == token.CONTINUE {
			return ctrlContinue, 0
		}
		if x.Tok == token.BREAK {
			return ctrlBreak, 0
		}
		e.fail("branch statement %s", x.Tok)
	case *ast.AssignStmt:
		if len(x.Lhs) != 1 || len(x.Rhs) != 1 {
			e.fail("assignment %s not understood", exprStr(x.Lhs[0]))
		}
		obj := e.info.ObjectOf(x.Lhs[0].(*ast.Ident))
		if v, ok := e.intOf(x.Rhs[0]); ok {
			e.ints[obj] = v
			return ctrlNext, 0
		}
		if _, _, _, ok := e.side(x.Rhs[0]); ok {
			e.alias[obj] = x.Rhs[0]
			return ctrlNext, 0
		}
		e.fail("assignment of %s not understood", exprStr(x.Rhs[0]))
	case *ast.IfStmt:
		if x.Init != nil {
			if c, v := e.stmt(x.Init); c != ctrlNext {
				return c, v
			}
		}
		if e.boolOf(x.Cond) {
			return e.stmt(x.Body)
		} else if x.Else != nil {
			return e.stmt(x.Else)
		}
		return ctrlNext, 0
	case *ast.RangeStmt:
		if e.info.ObjectOf(baseIdent(x.X)) != e.rangeOf || x.Key == nil {
			e.fail("range over %s not understood", exprStr(x.X))
		}
		kobj := e.info.ObjectOf(x.Key.(*ast.Ident))
		for k := 0; k < e.nkeys; k++ {
			e.ints[kobj] = k
			c, v := e.stmt(x.Body)
			if c == ctrlReturn {
				return c, v
			}
			if c == ctrlBreak {
				break
			}
		}
		return ctrlNext, 0
	case *ast.ForStmt:
		// `for x := 0; x < len(so); x++ {..}` over the sort keys
		init, okI := x.Init.(*ast.AssignStmt)
		post, okP := x.Post.(*ast.IncDecStmt)
		if !okI || !okP || len(init.Lhs) != 1 || len(init.Rhs) != 1 || post.Tok != token.INC || x.Cond == nil {
			e.fail("for statement not understood")
		}
		kobj := e.info.ObjectOf(init.Lhs[0].(*ast.Ident))
		start, ok := e.intOf(init.Rhs[0])
		if !ok || kobj == nil {
			e.fail("for statement not understood")
		}
		cond, okC := ast.Unparen(x.Cond).(*ast.BinaryExpr)
		if !okC || cond.Op != token.LSS || e.info.ObjectOf(baseIdent(cond.X)) != kobj {
			e.fail("loop condition %s not understood", exprStr(x.Cond))
		}
		bound := -1
		if c, isCall := ast.Unparen(cond.Y).(*ast.CallExpr); isCall && calleeBuiltin(e.info, c) == "len" && len(c.Args) == 1 {
			bound = e.nkeys // the sort order, or a slice parallel to it
		} else if v, ok := e.intOf(cond.Y); ok {
			bound = v
		}
		if bound < 0 {
			e.fail("loop bound %s not understood", exprStr(cond.Y))
		}
		for k := start; k < bound && k < e.nkeys; k++ {
			e.ints[kobj] = k
			c, v := e.stmt(x.Body)
			if c == ctrlReturn {
				return c, v
			}
			if c == ctrlBreak {
				break
			}
		}
		return ctrlNext, 0
	case *ast.SwitchStmt:
		if x.Tag != nil {
			e.fail("tagged switch not understood")
		}
		if x.Init != nil {
			if c, v := e.stmt(x.Init); c != ctrlNext {
				return c, v
			}
		}
		var deflt *ast.CaseClause
		for _, cs := range x.Body.List {
			cc := cs.(*ast.CaseClause)
			if cc.List == nil {
				deflt = cc
				continue
			}
			hit := false
			for _, cond := range cc.List {
				if e.boolOf(cond) {
					hit = true
				}
			}
			if hit {
				c, v := e.exec(cc.Body)
				if c == ctrlBreak {
					return ctrlNext, 0
				}
				return c, v
			}
		}
		if deflt != nil {
			c, v := e.exec(deflt.Body)
			if c == ctrlBreak {
				return ctrlNext, 0
			}
			return c, v
		}
		return ctrlNext, 0
	case *ast.DeclStmt:
		if gd, ok := x.Decl.(*ast.GenDecl); ok {
			for _, sp := range gd.Specs {
				if vs, ok := sp.(*ast.ValueSpec); ok && len(vs.Values) == 0 {
					for _, nm := range vs.Names {
						if o := e.info.Defs[nm]; o != nil {
							if b, ok := o.Type().Underlying().(*types.Basic); ok && b.Info()&types.IsInteger != 0 {
								e.ints[o] = 0
							}
						}
					}
				}
			}
		}
		return ctrlNext, 0
	case *ast.EmptyStmt:
		return ctrlNext, 0
	}
	e.fail("statement %T not understood", s)
	return ctrlNext, 0
}

func sign(v int) int {
	if v < 0 {
		return -1
	}
	if v > 0 {
		return 1
	}
	return 0
}

// specCompare: the documented ordering.
func specCompare(scoring, desc []bool, score rel, keys []rel, hit rel) int {
	for k := range keys {
		r := keys[k]
		if scoring[k] {
			r = score
		}
		if r == relEQ {
			continue
		}
		c := int(r)
		if desc[k] {
			c = -c
		}
		return c
	}
	return int(hit)
}

// runComparator executes a comparator under one abstract configuration.
func runComparator(fi *FuncInfo, nkeys int, scoring, desc []bool, score rel, keys []rel, hit rel) (res int, err string) {
	defer func() {
		if x := recover(); x != nil {
			if a, ok := x.(cmpAbort); ok {
				err = a.msg
				return
			}
			panic(x)
		}
	}()
	info := fi.Pkg.TypesInfo
	e := &cmpEnv{info: info, nkeys: nkeys, scoring: scoring, desc: desc, score: score, keys: keys, hit: hit,
		ints: map[types.Object]int{}, alias: map[types.Object]ast.Expr{}, flagArr: map[types.Object]string{}}
	sig := fi.Obj.Type().(*types.Signature)
	var matches []types.Object
	for k := 0; k < sig.Params().Len(); k++ {
		p := sig.Params().At(k)
		if typeIs(p.Type(), "search", "DocumentMatch") {
			matches = append(matches, p)
		}
		if p.Type().String() == "[]bool" {
			if len(e.flagArr) == 0 {
				e.flagArr[p] = "scoring"
			} else {
				e.flagArr[p] = "desc"
			}
		}
	}
	if len(matches) != 2 {
		return 0, "comparator does not take two *DocumentMatch parameters"
	}
	e.i, e.j = matches[0], matches[1]
	if sig.Recv() != nil {
		e.rangeOf = recvObj(fi)
	}
	e.funcs = map[*types.Func]*ast.FuncDecl{}
	for _, file := range fi.Pkg.Syntax {
		for _, d := range file.Decls {
			if fd, ok := d.(*ast.FuncDecl); ok {
				if fo, ok := info.Defs[fd.Name].(*types.Func); ok {
					e.funcs[fo] = fd
				}
			}
		}
	}
	decl := fi.Decl
	if fi.OrigDecl != nil {
		decl = fi.OrigDecl // helper calls are evaluated, not expanded (the expansion uses goto)
	}
	c, v := e.exec(decl.Body.List)
	if c != ctrlReturn {
		return 0, "comparator falls off its end"
	}
	return sign(v), ""
}

func ruleComparatorTables(r *Report, rule string) {
	p := r.P
	gen := p.MustFunc("search.(SortOrder).Compare")
	spec := p.MustFunc("search.CompareScoreDescending")
	r.Fn(gen)
	r.Fn(spec)
	rels := []rel{relLT, relEQ, relGT}
	configs, mismatches, asym := 0, 0, 0
	firstBad := ""
	for nkeys := 0; nkeys <= 2; nkeys++ {
		nflag := 1 << (2 * nkeys)
		for fl := 0; fl < nflag; fl++ {
			scoring := make([]bool, nkeys)
			desc := make([]bool, nkeys)
			for k := 0; k < nkeys; k++ {
				scoring[k] = fl&(1<<(2*k)) != 0
				desc[k] = fl&(1<<(2*k+1)) != 0
			}
			nrel := 9
			for k := 0; k < nkeys; k++ {
				nrel *= 3
			}
			for ri := 0; ri < nrel; ri++ {
				x := ri
				score := rels[x%3]
				x /= 3
				hit := rels[x%3]
				x /= 3
				keys := make([]rel, nkeys)
				for k := 0; k < nkeys; k++ {
					keys[k] = rels[x%3]
					x /= 3
				}
				configs++
				got, err := runComparator(gen, nkeys, scoring, desc, score, keys, hit)
				if err != "" {
					undecidedf("K16: %s: %s", gen.Name, err)
				}
				want := specCompare(scoring, desc, score, keys, hit)
				if got != want {
					mismatches++
					if firstBad == "" {
						firstBad = fmt.Sprintf("keys=%d scoring=%v desc=%v score-rel=%d key-rels=%v hit-rel=%d: comparator gives %d, the documented order gives %d", nkeys, scoring, desc, score, keys, hit, got, want)
					}
				}
				// antisymmetry: swap the two matches = negate every relation
				nk := make([]rel, nkeys)
				for k := range keys {
					nk[k] = -keys[k]
				}
				back, _ := runComparator(gen, nkeys, scoring, desc, -score, nk, -hit)
				if back != -got {
					asym++
				}
			}
		}
	}
	r.Ob(rule, gen.Name+"/matches-documented-order", gen.Decl.Pos(), mismatches == 0,
		fmt.Sprintf("exhaustive over %d abstract configurations (0..2 sort keys x score/field x asc/desc x all <,=,> relations incl. hit number): earlier key decides, desc negates exactly that key, all-equal falls back to ascending hit number; %s", configs, firstBad))
	r.Ob(rule, gen.Name+"/antisymmetric", gen.Decl.Pos(), asym == 0, fmt.Sprintf("compare(i,j) = -compare(j,i) on all %d configurations (%d asymmetric)", configs, asym))
	// the specialised comparator equals the generic one for [-_score]
	specBad := ""
	n := 0
	for _, score := range rels {
		for _, hit := range rels {
			n++
			a, err := runComparator(spec, 0, nil, nil, score, nil, hit)
			if err != "" {
				undecidedf("K16: %s: %s", spec.Name, err)
			}
			b, _ := runComparator(gen, 1, []bool{true}, []bool{true}, score, []rel{relEQ}, hit)
			if a != b && specBad == "" {
				specBad = fmt.Sprintf("score-rel=%d hit-rel=%d: specialised=%d generic=%d", score, hit, a, b)
			}
		}
	}
	r.Ob(rule, spec.Name+"/equals-generic-for-score-desc", spec.Decl.Pos(), specBad == "", fmt.Sprintf("the specialised score comparator agrees with the generic comparator under sort [-_score] on all %d relation pairs; %s", n, specBad))
}
