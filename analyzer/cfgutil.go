package main

import (
	"go/ast"
	"go/token"
	"go/types"
	"sort"
	"strings"

	"golang.org/x/tools/go/cfg"
)

// FCFG is the control-flow graph of one function body with node locations
// and dominators.
type FCFG struct {
	G    *cfg.CFG
	Info *types.Info
	Body *ast.BlockStmt
	loc  map[ast.Node]Loc
	idom []int // immediate dominator block index, -1 for entry/unreachable
	dom  [][]bool
	pdom [][]bool
}

// Loc is a position inside a CFG: block and node index.
type Loc struct {
	B *cfg.Block
	I int
}

func noReturnCall(info *types.Info, call *ast.CallExpr) bool {
	if b := calleeBuiltin(info, call); b == "panic" {
		return true
	}
	if f := callee(info, call); f != nil {
		switch qname(f) {
		case "os.Exit", "log.Fatal", "log.Fatalf", "log.Fatalln", "log.Panic", "log.Panicf", "log.Panicln",
			"runtime.Goexit":
			return true
		}
	}
	return false
}

func buildCFG(info *types.Info, body *ast.BlockStmt) *FCFG {
	g := cfg.New(body, func(c *ast.CallExpr) bool { return !noReturnCall(info, c) })
	f := &FCFG{G: g, Info: info, Body: body, loc: map[ast.Node]Loc{}}
	for _, b := range g.Blocks {
		for i, n := range b.Nodes {
			l := Loc{b, i}
			ast.Inspect(n, func(x ast.Node) bool {
				if x == nil {
					return false
				}
				if _, dup := f.loc[x]; !dup {
					f.loc[x] = l
				}
				if _, isLit := x.(*ast.FuncLit); isLit {
					return false // do not descend into closures
				}
				return true
			})
		}
	}
	f.computeDom()
	return f
}

// Locate returns the CFG location that evaluates node n (n must not be
// inside a nested closure).
func (f *FCFG) Locate(n ast.Node) (Loc, bool) {
	l, ok := f.loc[n]
	return l, ok
}

func (f *FCFG) preds() [][]int {
	p := make([][]int, len(f.G.Blocks))
	for _, b := range f.G.Blocks {
		for _, s := range b.Succs {
			p[s.Index] = append(p[s.Index], int(b.Index))
		}
	}
	return p
}

func (f *FCFG) computeDom() {
	n := len(f.G.Blocks)
	preds := f.preds()
	// dom[b] = set of blocks dominating b (bitset as []bool); iterative.
	dom := make([][]bool, n)
	reach := f.reachable()
	for i := 0; i < n; i++ {
		dom[i] = make([]bool, n)
		for j := 0; j < n; j++ {
			dom[i][j] = true
		}
	}
	if n == 0 {
		return
	}
	for j := 0; j < n; j++ {
		dom[0][j] = j == 0
	}
	changed := true
	for changed {
		changed = false
		for i := 1; i < n; i++ {
			if !reach[i] {
				continue
			}
			nd := make([]bool, n)
			first := true
			for _, p := range preds[i] {
				if !reach[p] {
					continue
				}
				if first {
					copy(nd, dom[p])
					first = false
				} else {
					for j := range nd {
						nd[j] = nd[j] && dom[p][j]
					}
				}
			}
			if first {
				for j := range nd {
					nd[j] = false
				}
			}
			nd[i] = true
			for j := range nd {
				if nd[j] != dom[i][j] {
					changed = true
					dom[i] = nd
					break
				}
			}
		}
	}
	f.dom = dom
}

func (f *FCFG) reachable() []bool {
	n := len(f.G.Blocks)
	r := make([]bool, n)
	if n == 0 {
		return r
	}
	var st []int
	st = append(st, 0)
	r[0] = true
	for len(st) > 0 {
		b := st[len(st)-1]
		st = st[:len(st)-1]
		for _, s := range f.G.Blocks[b].Succs {
			if !r[s.Index] {
				r[s.Index] = true
				st = append(st, int(s.Index))
			}
		}
	}
	return r
}

// Dominates reports whether location a is executed before b on every path
// from function entry to b.
func (f *FCFG) Dominates(a, b Loc) bool {
	if a.B == b.B {
		return a.I < b.I
	}
	return f.dom[b.B.Index][a.B.Index]
}

// DominatesNode is Dominates on AST nodes (false when either is not located).
func (f *FCFG) DominatesNode(a, b ast.Node) bool {
	la, ok1 := f.Locate(a)
	lb, ok2 := f.Locate(b)
	if !ok1 || !ok2 {
		return false
	}
	return f.Dominates(la, lb)
}

// Exit kinds.
const (
	ExitReturn = iota
	ExitFallOff
	ExitPanic
)

type Exit struct {
	B    *cfg.Block
	Kind int
	Ret  *ast.ReturnStmt // for ExitReturn
}

// Exits lists the live exit blocks of the function.
func (f *FCFG) Exits() []Exit {
	var out []Exit
	reach := f.reachable()
	for _, b := range f.G.Blocks {
		if !reach[b.Index] || len(b.Succs) > 0 {
			continue
		}
		if len(b.Nodes) > 0 {
			switch last := b.Nodes[len(b.Nodes)-1].(type) {
			case *ast.ReturnStmt:
				out = append(out, Exit{b, ExitReturn, last})
				continue
			case *ast.ExprStmt:
				if c, ok := last.X.(*ast.CallExpr); ok && noReturnCall(f.Info, c) {
					out = append(out, Exit{b, ExitPanic, nil})
					continue
				}
			}
		}
		if b.Kind == cfg.KindUnreachable {
			continue
		}
		// an empty infinite "for {}" has succs; a block with no succs that is
		// not a return is the implicit end of the function body
		out = append(out, Exit{b, ExitFallOff, nil})
	}
	return out
}

// Set is a small string set used as dataflow fact.
type Set map[string]bool

func (s Set) clone() Set {
	c := make(Set, len(s))
	for k := range s {
		c[k] = true
	}
	return c
}
func (s Set) with(k string) Set    { c := s.clone(); c[k] = true; return c }
func (s Set) without(k string) Set { c := s.clone(); delete(c, k); return c }
func (s Set) key() string {
	ks := make([]string, 0, len(s))
	for k := range s {
		ks = append(ks, k)
	}
	sort.Strings(ks)
	return strings.Join(ks, "|")
}
func (s Set) sorted() []string {
	ks := make([]string, 0, len(s))
	for k := range s {
		ks = append(ks, k)
	}
	sort.Strings(ks)
	return ks
}

// Flow is a forward dataflow problem over string sets.
type Flow struct {
	F        *FCFG
	Must     bool                                                 // join = intersection (must) or union (may)
	Entry    Set                                                  // fact at function entry
	Transfer func(n ast.Node, in Set) Set                         // per CFG node
	Edge     func(from *cfg.Block, succ int, out Set) (Set, bool) // optional edge refinement; false = infeasible
	in       []Set
	seen     []bool
}

// Solve runs the analysis to fixpoint.
func (fl *Flow) Solve() {
	n := len(fl.F.G.Blocks)
	fl.in = make([]Set, n)
	fl.seen = make([]bool, n)
	if n == 0 {
		return
	}
	fl.in[0] = fl.Entry.clone()
	fl.seen[0] = true
	work := []int{0}
	inWork := make([]bool, n)
	inWork[0] = true
	for len(work) > 0 {
		bi := work[0]
		work = work[1:]
		inWork[bi] = false
		b := fl.F.G.Blocks[bi]
		out := fl.in[bi]
		for _, nd := range b.Nodes {
			out = fl.Transfer(nd, out)
		}
		for si, s := range b.Succs {
			o := out
			if fl.Edge != nil {
				var ok bool
				o, ok = fl.Edge(b, si, out)
				if !ok {
					continue
				}
			}
			idx := int(s.Index)
			var nw Set
			if !fl.seen[idx] {
				nw = o.clone()
			} else if fl.Must {
				nw = Set{}
				for k := range fl.in[idx] {
					if o[k] {
						nw[k] = true
					}
				}
			} else {
				nw = fl.in[idx].clone()
				for k := range o {
					nw[k] = true
				}
			}
			if !fl.seen[idx] || nw.key() != fl.in[idx].key() {
				fl.seen[idx] = true
				fl.in[idx] = nw
				if !inWork[idx] {
					inWork[idx] = true
					work = append(work, idx)
				}
			}
		}
	}
}

// At returns the fact holding immediately BEFORE the node at loc
// (nil,false if the location is unreachable).
func (fl *Flow) At(l Loc) (Set, bool) {
	if !fl.seen[l.B.Index] {
		return nil, false
	}
	s := fl.in[l.B.Index]
	for i := 0; i < l.I && i < len(l.B.Nodes); i++ {
		s = fl.Transfer(l.B.Nodes[i], s)
	}
	return s, true
}

// AtEnd returns the fact at the end of block b.
func (fl *Flow) AtEnd(b *cfg.Block) (Set, bool) {
	return fl.At(Loc{b, len(b.Nodes)})
}

// ifCond returns the controlling IfStmt when block b ends in an if
// condition (Succs[0] is the then-branch).
func ifCond(b *cfg.Block) (ast.Expr, bool) {
	if len(b.Succs) != 2 || len(b.Nodes) == 0 {
		return nil, false
	}
	if b.Succs[0].Kind != cfg.KindIfThen {
		return nil, false
	}
	is, ok := b.Succs[0].Stmt.(*ast.IfStmt)
	if !ok {
		return nil, false
	}
	last, ok := b.Nodes[len(b.Nodes)-1].(ast.Expr)
	if !ok || last != is.Cond {
		return nil, false
	}
	return is.Cond, true
}

// inspectNoLit walks n without descending into function literals.
func inspectNoLit(n ast.Node, fn func(ast.Node) bool) {
	ast.Inspect(n, func(x ast.Node) bool {
		if x == nil {
			return false
		}
		if _, ok := x.(*ast.FuncLit); ok && x != n {
			return false
		}
		return fn(x)
	})
}

// callsIn lists call expressions under n (not inside nested closures) in
// source order.
func callsIn(n ast.Node) []*ast.CallExpr {
	var out []*ast.CallExpr
	inspectNoLit(n, func(x ast.Node) bool {
		if c, ok := x.(*ast.CallExpr); ok {
			out = append(out, c)
		}
		return true
	})
	return out
}

// callsDeep lists call expressions under n including those inside closures.
func callsDeep(n ast.Node) []*ast.CallExpr {
	var out []*ast.CallExpr
	ast.Inspect(n, func(x ast.Node) bool {
		if c, ok := x.(*ast.CallExpr); ok {
			out = append(out, c)
		}
		return true
	})
	return out
}

func exprStr(e ast.Expr) string { return types.ExprString(e) }

func isNilIdent(info *types.Info, e ast.Expr) bool {
	e = ast.Unparen(e)
	id, ok := e.(*ast.Ident)
	if !ok {
		return false
	}
	_, isNil := info.Uses[id].(*types.Nil)
	return isNil
}

// nilTest decomposes "x == nil" / "x != nil" into (x, isEq).
func nilTest(info *types.Info, e ast.Expr) (ast.Expr, bool, bool) {
	be, ok := ast.Unparen(e).(*ast.BinaryExpr)
	if !ok || (be.Op != token.EQL && be.Op != token.NEQ) {
		return nil, false, false
	}
	if isNilIdent(info, be.Y) {
		return be.X, be.Op == token.EQL, true
	}
	if isNilIdent(info, be.X) {
		return be.Y, be.Op == token.EQL, true
	}
	return nil, false, false
}

// Reaches reports whether there is a CFG path on which location a executes
// before location b (a != b).
func (f *FCFG) Reaches(a, b Loc) bool {
	if a.B == b.B && a.I < b.I {
		return true
	}
	n := len(f.G.Blocks)
	seen := make([]bool, n)
	var st []*cfg.Block
	for _, s := range a.B.Succs {
		if !seen[s.Index] {
			seen[s.Index] = true
			st = append(st, s)
		}
	}
	for len(st) > 0 {
		x := st[len(st)-1]
		st = st[:len(st)-1]
		if x == b.B {
			return true
		}
		for _, s := range x.Succs {
			if !seen[s.Index] {
				seen[s.Index] = true
				st = append(st, s)
			}
		}
	}
	return false
}

// ReachesNode is Reaches on AST nodes (true when either cannot be located,
// i.e. conservatively "may follow").
func (f *FCFG) ReachesNode(a, b ast.Node) bool {
	la, ok1 := f.Locate(a)
	lb, ok2 := f.Locate(b)
	if !ok1 || !ok2 {
		return true
	}
	return f.Reaches(la, lb)
}

// ReachesFwdNode: a executes before b on some path that takes no loop back
// edge (i.e. within one iteration of every enclosing loop).
func (f *FCFG) ReachesFwdNode(a, b ast.Node) bool {
	la, ok1 := f.Locate(a)
	lb, ok2 := f.Locate(b)
	if !ok1 || !ok2 {
		return true
	}
	if la.B == lb.B {
		return la.I < lb.I
	}
	for _, s := range la.B.Succs {
		if f.dom[la.B.Index][s.Index] {
			continue // back edge
		}
		if f.reachableForward(s, lb) {
			return true
		}
	}
	return false
}

// exitAvoidingAll: some path leads from the START of statement `from` to a
// function exit without executing any of the avoid nodes.
func (f *FCFG) exitAvoidingAll(from ast.Node, avoid []ast.Node) bool {
	lf, ok1 := f.Locate(from)
	if !ok1 {
		return true
	}
	block := map[Loc]bool{}
	for _, a := range avoid {
		if la, ok := f.Locate(a); ok {
			block[la] = true
		}
	}
	type st struct {
		b *cfg.Block
		i int
	}
	seen := map[*cfg.Block]bool{}
	work := []st{{lf.B, lf.I}}
	for len(work) > 0 {
		cur := work[len(work)-1]
		work = work[:len(work)-1]
		blocked := false
		for i := cur.i; i < len(cur.b.Nodes); i++ {
			if block[Loc{cur.b, i}] {
				blocked = true
				break
			}
		}
		if blocked {
			continue
		}
		if len(cur.b.Succs) == 0 {
			return true
		}
		for _, s := range cur.b.Succs {
			if !seen[s] {
				seen[s] = true
				work = append(work, st{s, 0})
			}
		}
	}
	return false
}

// entryReachesAvoiding: some path leads from the function entry to node `to`
// without executing any of the avoid nodes.
func (f *FCFG) entryReachesAvoiding(to ast.Node, avoid []ast.Node) bool {
	lt, ok := f.Locate(to)
	if !ok || len(f.G.Blocks) == 0 {
		return true
	}
	block := map[Loc]bool{}
	for _, a := range avoid {
		if la, ok := f.Locate(a); ok {
			block[la] = true
		}
	}
	seen := map[*cfg.Block]bool{}
	work := []*cfg.Block{f.G.Blocks[0]}
	seen[f.G.Blocks[0]] = true
	for len(work) > 0 {
		b := work[len(work)-1]
		work = work[:len(work)-1]
		blocked := false
		for i := 0; i < len(b.Nodes); i++ {
			if b == lt.B && i == lt.I {
				return true
			}
			if block[Loc{b, i}] {
				blocked = true
				break
			}
		}
		if blocked {
			continue
		}
		for _, s := range b.Succs {
			if !seen[s] {
				seen[s] = true
				work = append(work, s)
			}
		}
	}
	return false
}
