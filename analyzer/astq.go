package main

import (
	"go/ast"
	"go/token"
	"go/types"
	"strings"
)

// namedOf strips pointers and returns the named type (or nil).
func namedOf(t types.Type) *types.Named {
	for {
		switch x := t.(type) {
		case *types.Pointer:
			t = x.Elem()
		case *types.Named:
			return x
		case *types.Alias:
			t = types.Unalias(x)
		default:
			return nil
		}
	}
}

// typeIs reports whether t (possibly a pointer) is the named type
// pkgSuffix.name (pkgSuffix matched as suffix of the package path).
func typeIs(t types.Type, pkgSuffix, name string) bool {
	nt := namedOf(t)
	if nt == nil || nt.Obj().Name() != name {
		return false
	}
	if nt.Obj().Pkg() == nil {
		return pkgSuffix == ""
	}
	return strings.HasSuffix(nt.Obj().Pkg().Path(), pkgSuffix)
}

// fieldSel describes a selector expression that resolves to a struct field.
type fieldSel struct {
	Sel   *ast.SelectorExpr
	Field *types.Var
	Owner string // name of the struct's named type
}

func asFieldSel(info *types.Info, e ast.Expr) (fieldSel, bool) {
	sel, ok := ast.Unparen(e).(*ast.SelectorExpr)
	if !ok {
		return fieldSel{}, false
	}
	s, ok := info.Selections[sel]
	if !ok || s.Kind() != types.FieldVal {
		return fieldSel{}, false
	}
	v, _ := s.Obj().(*types.Var)
	if v == nil {
		return fieldSel{}, false
	}
	owner := ""
	// the owner is the type in which the field is declared; for promoted
	// fields use the receiver type
	if nt := namedOf(s.Recv()); nt != nil {
		owner = nt.Obj().Name()
	}
	return fieldSel{sel, v, owner}, true
}

// isField reports whether e selects field owner.field.
func isField(info *types.Info, e ast.Expr, owner, field string) bool {
	fs, ok := asFieldSel(info, e)
	return ok && fs.Owner == owner && canonFieldName(fs.Field) == field
}

// fieldStore is an assignment whose LHS selects a struct field.
type fieldStore struct {
	Stmt *ast.AssignStmt
	Lhs  *ast.SelectorExpr
	Rhs  ast.Expr // nil for multi-value assignments
	Tok  token.Token
}

// storesToField lists assignments to owner.field under n (closures included).
func storesToField(info *types.Info, n ast.Node, owner, field string) []fieldStore {
	var out []fieldStore
	ast.Inspect(n, func(x ast.Node) bool {
		as, ok := x.(*ast.AssignStmt)
		if !ok {
			return true
		}
		for i, l := range as.Lhs {
			if isField(info, l, owner, field) {
				var rhs ast.Expr
				if len(as.Rhs) == len(as.Lhs) {
					rhs = as.Rhs[i]
				}
				out = append(out, fieldStore{as, ast.Unparen(l).(*ast.SelectorExpr), rhs, as.Tok})
			}
		}
		return true
	})
	return out
}

// readsOfField lists selector expressions reading owner.field under n
// (including those on assignment left-hand sides).
func selsOfField(info *types.Info, n ast.Node, owner, field string) []*ast.SelectorExpr {
	var out []*ast.SelectorExpr
	ast.Inspect(n, func(x ast.Node) bool {
		if sel, ok := x.(*ast.SelectorExpr); ok && isField(info, sel, owner, field) {
			out = append(out, sel)
		}
		return true
	})
	return out
}

// callsMatching lists calls under n (closures included) whose static callee
// satisfies pred.
func callsMatching(info *types.Info, n ast.Node, pred func(f *types.Func) bool) []*ast.CallExpr {
	var out []*ast.CallExpr
	ast.Inspect(n, func(x ast.Node) bool {
		if c, ok := x.(*ast.CallExpr); ok {
			if f := callee(info, c); f != nil && pred(f) {
				out = append(out, c)
			}
		}
		return true
	})
	return out
}

// calleeIs matches on the full qualified name.
func calleeIs(names ...string) func(*types.Func) bool {
	return func(f *types.Func) bool {
		q := qname(f)
		for _, n := range names {
			if q == n {
				return true
			}
		}
		return false
	}
}

// methodIs matches a method by (receiver type name, method name) regardless
// of package; pkgSuffix "" matches any package.
func methodIs(pkgSuffix, recv, name string) func(*types.Func) bool {
	return func(f *types.Func) bool {
		if f.Name() != name {
			return false
		}
		sig, _ := f.Type().(*types.Signature)
		if sig == nil || sig.Recv() == nil {
			return false
		}
		nt := namedOf(sig.Recv().Type())
		if nt == nil || nt.Obj().Name() != recv {
			return false
		}
		if pkgSuffix != "" && (nt.Obj().Pkg() == nil || !strings.HasSuffix(nt.Obj().Pkg().Path(), pkgSuffix)) {
			return false
		}
		return true
	}
}

// builtinCalls lists calls of the named builtin under n.
func builtinCalls(info *types.Info, n ast.Node, name string) []*ast.CallExpr {
	var out []*ast.CallExpr
	ast.Inspect(n, func(x ast.Node) bool {
		if c, ok := x.(*ast.CallExpr); ok && calleeBuiltin(info, c) == name {
			out = append(out, c)
		}
		return true
	})
	return out
}

// enclosing returns the chain of ancestors of target under root (outermost
// first), or nil when target is not under root.
func enclosing(root, target ast.Node) []ast.Node {
	var path []ast.Node
	var found []ast.Node
	ast.Inspect(root, func(n ast.Node) bool {
		if found != nil {
			return false
		}
		if n == nil {
			path = path[:len(path)-1]
			return false
		}
		path = append(path, n)
		if n == target {
			found = append([]ast.Node(nil), path...)
			return false
		}
		return true
	})
	return found
}

// innermostFuncBody returns the body of the innermost function literal
// enclosing target under decl, or decl's body.
func innermostFuncBody(decl *ast.FuncDecl, target ast.Node) *ast.BlockStmt {
	body := decl.Body
	for _, n := range enclosing(decl.Body, target) {
		if l, ok := n.(*ast.FuncLit); ok && n != target {
			body = l.Body
		}
	}
	return body
}

// paramOfType returns the first parameter of fn whose type is the named type.
func paramOfType(fi *FuncInfo, pkgSuffix, name string) *types.Var {
	sig := fi.Obj.Type().(*types.Signature)
	for i := 0; i < sig.Params().Len(); i++ {
		if typeIs(sig.Params().At(i).Type(), pkgSuffix, name) {
			return sig.Params().At(i)
		}
	}
	return nil
}

// usesObj reports whether expression e mentions object obj.
func usesObj(info *types.Info, e ast.Node, obj types.Object) bool {
	found := false
	ast.Inspect(e, func(n ast.Node) bool {
		if id, ok := n.(*ast.Ident); ok && info.ObjectOf(id) == obj {
			found = true
		}
		return !found
	})
	return found
}

// objOf returns the object of an identifier expression (nil otherwise).
func objOf(info *types.Info, e ast.Expr) types.Object {
	if id, ok := ast.Unparen(e).(*ast.Ident); ok {
		return info.ObjectOf(id)
	}
	return nil
}

// stmtsOf flattens the statements of a block (not recursive).
func isErrorType(t types.Type) bool {
	return t != nil && t.String() == "error"
}

// rangeOver lists range statements under n whose operand selects
// owner.field.
// loopsOverField counts the loops that traverse owner.field: a range statement
// over it, or a three-clause loop whose condition reads len(owner.field).
func loopsOverField(info *types.Info, n ast.Node, owner, field string) int {
	c := len(rangesOverField(info, n, owner, field))
	ast.Inspect(n, func(x ast.Node) bool {
		fs, ok := x.(*ast.ForStmt)
		if !ok || fs.Cond == nil {
			return true
		}
		hit := false
		ast.Inspect(fs.Cond, func(y ast.Node) bool {
			if ce, ok := y.(*ast.CallExpr); ok && calleeBuiltin(info, ce) == "len" && len(ce.Args) == 1 && isField(info, ce.Args[0], owner, field) {
				hit = true
			}
			return true
		})
		if hit {
			c++
		}
		return true
	})
	return c
}

func rangesOverField(info *types.Info, n ast.Node, owner, field string) []*ast.RangeStmt {
	var out []*ast.RangeStmt
	ast.Inspect(n, func(x ast.Node) bool {
		if rs, ok := x.(*ast.RangeStmt); ok && isField(info, rs.X, owner, field) {
			out = append(out, rs)
		}
		return true
	})
	return out
}

// funcsStoringField lists bleve functions containing an assignment to
// owner.field.
func (p *Prog) funcsStoringField(pkgRel, owner, field string) []*FuncInfo {
	var out []*FuncInfo
	for _, fi := range p.flist {
		if pkgRel != "" && relPkg(fi.Pkg.PkgPath) != pkgRel {
			continue
		}
		if fi.Decl.Body == nil {
			continue
		}
		if len(storesToField(fi.Pkg.TypesInfo, fi.Decl.Body, owner, field)) > 0 {
			out = append(out, fi)
		}
	}
	return out
}

func (p *Prog) funcsInPkg(pkgRel string) []*FuncInfo {
	var out []*FuncInfo
	for _, fi := range p.flist {
		if relPkg(fi.Pkg.PkgPath) == pkgRel && fi.Decl.Body != nil {
			out = append(out, fi)
		}
	}
	return out
}

// singleDefOf returns the only value ever assigned to local variable o in body
// (a := / = / var statement with matching positions), or nil when o has
// several definitions, is a parameter, or is updated by ++/op=/range/&.
func singleDefOf(info *types.Info, body ast.Node, o types.Object) ast.Expr {
	if o == nil {
		return nil
	}
	var def ast.Expr
	n := 0
	ast.Inspect(body, func(x ast.Node) bool {
		switch y := x.(type) {
		case *ast.AssignStmt:
			for i, l := range y.Lhs {
				if id, ok := l.(*ast.Ident); ok && info.ObjectOf(id) == o {
					n++
					if len(y.Lhs) == len(y.Rhs) && (y.Tok == token.DEFINE || y.Tok == token.ASSIGN) {
						def = y.Rhs[i]
					} else {
						n += 10
					}
				}
			}
		case *ast.ValueSpec:
			for i, nm := range y.Names {
				if info.Defs[nm] == o {
					if i < len(y.Values) {
						n++
						def = y.Values[i]
					}
				}
			}
		case *ast.IncDecStmt:
			if id, ok := ast.Unparen(y.X).(*ast.Ident); ok && info.ObjectOf(id) == o {
				n += 10
			}
		case *ast.RangeStmt:
			for _, l := range []ast.Expr{y.Key, y.Value} {
				if id, ok := l.(*ast.Ident); ok && info.ObjectOf(id) == o {
					n += 10
				}
			}
		case *ast.UnaryExpr:
			if id, ok := ast.Unparen(y.X).(*ast.Ident); ok && y.Op == token.AND && info.ObjectOf(id) == o {
				n += 10
			}
		}
		return true
	})
	if n != 1 {
		return nil
	}
	return def
}

// resolveCopies follows single-definition locals: `a := x.F; use(a)` is a use of x.F.
func resolveCopies(info *types.Info, body ast.Node, e ast.Expr) ast.Expr {
	for hop := 0; hop < 4; hop++ {
		id, ok := ast.Unparen(e).(*ast.Ident)
		if !ok {
			return e
		}
		v, ok := info.ObjectOf(id).(*types.Var)
		if !ok || v.IsField() {
			return e
		}
		d := singleDefOf(info, body, v)
		if d == nil {
			return e
		}
		e = d
	}
	return e
}

// loopOverFieldAround returns the loop enclosing n that traverses owner.field -
// `for .. range x.field` or `for i := 0; i < len(x.field); i++` - or nil.
func loopOverFieldAround(info *types.Info, body ast.Node, n ast.Node, owner, field string) ast.Stmt {
	var res ast.Stmt
	for _, anc := range enclosing(body, n) {
		switch l := anc.(type) {
		case *ast.RangeStmt:
			if isField(info, l.X, owner, field) {
				res = l
			}
		case *ast.ForStmt:
			if l.Cond != nil {
				ast.Inspect(l.Cond, func(y ast.Node) bool {
					if ce, ok := y.(*ast.CallExpr); ok && calleeBuiltin(info, ce) == "len" && len(ce.Args) == 1 && isField(info, ce.Args[0], owner, field) {
						res = l
					}
					return true
				})
			}
		}
	}
	return res
}

// builtObj is one construction of a struct value of a given named type: either a keyed composite
// literal, or a variable that starts empty (`new(T)`, `&T{}`, `T{}`, `var v T`) and is filled by
// `v.F = e` stores.  Vals maps field names to the expressions stored (literal elements and later stores).
type builtObj struct {
	Var  *types.Var // nil for a literal that is not bound to a variable
	Lit  *ast.CompositeLit
	Pos  token.Pos
	Vals map[string]ast.Expr
	at   ast.Node // the defining AssignStmt / ValueSpec
}

func builtObjects(info *types.Info, body ast.Node, typeName string) []builtObj {
	isT := func(t types.Type) bool {
		nt := namedOf(t)
		return nt != nil && nt.Obj().Name() == typeName
	}
	var out []builtObj
	byVar := map[*types.Var]int{}
	litOwner := map[*ast.CompositeLit]bool{}
	var addAt ast.Node
	add := func(v *types.Var, lit *ast.CompositeLit, pos token.Pos) {
		bo := builtObj{Var: v, Lit: lit, Pos: pos, Vals: map[string]ast.Expr{}, at: addAt}
		if lit != nil {
			litOwner[lit] = true
			for _, el := range lit.Elts {
				if kv, ok := el.(*ast.KeyValueExpr); ok {
					if id, ok := kv.Key.(*ast.Ident); ok {
						bo.Vals[id.Name] = kv.Value
					}
				}
			}
		}
		if v != nil {
			byVar[v] = len(out)
		}
		out = append(out, bo)
	}
	fresh := func(e ast.Expr) (*ast.CompositeLit, bool) {
		e = ast.Unparen(e)
		if u, ok := e.(*ast.UnaryExpr); ok && u.Op == token.AND {
			e = ast.Unparen(u.X)
		}
		if cl, ok := e.(*ast.CompositeLit); ok && isT(info.TypeOf(cl)) {
			return cl, true
		}
		if c, ok := e.(*ast.CallExpr); ok && calleeBuiltin(info, c) == "new" && len(c.Args) == 1 && isT(info.TypeOf(c.Args[0])) {
			return nil, true
		}
		return nil, false
	}
	ast.Inspect(body, func(n ast.Node) bool {
		switch y := n.(type) {
		case *ast.AssignStmt:
			addAt = y
			if len(y.Lhs) == len(y.Rhs) {
				for i := range y.Rhs {
					if cl, ok := fresh(y.Rhs[i]); ok {
						if id, isId := y.Lhs[i].(*ast.Ident); isId {
							if v, isV := info.ObjectOf(id).(*types.Var); isV {
								add(v, cl, y.Pos())
							}
						}
					}
				}
			}
		case *ast.ValueSpec:
			addAt = y
			for i, nm := range y.Names {
				v, _ := info.Defs[nm].(*types.Var)
				if v == nil {
					continue
				}
				if i < len(y.Values) {
					if cl, ok := fresh(y.Values[i]); ok {
						add(v, cl, y.Pos())
					}
				} else if len(y.Values) == 0 && isT(v.Type()) {
					if _, isPtr := v.Type().(*types.Pointer); !isPtr {
						add(v, nil, y.Pos())
					}
				}
			}
		}
		return true
	})
	// literals not bound to a variable (arguments, appended elements, returned values)
	ast.Inspect(body, func(n ast.Node) bool {
		if cl, ok := n.(*ast.CompositeLit); ok && !litOwner[cl] && isT(info.TypeOf(cl)) {
			add(nil, cl, cl.Pos())
		}
		return true
	})
	// field stores: attributed to the construction of that variable that precedes them in the same
	// (or an enclosing) statement list - one variable may be constructed several times (expanded helpers)
	consAt := map[ast.Node]int{} // construction statement -> index in out
	for k, bo := range out {
		if bo.Var == nil || bo.at == nil {
			continue
		}
		switch y := bo.at.(type) {
		case *ast.AssignStmt:
			consAt[y] = k
		case *ast.ValueSpec:
			ast.Inspect(body, func(n ast.Node) bool {
				if ds, ok := n.(*ast.DeclStmt); ok {
					if gd, ok := ds.Decl.(*ast.GenDecl); ok {
						for _, sp := range gd.Specs {
							if sp == ast.Spec(y) {
								consAt[ds] = k
							}
						}
					}
				}
				return true
			})
		}
	}
	var walkList func(list []ast.Stmt, cur map[*types.Var]int)
	var walkStmt func(st ast.Stmt, cur map[*types.Var]int)
	walkList = func(list []ast.Stmt, cur map[*types.Var]int) {
		local := map[*types.Var]int{}
		for k, v := range cur {
			local[k] = v
		}
		for _, st := range list {
			if k, ok := consAt[st]; ok {
				local[out[k].Var] = k
				continue
			}
			if as, ok := st.(*ast.AssignStmt); ok && len(as.Lhs) == len(as.Rhs) {
				for i, l := range as.Lhs {
					sel, ok := ast.Unparen(l).(*ast.SelectorExpr)
					if !ok {
						continue
					}
					v, _ := objOf(info, sel.X).(*types.Var)
					if v == nil {
						continue
					}
					if k, has := local[v]; has {
						if _, dup := out[k].Vals[sel.Sel.Name]; !dup {
							out[k].Vals[sel.Sel.Name] = as.Rhs[i]
						}
					}
				}
				continue
			}
			walkStmt(st, local)
		}
	}
	walkStmt = func(st ast.Stmt, cur map[*types.Var]int) {
		ast.Inspect(st, func(n ast.Node) bool {
			if n == ast.Node(st) {
				return true
			}
			switch y := n.(type) {
			case *ast.BlockStmt:
				walkList(y.List, cur)
				return false
			case *ast.CaseClause:
				walkList(y.Body, cur)
				return false
			case *ast.CommClause:
				walkList(y.Body, cur)
				return false
			}
			return true
		})
	}
	if b, ok := body.(*ast.BlockStmt); ok {
		walkList(b.List, map[*types.Var]int{})
	} else {
		ast.Inspect(body, func(n ast.Node) bool {
			if b, ok := n.(*ast.BlockStmt); ok {
				walkList(b.List, map[*types.Var]int{})
				return false
			}
			return true
		})
	}
	return out
}

// gotoStaysInside: a goto whose label is declared inside body does not leave body
// (expanded helpers jump to labels behind their own statements).
func gotoStaysInside(body ast.Node, b *ast.BranchStmt) bool {
	if b.Tok != token.GOTO || b.Label == nil {
		return false
	}
	inside := false
	ast.Inspect(body, func(n ast.Node) bool {
		if l, ok := n.(*ast.LabeledStmt); ok && l.Label.Name == b.Label.Name {
			inside = true
		}
		return !inside
	})
	return inside
}
