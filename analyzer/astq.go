package main

import (
	"go/ast"
	"go/token"
	"go/types"
	"strings"
)

// namedOf strips pointers and returns the named type (or nil).
func namedOf(t types.Type) *types.Named {
	for {
		switch x := t.(type) {
		case *types.Pointer:
			t = x.Elem()
		case *types.Named:
			return x
		case *types.Alias:
			t = types.Unalias(x)
		default:
			return nil
		}
	}
}

// typeIs reports whether t (possibly a pointer) is the named type
// pkgSuffix.name (pkgSuffix matched as suffix of the package path).
func typeIs(t types.Type, pkgSuffix, name string) bool {
	nt := namedOf(t)
	if nt == nil || nt.Obj().Name() != name {
		return false
	}
	if nt.Obj().Pkg() == nil {
		return pkgSuffix == ""
	}
	return strings.HasSuffix(nt.Obj().Pkg().Path(), pkgSuffix)
}

// fieldSel describes a selector expression that resolves to a struct field.
type fieldSel struct {
	Sel   *ast.SelectorExpr
	Field *types.Var
	Owner string // name of the struct's named type
}

func asFieldSel(info *types.Info, e ast.Expr) (fieldSel, bool) {
	sel, ok := ast.Unparen(e).(*ast.SelectorExpr)
	if !ok {
		return fieldSel{}, false
	}
	s, ok := info.Selections[sel]
	if !ok || s.Kind() != types.FieldVal {
		return fieldSel{}, false
	}
	v, _ := s.Obj().(*types.Var)
	if v == nil {
		return fieldSel{}, false
	}
	owner := ""
	// the owner is the type in which the field is declared; for promoted
	// fields use the receiver type
	if nt := namedOf(s.Recv()); nt != nil {
		owner = nt.Obj().Name()
	}
	return fieldSel{sel, v, owner}, true
}

// isField reports whether e selects field owner.field.
func isField(info *types.Info, e ast.Expr, owner, field string) bool {
	fs, ok := asFieldSel(info, e)
	return ok && fs.Owner == owner && canonFieldName(fs.Field) == field
}

// fieldStore is an assignment whose LHS selects a struct field.
type fieldStore struct {
	Stmt *ast.AssignStmt
	Lhs  *ast.SelectorExpr
	Rhs  ast.Expr // nil for multi-value assignments
	Tok  token.Token
}

// storesToField lists assignments to owner.field under n (closures included).
func storesToField(info *types.Info, n ast.Node, owner, field string) []fieldStore {
	var out []fieldStore
	ast.Inspect(n, func(x ast.Node) bool {
		as, ok := x.(*ast.AssignStmt)
		if !ok {
			return true
		}
		for i, l := range as.Lhs {
			if isField(info, l, owner, field) {
				var rhs ast.Expr
				if len(as.Rhs) == len(as.Lhs) {
					rhs = as.Rhs[i]
				}
				out = append(out, fieldStore{as, ast.Unparen(l).(*ast.SelectorExpr), rhs, as.Tok})
			}
		}
		return true
	})
	return out
}

// readsOfField lists selector expressions reading owner.field under n
// (including those on assignment left-hand sides).
func selsOfField(info *types.Info, n ast.Node, owner, field string) []*ast.SelectorExpr {
	var out []*ast.SelectorExpr
	ast.Inspect(n, func(x ast.Node) bool {
		if sel, ok := x.(*ast.SelectorExpr); ok && isField(info, sel, owner, field) {
			out = append(out, sel)
		}
		return true
	})
	return out
}

// callsMatching lists calls under n (closures included) whose static callee
// satisfies pred.
func callsMatching(info *types.Info, n ast.Node, pred func(f *types.Func) bool) []*ast.CallExpr {
	var out []*ast.CallExpr
	ast.Inspect(n, func(x ast.Node) bool {
		if c, ok := x.(*ast.CallExpr); ok {
			if f := callee(info, c); f != nil && pred(f) {
				out = append(out, c)
			}
		}
		return true
	})
	return out
}

// calleeIs matches on the full qualified name.
func calleeIs(names ...string) func(*types.Func) bool {
	return func(f *types.Func) bool {
		q := qname(f)
		for _, n := range names {
			if q == n {
				return true
			}
		}
		return false
	}
}

// methodIs matches a method by (receiver type name, method name) regardless
// of package; pkgSuffix "" matches any package.
func methodIs(pkgSuffix, recv, name string) func(*types.Func) bool {
	return func(f *types.Func) bool {
		if f.Name() != name {
			return false
		}
		sig, _ := f.Type().(*types.Signature)
		if sig == nil || sig.Recv() == nil {
			return false
		}
		nt := namedOf(sig.Recv().Type())
		if nt == nil || nt.Obj().Name() != recv {
			return false
		}
		if pkgSuffix != "" && (nt.Obj().Pkg() == nil || !strings.HasSuffix(nt.Obj().Pkg().Path(), pkgSuffix)) {
			return false
		}
		return true
	}
}

// builtinCalls lists calls of the named builtin under n.
func builtinCalls(info *types.Info, n ast.Node, name string) []*ast.CallExpr {
	var out []*ast.CallExpr
	ast.Inspect(n, func(x ast.Node) bool {
		if c, ok := x.(*ast.CallExpr); ok && calleeBuiltin(info, c) == name {
			out = append(out, c)
		}
		return true
	})
	return out
}

// enclosing returns the chain of ancestors of target under root (outermost
// first), or nil when target is not under root.
func enclosing(root, target ast.Node) []ast.Node {
	var path []ast.Node
	var found []ast.Node
	ast.Inspect(root, func(n ast.Node) bool {
		if found != nil {
			return false
		}
		if n == nil {
			path = path[:len(path)-1]
			return false
		}
		path = append(path, n)
		if n == target {
			found = append([]ast.Node(nil), path...)
			return false
		}
		return true
	})
	return found
}

// innermostFuncBody returns the body of the innermost function literal
// enclosing target under decl, or decl's body.
func innermostFuncBody(decl *ast.FuncDecl, target ast.Node) *ast.BlockStmt {
	body := decl.Body
	for _, n := range enclosing(decl.Body, target) {
		if l, ok := n.(*ast.FuncLit); ok && n != target {
			body = l.Body
		}
	}
	return body
}

// paramOfType returns the first parameter of fn whose type is the named type.
func paramOfType(fi *FuncInfo, pkgSuffix, name string) *types.Var {
	sig := fi.Obj.Type().(*types.Signature)
	for i := 0; i < sig.Params().Len(); i++ {
		if typeIs(sig.Params().At(i).Type(), pkgSuffix, name) {
			return sig.Params().At(i)
		}
	}
	return nil
}

// usesObj reports whether expression e mentions object obj.
func usesObj(info *types.Info, e ast.Node, obj types.Object) bool {
	found := false
	ast.Inspect(e, func(n ast.Node) bool {
		if id, ok := n.(*ast.Ident); ok && info.ObjectOf(id) == obj {
			found = true
		}
		return !found
	})
	return found
}

// objOf returns the object of an identifier expression (nil otherwise).
func objOf(info *types.Info, e ast.Expr) types.Object {
	if id, ok := ast.Unparen(e).(*ast.Ident); ok {
		return info.ObjectOf(id)
	}
	return nil
}

// stmtsOf flattens the statements of a block (not recursive).
func isErrorType(t types.Type) bool {
	return t != nil && t.String() == "error"
}

// rangeOver lists range statements under n whose operand selects
// owner.field.
// loopsOverField counts the loops that traverse owner.field: a range statement
// over it, or a three-clause loop whose condition reads len(owner.field).
func loopsOverField(info *types.Info, n ast.Node, owner, field string) int {
	c := len(rangesOverField(info, n, owner, field))
	ast.Inspect(n, func(x ast.Node) bool {
		fs, ok := x.(*ast.ForStmt)
		if !ok || fs.Cond == nil {
			return true
		}
		hit := false
		ast.Inspect(fs.Cond, func(y ast.Node) bool {
			if ce, ok := y.(*ast.CallExpr); ok && calleeBuiltin(info, ce) == "len" && len(ce.Args) == 1 && isField(info, ce.Args[0], owner, field) {
				hit = true
			}
			return true
		})
		if hit {
			c++
		}
		return true
	})
	return c
}

func rangesOverField(info *types.Info, n ast.Node, owner, field string) []*ast.RangeStmt {
	var out []*ast.RangeStmt
	ast.Inspect(n, func(x ast.Node) bool {
		if rs, ok := x.(*ast.RangeStmt); ok && isField(info, rs.X, owner, field) {
			out = append(out, rs)
		}
		return true
	})
	return out
}

// funcsStoringField lists bleve functions containing an assignment to
// owner.field.
func (p *Prog) funcsStoringField(pkgRel, owner, field string) []*FuncInfo {
	var out []*FuncInfo
	for _, fi := range p.flist {
		if pkgRel != "" && relPkg(fi.Pkg.PkgPath) != pkgRel {
			continue
		}
		if fi.Decl.Body == nil {
			continue
		}
		if len(storesToField(fi.Pkg.TypesInfo, fi.Decl.Body, owner, field)) > 0 {
			out = append(out, fi)
		}
	}
	return out
}

func (p *Prog) funcsInPkg(pkgRel string) []*FuncInfo {
	var out []*FuncInfo
	for _, fi := range p.flist {
		if relPkg(fi.Pkg.PkgPath) == pkgRel && fi.Decl.Body != nil {
			out = append(out, fi)
		}
	}
	return out
}

// singleDefOf returns the only value ever assigned to local variable o in body
// (a := / = / var statement with matching positions), or nil when o has
// several definitions, is a parameter, or is updated by ++/op=/range/&.
func singleDefOf(info *types.Info, body ast.Node, o types.Object) ast.Expr {
	if o == nil {
		return nil
	}
	var def ast.Expr
	n := 0
	ast.Inspect(body, func(x ast.Node) bool {
		switch y := x.(type) {
		case *ast.AssignStmt:
			for i, l := range y.Lhs {
				if id, ok := l.(*ast.Ident); ok && info.ObjectOf(id) == o {
					n++
					if len(y.Lhs) == len(y.Rhs) && (y.Tok == token.DEFINE || y.Tok == token.ASSIGN) {
						def = y.Rhs[i]
					} else {
						n += 10
					}
				}
			}
		case *ast.ValueSpec:
			for i, nm := range y.Names {
				if info.Defs[nm] == o {
					if i < len(y.Values) {
						n++
						def = y.Values[i]
					}
				}
			}
		case *ast.IncDecStmt:
			if id, ok := ast.Unparen(y.X).(*ast.Ident); ok && info.ObjectOf(id) == o {
				n += 10
			}
		case *ast.RangeStmt:
			for _, l := range []ast.Expr{y.Key, y.Value} {
				if id, ok := l.(*ast.Ident); ok && info.ObjectOf(id) == o {
					n += 10
				}
			}
		case *ast.UnaryExpr:
			if id, ok := ast.Unparen(y.X).(*ast.Ident); ok && y.Op == token.AND && info.ObjectOf(id) == o {
				n += 10
			}
		}
		return true
	})
	if n != 1 {
		return nil
	}
	return def
}

// resolveCopies follows single-definition locals: `a := x.F; use(a)` is a use of x.F.
func resolveCopies(info *types.Info, body ast.Node, e ast.Expr) ast.Expr {
	for hop := 0; hop < 4; hop++ {
		id, ok := ast.Unparen(e).(*ast.Ident)
		if !ok {
			return e
		}
		v, ok := info.ObjectOf(id).(*types.Var)
		if !ok || v.IsField() {
			return e
		}
		d := singleDefOf(info, body, v)
		if d == nil {
			return e
		}
		e = d
	}
	return e
}
