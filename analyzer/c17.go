package main

import (
	"fmt"
	"go/ast"
	"go/constant"
	"go/token"
	"go/types"
	"sort"
	"strings"
)

func init() { register("C17", propC17) }

func propC17(r *Report, tier string) {
	r.Explanation = "Structural necessary conditions of 'queries and requests keep their meaning across JSON': (a) K10 dispatch simulation of ParseQuery: the ordered (key-presence / JSON-kind formula -> type) table is extracted from the source; for every concrete query type the keys it emits (custom MarshalJSON struct/map or its tags, with omitempty and JSON kinds) are enumerated over all presence/kind vectors and the first true branch must construct that same type whenever one of its own discriminating keys is present (finite, exhaustive); (b) K9c every key a query type's MarshalJSON writes is read back by its decoder (own tags or the aux struct of its UnmarshalJSON); (c) K9a/b SearchRequest.UnmarshalJSON carries every serialised request field; (d) K13 the type switches that must see through compound queries (ExtractFields, expandQuery) cover every compound query type; (e) K9b the pooled query-string lexer is fully reset when taken from its pool; (f) K9c a MarshalJSON short-cut (compact form) takes every field into account that the full form encodes; (g) K11 every state function of the query-string lexer that hands a token to the parser clears all per-token scratch fields before returning. (h) K11 a constant time layout used in a MarshalJSON of the request/query types keeps sub-second digits."
	r.NotCovered = "query-string grammar equivalence and never-panics for arbitrary input (goyacc tables + hand lexer need input-space reasoning); result equality of the re-parsed query"
	ruleParseQueryDispatch(r, "K10-dispatch")
	ruleQueryMarshalKeysRead(r, "K9c-marshal-keys-read")
	ruleSearchRequestDecoder(r, "K9a-search-request")
	ruleCompoundSwitchCoverage(r, "K13-compound-coverage")
	rulePooledLexerReset(r, "K9b-pooled-lexer-reset")
	ruleQueryOptionsReachSearcher(r, "K9b-query-options-reach-searcher", queryOptionAllow)
	ruleTempDecoderDefaultsOnAbsenceOnly(r, "K9-temp-decoder-absence", "bleve", "search", "search/query")
	ruleCompactFormComplete(r, "K9c-compact-form-complete", "search", "search/query", "mapping", "bleve")
	ruleOmitemptyNeedsEmptyDefault(r, "K9-omitempty-default-empty")
	ruleZeroTimeIsOpenEnd(r, "K9-zero-time-is-open-end")
	ruleLexerEmitClearsTokenState(r, "K11-lexer-emit-clears-token-state")
	ruleMarshalledTimesKeepSubSeconds(r, "K11-marshalled-times-keep-subseconds")
	r.Floor("K10-dispatch", 25)
	r.Floor("K9c-marshal-keys-read", 8)
	r.Floor("K9a-search-request", 10)
	r.Floor("K13-compound-coverage", 4)
	r.Floor("K9b-pooled-lexer-reset", 8)
}

const queryPkg = "search/query"

// ---- emitted keys --------------------------------------------------------

type emitKey struct {
	Key      string
	Optional bool
	Kinds    []string // JSON kinds the value may have: string number bool other
}

func jsonKindsOf(t types.Type) []string {
	for {
		if p, ok := t.Underlying().(*types.Pointer); ok {
			t = p.Elem()
			continue
		}
		break
	}
	// named types with custom MarshalJSON: unknown kind
	if nt := namedOf(t); nt != nil {
		for i := 0; i < nt.NumMethods(); i++ {
			if nt.Method(i).Name() == "MarshalJSON" {
				return []string{"string", "number", "other"}
			}
		}
	}
	switch u := t.Underlying().(type) {
	case *types.Basic:
		switch {
		case u.Info()&types.IsString != 0:
			return []string{"string"}
		case u.Info()&types.IsNumeric != 0:
			return []string{"number"}
		case u.Info()&types.IsBoolean != 0:
			return []string{"bool"}
		}
	case *types.Interface:
		return []string{"string", "number", "other"}
	}
	return []string{"other"}
}

func emitKeysOfStruct(st *types.Struct) []emitKey {
	var out []emitKey
	for _, f := range jsonFieldsOf(st) {
		if f.Skip || !f.Var.Exported() {
			continue
		}
		if f.Var.Embedded() && !f.Tagged {
			if es, ok := namedOrPtrStruct(f.Var.Type()); ok {
				out = append(out, emitKeysOfStruct(es)...)
			}
			continue
		}
		out = append(out, emitKey{f.Key, f.OmitEmpty, jsonKindsOf(f.Var.Type())})
	}
	return out
}

func namedOrPtrStruct(t types.Type) (*types.Struct, bool) {
	if p, ok := t.(*types.Pointer); ok {
		t = p.Elem()
	}
	st, ok := t.Underlying().(*types.Struct)
	return st, ok
}

// marshalKeysOf returns the keys written by T's MarshalJSON (custom or tags).
// custom=false means encoding/json over T's own tags.
func marshalKeysOf(p *Prog, nt *types.Named) (keys []emitKey, custom bool, ok bool) {
	st, isStruct := nt.Underlying().(*types.Struct)
	var mfi *FuncInfo
	for _, recv := range []string{"*", ""} {
		if fi := p.Func(fmt.Sprintf("%s.(%s%s).MarshalJSON", relPkg(nt.Obj().Pkg().Path()), recv, nt.Obj().Name())); fi != nil {
			mfi = fi
		}
	}
	if mfi == nil {
		if !isStruct {
			return nil, false, false
		}
		return emitKeysOfStruct(st), false, true
	}
	info := mfi.Pkg.TypesInfo
	// the value handed to the final Marshal call
	var arg ast.Expr
	ast.Inspect(mfi.Decl.Body, func(n ast.Node) bool {
		c, isCall := n.(*ast.CallExpr)
		if !isCall || len(c.Args) != 1 {
			return true
		}
		nm := calleeVarName(info, c)
		if f := callee(info, c); f != nil {
			nm = qname(f)
		}
		if strings.HasSuffix(nm, "util.MarshalJSON") || nm == "encoding/json.Marshal" {
			arg = c.Args[0]
		}
		return true
	})
	if arg == nil {
		return nil, true, false
	}
	t := info.TypeOf(arg)
	if s, isS := namedOrPtrStruct(t); isS {
		return emitKeysOfStruct(s), true, true
	}
	if _, isMap := t.Underlying().(*types.Map); isMap {
		// find the map literal assigned to the variable
		var lit *ast.CompositeLit
		if cl, isLit := ast.Unparen(arg).(*ast.CompositeLit); isLit {
			lit = cl
		} else if obj := objOf(info, arg); obj != nil {
			ast.Inspect(mfi.Decl.Body, func(n ast.Node) bool {
				if as, isAs := n.(*ast.AssignStmt); isAs && len(as.Lhs) == 1 && len(as.Rhs) == 1 && objOf(info, as.Lhs[0]) == obj {
					if cl, isLit := ast.Unparen(as.Rhs[0]).(*ast.CompositeLit); isLit {
						lit = cl
					}
				}
				return true
			})
		}
		if lit == nil {
			return nil, true, false
		}
		for _, el := range lit.Elts {
			kv, isKV := el.(*ast.KeyValueExpr)
			if !isKV {
				return nil, true, false
			}
			tv, has := info.Types[kv.Key]
			if !has || tv.Value == nil {
				return nil, true, false
			}
			keys = append(keys, emitKey{constant.StringVal(tv.Value), false, jsonKindsOf(info.TypeOf(kv.Value))})
		}
		return keys, true, true
	}
	return nil, true, false
}

// ---- dispatch extraction -------------------------------------------------

type dispAtom struct {
	Key  string
	Kind string // "" = presence only; "number"/"string" for typed assertions
}

type dispBranch struct {
	Cond   ast.Expr
	Target string // type name, or "custom:<func var>"
	Alt    string // fallback type tried in the same branch (Phrase -> MultiPhrase)
	Pos    token.Pos
}

func extractDispatch(fi *FuncInfo) (map[types.Object]dispAtom, []dispBranch) {
	info := fi.Pkg.TypesInfo
	atoms := map[types.Object]dispAtom{}
	var branches []dispBranch
	addAtom := func(s *ast.AssignStmt) {
		if len(s.Lhs) != 2 || len(s.Rhs) != 1 {
			return
		}
		okObj := objOf(info, s.Lhs[1])
		if okObj == nil {
			return
		}
		rhs := ast.Unparen(s.Rhs[0])
		kind := ""
		if ta, isTA := rhs.(*ast.TypeAssertExpr); isTA {
			switch exprStr(ta.Type) {
			case "float64":
				kind = "number"
			case "string":
				kind = "string"
			case "bool":
				kind = "bool"
			default:
				kind = "other"
			}
			rhs = ast.Unparen(ta.X)
		}
		ix, isIx := rhs.(*ast.IndexExpr)
		if !isIx {
			return
		}
		tv, has := info.Types[ix.Index]
		if !has || tv.Value == nil || tv.Value.Kind() != constant.String {
			return
		}
		atoms[okObj] = dispAtom{constant.StringVal(tv.Value), kind}
	}
	addBranch := func(cond ast.Expr, pos token.Pos, body *ast.BlockStmt) {
		usesAtom := false
		ast.Inspect(cond, func(n ast.Node) bool {
			if id, isID := n.(*ast.Ident); isID {
				if _, isAtom := atoms[info.ObjectOf(id)]; isAtom {
					usesAtom = true
				}
			}
			return true
		})
		if !usesAtom {
			return
		}
		b := dispBranch{Cond: cond, Pos: pos}
		var decl []string
		ast.Inspect(body, func(n ast.Node) bool {
			if vs, isVS := n.(*ast.ValueSpec); isVS && vs.Type != nil {
				if nt := namedOf(info.TypeOf(vs.Type)); nt != nil {
					decl = append(decl, nt.Obj().Name())
				}
			}
			return true
		})
		if len(decl) == 0 {
			// `return decodeAs[T](input)`: a generic decoder instantiated with the concrete query type
			ast.Inspect(body, func(n ast.Node) bool {
				rs, isRet := n.(*ast.ReturnStmt)
				if !isRet || len(rs.Results) != 1 {
					return true
				}
				c, isCall := rs.Results[0].(*ast.CallExpr)
				if !isCall {
					return true
				}
				var targs []ast.Expr
				switch f := ast.Unparen(c.Fun).(type) {
				case *ast.IndexExpr:
					targs = []ast.Expr{f.Index}
				case *ast.IndexListExpr:
					targs = f.Indices
				}
				for _, ta := range targs {
					if tv, ok := info.Types[ta]; ok && tv.IsType() {
						if nt := namedOf(tv.Type); nt != nil {
							decl = append(decl, nt.Obj().Name())
						}
					}
				}
				return true
			})
		}
		if len(decl) > 0 {
			b.Target = decl[0]
			if len(decl) > 1 {
				b.Alt = decl[1]
			}
		} else {
			ast.Inspect(body, func(n ast.Node) bool {
				if rs, isRet := n.(*ast.ReturnStmt); isRet && len(rs.Results) == 1 {
					if c, isCall := rs.Results[0].(*ast.CallExpr); isCall {
						b.Target = "custom:" + exprStr(c.Fun)
					}
				}
				return true
			})
		}
		if b.Target != "" {
			branches = append(branches, b)
		}
	}
	for _, st := range fi.Decl.Body.List {
		switch s := st.(type) {
		case *ast.AssignStmt:
			addAtom(s)
		case *ast.SwitchStmt:
			// a tagless switch all of whose cases return is the same "first true condition wins" chain
			if s.Tag != nil || s.Init != nil {
				continue
			}
			for _, c := range s.Body.List {
				cc := c.(*ast.CaseClause)
				if len(cc.List) == 0 {
					continue
				}
				cond := cc.List[0]
				for _, e := range cc.List[1:] {
					cond = &ast.BinaryExpr{X: cond, Op: token.LOR, Y: e}
				}
				addBranch(cond, cc.Pos(), &ast.BlockStmt{List: cc.Body})
			}
		case *ast.IfStmt:
			if s.Init != nil {
				// `if _, has := tmp["k"]; has {`
				if as, ok := s.Init.(*ast.AssignStmt); ok {
					addAtom(as)
				}
			}
			body := s.Body
			// jump-threaded form left by the normaliser: `if c { goto L }; ...; L: { body }`
			if len(body.List) == 1 {
				if g, isGoto := body.List[0].(*ast.BranchStmt); isGoto && g.Tok == token.GOTO && g.Label != nil {
					for _, st2 := range fi.Decl.Body.List {
						if ls, isL := st2.(*ast.LabeledStmt); isL && ls.Label.Name == g.Label.Name {
							if blk, isBlk := ls.Stmt.(*ast.BlockStmt); isBlk {
								body = blk
							}
						}
					}
				}
			}
			addBranch(s.Cond, s.Pos(), body)
		}
	}
	return atoms, branches
}

type presence map[string]string // key -> kind ("" absent)

func evalCond(info *types.Info, atoms map[types.Object]dispAtom, e ast.Expr, v presence) (bool, bool) {
	switch x := ast.Unparen(e).(type) {
	case *ast.Ident:
		a, ok := atoms[info.ObjectOf(x)]
		if !ok {
			return false, false
		}
		k, present := v[a.Key]
		if !present {
			return false, true
		}
		if a.Kind == "" {
			return true, true
		}
		return k == a.Kind, true
	case *ast.UnaryExpr:
		if x.Op == token.NOT {
			b, ok := evalCond(info, atoms, x.X, v)
			return !b, ok
		}
	case *ast.BinaryExpr:
		l, ok1 := evalCond(info, atoms, x.X, v)
		rr, ok2 := evalCond(info, atoms, x.Y, v)
		if !ok1 || !ok2 {
			return false, false
		}
		if x.Op == token.LAND {
			return l && rr, true
		}
		if x.Op == token.LOR {
			return l || rr, true
		}
	}
	return false, false
}

func positiveKeys(info *types.Info, atoms map[types.Object]dispAtom, e ast.Expr, neg bool, out map[string]bool) {
	switch x := ast.Unparen(e).(type) {
	case *ast.Ident:
		if a, ok := atoms[info.ObjectOf(x)]; ok && !neg {
			out[a.Key] = true
		}
	case *ast.UnaryExpr:
		positiveKeys(info, atoms, x.X, !neg, out)
	case *ast.BinaryExpr:
		positiveKeys(info, atoms, x.X, neg, out)
		positiveKeys(info, atoms, x.Y, neg, out)
	}
}

func ruleParseQueryDispatch(r *Report, rule string) {
	p := r.P
	fi := p.MustFunc(queryPkg + ".ParseQuery")
	r.Fn(fi)
	info := fi.Pkg.TypesInfo
	atoms, branches := extractDispatch(fi)
	if len(atoms) < 25 || len(branches) < 25 {
		undecidedf("ParseQuery dispatch idiom not recognised (atoms=%d branches=%d)", len(atoms), len(branches))
	}
	// equivalences: a type whose JSON is, by design, decoded as another type
	equiv := map[string]string{
		"DateRangeQuery": "DateRangeStringQuery",
	}
	// all concrete Query types of the package
	pk := p.Pkg(queryPkg)
	qIface, _ := pk.Types.Scope().Lookup("Query").Type().Underlying().(*types.Interface)
	if qIface == nil {
		undecidedf("query.Query interface not found")
	}
	var typeNames []string
	for _, name := range pk.Types.Scope().Names() {
		tn, ok := pk.Types.Scope().Lookup(name).(*types.TypeName)
		if !ok {
			continue
		}
		nt, ok := tn.Type().(*types.Named)
		if !ok {
			continue
		}
		if _, isStruct := nt.Underlying().(*types.Struct); !isStruct {
			continue
		}
		if types.Implements(types.NewPointer(nt), qIface) || types.Implements(nt, qIface) {
			typeNames = append(typeNames, name)
		}
	}
	sort.Strings(typeNames)
	branchOf := map[string]int{}
	for i, b := range branches {
		if _, dup := branchOf[b.Target]; !dup {
			branchOf[b.Target] = i
		}
		if b.Alt != "" {
			if _, dup := branchOf[b.Alt]; !dup {
				branchOf[b.Alt] = i
			}
		}
	}
	allow := map[string]string{
		"CustomFilterQuery": "decoded through the registered CustomFilterQueryParser hook (key custom_filter)",
		"CustomScoreQuery":  "decoded through the registered CustomScoreQueryParser hook (key custom_score)",
		"KNNQuery":          "knn build only",
	}
	total := 0
	for _, tname := range typeNames {
		nt := pk.Types.Scope().Lookup(tname).Type().(*types.Named)
		want := tname
		if e, ok := equiv[tname]; ok {
			want = e
		}
		own, has := branchOf[want]
		if !has {
			if why, ok := allow[tname]; ok {
				r.Allow(rule, tname+"/has-dispatch-branch", nt.Obj().Pos(), why)
			} else {
				r.Ob(rule, tname+"/has-dispatch-branch", nt.Obj().Pos(), false, "query type "+tname+" has no branch in ParseQuery: its JSON cannot be parsed back")
			}
			continue
		}
		keys, _, ok := marshalKeysOf(p, nt)
		if !ok {
			undecidedf("cannot determine the JSON keys emitted by %s (unrecognised MarshalJSON idiom)", tname)
		}
		disc := map[string]bool{}
		positiveKeys(info, atoms, branches[own].Cond, false, disc)
		// a clause-typed field (Query / []Query) can be the only content of a
		// valid query of this type, so its key must be one the branch tests
		if st, isSt := nt.Underlying().(*types.Struct); isSt && len(disc) > 0 {
			for _, jf := range jsonFieldsOf(st) {
				if jf.Skip || !jf.Tagged {
					continue
				}
				ft := jf.Var.Type()
				if sl, ok := ft.(*types.Slice); ok {
					ft = sl.Elem()
				}
				fnt, _ := ft.(*types.Named)
				if fnt == nil || fnt.Obj().Name() != "Query" || !types.IsInterface(fnt) {
					continue
				}
				r.Ob(rule, tname+"/clause-key-"+jf.Key+"-selects-own-branch", branches[own].Pos, disc[jf.Key],
					"field "+jf.Var.Name()+" of "+tname+" holds a sub-query and is written as \""+jf.Key+"\"; a query whose only clause is that one is valid, but the "+want+" branch of ParseQuery does not test the key, so such a query marshals and then fails to parse back (unknown query type)")
			}
		}
		// enumerate presence/kind vectors
		type choice struct {
			key  string
			opts []string // "" = absent
		}
		var choices []choice
		for _, k := range keys {
			c := choice{key: k.Key}
			if k.Optional {
				c.opts = append(c.opts, "")
			}
			c.opts = append(c.opts, k.Kinds...)
			choices = append(choices, c)
		}
		nvec := 1
		for _, c := range choices {
			nvec *= len(c.opts)
		}
		if nvec > 200000 {
			undecidedf("%s: %d vectors", tname, nvec)
		}
		bad := ""
		degenerate := 0
		checked := 0
		idx := make([]int, len(choices))
		for {
			v := presence{}
			for i, c := range choices {
				if o := c.opts[idx[i]]; o != "" {
					v[c.key] = o
				}
			}
			// a vector is degenerate (an incomplete/empty query of this type)
			// when some discriminating key is absent AND the type's own branch
			// condition is false; with every discriminating key present the
			// own branch must win whatever the JSON kinds are
			allDisc := true
			for k := range disc {
				if _, present := v[k]; !present {
					allDisc = false
				}
			}
			ownTrue, _ := evalCond(info, atoms, branches[own].Cond, v)
			if !allDisc && !ownTrue {
				degenerate++
			} else {
				checked++
				first := -1
				for i, b := range branches {
					t, okE := evalCond(info, atoms, b.Cond, v)
					if !okE {
						undecidedf("ParseQuery: condition %s not understood", exprStr(b.Cond))
					}
					if t {
						first = i
						break
					}
				}
				if first != own && bad == "" {
					got := "no branch (unknown query type)"
					if first >= 0 {
						got = branches[first].Target
					}
					bad = fmt.Sprintf("JSON with keys %s dispatches to %s", presenceStr(v), got)
				}
			}
			// next
			i := 0
			for ; i < len(idx); i++ {
				idx[i]++
				if idx[i] < len(choices[i].opts) {
					break
				}
				idx[i] = 0
			}
			if i == len(idx) {
				break
			}
		}
		total += checked
		detail := fmt.Sprintf("%s: %d emitted keys, %d presence/kind vectors checked, %d degenerate (no discriminating key present: empty/invalid query)", tname, len(keys), checked, degenerate)
		if bad != "" {
			detail = tname + "'s own JSON must select " + want + ": " + bad
		}
		r.Ob(rule, tname+"/own-JSON-selects-own-branch", branches[own].Pos, bad == "" && checked > 0, detail)
	}
	if total < 100 {
		undecidedf("dispatch simulation checked only %d vectors", total)
	}
}

func presenceStr(v presence) string {
	var ks []string
	for k, kind := range v {
		ks = append(ks, k+":"+kind)
	}
	sort.Strings(ks)
	return "{" + strings.Join(ks, ", ") + "}"
}

// ruleQueryMarshalKeysRead (K9c): keys written by a custom MarshalJSON are
// read back: they are json keys of T itself or of the aux struct declared in
// T's UnmarshalJSON.
func ruleQueryMarshalKeysRead(r *Report, rule string) {
	p := r.P
	pk := p.Pkg(queryPkg)
	allow := map[string]string{
		"MatchAllQuery/match_all":         "marker key: selects the type in ParseQuery, carries no data",
		"MatchNoneQuery/match_none":       "marker key: selects the type in ParseQuery, carries no data",
		"CustomFilterQuery/custom_filter": "wrapper key read by the registered CustomFilterQueryParser hook",
		"CustomScoreQuery/custom_score":   "wrapper key read by the registered CustomScoreQueryParser hook",
	}
	n := 0
	for _, name := range pk.Types.Scope().Names() {
		tn, ok := pk.Types.Scope().Lookup(name).(*types.TypeName)
		if !ok {
			continue
		}
		nt, ok := tn.Type().(*types.Named)
		if !ok {
			continue
		}
		st, isStruct := nt.Underlying().(*types.Struct)
		if !isStruct {
			continue
		}
		qi, _ := pk.Types.Scope().Lookup("Query").Type().Underlying().(*types.Interface)
		if qi == nil || !(types.Implements(types.NewPointer(nt), qi) || types.Implements(nt, qi)) {
			continue
		}
		keys, custom, ok := marshalKeysOf(p, nt)
		if !custom {
			continue
		}
		if !ok {
			undecidedf("%s: unrecognised MarshalJSON idiom", name)
		}
		read := map[string]bool{}
		for _, f := range jsonFieldsOf(st) {
			if f.Var.Exported() && !f.Skip {
				read[f.Key] = true
			}
		}
		if ufi := p.Func(queryPkg + ".(*" + name + ").UnmarshalJSON"); ufi != nil {
			r.Fn(ufi)
			ast.Inspect(ufi.Decl.Body, func(x ast.Node) bool {
				if stt, isST := x.(*ast.StructType); isST {
					if t, isT := ufi.Pkg.TypesInfo.TypeOf(stt).(*types.Struct); isT {
						for _, f := range jsonFieldsOf(t) {
							if f.Tagged {
								read[f.Key] = true
							}
						}
					}
				}
				return true
			})
		}
		for _, k := range keys {
			n++
			if why, isAllowed := allow[name+"/"+k.Key]; isAllowed {
				r.Allow(rule, name+"/key-"+k.Key, nt.Obj().Pos(), why)
				continue
			}
			r.Ob(rule, name+"/key-"+k.Key, nt.Obj().Pos(), read[k.Key], "MarshalJSON of "+name+" writes key \""+k.Key+"\" but neither the type's tags nor its UnmarshalJSON aux struct read it (the option is lost on re-parse)")
		}
	}
	if n == 0 {
		undecidedf("no custom MarshalJSON found in %s", queryPkg)
	}
}

// ruleSearchRequestDecoder: SearchRequest.UnmarshalJSON decodes into a temp
// struct and copies field by field: every serialised key of SearchRequest
// must be a key of the temp struct and be copied into the request.
func ruleSearchRequestDecoder(r *Report, rule string) {
	p := r.P
	fi := p.MustFunc("bleve.(*SearchRequest).UnmarshalJSON")
	r.Fn(fi)
	info := fi.Pkg.TypesInfo
	_, st := structOf(p, "bleve", "SearchRequest")
	var temp *types.Struct
	var tempObj types.Object
	ast.Inspect(fi.Decl.Body, func(n ast.Node) bool {
		if vs, ok := n.(*ast.ValueSpec); ok && temp == nil {
			tagged := func(t *types.Struct) bool {
				k := 0
				for _, f := range jsonFieldsOf(t) {
					if f.Tagged {
						k++
					}
				}
				return k >= 3
			}
			if vs.Type == nil || info.TypeOf(vs.Type) == nil {
				return true
			}
			// the wire form: an anonymous struct, or a named struct type that exists for this purpose
			if t, ok := info.TypeOf(vs.Type).Underlying().(*types.Struct); ok && len(vs.Names) == 1 && tagged(t) {
				temp = t
				tempObj = info.ObjectOf(vs.Names[0])
			}
		}
		if as, ok := n.(*ast.AssignStmt); ok && temp == nil && len(as.Rhs) == 1 {
			if t, ok := info.TypeOf(as.Rhs[0]).Underlying().(*types.Struct); ok {
				temp = t
				tempObj = objOf(info, as.Lhs[0])
			}
		}
		return true
	})
	if temp == nil {
		undecidedf("%s: temp struct idiom not recognised", fi.Name)
	}
	tempKeys := map[string]*types.Var{}
	for _, f := range jsonFieldsOf(temp) {
		tempKeys[f.Key] = f.Var
	}
	d := newDeps(info, fi.Decl.Body)
	allow := map[string]string{
		"client_context_id": "opaque client tag, not part of the request's meaning (the decoder ignores it; reported here so a change is visible)",
	}
	for _, f := range jsonFieldsOf(st) {
		if !f.Var.Exported() || f.Skip {
			continue
		}
		if why, ok := allow[f.Key]; ok {
			r.Allow(rule, "SearchRequest."+f.Var.Name(), f.Var.Pos(), why)
			continue
		}
		tv, has := tempKeys[f.Key]
		if !has {
			r.Ob(rule, "SearchRequest."+f.Var.Name()+"/key-"+f.Key+"-decoded", f.Var.Pos(), false, "request field "+f.Var.Name()+" is serialised as \""+f.Key+"\" but SearchRequest.UnmarshalJSON's temp struct has no such key: the option is dropped when a request is parsed")
			continue
		}
		// assigned into the request from the temp field (directly or through a derived value)
		assigned := false
		for _, stf := range storesToField(info, fi.Decl.Body, "SearchRequest", f.Var.Name()) {
			var rhs ast.Node = stf.Rhs
			if stf.Rhs == nil && len(stf.Stmt.Rhs) == 1 {
				rhs = stf.Stmt.Rhs[0] // r.X, err = f(temp.X)
			}
			sl := d.SliceOfExpr(rhs)
			if sl["v:"+tempObj.Name()+"@"+itoa(int(tempObj.Pos()))+"."+tv.Name()] {
				assigned = true
			}
		}
		r.Ob(rule, "SearchRequest."+f.Var.Name()+"/key-"+f.Key+"-decoded", f.Var.Pos(), assigned, "request field "+f.Var.Name()+" must be assigned from the decoded temp field "+tv.Name())
	}
}

// ruleCompoundSwitchCoverage (K13): type switches that recurse into compound
// queries cover every query type that has child queries.
func ruleCompoundSwitchCoverage(r *Report, rule string) {
	p := r.P
	pk := p.Pkg(queryPkg)
	qIface := pk.Types.Scope().Lookup("Query").Type()
	// compound types: structs with a field of type Query / []Query
	var compound []string
	for _, name := range pk.Types.Scope().Names() {
		tn, ok := pk.Types.Scope().Lookup(name).(*types.TypeName)
		if !ok {
			continue
		}
		st, ok := tn.Type().Underlying().(*types.Struct)
		if !ok {
			continue
		}
		if qi, isI := qIface.Underlying().(*types.Interface); !isI || !(types.Implements(types.NewPointer(tn.Type()), qi) || types.Implements(tn.Type(), qi)) {
			continue
		}
		for i := 0; i < st.NumFields(); i++ {
			ft := st.Field(i).Type()
			if sl, ok := ft.(*types.Slice); ok {
				ft = sl.Elem()
			}
			if types.Identical(ft, qIface) {
				compound = append(compound, name)
				break
			}
		}
	}
	sort.Strings(compound)
	if len(compound) < 3 {
		undecidedf("found only %d compound query types", len(compound))
	}
	allow := map[string]map[string]string{
		"search/query.expandQuery": {
			"CustomFilterQuery": "plugin query types are expanded by their own parser hook",
			"CustomScoreQuery":  "plugin query types are expanded by their own parser hook",
		},
		"search/query.ExtractFields": {
			"CustomFilterQuery": "outside the documented query family; reported as info in C20",
			"CustomScoreQuery":  "outside the documented query family; reported as info in C20",
		},
	}
	// types that turn into a sub-tree when parsed (a Parse() (Query, error) method):
	// a walker must expand them wherever they occur, not only at the top
	for _, name := range pk.Types.Scope().Names() {
		tn, ok := pk.Types.Scope().Lookup(name).(*types.TypeName)
		if !ok {
			continue
		}
		ms := types.NewMethodSet(types.NewPointer(tn.Type()))
		for i := 0; i < ms.Len(); i++ {
			m := ms.At(i).Obj().(*types.Func)
			sig := m.Type().(*types.Signature)
			if m.Name() == "Parse" && sig.Params().Len() == 0 && sig.Results().Len() == 2 && types.Identical(sig.Results().At(0).Type(), qIface) {
				compound = append(compound, name)
			}
		}
	}
	sort.Strings(compound)
	for _, fn := range []string{"search/query.expandQuery", "search/query.ExtractFields"} {
		fi := p.MustFunc(fn)
		r.Fn(fi)
		// the recursive part of the walk: same-package functions reachable from the
		// walker that lie on a static call cycle.  Only cases handled THERE are seen
		// for nested occurrences; a helper that holds the switch is followed, and a
		// case handled only in a non-recursive entry point does not count.
		byObj := map[types.Object]*FuncInfo{}
		for _, g := range p.flist {
			if g.Pkg == fi.Pkg && g.Decl.Body != nil {
				byObj[g.Obj] = g
			}
		}
		succ := func(g *FuncInfo) []*FuncInfo {
			var out []*FuncInfo
			ast.Inspect(g.Decl.Body, func(n ast.Node) bool {
				if c, ok := n.(*ast.CallExpr); ok {
					if f := callee(g.Pkg.TypesInfo, c); f != nil {
						if h := byObj[f]; h != nil {
							out = append(out, h)
						}
					}
				}
				return true
			})
			return out
		}
		reachFrom := func(start *FuncInfo) map[*FuncInfo]bool {
			seen := map[*FuncInfo]bool{}
			work := succ(start)
			for len(work) > 0 {
				g := work[len(work)-1]
				work = work[:len(work)-1]
				if seen[g] {
					continue
				}
				seen[g] = true
				work = append(work, succ(g)...)
			}
			return seen
		}
		reach := reachFrom(fi)
		reach[fi] = reach[fi] || false
		var scope []*FuncInfo
		for g := range reach {
			if reachFrom(g)[g] {
				scope = append(scope, g)
			}
		}
		if reachFrom(fi)[fi] {
			found := false
			for _, g := range scope {
				if g == fi {
					found = true
				}
			}
			if !found {
				scope = append(scope, fi)
			}
		}
		if len(scope) == 0 {
			scope = []*FuncInfo{fi} // recursion through a local closure variable
		}
		covered := map[string]bool{}
		var scopeNames []string
		for _, g := range scope {
			scopeNames = append(scopeNames, g.Obj.Name())
			r.Fn(g)
			ginfo := g.Pkg.TypesInfo
			ast.Inspect(g.Decl.Body, func(n ast.Node) bool {
				switch x := n.(type) {
				case *ast.TypeSwitchStmt:
					for _, c := range x.Body.List {
						for _, e := range c.(*ast.CaseClause).List {
							if nt := namedOf(ginfo.TypeOf(e)); nt != nil {
								covered[nt.Obj().Name()] = true
							}
						}
					}
				case *ast.TypeAssertExpr:
					if x.Type != nil {
						if nt := namedOf(ginfo.TypeOf(x.Type)); nt != nil {
							covered[nt.Obj().Name()] = true
						}
					}
				}
				return true
			})
		}
		sort.Strings(scopeNames)
		for _, c := range compound {
			if why, ok := allow[fn][c]; ok && !covered[c] {
				r.Allow(rule, fi.Name+"/case-"+c, fi.Decl.Pos(), why)
				continue
			}
			r.Ob(rule, fi.Name+"/case-"+c, fi.Decl.Pos(), covered[c], "query type "+c+" has (or parses into) child queries but is not handled in the recursive part of "+fi.Obj.Name()+" ("+strings.Join(scopeNames, ", ")+"): wherever it occurs below the top level its children are skipped")
		}
	}
}

// rulePooledLexerReset (K9b): an object taken from a sync.Pool must have every
// field (re)initialised before use.
func rulePooledLexerReset(r *Report, rule string) {
	p := r.P
	fi := p.MustFunc(queryPkg + ".getQueryStringLex")
	r.Fn(fi)
	info := fi.Pkg.TypesInfo
	_, st := structOf(p, queryPkg, "queryStringLex")
	// the variable obtained from Pool.Get
	var lexObj types.Object
	ast.Inspect(fi.Decl.Body, func(n ast.Node) bool {
		as, ok := n.(*ast.AssignStmt)
		if !ok || len(as.Rhs) != 1 {
			return true
		}
		found := false
		ast.Inspect(as.Rhs[0], func(m ast.Node) bool {
			if c, ok := m.(*ast.CallExpr); ok {
				if f := callee(info, c); f != nil && qname(f) == "sync.(*Pool).Get" {
					found = true
				}
			}
			return true
		})
		if found {
			lexObj = objOf(info, as.Lhs[0])
		}
		return true
	})
	if lexObj == nil {
		undecidedf("%s: Pool.Get idiom not found", fi.Name)
	}
	reset := map[string]bool{}
	var collect func(body ast.Node, recv types.Object, depth int)
	collect = func(body ast.Node, recv types.Object, depth int) {
		ast.Inspect(body, func(n ast.Node) bool {
			switch x := n.(type) {
			case *ast.AssignStmt:
				for _, l := range x.Lhs {
					if fs, ok := asFieldSel(info, l); ok && fs.Owner == "queryStringLex" && objOf(info, fs.Sel.X) == recv {
						reset[canonFieldName(fs.Field)] = true
					}
				}
			case *ast.CallExpr:
				sel, ok := ast.Unparen(x.Fun).(*ast.SelectorExpr)
				if !ok {
					return true
				}
				// l.in.Reset(...)
				if fs, ok := asFieldSel(info, sel.X); ok && fs.Owner == "queryStringLex" && objOf(info, fs.Sel.X) == recv && sel.Sel.Name == "Reset" {
					reset[canonFieldName(fs.Field)] = true
				}
				// l.reset(): one level into methods of the lexer
				if objOf(info, sel.X) == recv && depth == 0 {
					if f := callee(info, x); f != nil {
						if mfi := p.Func(funcName(f)); mfi != nil && mfi.Decl.Body != nil {
							if ro := recvObj(mfi); ro != nil {
								collect(mfi.Decl.Body, ro, 1)
							}
						}
					}
				}
			}
			return true
		})
	}
	collect(fi.Decl.Body, lexObj, 0)
	for i := 0; i < st.NumFields(); i++ {
		f := st.Field(i)
		r.Ob(rule, "queryStringLex."+f.Name()+"/reset-on-reuse", f.Pos(), reset[f.Name()], "field "+f.Name()+" of the pooled lexer is not re-initialised in getQueryStringLex: state of a previous (possibly aborted) parse leaks into the next query string")
	}
}

var queryOptionAllow = map[string]string{
	"BooleanQuery.BoostVal":     "long-standing behaviour: the boost of a compound query is accepted (BoostableQuery) and serialised but its searcher has no boost parameter; clauses carry their own boosts",
	"ConjunctionQuery.BoostVal": "same as BooleanQuery",
	"DisjunctionQuery.BoostVal": "same as BooleanQuery",
	"MatchNoneQuery.BoostVal":   "a query that matches nothing has nothing to boost",
	"QueryStringQuery.BoostVal": "the parsed query string produces a boolean query (see BooleanQuery)",
}

// ruleLexerEmitClearsTokenState (K11): the hand-written query-string lexer is a
// state machine whose state functions accumulate one token in scratch fields of
// the lexer (the text so far, "inside an escape", "a dot was seen").  A state
// function that hands a token to the parser (assigns the *yySymType field) must
// clear every such scratch field before it returns: the next token starts in
// startState, which does not clear them, so a flag left over from the previous
// token changes how the next one is classified (a second decimal number lexed
// as a string).  The scratch fields are derived, not listed: the fields of the
// lexer that the state functions both write and read.
func ruleLexerEmitClearsTokenState(r *Report, rule string) {
	p := r.P
	_, st := structOf(p, queryPkg, "queryStringLex")
	if st == nil {
		undecidedf("queryStringLex not found")
	}
	var states []*FuncInfo
	for _, fi := range p.flist {
		if fi.Decl == nil || fi.Decl.Body == nil || fi.Decl.Recv != nil || !strings.HasSuffix(fi.Pkg.PkgPath, queryPkg) {
			continue
		}
		sig, ok := fi.Obj.Type().(*types.Signature)
		if !ok || sig.Params().Len() != 3 || sig.Results().Len() != 2 {
			continue
		}
		if nt := namedOf(sig.Params().At(0).Type()); nt == nil || nt.Obj().Name() != "queryStringLex" {
			continue
		}
		if nt := namedOf(sig.Results().At(0).Type()); nt == nil {
			continue
		} else if _, isFn := nt.Underlying().(*types.Signature); !isFn {
			continue
		}
		states = append(states, fi)
	}
	if len(states) < 5 {
		undecidedf("lexer state functions not recognised (%d)", len(states))
	}
	written, read := map[string]bool{}, map[string]bool{}
	tokenField := ""
	for i := 0; i < st.NumFields(); i++ {
		if pt, ok := st.Field(i).Type().(*types.Pointer); ok {
			if nt := namedOf(pt.Elem()); nt != nil && nt.Obj().Name() == "yySymType" {
				tokenField = st.Field(i).Name()
			}
		}
	}
	if tokenField == "" {
		undecidedf("the lexer's pending-token field (*yySymType) not found")
	}
	for _, fi := range states {
		info := fi.Pkg.TypesInfo
		lhs := map[ast.Expr]bool{}
		ast.Inspect(fi.Decl.Body, func(n ast.Node) bool {
			if as, ok := n.(*ast.AssignStmt); ok {
				for _, l := range as.Lhs {
					if fs, ok := asFieldSel(info, l); ok && fs.Owner == "queryStringLex" {
						written[canonFieldName(fs.Field)] = true
						if as.Tok == token.ASSIGN || as.Tok == token.DEFINE {
							lhs[ast.Unparen(l)] = true
						} else {
							read[canonFieldName(fs.Field)] = true // `+=` reads
						}
					}
				}
			}
			return true
		})
		ast.Inspect(fi.Decl.Body, func(n ast.Node) bool {
			if e, ok := n.(ast.Expr); ok && !lhs[e] {
				if fs, ok := asFieldSel(info, e); ok && fs.Owner == "queryStringLex" {
					read[canonFieldName(fs.Field)] = true
				}
			}
			return true
		})
	}
	var scratch []string
	for i := 0; i < st.NumFields(); i++ {
		f := canonFieldName(st.Field(i))
		if written[f] && read[f] && f != tokenField {
			scratch = append(scratch, f)
		}
	}
	if len(scratch) < 2 {
		undecidedf("lexer scratch fields not recognised (%v)", scratch)
	}
	isZero := func(info *types.Info, e ast.Expr) bool {
		tv, ok := info.Types[e]
		if !ok || tv.Value == nil {
			return false
		}
		switch tv.Value.Kind() {
		case constant.Bool:
			return !constant.BoolVal(tv.Value)
		case constant.String:
			return constant.StringVal(tv.Value) == ""
		case constant.Int:
			v, exact := constant.Int64Val(tv.Value)
			return exact && v == 0
		}
		return false
	}
	// fields a method of the lexer clears unconditionally (top-level statements of its body)
	clearedBy := func(f *types.Func) map[string]bool {
		out := map[string]bool{}
		mfi := p.Func(funcName(f))
		if mfi == nil || mfi.Decl == nil || mfi.Decl.Body == nil {
			return out
		}
		minfo := mfi.Pkg.TypesInfo
		for _, s := range mfi.Decl.Body.List {
			if as, ok := s.(*ast.AssignStmt); ok && as.Tok == token.ASSIGN && len(as.Lhs) == len(as.Rhs) {
				for k, l := range as.Lhs {
					if fs, ok := asFieldSel(minfo, l); ok && fs.Owner == "queryStringLex" && isZero(minfo, as.Rhs[k]) {
						out[canonFieldName(fs.Field)] = true
					}
				}
			}
		}
		return out
	}
	n := 0
	for _, fi := range states {
		info := fi.Pkg.TypesInfo
		var emits []ast.Stmt
		clears := map[string][]ast.Node{}
		ast.Inspect(fi.Decl.Body, func(x ast.Node) bool {
			switch y := x.(type) {
			case *ast.AssignStmt:
				if len(y.Lhs) != len(y.Rhs) {
					return true
				}
				for k, l := range y.Lhs {
					fs, ok := asFieldSel(info, l)
					if !ok || fs.Owner != "queryStringLex" {
						continue
					}
					fn := canonFieldName(fs.Field)
					if fn == tokenField {
						if tv, has := info.Types[y.Rhs[k]]; !has || !tv.IsNil() {
							emits = append(emits, y)
						}
					} else if y.Tok == token.ASSIGN && isZero(info, y.Rhs[k]) {
						clears[fn] = append(clears[fn], y)
					}
				}
			case *ast.ExprStmt:
				if c, ok := y.X.(*ast.CallExpr); ok {
					if f := callee(info, c); f != nil {
						if sig, _ := f.Type().(*types.Signature); sig != nil && sig.Recv() != nil {
							if nt := namedOf(sig.Recv().Type()); nt != nil && nt.Obj().Name() == "queryStringLex" {
								for fld := range clearedBy(f) {
									clears[fld] = append(clears[fld], y)
								}
							}
						}
					}
				}
			}
			return true
		})
		if len(emits) == 0 {
			continue
		}
		r.Fn(fi)
		g := buildCFG(info, fi.Decl.Body)
		for i, e := range emits {
			for _, fld := range scratch {
				n++
				ok := !g.exitAvoidingAll(e, clears[fld])
				r.Ob(rule, fmt.Sprintf("%s/emit#%d/clears-%s", fi.Name, i, fld), e.Pos(), ok, "a token is handed to the parser here; on some path to the return the lexer's per-token scratch field "+fld+" is not cleared, so it leaks into the classification of the next token")
			}
		}
	}
	if n < 12 {
		undecidedf("lexer emission sites not recognised (%d obligations)", n)
	}
}

// ruleMarshalledTimesKeepSubSeconds (K11): a time that a MarshalJSON of the
// request/query types prints with a constant layout has to survive the parse
// on the other side.  time.Time values carry nanoseconds (anything derived from
// time.Now() does); a constant layout without fractional seconds (RFC3339,
// DateTime, ...) truncates them, so the parsed-back request puts a document
// whose date falls inside the dropped fraction into another bucket.  Layouts
// held in a variable (the documented, configurable QueryDateTimeFormat) are
// the user's choice and not judged.
func ruleMarshalledTimesKeepSubSeconds(r *Report, rule string) {
	p := r.P
	n, fns := 0, 0
	for _, fi := range p.flist {
		rel := relPkg(fi.Pkg.PkgPath)
		if fi.Decl == nil || fi.Decl.Body == nil || fi.Decl.Name.Name != "MarshalJSON" || !(rel == "bleve" || rel == "search" || rel == "search/query") {
			continue
		}
		fns++
		info := fi.Pkg.TypesInfo
		for _, c := range callsIn(fi.Decl.Body) {
			f := callee(info, c)
			if f == nil || qname(f) != "time.(Time).Format" || len(c.Args) != 1 {
				continue
			}
			tv, ok := info.Types[c.Args[0]]
			if !ok || tv.Value == nil || tv.Value.Kind() != constant.String {
				continue
			}
			layout := constant.StringVal(tv.Value)
			n++
			r.Fn(fi)
			keeps := strings.Contains(layout, ".000000000") || strings.Contains(layout, ".999999999") || strings.Contains(layout, ",000000000") || strings.Contains(layout, ",999999999")
			r.Ob(rule, fmt.Sprintf("%s/layout#%d-keeps-nanoseconds", fi.Name, n), c.Pos(), keeps, "a time is serialised with the constant layout \""+layout+"\", which drops the fraction of a second: the parsed-back value differs from the original for any instant that is not on a whole second")
		}
	}
	if fns < 10 {
		undecidedf("MarshalJSON methods of the request/query types not found (%d)", fns)
	}
	if n == 0 {
		r.InfoOb(rule, "no-constant-layout-in-MarshalJSON", 0, fmt.Sprintf("no MarshalJSON of the request/query types formats a time with a constant layout (%d methods checked; times are encoded by encoding/json, i.e. RFC3339Nano, or with the configurable query layout)", fns))
	}
}
