package main

import (
	"go/ast"
	"go/types"
)

func init() { register("C16", propC16) }

func propC16(r *Report, tier string) {
	r.Explanation = "Decides the JSON layer of the mapping round trip exactly (structural): (a) K9a for the three hand-written decoders (FieldMapping, DocumentMapping, IndexMappingImpl): the key switch and the json tags are in bijection, every case decodes into the field that owns its tag, unknown keys reach the default branch; (b) none of these types (nor customAnalysis) has a custom MarshalJSON and every exported field carries a json tag, so the encoder is encoding/json over the same tags; every `omitempty` field's decoder default is JSON-empty (else a stored zero value is omitted on save and reloaded as the non-zero default); (c) the index stores util.MarshalJSON(mapping) under MappingInternalKey on creation and on open decodes that same key with util.UnmarshalJSON into *IndexMappingImpl and validates it before publishing the handle."
	r.NotCovered = "MapDocument equality (analysis, dynamic mapping, date parsing) beyond field-wise equality of the decoded mapping; free-form custom analysis component configs (round-tripped generically by encoding/json)"
	const rule = "K9a-decoder-bijection"
	ruleDecoderBijection(r, rule, "mapping", "FieldMapping", nil)
	ruleDecoderBijection(r, rule, "mapping", "DocumentMapping", nil)
	ruleDecoderBijection(r, rule, "mapping", "IndexMappingImpl", nil)
	ruleAllExportedTagged(r, "K9b-tags-complete", "mapping", "customAnalysis")
	ruleMappingStoredAndLoaded(r, "K11-mapping-store-load")
	ruleRegisterAllInDependencyOrder(r, "K5-register-all-dependency-order")
	ruleCustomComponentRecordedAfterDefine(r, "K5-custom-component-recorded-after-define")
	ruleOmitemptyNilVsEmpty(r, "K9-omitempty-nil-vs-empty", "mapping", "DocumentMapping", "IndexMappingImpl", "FieldMapping")
	ruleMemoKeyCoversInputs(r, "K6-memo-key-covers-inputs", 1, map[string]string{
		"registry.(*ConcurrentCache).ItemNamed": "each ConcurrentCache is the per-kind table of one registry.Cache: all ten callers (registry/*.go <Kind>Cache.<Kind>Named) pass the owning Cache and the fixed builder of that kind, so (cache, build) are constant per map",
	}, "mapping", "registry", "analysis")
	r.Floor(rule, 40)
	r.Floor("K9b-tags-complete", 7)
	r.Floor("K11-mapping-store-load", 4)
}

func ruleMappingStoredAndLoaded(r *Report, rule string) {
	p := r.P
	info := p.Pkg("bleve").TypesInfo
	isKey := func(e ast.Expr) bool {
		sel, ok := ast.Unparen(e).(*ast.SelectorExpr)
		if !ok {
			return false
		}
		v, ok := info.ObjectOf(sel.Sel).(*types.Var)
		return ok && v.Name() == "MappingInternalKey" && v.Pkg() != nil && v.Pkg().Path() == blevePath+"/util"
	}
	// creation
	nf := p.MustFunc("bleve.newIndexUsing")
	r.Fn(nf)
	d := newDeps(info, nf.Decl.Body)
	okStore := false
	for _, c := range callsDeep(nf.Decl.Body) {
		if f := callee(info, c); f != nil && f.Name() == "SetInternal" && len(c.Args) == 2 && isKey(c.Args[0]) {
			sl := d.SliceOfExpr(c.Args[1])
			if sl["call:"+blevePath+"/util.MarshalJSON"] {
				okStore = true
			}
		}
	}
	r.Ob(rule, nf.Name+"/stores-MarshalJSON(mapping)-under-MappingInternalKey", nf.Decl.Pos(), okStore, "a new index persists util.MarshalJSON(mapping) under util.MappingInternalKey")
	sig := nf.Obj.Type().(*types.Signature)
	var mparam *types.Var
	for i := 0; i < sig.Params().Len(); i++ {
		if nt := namedOf(sig.Params().At(i).Type()); nt != nil && nt.Obj().Name() == "IndexMapping" {
			mparam = sig.Params().At(i)
		}
	}
	okArg := false
	for _, c := range callsDeep(nf.Decl.Body) {
		if calleeVarName(info, c) == blevePath+"/util.MarshalJSON" && mparam != nil && objOf(info, c.Args[0]) == mparam {
			okArg = true
		}
	}
	r.Ob(rule, nf.Name+"/marshals-the-mapping-argument", nf.Decl.Pos(), okArg, "what is marshalled is the mapping the caller passed")
	// open
	of := p.MustFunc("bleve.openIndexUsing")
	r.Fn(of)
	g := buildCFG(info, of.Decl.Body)
	od := newDeps(info, of.Decl.Body)
	var get, unm, val *ast.CallExpr
	for _, c := range callsIn(of.Decl.Body) {
		f := callee(info, c)
		if f == nil {
			continue
		}
		if f.Name() == "GetInternal" && len(c.Args) == 1 && isKey(c.Args[0]) {
			get = c
		}
	}
	var imObj types.Object
	for _, c := range callsDeep(of.Decl.Body) {
		if calleeVarName(info, c) != blevePath+"/util.UnmarshalJSON" {
			continue
		}
		sl := od.SliceOfExpr(c.Args[0])
		if sl["call:"+blevePath+"/index.(IndexReader).GetInternal"] || sliceHasSuffix(sl, ".GetInternal") {
			if u, ok := ast.Unparen(c.Args[1]).(*ast.UnaryExpr); ok {
				if typeIs(info.TypeOf(u.X), "mapping", "IndexMappingImpl") {
					unm = c
					imObj = objOf(info, u.X)
				}
			}
		}
	}
	for _, c := range callsIn(of.Decl.Body) {
		if f := callee(info, c); f != nil && f.Name() == "Validate" {
			if sel, ok := ast.Unparen(c.Fun).(*ast.SelectorExpr); ok && objOf(info, sel.X) == imObj && imObj != nil {
				val = c
			}
		}
	}
	okOpen := get != nil && unm != nil && val != nil && g.DominatesNode(get, unm) && g.DominatesNode(unm, val)
	r.Ob(rule, of.Name+"/loads-same-key-decodes-validates", of.Decl.Pos(), okOpen, "open reads util.MappingInternalKey, decodes it with util.UnmarshalJSON into *mapping.IndexMappingImpl and validates it")
	// the handle's mapping is the decoded one (or the validated update) and is set before open=true is published
	okPublish := false
	for _, st := range storesToField(info, of.Decl.Body, "indexImpl", "m") {
		if objOf(info, st.Rhs) == imObj && imObj != nil && val != nil && g.DominatesNode(val, st.Stmt) {
			okPublish = true
		}
	}
	r.Ob(rule, of.Name+"/handle-uses-decoded-mapping-after-validation", of.Decl.Pos(), okPublish, "the opened handle's mapping is the decoded (validated) mapping")
}
