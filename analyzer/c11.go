package main

func init() { register("C11", propC11) }

func propC11(r *Report, tier string) {
	r.Explanation = "Structural necessary conditions of 'safe under concurrent use; Close always completes', decided on every path of every bleve function: (K1) every mutex acquisition is paired with a release or deferred release on all non-panicking exits."
	r.NotCovered = "data races on fields outside the guarded-by tables, absence of panics, real deadlock freedom for all schedules, goroutine leaks inside third-party stores"
	k1Locks(r, "K1-lock-pairing", nil)
	r.Floor("K1-lock-pairing", 100)
}
