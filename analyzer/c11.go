package main

import (
	"go/ast"
	"go/types"
	"strings"
)

func init() { register("C11", propC11) }

func propC11(r *Report, tier string) {
	r.Explanation = "Structural necessary conditions of 'safe under concurrent use; Close always completes', decided on every path of every bleve function: (K1) every mutex acquisition is paired with a release or deferred release on all non-panicking exits. (K4) fields of cachedFieldDocs filled by the goroutine that closes readyCh are read only after a receive from readyCh of the same object or under its mutex. (K5) the merger loop exits only in the closeCh case or on ErrClosed of a request that was not user-triggered. (K2) guarded-by tables for 24 more mutex-protected fields of the index handle, the alias, snapshots, doc-value caches, the KV adapters and the registry (discovered with an access-statistics aid, confirmed by reading, frozen). (K1) every index reader / KV reader / copy reader obtained inside a function is closed, deferred-closed or handed over on all exits (an unclosed bolt reader makes Close of the store block forever; an unclosed scorch reader pins its snapshot's files)."
	r.NotCovered = "data races on fields outside the guarded-by tables, absence of panics, real deadlock freedom for all schedules, goroutine leaks inside third-party stores"
	k1Locks(r, "K1-lock-pairing", nil)
	r.Floor("K1-lock-pairing", 100)
	r.Floor("K2-guarded-by-tables", 150)
	r.Floor("K1-readers-closed", 15)
	ruleNoReentrantLocking(r, "K3-no-reentrant-locking")
	ruleAPIOpenCheck(r, "K7-api-open-check")
	ruleAliasOpenCheck(r, "K7-alias-open-check")
	ruleScorchRootLockTable(r, "K2-rootLock-guarded-by")
	ruleGuardedByTables(r, "K2-guarded-by-tables")
	ruleClosersClosed(r, "K1-readers-closed", func(rel string) bool { return !strings.HasPrefix(rel, "cmd/") },
		func(c *ast.CallExpr, f *types.Func) bool {
			return f != nil && (f.Name() == "Reader" || f.Name() == "CopyReader")
		}, closersAllow)
	ruleScorchChannelDiscipline(r, "K4-channel-discipline")
	ruleLoopLifecycle(r, "K5-loop-lifecycle")
	ruleCancellationPolled(r, "K5-cancellation")
	ruleReadyChannelHB(r, "K4-ready-channel-happens-before", "index/scorch", "cachedFieldDocs", "readyCh", []string{"docs", "size", "err"})
	ruleMergerLoopExit(r, "K5-merger-loop-exit")
}

func ruleScorchRootLockTable(r *Report, rule string) {
	table := []guardedField{
		{"Scorch", "root", "rootLock"},
		{"Scorch", "rootPersisted", "rootLock"},
		{"Scorch", "persistedCallbacks", "rootLock"},
		{"Scorch", "nextSnapshotEpoch", "rootLock"},
		{"Scorch", "eligibleForRemoval", "rootLock"},
		{"Scorch", "ineligibleForRemoval", "rootLock"},
		{"Scorch", "copyScheduled", "rootLock"},
	}
	exempt := map[string]string{
		"index/scorch.NewScorch":              "constructor: the object is not yet shared",
		"index/scorch.(*Scorch).openBolt":     "open phase: runs before any background loop is started (C03 K5-open-phase) and before the handle is returned",
		"index/scorch.(*Scorch).UpdateFields": "index-update open path (OpenMeta): no background loop is running; called once from openIndexUsing before Open",
	}
	ruleGuardedBy(r, rule, scorchPkg, table, exempt)
}

// Guarded-by tables discovered with the INFER-K2 aid (every field listed is accessed
// under its mutex at all sites today, or at all sites but the named exemptions) and
// confirmed by reading.
func ruleGuardedByTables(r *Report, rule string) {
	type tbl struct {
		pkg    string
		fields []guardedField
		exempt map[string]string
	}
	ctor := "constructor: the object is not yet shared"
	tables := []tbl{
		{"bleve", []guardedField{
			{"IndexStats", "indexes", "mutex"},
			{"indexAliasImpl", "indexes", "mutex"},
			{"indexAliasImpl", "mapping", "mutex"},
			{"indexAliasImpl", "open", "mutex"},
			{"indexImpl", "open", "mutex"},
		}, map[string]string{
			"bleve.newIndexUsing":  ctor,
			"bleve.openIndexUsing": ctor,
			"bleve.NewIndexAlias":  ctor,
		}},
		{"index/scorch", []guardedField{
			{"IndexSnapshot", "refs", "m"},
			{"IndexSnapshot", "fieldTFRs", "m2"},
			{"IndexSnapshot", "fieldCardinality", "m3"},
			{"cachedDocs", "cache", "m"},
			{"cachedFieldDocs", "docs", "m"},
			{"cachedFieldDocs", "size", "m"},
		}, map[string]string{}},
		{"index/upsidedown/store/gtreap", []guardedField{
			{"Iterator", "cancelCh", "m"},
			{"Iterator", "nextCh", "m"},
			{"Store", "t", "m"},
		}, map[string]string{}},
		{"index/upsidedown/store/metrics", []guardedField{{"Store", "errors", "m"}}, map[string]string{}},
		{"index/upsidedown/store/moss", []guardedField{
			{"llSnapshot", "refs", "m"},
			{"llSnapshot", "llStore", "m"},
			{"llStore", "refs", "m"},
			{"mossStoreWrapper", "refs", "m"},
		}, map[string]string{}},
		{"index/upsidedown", []guardedField{
			{"UpsideDownCouch", "docCount", "m"},
			{"FieldCache", "fieldIndexes", "mutex"},
			{"FieldCache", "indexFields", "mutex"},
			{"FieldCache", "lastFieldIndex", "mutex"},
		}, map[string]string{}},
		{"registry", []guardedField{
			{"ConcurrentCache", "data", "mutex"},
			{"NestedFieldCache", "prefixDepth", "m"},
		}, map[string]string{}},
	}
	for _, t := range tables {
		ruleGuardedBy(r, rule, t.pkg, t.fields, t.exempt)
	}
}

var closersAllow = map[string]string{
	"bleve.(*indexImpl).FieldDict/Reader":       "true leak of the index reader when the dictionary cannot be opened; in both engines that only happens for a corrupt segment/store (outside C11's quantifier), so it is recorded here, not as a finding",
	"bleve.(*indexImpl).FieldDictRange/Reader":  "same as FieldDict",
	"bleve.(*indexImpl).FieldDictPrefix/Reader": "same as FieldDict",
}
