package main

import (
	"flag"
	"fmt"
	"os"
	"path/filepath"
	"runtime/debug"
	"sort"
	"strconv"
	"time"
)

type propFunc func(r *Report, tier string)

var props = map[string]propFunc{}

func register(id string, f propFunc) { props[id] = f }

func main() {
	prop := flag.String("prop", "", "property id (C01..C20) or 'all'")
	tier := flag.String("tier", "quick", "quick|thorough")
	repo := flag.String("repo", "/repo", "repository root")
	verif := flag.String("verif", "/verif", "verif directory (evidence, known findings)")
	overlay := flag.String("overlay-root", "", "directory whose files replace the same relative paths of -repo during analysis (witness replay)")
	flag.Parse()
	if t := os.Getenv("VERIF_TIER"); t != "" && *tier == "" {
		*tier = t
	}
	seed := 0
	if s := os.Getenv("VERIF_SEED"); s != "" {
		seed, _ = strconv.Atoi(s)
	}
	var ids []string
	if *prop == "all" {
		for id := range props {
			if len(id) == 3 && id[0] == 'C' { // the twenty properties; discovery aids (INFER-*) are run by name only
				ids = append(ids, id)
			}
		}
		sort.Strings(ids)
	} else {
		if props[*prop] == nil {
			fmt.Fprintf(os.Stderr, "unknown property %q\n", *prop)
			os.Exit(2)
		}
		ids = []string{*prop}
	}
	start := time.Now()
	var p *Prog
	code := 0
	func() {
		defer func() {
			if e := recover(); e != nil {
				if u, ok := e.(undecided); ok {
					fmt.Printf("UNDECIDED property=%s %s\n", *prop, u.msg)
				} else {
					fmt.Printf("UNDECIDED property=%s analyzer panic during load: %v\n%s\n", *prop, e, debug.Stack())
				}
				code = 2
			}
		}()
		if os.Getenv("VERIF_NO_NORMALISE") == "" {
			baselinePath = os.Getenv("VERIF_BASELINE")
			if baselinePath == "" {
				if exe, err := os.Executable(); err == nil {
					baselinePath = filepath.Join(filepath.Dir(filepath.Dir(exe)), "baseline_funcs.json")
				}
			}
		}
		p = loadProg(*repo, *overlay)
		if *prop == "INFER-BASELINE" {
			writeBaseline(p, *verif)
			os.Exit(0)
		}
	}()
	if code != 0 {
		os.Exit(code)
	}
	loadS := time.Since(start).Seconds()
	for _, id := range ids {
		c := runProp(id, p, *tier, seed, *verif, loadS)
		if c > code {
			code = c
		}
	}
	os.Exit(code)
}

func runProp(id string, p *Prog, tier string, seed int, verif string, loadS float64) (code int) {
	start := time.Now()
	r := newReport(id, p)
	defer func() {
		if e := recover(); e != nil {
			if u, ok := e.(undecided); ok {
				fmt.Printf("UNDECIDED property=%s %s\n", id, u.msg)
			} else {
				fmt.Printf("UNDECIDED property=%s analyzer panic: %v\n%s\n", id, e, debug.Stack())
			}
			code = 2
		}
	}()
	props[id](r, tier)
	li := map[string]interface{}{"bleve_packages": len(p.Pkgs), "all_packages": len(p.All), "source_functions": len(p.flist), "load_s": loadS, "ssa_built": p.ssaProg != nil, "normalisation": normaliseLog}
	return r.finish(tier, seed, start, verif, li)
}
