package main

import (
	"fmt"
	"go/ast"
	"go/constant"
	"go/token"
	"go/types"
	"os"
	"sort"
	"strings"

	"golang.org/x/tools/go/cfg"
)

// one named site each, with the reason the skipped clean-up is harmless there
var deferObservedAllow = map[string]string{
	"index/scorch.(*Scorch).SetPathInBolt/return-call-Sync": "the return is dominated by a successful tx.Commit(); the deferred action is tx.Rollback(), a no-op on a committed transaction",
}

// ruleDeferObservedErr: when a deferred closure decides its clean-up on a
// LOCAL error variable (not a named result), every later return must hand
// back that very variable (or nil): returning another error expression leaves
// the variable nil and the deferred clean-up is skipped.
func ruleDeferObservedErr(r *Report, rule string, pkgs ...string) {
	p := r.P
	n := 0
	for _, pk := range pkgs {
		for _, fi := range p.funcsInPkg(pk) {
			info := fi.Pkg.TypesInfo
			for _, bu := range bodiesOf(fi) {
				var sig *types.Signature
				if bu.Lit != nil {
					sig, _ = info.TypeOf(bu.Lit).(*types.Signature)
				} else {
					sig = fi.Obj.Type().(*types.Signature)
				}
				if sig == nil || sig.Results().Len() == 0 || !isErrorType(sig.Results().At(sig.Results().Len()-1).Type()) {
					continue
				}
				named := map[types.Object]bool{}
				for i := 0; i < sig.Results().Len(); i++ {
					named[sig.Results().At(i)] = true
				}
				// deferred closures reading a local error variable in a condition
				var defers []*ast.DeferStmt
				observed := map[*ast.DeferStmt]types.Object{}
				inspectNoLit(bu.Body, func(x ast.Node) bool {
					ds, ok := x.(*ast.DeferStmt)
					if !ok {
						return true
					}
					lit, ok := ds.Call.Fun.(*ast.FuncLit)
					if !ok {
						return true
					}
					ast.Inspect(lit.Body, func(y ast.Node) bool {
						is, ok := y.(*ast.IfStmt)
						if !ok {
							return true
						}
						ast.Inspect(is.Cond, func(z ast.Node) bool {
							id, ok := z.(*ast.Ident)
							if !ok {
								return true
							}
							obj := info.ObjectOf(id)
							v, isVar := obj.(*types.Var)
							if !isVar || !isErrorType(v.Type()) || named[obj] {
								return true
							}
							// declared in this body, outside the closure
							if declaredWithin(info, bu.Body, v) && !declaredWithin(info, lit, v) {
								observed[ds] = obj
							}
							return true
						})
						return true
					})
					if v := observed[ds]; v != nil {
						// closures that overwrite the variable report their own errors in it; they do not decide on the caller's outcome
						assigns := false
						ast.Inspect(lit.Body, func(y ast.Node) bool {
							if as, ok := y.(*ast.AssignStmt); ok {
								for _, l := range as.Lhs {
									if objOf(info, l) == v {
										assigns = true
									}
								}
							}
							return true
						})
						if assigns {
							delete(observed, ds)
						} else {
							defers = append(defers, ds)
						}
					}
					return true
				})
				if len(defers) == 0 {
					continue
				}
				g := buildCFG(info, bu.Body)
				for _, ds := range defers {
					v := observed[ds]
					for _, rs := range returnsOf(bu.Body) {
						if !g.ReachesNode(ds, rs) || len(rs.Results) == 0 {
							continue
						}
						e := ast.Unparen(rs.Results[len(rs.Results)-1])
						n++
						ok := isNilIdent(info, e) || objOf(info, e) == v
						r.Fn(fi)
						allowKey := bu.Name + "/return-" + exprShort(e)
						if ce, isCall := e.(*ast.CallExpr); isCall {
							allowKey = bu.Name + "/return-call-" + calleeShortName(info, ce) // receiver names are not part of the key
						}
						if why, allowed := deferObservedAllow[allowKey]; allowed && !ok {
							r.Allow(rule, bu.Name+"/return-"+exprShort(e), rs.Pos(), why)
							continue
						}
						r.Ob(rule, bu.Name+"/return-"+exprShort(e), rs.Pos(), ok,
							fmt.Sprintf("the deferred clean-up registered earlier decides on the local variable `%s`; this return hands back `%s` without storing it in `%s`, so the clean-up sees nil and is skipped (resources created so far leak)", v.Name(), exprStr(e), v.Name()))
					}
				}
			}
		}
	}
	if n == 0 {
		undecidedf("defer-observed-error rule matched no return")
	}
}

// ruleReadyChannelHB: "ready channel" publication.  For a struct type with a
// chan struct{} field that one function closes after filling other fields,
// every read of those fields elsewhere must be dominated by a receive from
// that channel on the same object (happens-before through close).
func ruleReadyChannelHB(r *Report, rule string, pkg, typeName, chField string, dataFields []string) {
	p := r.P
	// the publisher: function that closes the channel
	var publisher *FuncInfo
	for _, fi := range p.funcsInPkg(pkg) {
		for _, c := range builtinCalls(fi.Pkg.TypesInfo, fi.Decl.Body, "close") {
			if isField(fi.Pkg.TypesInfo, c.Args[0], typeName, chField) {
				publisher = fi
			}
		}
	}
	if publisher == nil {
		undecidedf("no function closes %s.%s", typeName, chField)
	}
	n := 0
	for _, fi := range p.funcsInPkg(pkg) {
		if fi == publisher {
			continue
		}
		info := fi.Pkg.TypesInfo
		// functions that only run in the publishing goroutine (called by the publisher) are writers
		calledByPublisher := false
		for _, c := range callsDeep(publisher.Decl.Body) {
			if f := callee(publisher.Pkg.TypesInfo, c); f == fi.Obj {
				calledByPublisher = true
			}
		}
		for _, bu := range bodiesOf(fi) {
			var g *FCFG
			inspectNoLit(bu.Body, func(x ast.Node) bool {
				sel, ok := x.(*ast.SelectorExpr)
				if !ok {
					return true
				}
				isData := false
				for _, df := range dataFields {
					if isField(info, sel, typeName, df) {
						isData = true
					}
				}
				if !isData {
					return true
				}
				if calledByPublisher {
					return true
				}
				// composite-literal construction sites are not reads
				n++
				if g == nil {
					g = buildCFG(info, bu.Body)
				}
				base := exprStr(sel.X)
				dominated := false
				inspectNoLit(bu.Body, func(y ast.Node) bool {
					u, ok := y.(*ast.UnaryExpr)
					if !ok || u.Op != token.ARROW {
						return true
					}
					if isField(info, u.X, typeName, chField) && exprStr(ast.Unparen(u.X).(*ast.SelectorExpr).X) == base && g.DominatesNode(u, sel) {
						dominated = true
					}
					return true
				})
				if !dominated && lockHeldAt(g, info, sel, "m", "W") {
					// the publisher holds the object's mutex for the whole fill
					dominated = true
				}
				r.Fn(fi)
				r.Ob(rule, bu.Name+"/"+exprStr(sel)+"-after-<-"+chField, sel.Pos(), dominated,
					"read of "+exprStr(sel)+" is not dominated by a receive from "+base+"."+chField+": the field is filled by "+publisher.Obj.Name()+" in another goroutine and only becomes safe to read after that channel is closed (data race otherwise)")
				return true
			})
		}
	}
	if n == 0 {
		undecidedf("ready-channel rule matched no read of %s data fields", typeName)
	}
}

// ruleMergerLoopExit: the merger goroutine leaves its loop only when the
// index is closing; a user-cancelled forced merge (doneCh != nil) must not end it.
func ruleMergerLoopExit(r *Report, rule string) {
	p := r.P
	fi := p.MustFunc("index/scorch.(*Scorch).mergerLoop")
	r.Fn(fi)
	info := fi.Pkg.TypesInfo
	g := buildCFG(info, fi.Decl.Body)
	n := 0
	ast.Inspect(fi.Decl.Body, func(x ast.Node) bool {
		bs, ok := x.(*ast.BranchStmt)
		if !ok || bs.Tok != token.BREAK || bs.Label == nil {
			return true
		}
		n++
		// either inside a `case <-s.closeCh` clause, or on the ErrClosed path of a NON user-triggered request
		inCloseCase := false
		for _, anc := range enclosing(fi.Decl.Body, bs) {
			if cc, ok := anc.(*ast.CommClause); ok && cc.Comm != nil {
				if es, ok := cc.Comm.(*ast.ExprStmt); ok {
					if u, ok := ast.Unparen(es.X).(*ast.UnaryExpr); ok && isField(info, u.X, "Scorch", "closeCh") {
						inCloseCase = true
					}
				}
			}
		}
		ok2 := inCloseCase
		detail := "loop exit inside the closeCh case"
		if !inCloseCase {
			var errClosed, notUser bool
			facts := g.GuardsAtStmt(fi.Decl.Body, bs) // go/cfg does not record branch statements as nodes
			for _, f := range facts {
				s := exprStr(f.Expr)
				if f.Truth && strings.Contains(s, "ErrClosed") && strings.Contains(s, "==") {
					errClosed = true
				}
				if x, isEq, isNil := nilTest(info, f.Expr); isNil && strings.HasSuffix(exprStr(x), ".doneCh") && (isEq == f.Truth) {
					notUser = true
				}
			}
			ok2 = errClosed && notUser
			detail = "loop exit outside the closeCh case must be on the path where the merge reported ErrClosed AND the request was not user-triggered (doneCh == nil); guards: " + factsString(facts)
		}
		r.Ob(rule, fi.Name+"/loop-exit-only-on-index-close", bs.Pos(), ok2, detail+" (a cancelled ForceMerge must not terminate the merger: later forced merges would block until Close and background merging stops)")
		return true
	})
	if n < 3 {
		undecidedf("%s: only %d loop exits found", fi.Name, n)
	}
}

// ruleParallelSlotsUpdatedTogether: per-child parallel slots of a searcher
// (current match, its ancestors, its join key) are refreshed together: after
// every store of a child's new match into slot i, the dependent slots of the
// same index are stored on the continuing path (the path where the match is
// non-nil and no error occurred).
func ruleParallelSlotsUpdatedTogether(r *Report, rule, pkg, typeName, lead string, followers []string) {
	p := r.P
	n := 0
	for _, fi := range p.funcsInPkg(pkg) {
		if fi.Decl.Recv == nil || !typeIs(fi.Obj.Type().(*types.Signature).Recv().Type(), pkg, typeName) {
			continue
		}
		info := fi.Pkg.TypesInfo
		var g *FCFG
		ast.Inspect(fi.Decl.Body, func(x ast.Node) bool {
			as, ok := x.(*ast.AssignStmt)
			if !ok || len(as.Lhs) == 0 {
				return true
			}
			ix, ok := ast.Unparen(as.Lhs[0]).(*ast.IndexExpr)
			if !ok || !isField(info, ix.X, typeName, lead) {
				return true
			}
			// only stores of a fresh child result (call to Next/Advance)
			c, ok := as.Rhs[0].(*ast.CallExpr)
			if !ok {
				return true
			}
			if f := callee(info, c); f == nil || (f.Name() != "Next" && f.Name() != "Advance") {
				return true
			}
			n++
			if g == nil {
				g = buildCFG(info, fi.Decl.Body)
			}
			idx := exprStr(ix.Index)
			for _, fol := range followers {
				found := false
				ast.Inspect(fi.Decl.Body, func(y ast.Node) bool {
					a2, ok := y.(*ast.AssignStmt)
					if !ok || len(a2.Lhs) == 0 {
						return true
					}
					i2, ok := ast.Unparen(a2.Lhs[0]).(*ast.IndexExpr)
					if !ok || !isField(info, i2.X, typeName, fol) || exprStr(i2.Index) != idx {
						return true
					}
					if os.Getenv("VERIF_DEBUG") != "" {
						fmt.Fprintf(os.Stderr, "DEBUG cand lead=%s fol=%s posok=%v reach=%v\n", p.Pos(as.Pos()), p.Pos(a2.Pos()), a2.Pos() > as.Pos(), g.ReachesNode(as, a2))
					}
					if a2 != as && g.ReachesNode(as, a2) && (a2.Pos() > as.Pos() || g.ReachesFwdNode(as, a2)) {
						// and nothing but error/nil early exits in between: the follower's guards = lead's guards + nil/err tests
						extra := false
						leadFacts := g.GuardsOf(as)
						lf := factsString(leadFacts)
						for _, f := range g.GuardsOf(a2) {
							if strings.Contains(lf, f.String()) {
								continue
							}
							// the exit condition of the lead's own loop (the follower sits in a second loop)
							isExit := false
							for _, l := range leadFacts {
								if l.Tag == nil && f.Tag == nil && l.Truth != f.Truth && exprStr(l.Expr) == exprStr(f.Expr) {
									isExit = true
								}
							}
							if isExit {
								continue
							}
							if _, _, isNil := nilTest(info, f.Expr); !isNil {
								extra = true
								if os.Getenv("VERIF_DEBUG") != "" {
									fmt.Fprintf(os.Stderr, "DEBUG extra guard %s for %s (lead facts %s)\n", f.String(), fol, lf)
								}
							}
						}
						if !extra {
							found = true
						}
					}
					return true
				})
				r.Fn(fi)
				r.Ob(rule, fi.Name+"/"+lead+"["+idx+"]->"+fol+"["+idx+"]", as.Pos(), found,
					"after child "+idx+"'s current match is replaced ("+exprShort(as.Rhs[0])+") its dependent slot "+fol+"["+idx+"] must be recomputed on the continuing path; a stale slot makes the join compare keys of a match the child has already left")
			}
			return true
		})
	}
	if n < 3 {
		undecidedf("parallel-slot rule matched %d stores of %s.%s", n, typeName, lead)
	}
}

// ruleExhaustionSticky: the 1-hit unadorned iterator reports "no more" only
// after it was marked finished (so a later Next cannot hand the skipped hit
// back).
func ruleExhaustionSticky(r *Report, rule string) {
	p := r.P
	fi := p.MustFunc("index/scorch.(*unadornedPostingsIterator1Hit).nextDocNumAtOrAfter")
	r.Fn(fi)
	info := fi.Pkg.TypesInfo
	g := buildCFG(info, fi.Decl.Body)
	n := 0
	isDocNum := func(e ast.Expr) bool {
		return isField(info, resolveCopies(info, fi.Decl.Body, e), "unadornedPostingsIterator1Hit", "docNum")
	}
	markedBefore := func(rs *ast.ReturnStmt) bool {
		for _, st := range storesToField(info, fi.Decl.Body, "unadornedPostingsIterator1Hit", "docNum") {
			if strings.HasSuffix(exprStr(st.Rhs), "Finished") && g.DominatesNode(st.Stmt, rs) {
				return true
			}
		}
		return false
	}
	for _, rs := range returnsOf(fi.Decl.Body) {
		if len(rs.Results) == 0 {
			continue
		}
		// "nothing (more)": the first result is the zero value - `0, false` or `nil, nil`
		first := ast.Unparen(rs.Results[0])
		nothing := isNilIdent(info, first)
		if tv, ok := info.Types[first]; ok && tv.Value != nil && tv.Value.Kind() == constant.Int && constant.Sign(tv.Value) == 0 {
			nothing = true
		}
		n++
		if nothing {
			ok := markedBefore(rs)
			for _, f := range g.GuardsOf(rs) {
				be, isB := ast.Unparen(f.Expr).(*ast.BinaryExpr)
				if isB && f.Tag == nil && be.Op == token.EQL && f.Truth && strings.HasSuffix(exprStr(be.Y), "Finished") && isDocNum(be.X) {
					ok = true
				}
			}
			r.Ob(rule, fi.Name+"/exhausted-implies-finished", rs.Pos(), ok, "every \"no more hits\" return happens with the iterator already marked finished or marks it finished first: otherwise a following Next() on the same iterator returns the hit that was just skipped (an Advance result smaller than its target)")
		} else {
			r.Ob(rule, fi.Name+"/returned-hit-is-consumed", rs.Pos(), markedBefore(rs), "the single hit is marked consumed before it is returned (it must not be returned twice)")
		}
	}
	if n < 3 {
		undecidedf("%s: expected 3 returns, matched %d", fi.Name, n)
	}
}

// ruleCursorEncodingMirrorsSortMode: a SearchAfter/SearchBefore cursor is
// re-encoded exactly like the sort key of its sort mode: prefix-coded for
// number/date/geo-distance, the raw string for string/auto modes, doc id and score.
func ruleCursorEncodingMirrorsSortMode(r *Report, rule string) {
	p := r.P
	fi := p.MustFunc("search/collector.encodeSearchAfter")
	r.Fn(fi)
	info := fi.Pkg.TypesInfo
	sig := fi.Obj.Type().(*types.Signature)
	after := sig.Params().At(1)
	g := buildCFG(info, fi.Decl.Body)
	seenCoded := map[string]bool{}
	raw := 0
	bad := ""
	var rets []*ast.ReturnStmt
	inspectNoLit(fi.Decl.Body, func(x ast.Node) bool {
		if rs, ok := x.(*ast.ReturnStmt); ok && len(rs.Results) == 1 {
			rets = append(rets, rs)
		}
		return true
	})
	for _, rs := range rets {
		isRaw := objOf(info, rs.Results[0]) == after
		// which mode does the path to this return establish? (switch-case facts and == comparisons alike)
		mode := ""
		for _, f := range g.GuardsOf(rs) {
			if !f.Truth {
				continue
			}
			txt := exprStr(f.Expr)
			if be, isB := ast.Unparen(f.Expr).(*ast.BinaryExpr); isB && f.Tag == nil && be.Op != token.EQL {
				continue // only "is equal to the mode constant" establishes the mode
			}
			switch {
			case strings.Contains(txt, "SortGeoDistance"):
				mode = "distance"
			case strings.Contains(txt, "SortFieldAsNumber"):
				mode = "number"
			case strings.Contains(txt, "SortFieldAsDate"):
				mode = "date"
			}
		}
		if os.Getenv("VERIF_DEBUG") != "" {
			fmt.Fprintf(os.Stderr, "DEBUG return %s facts=%s mode=%q\n", exprStr(rs.Results[0]), factsString(g.GuardsOf(rs)), mode)
		}
		if mode != "" {
			if isRaw {
				bad = mode + " cursor returned unchanged"
			}
			seenCoded[mode] = true
		} else {
			if !isRaw {
				bad = "a cursor of a raw-keyed sort (string/auto field sort, _id, _score) is re-encoded by " + exprStr(rs.Results[0])
			}
			raw++
		}
	}
	ok := bad == "" && raw >= 1 && seenCoded["distance"] && seenCoded["number"] && seenCoded["date"]
	r.Ob(rule, fi.Name+"/raw-for-string,auto,id,score;coded-for-number,date,distance", fi.Decl.Pos(), ok,
		fmt.Sprintf("sort keys of string/auto-mode field sorts, _id and _score are raw terms, so their cursor must be passed through unchanged; number/date/geo-distance keys are prefix-coded, so their cursor is re-encoded (%s; raw returns=%d coded modes=%v)", bad, raw, seenCoded))
}

// prevSibling returns the statement preceding n in its statement list.
func prevSibling(root ast.Node, n ast.Stmt) ast.Stmt {
	var res ast.Stmt
	find := func(list []ast.Stmt) {
		for i, s := range list {
			if s == n && i > 0 {
				res = list[i-1]
			}
		}
	}
	ast.Inspect(root, func(x ast.Node) bool {
		switch b := x.(type) {
		case *ast.BlockStmt:
			find(b.List)
		case *ast.CaseClause:
			find(b.Body)
		case *ast.CommClause:
			find(b.Body)
		}
		return res == nil
	})
	return res
}

// sharedStorageAt (K6 aliasing): reaching definitions of <v>.<fld> at node
// `at`.  Returns the non-allocating definitions (initialisers that make the
// fresh object's field share storage with something that already exists,
// e.g. `internal: root.internal`) that may reach the element write.
func sharedStorageAt(info *types.Info, g *FCFG, body *ast.BlockStmt, v types.Object, owner, fld string, at ast.Node) []ast.Expr {
	defs := map[string]ast.Expr{}
	litField := func(cl *ast.CompositeLit) (ast.Expr, bool) {
		for _, el := range cl.Elts {
			if kv, ok := el.(*ast.KeyValueExpr); ok {
				if id, ok := kv.Key.(*ast.Ident); ok && id.Name == fld {
					return kv.Value, true
				}
			}
		}
		return nil, false
	}
	defOf := func(n ast.Node) (string, ast.Expr, bool) {
		as, ok := n.(*ast.AssignStmt)
		if !ok {
			return "", nil, false
		}
		for i, l := range as.Lhs {
			if len(as.Lhs) != len(as.Rhs) {
				continue
			}
			if objOf(info, l) == v {
				e := ast.Unparen(as.Rhs[i])
				if u, ok := e.(*ast.UnaryExpr); ok && u.Op == token.AND {
					e = u.X
				}
				if cl, ok := e.(*ast.CompositeLit); ok {
					val, has := litField(cl)
					if !has {
						return fmt.Sprintf("D%d", as.Pos()), nil, true // zero value
					}
					return fmt.Sprintf("D%d", as.Pos()), val, true
				}
			}
			if isField(info, l, owner, fld) {
				if b := baseIdent(l); b != nil && info.ObjectOf(b) == v {
					return fmt.Sprintf("D%d", as.Pos()), as.Rhs[i], true
				}
			}
		}
		return "", nil, false
	}
	fl := &Flow{F: g, Must: false, Entry: Set{}}
	fl.Transfer = func(n ast.Node, in Set) Set {
		if k, e, ok := defOf(n); ok {
			defs[k] = e
			return Set{k: true}
		}
		return in
	}
	fl.Solve()
	l, ok := g.Locate(at)
	if !ok {
		return nil
	}
	s, ok := fl.At(l)
	if !ok {
		return nil
	}
	var shared []ast.Expr
	for _, k := range s.sorted() {
		e := defs[k]
		if e == nil || allocates(info, e, v, owner, fld) {
			continue
		}
		shared = append(shared, e)
	}
	return shared
}

// allocates: the expression yields storage nobody else can hold yet.
func allocates(info *types.Info, e ast.Expr, v types.Object, owner, fld string) bool {
	e = ast.Unparen(e)
	if isNilIdent(info, e) {
		return true
	}
	switch x := e.(type) {
	case *ast.CompositeLit:
		return true
	case *ast.CallExpr:
		switch calleeBuiltin(info, x) {
		case "make", "new":
			return true
		case "append":
			// append to the object's own (fresh) field or to an allocation
			if len(x.Args) > 0 {
				a := ast.Unparen(x.Args[0])
				if isField(info, a, owner, fld) {
					if b := baseIdent(a); b != nil && info.ObjectOf(b) == v {
						return true
					}
				}
				return allocates(info, a, v, owner, fld)
			}
		}
	}
	return false
}

// lenDomain: possible values {0,1,2,3+} of len(<name>) under the guard facts.
func lenDomain(info *types.Info, facts []Fact, v types.Object) map[int]bool {
	d := map[int]bool{0: true, 1: true, 2: true, 3: true}
	for _, f := range facts {
		isLen := func(e ast.Expr) bool {
			c, ok := ast.Unparen(e).(*ast.CallExpr)
			return ok && calleeBuiltin(info, c) == "len" && len(c.Args) == 1 && objOf(info, c.Args[0]) == v
		}
		var be *ast.BinaryExpr
		if f.Tag != nil {
			// `switch len(v) { case k:` is the fact len(v) == k
			if !isLen(f.Tag) {
				continue
			}
			be = &ast.BinaryExpr{X: f.Tag, Op: token.EQL, Y: f.Expr}
		} else {
			b2, ok := ast.Unparen(f.Expr).(*ast.BinaryExpr)
			if !ok {
				continue
			}
			be = b2
		}
		x, y, op := be.X, be.Y, be.Op
		if isLen(y) {
			x, y = y, x
			switch op {
			case token.LSS:
				op = token.GTR
			case token.GTR:
				op = token.LSS
			case token.LEQ:
				op = token.GEQ
			case token.GEQ:
				op = token.LEQ
			}
		}
		if !isLen(x) {
			continue
		}
		k, ok := intConst(info, y)
		if !ok {
			continue
		}
		for val := range d {
			// val==3 stands for every value >= 3: keep it unless the relation excludes all of them
			holds := func(n int) bool {
				switch op {
				case token.EQL:
					return n == k
				case token.NEQ:
					return n != k
				case token.LSS:
					return n < k
				case token.LEQ:
					return n <= k
				case token.GTR:
					return n > k
				case token.GEQ:
					return n >= k
				}
				return true
			}
			keep := false
			if val < 3 {
				keep = holds(val) == f.Truth
			} else {
				for n := 3; n < 3+k+3; n++ {
					if holds(n) == f.Truth {
						keep = true
					}
				}
			}
			if !keep {
				delete(d, val)
			}
		}
	}
	return d
}

func intConst(info *types.Info, e ast.Expr) (int, bool) {
	tv, ok := info.Types[e]
	if !ok || tv.Value == nil {
		return 0, false
	}
	s := tv.Value.ExactString()
	n := 0
	for _, ch := range s {
		if ch < '0' || ch > '9' {
			return 0, false
		}
		n = n*10 + int(ch-'0')
	}
	return n, true
}

// ruleUnionConsumesAllCollections: a per-segment OR over several inputs that
// sorts its inputs into several local collections (1-hit doc numbers, actual
// bitmaps) must build each per-segment result from ALL collections, or be on a
// path on which the ignored collection is provably empty.
func ruleUnionConsumesAllCollections(r *Report, rule, fn, resultOwner, resultField string) {
	p := r.P
	fi := p.MustFunc(fn)
	r.Fn(fi)
	info := fi.Pkg.TypesInfo
	g := buildCFG(info, fi.Decl.Body)
	d := newDeps(info, fi.Decl.Body)
	// collections: local slices grown by append inside a nested loop
	colls := map[types.Object]bool{}
	ast.Inspect(fi.Decl.Body, func(x ast.Node) bool {
		as, ok := x.(*ast.AssignStmt)
		if !ok || len(as.Lhs) != 1 || len(as.Rhs) != 1 {
			return true
		}
		c, ok := as.Rhs[0].(*ast.CallExpr)
		if !ok || calleeBuiltin(info, c) != "append" || len(c.Args) < 2 {
			return true
		}
		obj := objOf(info, as.Lhs[0])
		if obj == nil || objOf(info, c.Args[0]) != obj {
			return true
		}
		loops := 0
		for _, anc := range enclosing(fi.Decl.Body, as) {
			switch anc.(type) {
			case *ast.RangeStmt, *ast.ForStmt:
				loops++
			}
		}
		if loops >= 2 {
			colls[obj] = true
		}
		return true
	})
	if len(colls) < 2 {
		undecidedf("%s: expected >= 2 input collections, found %d", fn, len(colls))
	}
	n := 0
	ast.Inspect(fi.Decl.Body, func(x ast.Node) bool {
		as, ok := x.(*ast.AssignStmt)
		if !ok || len(as.Lhs) != 1 {
			return true
		}
		ix, ok := ast.Unparen(as.Lhs[0]).(*ast.IndexExpr)
		if !ok || !isField(info, ix.X, resultOwner, resultField) {
			return true
		}
		n++
		sl := d.SliceOfExpr(as.Rhs[0])
		facts := g.GuardsOf(as)
		var missing []string
		for c := range colls {
			if sl[varKeyOf(c.(*types.Var))] {
				continue
			}
			dom := lenDomain(info, facts, c)
			if len(dom) == 1 && dom[0] {
				continue
			}
			missing = append(missing, c.Name())
		}
		sort.Strings(missing)
		r.Ob(rule, fi.Name+"/result-"+exprShort(as.Rhs[0])+"-covers-all-inputs", as.Pos(), len(missing) == 0,
			"per-segment result "+exprStr(as.Rhs[0])+" is not computed from collection(s) "+strings.Join(missing, ",")+" and the path does not establish that they are empty (guards: "+factsString(facts)+"): documents contributed by those inputs are lost for this segment only, so the answer depends on how the index is segmented")
		return true
	})
	if n < 3 {
		undecidedf("%s: expected >= 3 result stores, found %d", fn, n)
	}
}

// ruleNilActualBitmapIsNotEmpty: ActualBitmap()==nil also describes 1-hit
// encoded postings (which only exist in merged/persisted segments).  A branch
// taken on `x.ActualBitmap() == nil` may only skip the optimisation for that
// iterator; treating it as "no postings" is allowed only after DocNum1Hit()
// of the same iterator was tested and excluded.
func ruleNilActualBitmapIsNotEmpty(r *Report, rule string) {
	p := r.P
	n := 0
	for _, fi := range p.funcsInPkg(scorchPkg) {
		info := fi.Pkg.TypesInfo
		var g *FCFG
		ast.Inspect(fi.Decl.Body, func(x ast.Node) bool {
			is, ok := x.(*ast.IfStmt)
			if !ok {
				return true
			}
			var facts []Fact
			splitCondAny(is.Cond, &facts)
			for _, f := range facts {
				be, ok := ast.Unparen(f.Expr).(*ast.BinaryExpr)
				if !ok || be.Op != token.EQL || !isNilIdent(info, be.Y) {
					continue
				}
				c, ok := ast.Unparen(be.X).(*ast.CallExpr)
				if !ok {
					continue
				}
				sel, ok := ast.Unparen(c.Fun).(*ast.SelectorExpr)
				if !ok || sel.Sel.Name != "ActualBitmap" {
					continue
				}
				n++
				r.Fn(fi)
				recv := exprStr(sel.X)
				// pure skip: the then-branch is a lone `continue` of the innermost loop (or return nil,nil = give up optimising)
				skip := false
				if len(is.Body.List) == 1 {
					switch s := is.Body.List[0].(type) {
					case *ast.BranchStmt:
						skip = s.Tok == token.CONTINUE && s.Label == nil
					case *ast.ReturnStmt:
						skip = true
						for _, e := range s.Results {
							if !isNilIdent(info, e) {
								skip = false
							}
						}
					}
				}
				if skip {
					r.Ob(rule, fi.Name+"/nil-actual-bitmap-of-"+recv+"-skips", is.Pos(), true, "iterator without an actual bitmap is left alone (skip)")
					continue
				}
				if g == nil {
					g = buildCFG(info, fi.Decl.Body)
				}
				// treated as empty: needs the 1-hit case excluded first
				excluded := false
				ast.Inspect(fi.Decl.Body, func(y ast.Node) bool {
					as, ok := y.(*ast.AssignStmt)
					if !ok || len(as.Rhs) != 1 || len(as.Lhs) != 2 {
						return true
					}
					c2, ok := as.Rhs[0].(*ast.CallExpr)
					if !ok {
						return true
					}
					s2, ok := ast.Unparen(c2.Fun).(*ast.SelectorExpr)
					if !ok || s2.Sel.Name != "DocNum1Hit" || exprStr(s2.X) != recv || !g.DominatesNode(as, is.Cond) {
						return true
					}
					okVar := objOf(info, as.Lhs[1])
					// the statement following the call tests that ok and leaves on true
					if next := nextSibling(fi.Decl.Body, as); next != nil {
						if nis, isIf := next.(*ast.IfStmt); isIf && objOf(info, nis.Cond) == okVar && okVar != nil && leavesPath(lastStmt(nis.Body)) {
							excluded = true
						}
					}
					return true
				})
				r.Ob(rule, fi.Name+"/nil-actual-bitmap-of-"+recv+"-as-empty-after-1hit-excluded", is.Pos(), excluded,
					"the branch treats `"+recv+".ActualBitmap() == nil` as \"no postings\" (it does more than skip), but 1-hit encoded postings of merged segments also report a nil actual bitmap; this is only sound after "+recv+".DocNum1Hit() was tested and that case left the path")
			}
			return true
		})
	}
	if n < 4 {
		undecidedf("nil-actual-bitmap rule matched %d sites", n)
	}
}

// splitCondAny lists the atoms of a condition that are true on the then-branch
// when the condition is a disjunction/conjunction of atoms (for `a || b` each
// atom MAY be the reason; that is what the caller wants).
func splitCondAny(e ast.Expr, out *[]Fact) {
	e = ast.Unparen(e)
	if be, ok := e.(*ast.BinaryExpr); ok && (be.Op == token.LOR || be.Op == token.LAND) {
		splitCondAny(be.X, out)
		splitCondAny(be.Y, out)
		return
	}
	*out = append(*out, Fact{Expr: e, Truth: true})
}

func nextSibling(root ast.Node, n ast.Stmt) ast.Stmt {
	var res ast.Stmt
	find := func(list []ast.Stmt) {
		for i, s := range list {
			if s == n && i+1 < len(list) {
				res = list[i+1]
			}
		}
	}
	ast.Inspect(root, func(x ast.Node) bool {
		switch b := x.(type) {
		case *ast.BlockStmt:
			find(b.List)
		case *ast.CaseClause:
			find(b.Body)
		case *ast.CommClause:
			find(b.Body)
		}
		return res == nil
	})
	return res
}

func lastStmt(b *ast.BlockStmt) ast.Node {
	if len(b.List) == 0 {
		return b
	}
	return b.List[len(b.List)-1]
}

func leavesPath(n ast.Node) bool {
	switch s := n.(type) {
	case *ast.BranchStmt:
		return s.Tok == token.CONTINUE || s.Tok == token.BREAK || s.Tok == token.GOTO
	case *ast.ReturnStmt:
		return true
	}
	return false
}

// ruleSuccessorKeepsIncrementedByte: byte-string successor helpers
// (func([]byte) []byte that increment an element x[i]).  When such a helper's
// result is used as the END of a range whose START is the helper's own
// argument (a prefix scan: RangeIterator(k, f(k)), AutomatonIterator(a, p, f(p)))
// the successor must drop the bytes that overflowed: every non-nil return is
// x[:i+1].  Returning the whole buffer ("a\xff" -> "b\x00") puts keys that do
// not carry the prefix ("b") inside the range.  Helpers used in other roles
// (numeric enumeration, inclusive range ends) are only listed.
func ruleSuccessorKeepsIncrementedByte(r *Report, rule string, pkgFilter func(rel string) bool, floor int) {
	p := r.P
	n := 0
	type helper struct {
		fi       *FuncInfo
		buf, idx types.Object
	}
	var helpers []helper
	for _, fi := range p.flist {
		sig := fi.Obj.Type().(*types.Signature)
		if sig.Params().Len() != 1 || sig.Results().Len() != 1 || sig.Params().At(0).Type().String() != "[]byte" || sig.Results().At(0).Type().String() != "[]byte" || fi.Decl.Body == nil {
			continue
		}
		if !pkgFilter(relPkg(fi.Pkg.PkgPath)) {
			continue
		}
		info := fi.Pkg.TypesInfo
		var buf, idx types.Object
		ast.Inspect(fi.Decl.Body, func(x ast.Node) bool {
			switch s := x.(type) {
			case *ast.IncDecStmt:
				if ix, ok := s.X.(*ast.IndexExpr); ok && s.Tok == token.INC {
					buf, idx = objOf(info, ix.X), objOf(info, ix.Index)
				}
			case *ast.AssignStmt:
				if len(s.Lhs) == 1 && len(s.Rhs) == 1 {
					if ix, ok := s.Lhs[0].(*ast.IndexExpr); ok {
						if be, ok := ast.Unparen(s.Rhs[0]).(*ast.BinaryExpr); ok && be.Op == token.ADD && exprStr(be.X) == exprStr(ix) {
							if k, isC := intConst(info, be.Y); isC && k == 1 {
								buf, idx = objOf(info, ix.X), objOf(info, ix.Index)
							}
						}
					}
				}
			}
			return true
		})
		if buf != nil && idx != nil {
			helpers = append(helpers, helper{fi, buf, idx})
		}
	}
	for _, h := range helpers {
		// role: is some result used as the end of a range that starts at the argument?
		prefixRole := ""
		for _, caller := range p.flist {
			if caller.Decl.Body == nil {
				continue
			}
			cinfo := caller.Pkg.TypesInfo
			ast.Inspect(caller.Decl.Body, func(x ast.Node) bool {
				as, ok := x.(*ast.AssignStmt)
				if !ok || len(as.Lhs) != 1 || len(as.Rhs) != 1 {
					return true
				}
				c, ok := as.Rhs[0].(*ast.CallExpr)
				if !ok || callee(cinfo, c) != h.fi.Obj || len(c.Args) != 1 {
					return true
				}
				res, arg := objOf(cinfo, as.Lhs[0]), objOf(cinfo, c.Args[0])
				if res == nil || arg == nil || res == arg {
					return true
				}
				for _, c2 := range callsDeep(caller.Decl.Body) {
					hasRes, hasArg := false, false
					for _, a := range c2.Args {
						if objOf(cinfo, a) == res {
							hasRes = true
						}
						if objOf(cinfo, a) == arg {
							hasArg = true
						}
					}
					if hasRes && hasArg {
						prefixRole = caller.Name + ": " + exprShort(c2)
					}
				}
				return true
			})
		}
		info := h.fi.Pkg.TypesInfo
		r.Fn(h.fi)
		if prefixRole == "" {
			n++
			r.InfoOb(rule, h.fi.Name+"/not-a-prefix-end", h.fi.Decl.Pos(), "successor helper whose result is never paired with its own argument as (start, end) of one range call: no truncation required")
			continue
		}
		for _, rs := range returnsOf(h.fi.Decl.Body) {
			if len(rs.Results) != 1 || isNilIdent(info, rs.Results[0]) {
				continue
			}
			n++
			ok2 := false
			if se, ok := ast.Unparen(rs.Results[0]).(*ast.SliceExpr); ok && objOf(info, se.X) == h.buf && se.High != nil && se.Low == nil {
				if be, isB := ast.Unparen(se.High).(*ast.BinaryExpr); isB && be.Op == token.ADD && objOf(info, be.X) == h.idx {
					if k, isC := intConst(info, be.Y); isC && k == 1 {
						ok2 = true
					}
				}
			}
			r.Ob(rule, h.fi.Name+"/prefix-end-drops-overflowed-bytes", rs.Pos(), ok2,
				"result is used as the exclusive end of a prefix range ("+prefixRole+"): it must be "+h.buf.Name()+"[:"+h.idx.Name()+"+1] — the incremented byte kept, the bytes after it (which overflowed to 0x00) dropped; `"+exprStr(rs.Results[0])+"` admits keys without the prefix")
		}
	}
	if n < floor {
		undecidedf("successor rule matched %d sites", n)
	}
}

// rulePooledLocationsDeepCopied (K6, pooled buffers): DocumentMatch objects are
// recycled through DocumentMatchPool and Reset() keeps the ArrayPositions
// buffers of their FieldTermLocations for reuse.  A function that moves
// FieldTermLocation values out of one match into a slice owned by someone else
// (signature: a []FieldTermLocation destination plus a *DocumentMatch or
// []*DocumentMatch source) must therefore give every moved element its own
// ArrayPositions (append-copy); a bulk `append(dest, m.FieldTermLocations...)`
// or an element copy shares the buffer with a match that is about to be reused.
func rulePooledLocationsDeepCopied(r *Report, rule string) {
	p := r.P
	n := 0
	for _, fi := range p.funcsInPkg("search") {
		if fi.Decl.Body == nil {
			continue
		}
		sig := fi.Obj.Type().(*types.Signature)
		hasDest, hasSrc := false, false
		for i := 0; i < sig.Params().Len(); i++ {
			t := sig.Params().At(i).Type().String()
			if strings.HasSuffix(t, "[]"+blevePath+"/search.FieldTermLocation") {
				hasDest = true
			}
			if strings.HasSuffix(t, "*"+blevePath+"/search.DocumentMatch") {
				hasSrc = true
			}
		}
		if !hasDest || !hasSrc {
			continue
		}
		info := fi.Pkg.TypesInfo
		for _, c := range builtinCalls(info, fi.Decl.Body, "append") {
			if len(c.Args) < 2 || !strings.HasSuffix(info.TypeOf(c).String(), "search.FieldTermLocation") || !strings.HasPrefix(info.TypeOf(c).String(), "[]") {
				continue
			}
			n++
			r.Fn(fi)
			ok, why := true, ""
			if c.Ellipsis.IsValid() && !isSelectorChain(c.Args[1]) {
				// re-housing the destination's own elements (growth) moves nothing between owners
				r.Ob(rule, fi.Name+"/grow-own-slice", c.Pos(), true, "append of the destination's own elements onto a larger buffer")
				continue
			}
			if c.Ellipsis.IsValid() {
				ok, why = false, "bulk append of "+exprStr(c.Args[1])+" copies the elements shallowly (their ArrayPositions keep pointing into the source match)"
			} else {
				for _, a := range c.Args[1:] {
					cl, isLit := ast.Unparen(a).(*ast.CompositeLit)
					if !isLit {
						// a helper that builds the copy: follow it one level (its returned literal is judged instead)
						if hc, isCall := ast.Unparen(a).(*ast.CallExpr); isCall {
							if hf := callee(info, hc); hf != nil {
								if hfi := p.funcs[funcName(hf)]; hfi != nil && hfi.Decl.Body != nil {
									for _, hr := range returnsOf(hfi.Decl.Body) {
										if len(hr.Results) >= 1 {
											if hl, isHL := ast.Unparen(hr.Results[0]).(*ast.CompositeLit); isHL {
												cl, isLit = hl, true
											}
										}
									}
								}
							}
						}
					}
					if !isLit {
						ok, why = false, "element "+exprStr(a)+" is copied as a whole value (its ArrayPositions slice is shared with the source match)"
						continue
					}
					// find the ArrayPositions initialiser anywhere inside the literal
					ast.Inspect(cl, func(x ast.Node) bool {
						kv, isKV := x.(*ast.KeyValueExpr)
						if !isKV {
							return true
						}
						if id, isID := kv.Key.(*ast.Ident); isID && id.Name == "ArrayPositions" {
							v := ast.Unparen(kv.Value)
							call, isCall := v.(*ast.CallExpr)
							fresh := isCall && calleeBuiltin(info, call) == "append" && len(call.Args) >= 1 && !isSelectorChain(call.Args[0])
							if !fresh && !isNilIdent(info, v) {
								ok, why = false, "ArrayPositions: "+exprStr(v)+" aliases the source match's buffer (expected an append-copy onto a fresh or own slice)"
							}
						}
						if id, isID := kv.Key.(*ast.Ident); isID && id.Name == "Location" {
							if _, isLit := ast.Unparen(kv.Value).(*ast.CompositeLit); !isLit {
								ok, why = false, "Location: "+exprStr(kv.Value)+" copies the Location as a whole value (ArrayPositions shared)"
							}
						}
						return true
					})
				}
			}
			r.Ob(rule, fi.Name+"/moved-locations-own-their-array-positions", c.Pos(), ok,
				"FieldTermLocations moved from one DocumentMatch into another owner's slice need their own ArrayPositions: the source match goes back to the pool and its buffers are rewritten for the next posting while the phrase/collector code still reads the merged entries. "+why)
		}
	}
	if n < 1 {
		undecidedf("pooled-location rule matched no transfer site")
	}
}

func isSelectorChain(e ast.Expr) bool {
	_, ok := ast.Unparen(e).(*ast.SelectorExpr)
	return ok
}

// ruleHeapRestoredBeforePeek: DisjunctionHeapSearcher keeps the cursors of the
// current match OUTSIDE the heap (matchingCurrs).  The heap top is the minimum
// of all cursors only after those were pushed back, so in Advance every peek
// at s.heap[0] must be dominated by the loop that re-pushes matchingCurrs.
func ruleHeapRestoredBeforePeek(r *Report, rule string) {
	p := r.P
	fi := p.MustFunc("search/searcher.(*DisjunctionHeapSearcher).Advance")
	r.Fn(fi)
	info := fi.Pkg.TypesInfo
	g := buildCFG(info, fi.Decl.Body)
	var restore *ast.RangeStmt
	ast.Inspect(fi.Decl.Body, func(x ast.Node) bool {
		rs, ok := x.(*ast.RangeStmt)
		if !ok || !isField(info, rs.X, "DisjunctionHeapSearcher", "matchingCurrs") || restore != nil {
			return true
		}
		for _, c := range callsDeep(rs.Body) {
			if f := callee(info, c); f != nil && qname(f) == "container/heap.Push" {
				restore = rs
			}
		}
		return true
	})
	if restore == nil {
		undecidedf("%s: loop pushing matchingCurrs back onto the heap not found", fi.Name)
	}
	n := 0
	ast.Inspect(fi.Decl.Body, func(x ast.Node) bool {
		ix, ok := x.(*ast.IndexExpr)
		if !ok || !isField(info, ix.X, "DisjunctionHeapSearcher", "heap") {
			return true
		}
		n++
		// the range statement's X is the CFG node that stands for the loop entry
		ok2 := g.DominatesNode(restore.X, ix) && restore.Pos() < ix.Pos()
		r.Ob(rule, fi.Name+"/heap-top-read-after-pending-restored", ix.Pos(), ok2, "s.heap[0] is read as 'the smallest cursor', which is only true once the cursors of the current match (s.matchingCurrs) were pushed back; a shortcut taken before that ignores the pending cursors and can return a document smaller than the target")
		return true
	})
	if n < 1 {
		undecidedf("%s: no heap-top read found", fi.Name)
	}
}

// ruleInclusiveFlagsSingleInterpreter: the optional inclusive_* flags of the
// range queries (pointer-to-bool, nil = default) are interpreted in exactly one
// place, the searcher constructors; package query only stores them and passes
// them through.  The constructors agree on the defaults (lower bound inclusive,
// upper bound exclusive) and apply them before the first dereference.
func ruleInclusiveFlagsSingleInterpreter(r *Report, rule string) {
	p := r.P
	n := 0
	for _, fi := range p.funcsInPkg("search/query") {
		if fi.Decl.Body == nil {
			continue
		}
		info := fi.Pkg.TypesInfo
		ast.Inspect(fi.Decl.Body, func(x ast.Node) bool {
			sel, ok := x.(*ast.SelectorExpr)
			if !ok || !strings.HasPrefix(sel.Sel.Name, "Inclusive") {
				return true
			}
			v, ok := info.ObjectOf(sel.Sel).(*types.Var)
			if !ok || !v.IsField() || v.Type().String() != "*bool" {
				return true
			}
			n++
			r.Fn(fi)
			// allowed context: direct argument of a searcher constructor
			okUse := false
			for _, c := range callsDeep(fi.Decl.Body) {
				for _, a := range c.Args {
					if ast.Unparen(a) == ast.Expr(sel) {
						if f := callee(info, c); f != nil && f.Pkg() != nil && strings.HasSuffix(f.Pkg().Path(), "/search/searcher") && strings.HasSuffix(f.Name(), "RangeSearcher") {
							okUse = true
						}
					}
				}
			}
			r.Ob(rule, fi.Name+"/"+sel.Sel.Name+"-passed-through-uninterpreted", sel.Pos(), okUse,
				"package query hands "+exprStr(sel)+" to the range searcher constructor untouched; any other use (nil test, dereference, helper call) is a second interpretation of 'unset' that has to agree with the constructor's defaults (min inclusive, max exclusive) and with what MarshalJSON omits")
			return true
		})
	}
	// presence: every range query type hands each of its inclusive flags to the constructor in Searcher()
	qpk := p.Pkg("search/query")
	for _, name := range qpk.Types.Scope().Names() {
		tn, ok := qpk.Types.Scope().Lookup(name).(*types.TypeName)
		if !ok {
			continue
		}
		st, ok := tn.Type().Underlying().(*types.Struct)
		if !ok {
			continue
		}
		var flags []*types.Var
		for i := 0; i < st.NumFields(); i++ {
			if f := st.Field(i); strings.HasPrefix(f.Name(), "Inclusive") && f.Type().String() == "*bool" {
				flags = append(flags, f)
			}
		}
		if len(flags) == 0 {
			continue
		}
		sfi := p.funcs["search/query.(*"+name+").Searcher"]
		if sfi == nil || sfi.Decl.Body == nil {
			undecidedf("range query type %s has inclusive flags but no Searcher method was found", name)
		}
		sinfo := sfi.Pkg.TypesInfo
		for _, fl := range flags {
			passed := false
			for _, c := range callsDeep(sfi.Decl.Body) {
				f := callee(sinfo, c)
				if f == nil || f.Pkg() == nil || !strings.HasSuffix(f.Pkg().Path(), "/search/searcher") || !strings.HasSuffix(f.Name(), "RangeSearcher") {
					continue
				}
				for _, a := range c.Args {
					if sel, ok := ast.Unparen(a).(*ast.SelectorExpr); ok && info0(sinfo, sel) == fl {
						passed = true
					}
				}
			}
			n++
			r.Fn(sfi)
			r.Ob(rule, sfi.Name+"/"+fl.Name()+"-reaches-the-range-searcher", sfi.Decl.Pos(), passed, name+"."+fl.Name()+" is a serialised option of the query; Searcher() must hand it to the range searcher constructor (a refactor that delegates to another query type or rebuilds the call without it silently falls back to the defaults: start inclusive, end exclusive)")
		}
	}
	// constructors: defaults and order
	for _, fi := range p.funcsInPkg("search/searcher") {
		if fi.Decl.Body == nil || !strings.HasSuffix(fi.Obj.Name(), "RangeSearcher") {
			continue
		}
		info := fi.Pkg.TypesInfo
		sig := fi.Obj.Type().(*types.Signature)
		var g *FCFG
		for i := 0; i < sig.Params().Len(); i++ {
			prm := sig.Params().At(i)
			if prm.Type().String() != "*bool" {
				continue
			}
			if g == nil {
				g = buildCFG(info, fi.Decl.Body)
			}
			r.Fn(fi)
			n++
			// which bound does this parameter qualify?  decided by what package query passes for it:
			// the InclusiveMin/InclusiveStart field (lower bound) or InclusiveMax/InclusiveEnd (upper bound)
			want, roleKnown := false, false
			for _, qf := range p.funcsInPkg("search/query") {
				if qf.Decl.Body == nil {
					continue
				}
				for _, qc := range callsDeep(qf.Decl.Body) {
					if callee(qf.Pkg.TypesInfo, qc) != fi.Obj || i >= len(qc.Args) {
						continue
					}
					if sel, ok := ast.Unparen(qc.Args[i]).(*ast.SelectorExpr); ok {
						nm := sel.Sel.Name
						if strings.HasSuffix(nm, "Min") || strings.HasSuffix(nm, "Start") {
							want, roleKnown = true, true
						} else if strings.HasSuffix(nm, "Max") || strings.HasSuffix(nm, "End") {
							want, roleKnown = false, true
						}
					}
				}
			}
			if !roleKnown {
				undecidedf("%s: no query passes an Inclusive* field for parameter #%d", fi.Name, i)
			}
			// if P == nil { d := CONST; P = &d }
			var defStmt *ast.IfStmt
			var got, found bool
			ast.Inspect(fi.Decl.Body, func(x ast.Node) bool {
				is, ok := x.(*ast.IfStmt)
				if !ok {
					return true
				}
				e, isEq, isNil := nilTest(info, is.Cond)
				if !isNil || !isEq || objOf(info, e) != prm {
					return true
				}
				for _, st := range is.Body.List {
					if as, ok := st.(*ast.AssignStmt); ok && len(as.Rhs) == 1 {
						if tv, ok := info.Types[as.Rhs[0]]; ok && tv.Value != nil && tv.Value.Kind() == constant.Bool {
							got, found, defStmt = constant.BoolVal(tv.Value), true, is
						}
					}
				}
				return true
			})
			// other idiom: `v := CONST` ... `if P != nil { v = *P }` (a value local instead of re-pointing P)
			valueLocal := false
			if !found {
				ast.Inspect(fi.Decl.Body, func(x ast.Node) bool {
					as, ok := x.(*ast.AssignStmt)
					if !ok || len(as.Lhs) != len(as.Rhs) {
						return true
					}
					for k := range as.Rhs {
						st, isStar := ast.Unparen(as.Rhs[k]).(*ast.StarExpr)
						if !isStar || objOf(info, st.X) != prm {
							continue
						}
						lo := objOf(info, as.Lhs[k])
						if lo == nil {
							continue
						}
						notNil := factMatch(g.GuardsOf(as), func(fc Fact) bool {
							e, isEq, isNil := nilTest(info, fc.Expr)
							return fc.Tag == nil && isNil && isEq != fc.Truth && objOf(info, e) == prm
						})
						if !notNil {
							continue
						}
						// the other definition(s) of the local: constants
						ast.Inspect(fi.Decl.Body, func(y ast.Node) bool {
							switch d := y.(type) {
							case *ast.AssignStmt:
								if d != as && len(d.Lhs) == len(d.Rhs) {
									for q := range d.Lhs {
										if objOf(info, d.Lhs[q]) == lo {
											if tv, ok := info.Types[d.Rhs[q]]; ok && tv.Value != nil && tv.Value.Kind() == constant.Bool {
												got, found, valueLocal = constant.BoolVal(tv.Value), true, true
											}
										}
									}
								}
							case *ast.ValueSpec:
								for q, nm := range d.Names {
									if info.Defs[nm] == lo && q < len(d.Values) {
										if tv, ok := info.Types[d.Values[q]]; ok && tv.Value != nil && tv.Value.Kind() == constant.Bool {
											got, found, valueLocal = constant.BoolVal(tv.Value), true, true
										}
									}
								}
							}
							return true
						})
					}
					return true
				})
			}
			if valueLocal {
				ast.Inspect(fi.Decl.Body, func(x ast.Node) bool {
					st, ok := x.(*ast.StarExpr)
					if ok && objOf(info, st.X) == prm {
						n++
						guarded := factMatch(g.GuardsOf(st), func(fc Fact) bool {
							e, isEq, isNil := nilTest(info, fc.Expr)
							return fc.Tag == nil && isNil && isEq != fc.Truth && objOf(info, e) == prm
						})
						r.Ob(rule, fi.Name+"/"+prm.Name()+"-deref-after-default", st.Pos(), guarded, "the flag is dereferenced only where it is known to be set (the default covers the nil case)")
					}
					return true
				})
			}
			r.Ob(rule, fi.Name+"/"+prm.Name()+"-default", fi.Decl.Pos(), found && got == want, fmt.Sprintf("unset %s defaults to %v (lower bounds inclusive, upper bounds exclusive, the documented API default), found=%v value=%v", prm.Name(), want, found, got))
			if defStmt != nil {
				ast.Inspect(fi.Decl.Body, func(x ast.Node) bool {
					st, ok := x.(*ast.StarExpr)
					if ok && objOf(info, st.X) == prm {
						n++
						r.Ob(rule, fi.Name+"/"+prm.Name()+"-deref-after-default", st.Pos(), g.DominatesNode(defStmt.Cond, st), "the flag is dereferenced only after the nil default was applied")
					}
					return true
				})
			}
		}
	}
	if n < 12 {
		undecidedf("inclusive-flag rule matched %d sites", n)
	}
}

// ruleOmitemptyNilVsEmpty (K9): a slice/map field tagged `omitempty` comes back
// nil after a save whether it was nil or empty, so no behaviour may depend on
// the difference.  Nil tests of such fields (or of locals copied from them) are
// allowed only in the two harmless idioms: lazy allocation
// (`if x.F == nil { x.F = make/literal }`) and a guard around a range over the
// same collection.
func ruleOmitemptyNilVsEmpty(r *Report, rule, pkgRel string, typeNames ...string) {
	p := r.P
	fields := map[*types.Var]bool{}
	for _, tn := range typeNames {
		_, st := structOf(p, pkgRel, tn)
		for _, jf := range jsonFieldsOf(st) {
			if !jf.OmitEmpty {
				continue
			}
			switch jf.Var.Type().Underlying().(type) {
			case *types.Slice, *types.Map:
				fields[jf.Var] = true
			}
		}
	}
	if len(fields) == 0 {
		undecidedf("no omitempty slice/map fields found in %v", typeNames)
	}
	n := 0
	for _, fi := range p.funcsInPkg(pkgRel) {
		if fi.Decl.Body == nil {
			continue
		}
		info := fi.Pkg.TypesInfo
		// locals that are plain copies of such a field
		copies := map[types.Object]*types.Var{}
		ast.Inspect(fi.Decl.Body, func(x ast.Node) bool {
			as, ok := x.(*ast.AssignStmt)
			if !ok || len(as.Lhs) != len(as.Rhs) {
				return true
			}
			for i, rhs := range as.Rhs {
				if sel, ok := ast.Unparen(rhs).(*ast.SelectorExpr); ok {
					if fv, ok := info.ObjectOf(sel.Sel).(*types.Var); ok && fields[fv] {
						if o := objOf(info, as.Lhs[i]); o != nil {
							copies[o] = fv
						}
					}
				}
			}
			return true
		})
		fieldOf := func(e ast.Expr) *types.Var {
			e = ast.Unparen(e)
			if sel, ok := e.(*ast.SelectorExpr); ok {
				if fv, ok := info.ObjectOf(sel.Sel).(*types.Var); ok && fields[fv] {
					return fv
				}
			}
			if o := objOf(info, e); o != nil {
				return copies[o]
			}
			return nil
		}
		ast.Inspect(fi.Decl.Body, func(x ast.Node) bool {
			be, ok := x.(*ast.BinaryExpr)
			if !ok || (be.Op != token.EQL && be.Op != token.NEQ) || !isNilIdent(info, be.Y) {
				return true
			}
			fv := fieldOf(be.X)
			if fv == nil {
				return true
			}
			n++
			r.Fn(fi)
			// harmless idioms
			harmless := false
			for _, anc := range enclosing(fi.Decl.Body, be) {
				is, ok := anc.(*ast.IfStmt)
				if !ok || ast.Unparen(is.Cond) != ast.Expr(be) || is.Else != nil || len(is.Body.List) != 1 {
					continue
				}
				switch s := is.Body.List[0].(type) {
				case *ast.AssignStmt: // lazy allocation of the same field
					if be.Op == token.EQL && len(s.Lhs) == 1 && fieldOf(s.Lhs[0]) == fv && allocates(info, s.Rhs[0], nil, "", "") {
						harmless = true
					}
				case *ast.RangeStmt: // guard around a range over the same collection
					if be.Op == token.NEQ && fieldOf(s.X) == fv {
						harmless = true
					}
				}
			}
			r.Ob(rule, fi.Name+"/"+fv.Name()+"-nil-test-is-harmless", be.Pos(), harmless,
				"`"+exprStr(be)+"` distinguishes a nil "+fv.Name()+" from an empty one, but the field is `omitempty`: an empty value is not written and comes back nil after a save, so the mapping behaves differently after a reopen (allowed only as lazy allocation or as a guard around a range over the same collection)")
			return true
		})
	}
	if n < 3 {
		undecidedf("omitempty nil-vs-empty rule matched %d nil tests", n)
	}
}

// ruleScratchResetBeforeVisit: a function that builds a per-item callback C
// together with a value visitor D sharing scratch variables (slices the visitor
// appends to, flags it sets) must reset every such variable in C on every path
// before C hands D to the visiting call: the reset statement dominates the
// call that receives D.  (A reset placed after the use is skipped by early
// returns, and a missing reset leaks the previous item's values.)
func ruleScratchResetBeforeVisit(r *Report, rule string, pkgs ...string) {
	p := r.P
	n := 0
	for _, pk := range pkgs {
		for _, fi := range p.funcsInPkg(pk) {
			if fi.Decl.Body == nil {
				continue
			}
			info := fi.Pkg.TypesInfo
			// visitor closures bound to a local: name := func(...) {...}
			visitors := map[types.Object]*ast.FuncLit{}
			ast.Inspect(fi.Decl.Body, func(x ast.Node) bool {
				as, ok := x.(*ast.AssignStmt)
				if !ok || len(as.Lhs) != 1 || len(as.Rhs) != 1 {
					return true
				}
				if fl, ok := as.Rhs[0].(*ast.FuncLit); ok {
					if o := objOf(info, as.Lhs[0]); o != nil {
						visitors[o] = fl
					}
				}
				return true
			})
			if len(visitors) == 0 {
				continue
			}
			for vobj, D := range visitors {
				// scratch written by D: outer locals appended to or assigned a constant
				scratch := map[types.Object]string{}
				ast.Inspect(D.Body, func(x ast.Node) bool {
					as, ok := x.(*ast.AssignStmt)
					if !ok {
						return true
					}
					for i, l := range as.Lhs {
						o := objOf(info, l)
						if o == nil || declaredWithin(info, D, o) || isSigVar(fi, o) {
							continue
						}
						if i < len(as.Rhs) {
							if c, ok := as.Rhs[i].(*ast.CallExpr); ok && calleeBuiltin(info, c) == "append" && len(c.Args) > 0 && objOf(info, c.Args[0]) == o {
								scratch[o] = "slice"
							} else if tv, ok := info.Types[as.Rhs[i]]; ok && tv.Value != nil && isBoolType(o.Type()) {
								scratch[o] = "flag"
							}
						}
					}
					return true
				})
				if len(scratch) == 0 {
					continue
				}
				// per-item callbacks: other closures that pass D to a call
				ast.Inspect(fi.Decl.Body, func(x ast.Node) bool {
					C, ok := x.(*ast.FuncLit)
					if !ok || C == D {
						return true
					}
					var visitCall *ast.CallExpr
					for _, c := range callsIn(C.Body) {
						for _, a := range c.Args {
							if objOf(info, a) == vobj {
								visitCall = c
							}
						}
					}
					if visitCall == nil {
						return true
					}
					g := buildCFG(info, C.Body)
					for s, kind := range scratch {
						// only scratch that C itself reads
						if !readsVar(info, C.Body, s) {
							continue
						}
						n++
						r.Fn(fi)
						reset := false
						inspectNoLit(C.Body, func(y ast.Node) bool {
							as, ok := y.(*ast.AssignStmt)
							if !ok {
								return true
							}
							for i, l := range as.Lhs {
								if objOf(info, l) != s || i >= len(as.Rhs) {
									continue
								}
								rhs := ast.Unparen(as.Rhs[i])
								isReset := false
								switch kind {
								case "slice":
									if se, ok := rhs.(*ast.SliceExpr); ok && objOf(info, se.X) == s && se.High != nil {
										if k, isC := intConst(info, se.High); isC && k == 0 {
											isReset = true
										}
									}
									if isNilIdent(info, rhs) {
										isReset = true
									}
								case "flag":
									if tv, ok := info.Types[rhs]; ok && tv.Value != nil {
										isReset = true
									}
								}
								if isReset && g.DominatesNode(as, visitCall) {
									reset = true
								}
							}
							return true
						})
						r.Ob(rule, fi.Name+"/"+s.Name()+"-reset-before-"+exprShort(visitCall.Fun), visitCall.Pos(), reset,
							"scratch variable "+s.Name()+" is filled by the visitor "+vobj.Name()+" and read by the per-item callback; it must be reset on every path before the callback hands the visitor to "+exprShort(visitCall.Fun)+" (a reset after the use is skipped by early returns; without it values of the previous item leak into this one's verdict)")
					}
					return true
				})
			}
		}
	}
	if n < 4 {
		undecidedf("scratch-reset rule matched %d scratch variables", n)
	}
}

func isBoolType(t types.Type) bool {
	b, ok := t.Underlying().(*types.Basic)
	return ok && b.Kind() == types.Bool
}

// axisOf: the coordinate axis an identifier names by the repository's naming
// convention (camel-case word lon/lng/longitude/x vs lat/latitude/y).
func axisOf(name string) string {
	var words []string
	cur := ""
	for i, ch := range name {
		if i > 0 && ch >= 'A' && ch <= 'Z' && cur != "" && !(cur[len(cur)-1] >= 'A' && cur[len(cur)-1] <= 'Z') {
			words = append(words, cur)
			cur = ""
		}
		if ch == '_' || (ch >= '0' && ch <= '9') {
			if cur != "" {
				words = append(words, cur)
				cur = ""
			}
			continue
		}
		cur += string(ch)
	}
	if cur != "" {
		words = append(words, cur)
	}
	ax := ""
	for _, w := range words {
		lw := strings.TrimSuffix(strings.ToLower(w), "s")
		switch lw {
		case "lon", "lng", "longitude", "x":
			if ax == "lat" {
				return "" // names both: no single axis
			}
			ax = "lon"
		case "lat", "latitude", "y":
			if ax == "lon" {
				return ""
			}
			ax = "lat"
		}
	}
	return ax
}

func axisOfExpr(e ast.Expr) (string, string) {
	e = ast.Unparen(e)
	switch x := e.(type) {
	case *ast.Ident:
		return axisOf(x.Name), x.Name
	case *ast.SelectorExpr:
		return axisOf(x.Sel.Name), exprStr(x)
	case *ast.IndexExpr:
		return axisOfExpr(x.X)
	case *ast.StarExpr:
		return axisOfExpr(x.X)
	case *ast.UnaryExpr:
		return axisOfExpr(x.X)
	}
	return "", ""
}

// ruleAxisDiscipline: longitudes are only compared with longitudes and passed
// for longitude parameters (same for latitudes), judged by the naming
// convention the geo code follows throughout (…Lon/…Lat, …X/…Y).
func ruleAxisDiscipline(r *Report, rule string, pkgs ...string) {
	p := r.P
	n := 0
	for _, pk := range pkgs {
		for _, fi := range p.funcsInPkg(pk) {
			if fi.Decl.Body == nil {
				continue
			}
			info := fi.Pkg.TypesInfo
			cmpN, argN := 0, 0
			ast.Inspect(fi.Decl.Body, func(x ast.Node) bool {
				switch s := x.(type) {
				case *ast.BinaryExpr:
					switch s.Op {
					case token.LSS, token.LEQ, token.GTR, token.GEQ, token.EQL, token.NEQ:
					default:
						return true
					}
					ax, nx := axisOfExpr(s.X)
					ay, ny := axisOfExpr(s.Y)
					if ax == "" || ay == "" {
						return true
					}
					n++
					cmpN++
					r.Fn(fi)
					r.Ob(rule, fi.Name+"/compare-"+nx+"~"+ny, s.Pos(), ax == ay, "comparison `"+exprStr(s)+"` relates a "+ax+" value ("+nx+") to a "+ay+" value ("+ny+"): coordinates of different axes are never comparable (a rectangle test with one mixed-up edge accepts or rejects points by the wrong coordinate)")
				case *ast.CallExpr:
					f := callee(info, s)
					if f == nil || f.Pkg() == nil || !strings.HasPrefix(f.Pkg().Path(), blevePath) {
						return true
					}
					sig, ok := f.Type().(*types.Signature)
					if !ok {
						return true
					}
					for i, a := range s.Args {
						if i >= sig.Params().Len() {
							break
						}
						pa := axisOf(sig.Params().At(i).Name())
						aa, an := axisOfExpr(a)
						if pa == "" || aa == "" {
							continue
						}
						n++
						argN++
						r.Fn(fi)
						r.Ob(rule, fi.Name+"/arg-"+an+"->"+f.Name()+"."+sig.Params().At(i).Name(), a.Pos(), pa == aa, "argument "+an+" ("+aa+") is passed for parameter "+sig.Params().At(i).Name()+" ("+pa+") of "+f.Name()+": longitude and latitude are swapped at this call")
					}
				}
				return true
			})
			_, _ = cmpN, argN
		}
	}
	if n < 20 {
		undecidedf("axis rule matched %d comparisons/arguments", n)
	}
}

// ruleCompactFormComplete (K9c): a MarshalJSON that takes a short-cut (an
// early successful return under a condition) before writing the full form
// must let every receiver field that the full form depends on take part in
// the short-cut: either the condition tests it or the short form encodes it.
// Otherwise a value with a non-default setting of that field is written in
// the short form and comes back with the default.
func ruleCompactFormComplete(r *Report, rule string, pkgs ...string) {
	p := r.P
	n := 0
	for _, pk := range pkgs {
		for _, fi := range p.funcsInPkg(pk) {
			if fi.Decl.Body == nil || fi.Obj.Name() != "MarshalJSON" || fi.Decl.Recv == nil {
				continue
			}
			info := fi.Pkg.TypesInfo
			recv := recvObj(fi)
			if recv == nil {
				continue
			}
			fieldsRead := func(nodes ...ast.Node) map[string]bool {
				out := map[string]bool{}
				for _, nd := range nodes {
					if nd == nil {
						continue
					}
					ast.Inspect(nd, func(x ast.Node) bool {
						if sel, ok := x.(*ast.SelectorExpr); ok && objOf(info, sel.X) == recv {
							if v, ok := info.ObjectOf(sel.Sel).(*types.Var); ok && v.IsField() {
								out[v.Name()] = true
							}
						}
						return true
					})
				}
				return out
			}
			for i, st := range fi.Decl.Body.List {
				is, ok := st.(*ast.IfStmt)
				if !ok || is.Else != nil || is.Init != nil {
					continue
				}
				// a successful early return inside the branch
				succ := false
				for _, rs := range returnsOf(is.Body) {
					if len(rs.Results) == 2 && !isNilIdent(info, rs.Results[0]) {
						if c, ok := rs.Results[0].(*ast.CallExpr); ok || !ok {
							_ = c
							succ = true
						}
					}
					if len(rs.Results) == 1 {
						if _, isCall := rs.Results[0].(*ast.CallExpr); isCall {
							succ = true
						}
					}
				}
				if !succ {
					continue
				}
				compact := fieldsRead(is.Cond, is.Body)
				if len(compact) == 0 {
					continue
				}
				var rest []ast.Node
				for _, s2 := range fi.Decl.Body.List[i+1:] {
					rest = append(rest, s2)
				}
				full := fieldsRead(rest...)
				if len(full) == 0 {
					continue
				}
				var missing []string
				for f := range full {
					if !compact[f] {
						missing = append(missing, f)
					}
				}
				sort.Strings(missing)
				n++
				r.Fn(fi)
				r.Ob(rule, fi.Name+"/short-form-accounts-for-every-field", is.Pos(), len(missing) == 0,
					"the short form is chosen without looking at field(s) "+strings.Join(missing, ", ")+", which the full form below does encode: a value with a non-default "+strings.Join(missing, "/")+" is written in the short form and decodes back with the default")
			}
		}
	}
	if n < 1 {
		undecidedf("compact-form rule matched no MarshalJSON with a short-cut")
	}
}

// positiveByFacts: the guard facts establish v >= 1 (v an identifier's text).
func positiveByFacts(info *types.Info, facts []Fact, v string) (bool, string) {
	for _, f := range facts {
		b2, ok := ast.Unparen(f.Expr).(*ast.BinaryExpr)
		if !ok || f.Tag != nil {
			continue
		}
		l, rr, op := exprStr(b2.X), exprStr(b2.Y), b2.Op
		if rr == v { // constant on the left: flip
			l, rr = rr, l
			switch op {
			case token.LSS:
				op = token.GTR
			case token.GTR:
				op = token.LSS
			case token.LEQ:
				op = token.GEQ
			case token.GEQ:
				op = token.LEQ
			}
		}
		if l != v {
			continue
		}
		k, isC := intConst(info, func() ast.Expr {
			if exprStr(b2.X) == v {
				return b2.Y
			}
			return b2.X
		}())
		if !isC {
			continue
		}
		switch {
		case op == token.GTR && f.Truth && k >= 0,
			op == token.GEQ && f.Truth && k >= 1,
			op == token.LSS && !f.Truth && k >= 1,
			op == token.LEQ && !f.Truth && k >= 0,
			op == token.NEQ && f.Truth && k == 0,
			op == token.EQL && !f.Truth && k == 0:
			return true, f.String()
		}
	}
	return false, ""
}

func factsWithShortCircuit(g *FCFG, body ast.Node, at ast.Node) []Fact {
	facts := g.GuardsOf(at)
	for _, anc := range enclosing(body, at) {
		if b3, ok := anc.(*ast.BinaryExpr); ok && (b3.Op == token.LOR || b3.Op == token.LAND) && len(enclosing(b3.Y, at)) > 0 {
			splitCond(b3.X, b3.Op == token.LAND, &facts)
		}
	}
	return facts
}

// ruleIndexMinusOneGuarded: x[v-1] with v a variable needs v >= 1 on every
// path: by a dominating test, by the loop that introduces v starting at 1, or -
// when v is a parameter - at every call site of the function (one level).
func ruleIndexMinusOneGuarded(r *Report, rule string, inScope func(rel string) bool) {
	p := r.P
	n := 0
	type pending struct {
		fi    *FuncInfo
		param *types.Var
		pidx  int
		site  *ast.IndexExpr
	}
	var pend []pending
	for _, fi := range p.flist {
		if fi.Decl.Body == nil || !inScope(relPkg(fi.Pkg.PkgPath)) {
			continue
		}
		info := fi.Pkg.TypesInfo
		for _, bu := range bodiesOf(fi) {
			var g *FCFG
			inspectNoLit(bu.Body, func(x ast.Node) bool {
				ix, ok := x.(*ast.IndexExpr)
				if !ok {
					return true
				}
				be, ok := ast.Unparen(ix.Index).(*ast.BinaryExpr)
				if !ok || be.Op != token.SUB {
					return true
				}
				if k, isC := intConst(info, be.Y); !isC || k != 1 {
					return true
				}
				id, ok := ast.Unparen(be.X).(*ast.Ident)
				if !ok {
					return true
				}
				vobj, _ := info.ObjectOf(id).(*types.Var)
				if vobj == nil {
					return true
				}
				if tv, ok := info.Types[ix.X]; ok {
					if _, isMap := tv.Type.Underlying().(*types.Map); isMap {
						return true
					}
				}
				n++
				r.Fn(fi)
				if g == nil {
					g = buildCFG(info, bu.Body)
				}
				ok2, why := positiveByFacts(info, factsWithShortCircuit(g, bu.Body, ix), id.Name)
				if !ok2 {
					// the variable is introduced by a loop that starts at >= 1, or assigned len(...) guarded... (only the loop form is recognised)
					for _, anc := range enclosing(bu.Body, ix) {
						if fs, isFor := anc.(*ast.ForStmt); isFor && fs.Init != nil {
							if as, isAs := fs.Init.(*ast.AssignStmt); isAs && len(as.Lhs) == 1 && len(as.Rhs) == 1 && objOf(info, as.Lhs[0]) == vobj {
								if k, isC := intConst(info, as.Rhs[0]); isC && k >= 1 {
									// and the loop only counts upwards
									if inc, isInc := fs.Post.(*ast.IncDecStmt); isInc && inc.Tok == token.INC {
										ok2, why = true, "loop starts at "+exprStr(as.Rhs[0])
									}
								}
							}
						}
					}
				}
				if !ok2 {
					// a counter that only grows (initialised to a constant >= 0, changed only by ++ / += positive constant)
					// and was incremented on every path to this point
					onlyGrows, incDominates := true, false
					ast.Inspect(bu.Body, func(y ast.Node) bool {
						switch s := y.(type) {
						case *ast.IncDecStmt:
							if objOf(info, s.X) == vobj {
								if s.Tok != token.INC {
									onlyGrows = false
								} else if g.DominatesNode(s, ix) {
									incDominates = true
								}
							}
						case *ast.AssignStmt:
							for i, l := range s.Lhs {
								if objOf(info, l) != vobj {
									continue
								}
								if i >= len(s.Rhs) {
									onlyGrows = false
									continue
								}
								k, isC := intConst(info, s.Rhs[i])
								switch {
								case (s.Tok == token.DEFINE || s.Tok == token.ASSIGN) && isC && k >= 0:
								case s.Tok == token.ADD_ASSIGN && isC && k >= 1:
									if g.DominatesNode(s, ix) {
										incDominates = true
									}
								default:
									onlyGrows = false
								}
							}
						}
						return true
					})
					if onlyGrows && incDominates {
						ok2, why = true, "monotone counter incremented before the access"
					}
				}
				if !ok2 && bu.Lit == nil && fi.Obj.Name() == "Pop" && fi.Decl.Recv != nil {
					// container/heap contract: Pop is only called on a non-empty heap
					if nt := namedOf(fi.Obj.Type().(*types.Signature).Recv().Type()); nt != nil {
						have := map[string]bool{}
						ms := types.NewMethodSet(types.NewPointer(nt))
						for i := 0; i < ms.Len(); i++ {
							have[ms.At(i).Obj().Name()] = true
						}
						if have["Len"] && have["Less"] && have["Swap"] && have["Push"] {
							r.Allow(rule, bu.Name+"/"+exprStr(ix)+"-index-at-least-zero", ix.Pos(), "heap.Interface.Pop: container/heap calls it only on a non-empty heap")
							return true
						}
					}
				}
				if !ok2 {
					// parameter: the obligation moves to the call sites
					sig := fi.Obj.Type().(*types.Signature)
					if bu.Lit == nil {
						for i := 0; i < sig.Params().Len(); i++ {
							if sig.Params().At(i) == vobj {
								pend = append(pend, pending{fi, vobj, i, ix})
								r.Ob(rule, bu.Name+"/"+exprStr(ix)+"-guarded-by-callers", ix.Pos(), true, "index "+exprStr(ix)+" relies on the callers passing "+id.Name+" >= 1 (checked at each call site below)")
								return true
							}
						}
					}
				}
				r.Ob(rule, bu.Name+"/"+exprStr(ix)+"-index-at-least-zero", ix.Pos(), ok2, "index "+exprStr(ix)+": no dominating test shows "+id.Name+" >= 1 (with "+id.Name+" == 0 this panics with index out of range [-1]) "+why)
				return true
			})
		}
	}
	seenPend := map[string]bool{}
	for _, pd := range pend {
		if seenPend[pd.fi.Name+"/"+pd.param.Name()] {
			continue
		}
		seenPend[pd.fi.Name+"/"+pd.param.Name()] = true
		sites := 0
		for _, caller := range p.flist {
			if caller.Decl.Body == nil {
				continue
			}
			cinfo := caller.Pkg.TypesInfo
			for _, bu := range bodiesOf(caller) {
				var g *FCFG
				for _, c := range callsIn(bu.Body) {
					if callee(cinfo, c) != pd.fi.Obj || pd.pidx >= len(c.Args) {
						continue
					}
					sites++
					n++
					r.Fn(caller)
					if g == nil {
						g = buildCFG(cinfo, bu.Body)
					}
					a := ast.Unparen(c.Args[pd.pidx])
					ok2, why := false, ""
					if k, isC := intConst(cinfo, a); isC && k >= 1 {
						ok2, why = true, "constant"
					} else if id, isID := a.(*ast.Ident); isID {
						ok2, why = positiveByFacts(cinfo, factsWithShortCircuit(g, bu.Body, c), id.Name)
					} else if be, isB := a.(*ast.BinaryExpr); isB && be.Op == token.ADD {
						if k, isC := intConst(cinfo, be.Y); isC && k >= 1 {
							ok2, why = true, "index+constant"
						}
					}
					r.Ob(rule, bu.Name+"/call-"+pd.fi.Obj.Name()+"("+exprShort(a)+")-passes-positive-"+pd.param.Name(), c.Pos(), ok2, pd.fi.Obj.Name()+" indexes with "+pd.param.Name()+"-1 ("+p.Pos(pd.site.Pos())+"), so this call must guarantee "+exprStr(a)+" >= 1; no dominating test shows it "+why)
				}
			}
		}
		if sites == 0 {
			r.InfoOb(rule, pd.fi.Name+"/no-static-callers", pd.site.Pos(), "exported or indirectly called: precondition "+pd.param.Name()+" >= 1 left to callers")
		}
	}
	if n < 5 {
		undecidedf("index-minus-one rule matched %d sites", n)
	}
}

// ruleNilSlotsNotDereferenced: a method that punches nil holes into a slice of
// pointers (t[i] = nil on its receiver) changes the typestate of that slice:
// afterwards its elements may only be used behind a nil test.  In every
// function that calls such a method on a variable, no unguarded element
// dereference of that variable (directly or inside a closure handed to a later
// call) is reachable after the call.
func ruleNilSlotsNotDereferenced(r *Report, rule string, pkgPrefix string) {
	p := r.P
	holePunchers := map[*types.Func]bool{}
	for _, fi := range p.flist {
		if fi.Decl.Body == nil || fi.Decl.Recv == nil || !strings.HasPrefix(relPkg(fi.Pkg.PkgPath), pkgPrefix) {
			continue
		}
		info := fi.Pkg.TypesInfo
		recv := recvObj(fi)
		ast.Inspect(fi.Decl.Body, func(x ast.Node) bool {
			as, ok := x.(*ast.AssignStmt)
			if !ok || len(as.Lhs) != 1 || len(as.Rhs) != 1 || !isNilIdent(info, as.Rhs[0]) {
				return true
			}
			if ix, ok := as.Lhs[0].(*ast.IndexExpr); ok && recv != nil && objOf(info, ix.X) == recv {
				holePunchers[fi.Obj] = true
			}
			return true
		})
	}
	if len(holePunchers) == 0 {
		undecidedf("no nil-slotting method found under %s", pkgPrefix)
	}
	n := 0
	for _, fi := range p.flist {
		if fi.Decl.Body == nil || !strings.HasPrefix(relPkg(fi.Pkg.PkgPath), pkgPrefix) {
			continue
		}
		info := fi.Pkg.TypesInfo
		var g *FCFG
		for _, c := range callsIn(fi.Decl.Body) {
			f := callee(info, c)
			if f == nil || !holePunchers[f] {
				continue
			}
			sel, ok := ast.Unparen(c.Fun).(*ast.SelectorExpr)
			if !ok {
				continue
			}
			x := objOf(info, sel.X)
			if x == nil {
				continue
			}
			n++
			r.Fn(fi)
			if g == nil {
				g = buildCFG(info, fi.Decl.Body)
			}
			bad := ""
			ast.Inspect(fi.Decl.Body, func(y ast.Node) bool {
				rs, ok := y.(*ast.RangeStmt)
				if !ok || objOf(info, rs.X) != x || rs.Value == nil {
					return true
				}
				v := objOf(info, rs.Value)
				// unguarded dereference of the element inside the loop body
				deref := false
				var lg *FCFG
				ast.Inspect(rs.Body, func(z ast.Node) bool {
					se, ok := z.(*ast.SelectorExpr)
					if !ok || objOf(info, se.X) != v {
						return true
					}
					if lg == nil {
						lg = buildCFG(info, innermostFuncBody(fi.Decl, rs))
					}
					guarded := false
					for _, fct := range factsWithShortCircuit(lg, rs.Body, se) {
						if e, isEq, isNil := nilTest(info, fct.Expr); isNil && objOf(info, e) == v && isEq != fct.Truth {
							guarded = true
						}
					}
					if !guarded {
						deref = true
					}
					return true
				})
				if !deref {
					return true
				}
				// is the loop (or the call that receives the closure containing it) reachable after the hole-punching call?
				var node ast.Node = rs
				for _, anc := range enclosing(fi.Decl.Body, rs) {
					if _, ok := g.Locate(anc); ok {
						node = anc // outermost CFG node of the outer function that contains the loop
						break
					}
				}
				if _, ok := g.Locate(node); !ok {
					node = rs.X
				}
				if g.ReachesNode(c, node) {
					bad = p.Pos(rs.Pos())
				}
				return true
			})
			r.Ob(rule, fi.Name+"/"+x.Name()+"-elements-nil-checked-after-"+f.Name(), c.Pos(), bad == "",
				"after "+exprShort(c)+" the slice "+x.Name()+" contains nil entries; the loop at "+bad+" dereferences its elements without a nil test and is reachable after the call (nil pointer dereference for overlapping term locations)")
		}
	}
	if n < 1 {
		undecidedf("no call of a nil-slotting method found under %s", pkgPrefix)
	}
}

// reachesAvoiding: some path leads from just after `from` to `to` without
// executing `avoid` (all three are CFG nodes of g).
func (f *FCFG) reachesAvoiding(from, to, avoid ast.Node) bool {
	lf, ok1 := f.Locate(from)
	lt, ok2 := f.Locate(to)
	la, ok3 := f.Locate(avoid)
	if !ok1 || !ok2 {
		return true
	}
	type st struct {
		b *cfg.Block
		i int
	}
	seen := map[*cfg.Block]bool{}
	work := []st{{lf.B, lf.I + 1}}
	for len(work) > 0 {
		cur := work[len(work)-1]
		work = work[:len(work)-1]
		blocked := false
		for i := cur.i; i < len(cur.b.Nodes); i++ {
			if ok3 && cur.b == la.B && i == la.I {
				blocked = true
				break
			}
			if cur.b == lt.B && i == lt.I {
				return true
			}
		}
		if blocked {
			continue
		}
		for _, s := range cur.b.Succs {
			if !seen[s] {
				seen[s] = true
				work = append(work, st{s, 0})
			}
		}
	}
	return false
}

// rulePivotFixedDuringAlignment: NestedConjunctionSearcher.Next decides
// "all children are on the pivot key" with a flag that a pass over the children
// clears when one of them is off the pivot.  The verdict is only meaningful if
// the pivot does not move during the pass: an assignment to the pivot inside
// the pass must clear the flag before the pass goes on (children visited
// earlier were compared with the old pivot).
func rulePivotFixedDuringAlignment(r *Report, rule string) {
	p := r.P
	fi := p.MustFunc("search/searcher.(*NestedConjunctionSearcher).Next")
	r.Fn(fi)
	info := fi.Pkg.TypesInfo
	g := buildCFG(info, fi.Decl.Body)
	// the flag: a bool local assigned false inside a for loop and initialised true before it
	n := 0
	ast.Inspect(fi.Decl.Body, func(x ast.Node) bool {
		loop, ok := x.(*ast.ForStmt)
		if !ok {
			return true
		}
		var clear *ast.AssignStmt
		inspectNoLit(loop.Body, func(y ast.Node) bool {
			if as, ok := y.(*ast.AssignStmt); ok && len(as.Lhs) == 1 && len(as.Rhs) == 1 && exprStr(as.Rhs[0]) == "false" {
				if o := objOf(info, as.Lhs[0]); o != nil && isBoolType(o.Type()) && !declaredWithin(info, loop, o) {
					// innermost loop only
					inner := true
					for _, anc := range enclosing(loop.Body, as) {
						if _, isLoop := anc.(*ast.ForStmt); isLoop {
							inner = false
						}
						if _, isLoop := anc.(*ast.RangeStmt); isLoop {
							inner = false
						}
					}
					if inner {
						clear = as
					}
				}
			}
			return true
		})
		if clear == nil || loop.Post == nil {
			return true
		}
		// pivot candidates: operands of Compare calls in the loop that are declared outside it
		pivots := map[types.Object]bool{}
		for _, c := range callsIn(loop.Body) {
			if f := callee(info, c); f != nil && f.Name() == "Compare" {
				for _, a := range c.Args {
					if o := objOf(info, a); o != nil && !declaredWithin(info, loop, o) {
						pivots[o] = true
					}
				}
			}
		}
		if len(pivots) == 0 {
			return true
		}
		n++
		bad := ""
		inspectNoLit(loop.Body, func(y ast.Node) bool {
			as, ok := y.(*ast.AssignStmt)
			if !ok {
				return true
			}
			for _, l := range as.Lhs {
				if o := objOf(info, l); o != nil && pivots[o] {
					if g.reachesAvoiding(as, loop.Post, clear) {
						bad = p.Pos(as.Pos())
					}
				}
			}
			return true
		})
		r.Ob(rule, fi.Name+"/pivot-not-moved-without-clearing-"+exprStr(clear.Lhs[0]), loop.Pos(), bad == "",
			"inside the alignment pass the pivot is reassigned at "+bad+" on a path that reaches the next child without `"+exprStr(clear.Lhs[0])+" = false`: children already visited were compared with the old pivot, so matches of different parents can be joined")
		return true
	})
	if n < 1 {
		undecidedf("%s: alignment pass (flag cleared inside a counted loop over Compare with an outer pivot) not found", fi.Name)
	}
}

// ruleParallelSlicesResetTogether (K14): local slices that are grown pairwise
// (one append each in the same basic block) are parallel arrays; wherever one
// of them is truncated (x = x[:0] / x = nil) all of them are, in the same basic
// block.  Truncating only some leaves the others one batch longer and pairs
// element j of one array with element j of an unrelated batch.
func ruleParallelSlicesResetTogether(r *Report, rule string, pkgs ...string) {
	p := r.P
	n := 0
	for _, pk := range pkgs {
		for _, fi := range p.funcsInPkg(pk) {
			if fi.Decl.Body == nil {
				continue
			}
			info := fi.Pkg.TypesInfo
			for _, bu := range bodiesOf(fi) {
				// cheap pre-filter: at least two appends and one truncation
				apps, truncs := 0, 0
				inspectNoLit(bu.Body, func(x ast.Node) bool {
					if as, ok := x.(*ast.AssignStmt); ok {
						for i, rhs := range as.Rhs {
							if c, ok := rhs.(*ast.CallExpr); ok && calleeBuiltin(info, c) == "append" {
								apps++
							}
							if i < len(as.Lhs) && isTruncationOf(info, as.Lhs[i], rhs) {
								truncs++
							}
						}
					}
					return true
				})
				if apps < 2 || truncs == 0 {
					continue
				}
				g := buildCFG(info, bu.Body)
				// groups: variables appended (single element) in the same block
				blockApps := map[int32]map[types.Object]bool{}
				blockTruncs := map[int32]map[types.Object]ast.Node{}
				inspectNoLit(bu.Body, func(x ast.Node) bool {
					as, ok := x.(*ast.AssignStmt)
					if !ok {
						return true
					}
					l, ok := g.Locate(as)
					if !ok {
						return true
					}
					for i, rhs := range as.Rhs {
						if i >= len(as.Lhs) {
							break
						}
						o := objOf(info, as.Lhs[i])
						if o == nil || !declaredWithin(info, bu.Body, o) && bu.Lit == nil {
							// only locals of this function (closures may use the enclosing function's locals)
						}
						if o == nil {
							continue
						}
						if c, ok := rhs.(*ast.CallExpr); ok && calleeBuiltin(info, c) == "append" && len(c.Args) == 2 && !c.Ellipsis.IsValid() && objOf(info, c.Args[0]) == o {
							if blockApps[l.B.Index] == nil {
								blockApps[l.B.Index] = map[types.Object]bool{}
							}
							blockApps[l.B.Index][o] = true
						}
						if isTruncationOf(info, as.Lhs[i], rhs) {
							if blockTruncs[l.B.Index] == nil {
								blockTruncs[l.B.Index] = map[types.Object]ast.Node{}
							}
							blockTruncs[l.B.Index][o] = as
						}
					}
					return true
				})
				// union-find-free grouping: each co-append block defines a group
				var groups []map[types.Object]bool
				for _, m := range blockApps {
					if len(m) >= 2 {
						groups = append(groups, m)
					}
				}
				for _, grp := range groups {
					for _, tr := range blockTruncs {
						hit := false
						var at ast.Node
						for o, nd := range tr {
							if grp[o] {
								hit, at = true, nd
							}
						}
						if !hit {
							continue
						}
						var missing []string
						var names []string
						for o := range grp {
							names = append(names, o.Name())
							if _, ok := tr[o]; !ok {
								missing = append(missing, o.Name())
							}
						}
						sort.Strings(missing)
						sort.Strings(names)
						n++
						r.Fn(fi)
						r.Ob(rule, bu.Name+"/"+strings.Join(names, "+")+"-truncated-together", at.Pos(), len(missing) == 0,
							"the slices "+strings.Join(names, ", ")+" are grown pairwise (parallel arrays) but here only some are truncated; "+strings.Join(missing, ", ")+" keeps the previous batch's elements, so position j of it no longer belongs to position j of the others")
					}
				}
			}
		}
	}
	if n < 1 {
		undecidedf("parallel-slices rule matched no truncation of a co-appended group")
	}
}

func isTruncationOf(info *types.Info, lhs, rhs ast.Expr) bool {
	o := objOf(info, lhs)
	if o == nil {
		return false
	}
	if _, ok := o.Type().Underlying().(*types.Slice); !ok {
		return false
	}
	rhs = ast.Unparen(rhs)
	if isNilIdent(info, rhs) {
		return true
	}
	if se, ok := rhs.(*ast.SliceExpr); ok && objOf(info, se.X) == o && se.High != nil {
		if k, isC := intConst(info, se.High); isC && k == 0 {
			return true
		}
	}
	return false
}

// rulePooledObjectReset (K9b for object pools): objects of a pooled type are
// handed out again by `acquire` after `release` put them back.  Every field
// that the type's own cursor methods (`useMethods`) assign during use must be
// assigned again in acquire or release, otherwise the next user starts from
// the previous user's position.
func rulePooledObjectReset(r *Report, rule, pkg, typeName string, useMethods []string, acquire, release string) {
	p := r.P
	mutated := map[string]token.Pos{}
	for _, m := range useMethods {
		fi := p.MustFunc(pkg + ".(*" + typeName + ")." + m)
		r.Fn(fi)
		info := fi.Pkg.TypesInfo
		recv := recvObj(fi)
		ast.Inspect(fi.Decl.Body, func(x ast.Node) bool {
			var lhs []ast.Expr
			switch s := x.(type) {
			case *ast.AssignStmt:
				lhs = s.Lhs
			case *ast.IncDecStmt:
				lhs = []ast.Expr{s.X}
			}
			for _, l := range lhs {
				for {
					l = ast.Unparen(l)
					if ix, ok := l.(*ast.IndexExpr); ok {
						l = ix.X
						continue
					}
					break
				}
				if sel, ok := l.(*ast.SelectorExpr); ok && objOf(info, sel.X) == recv {
					if v, ok := info.ObjectOf(sel.Sel).(*types.Var); ok && v.IsField() {
						if _, seen := mutated[v.Name()]; !seen {
							mutated[v.Name()] = sel.Pos()
						}
					}
				}
			}
			return true
		})
	}
	reset := map[string]bool{}
	for _, fn := range []string{acquire, release} {
		fi := p.MustFunc(fn)
		r.Fn(fi)
		info := fi.Pkg.TypesInfo
		ast.Inspect(fi.Decl.Body, func(x ast.Node) bool {
			as, ok := x.(*ast.AssignStmt)
			if !ok {
				return true
			}
			for _, l := range as.Lhs {
				for {
					l = ast.Unparen(l)
					if ix, ok := l.(*ast.IndexExpr); ok {
						l = ix.X
						continue
					}
					break
				}
				if sel, ok := l.(*ast.SelectorExpr); ok {
					if v, ok := info.ObjectOf(sel.Sel).(*types.Var); ok && v.IsField() {
						if nt := namedOf(info.TypeOf(sel.X)); nt != nil && nt.Obj().Name() == typeName {
							reset[v.Name()] = true
						}
					}
				}
			}
			return true
		})
	}
	if len(mutated) < 2 {
		undecidedf("%s: fewer than 2 fields mutated by %v", typeName, useMethods)
	}
	var names []string
	for f := range mutated {
		names = append(names, f)
	}
	sort.Strings(names)
	for _, f := range names {
		r.Ob(rule, typeName+"."+f+"/re-initialised-between-uses", mutated[f], reset[f], "field "+f+" is advanced by "+strings.Join(useMethods, "/")+" while the object is in use, and objects of this type are handed out again from a pool ("+release+" -> "+acquire+"): it must be assigned in one of the two, otherwise the next user inherits the previous user's position (e.g. starts at the segment where the last search stopped)")
	}
}

// ruleFirstCallFlagSiblings (K12): when Next() of a cursor type distinguishes
// its first call by a nil field F (`if r.F != nil { step } else { r.F = ... }`),
// F is the "already positioned" flag of the cursor.  Every sibling method that
// positions the cursor itself (calls Seek on the same iterator) must leave F
// non-nil on the path to the Seek, otherwise the Next() that follows does not
// step and returns the same entry again.
func ruleFirstCallFlagSiblings(r *Report, rule, pkg, typeName string) {
	p := r.P
	next := p.MustFunc(pkg + ".(*" + typeName + ").Next")
	r.Fn(next)
	info := next.Pkg.TypesInfo
	recv := recvObj(next)
	var flag *types.Var
	{
		// a receiver field that Next() sets exactly where it finds it nil (whatever the branch order)
		ng := buildCFG(info, next.Decl.Body)
		ast.Inspect(next.Decl.Body, func(x ast.Node) bool {
			as, ok := x.(*ast.AssignStmt)
			if !ok || len(as.Lhs) != 1 {
				return true
			}
			s2, ok := ast.Unparen(as.Lhs[0]).(*ast.SelectorExpr)
			if !ok || objOf(info, s2.X) != recv {
				return true
			}
			fv, _ := info.ObjectOf(s2.Sel).(*types.Var)
			if fv == nil {
				return true
			}
			for _, fc := range ng.GuardsOf(as) {
				e, isEq, isNil := nilTest(info, fc.Expr)
				if fc.Tag != nil || !isNil || isEq != fc.Truth {
					continue
				}
				if sel, ok := ast.Unparen(e).(*ast.SelectorExpr); ok && objOf(info, sel.X) == recv && info.ObjectOf(sel.Sel) == types.Object(fv) {
					flag = fv
				}
			}
			return true
		})
	}
	if flag == nil {
		undecidedf("%s.Next: first-call flag idiom not found", typeName)
	}
	n := 0
	for _, fi := range p.funcsInPkg(pkg) {
		if fi.Decl.Recv == nil || fi == next || fi.Decl.Body == nil {
			continue
		}
		if nt := namedOf(fi.Obj.Type().(*types.Signature).Recv().Type()); nt == nil || nt.Obj().Name() != typeName {
			continue
		}
		finfo := fi.Pkg.TypesInfo
		var g *FCFG
		for _, c := range callsIn(fi.Decl.Body) {
			sel, ok := ast.Unparen(c.Fun).(*ast.SelectorExpr)
			if !ok || sel.Sel.Name != "Seek" {
				continue
			}
			n++
			r.Fn(fi)
			if g == nil {
				g = buildCFG(finfo, fi.Decl.Body)
			}
			// a store to the flag dominates the Seek, or the Seek is guarded by flag != nil;
			// the idiom `if r.F == nil { r.F = x }` counts as establishing it
			ok2 := false
			for _, st := range storesToField(finfo, fi.Decl.Body, typeName, flag.Name()) {
				if g.DominatesNode(st.Stmt, c) && !isNilIdent(finfo, st.Rhs) {
					ok2 = true
				}
				for _, anc := range enclosing(fi.Decl.Body, st.Stmt) {
					if is, isIf := anc.(*ast.IfStmt); isIf && is.Else == nil {
						if e, isEq, isNil := nilTest(finfo, is.Cond); isNil && isEq && isField(finfo, e, typeName, flag.Name()) && g.DominatesNode(is.Cond, c) && !isNilIdent(finfo, st.Rhs) {
							ok2 = true
						}
					}
				}
			}
			r.Ob(rule, fi.Name+"/"+flag.Name()+"-set-before-Seek", c.Pos(), ok2, "Next() steps the iterator only when "+flag.Name()+" != nil (its 'already positioned' flag); "+fi.Obj.Name()+" positions the iterator with Seek and must leave "+flag.Name()+" set, otherwise the following Next() returns the entry Seek landed on a second time (ids not strictly increasing)")
		}
	}
	if n < 1 {
		undecidedf("%s: no sibling method positions the iterator with Seek", typeName)
	}
}

// ruleOpenedCollectionSwept (K1): segments opened into a local collection
// (`coll[k], err = plugin.OpenUsing(..)`) are owned by that collection until an
// entry is explicitly taken out of it (ownership moves by deleting the entry or
// setting it nil).  The function must register a deferred sweep that closes
// whatever is still in the collection, and the sweep must run on EVERY exit -
// success included - because entries may legitimately remain (e.g. a segment
// that was persisted but dropped from the root meanwhile).
func ruleOpenedCollectionSwept(r *Report, rule string, pkg string) {
	p := r.P
	n := 0
	for _, fi := range p.funcsInPkg(pkg) {
		if fi.Decl.Body == nil {
			continue
		}
		info := fi.Pkg.TypesInfo
		var colls []types.Object
		var sites []ast.Node
		inspectNoLit(fi.Decl.Body, func(x ast.Node) bool {
			as, ok := x.(*ast.AssignStmt)
			if !ok || len(as.Rhs) != 1 || len(as.Lhs) < 1 {
				return true
			}
			c, ok := as.Rhs[0].(*ast.CallExpr)
			if !ok {
				return true
			}
			nm := calleeShortName(info, c)
			if nm != "OpenUsing" && nm != "Open" {
				return true
			}
			ix, ok := ast.Unparen(as.Lhs[0]).(*ast.IndexExpr)
			if !ok {
				return true
			}
			o := objOf(info, ix.X)
			if o == nil || !hasCloseMethod(info.TypeOf(ix)) {
				return true
			}
			colls = append(colls, o)
			sites = append(sites, as)
			return true
		})
		for i, coll := range colls {
			n++
			r.Fn(fi)
			g := buildCFG(info, fi.Decl.Body)
			ok2, why := false, "no deferred closure ranges over "+coll.Name()+" closing its entries"
			ast.Inspect(fi.Decl.Body, func(x ast.Node) bool {
				ds, ok := x.(*ast.DeferStmt)
				if !ok {
					return true
				}
				fl, ok := ds.Call.Fun.(*ast.FuncLit)
				if !ok {
					return true
				}
				var sweep *ast.RangeStmt
				ast.Inspect(fl.Body, func(y ast.Node) bool {
					if rs, ok := y.(*ast.RangeStmt); ok && objOf(info, rs.X) == coll {
						for _, c := range callsDeep(rs.Body) {
							if sel, ok := ast.Unparen(c.Fun).(*ast.SelectorExpr); ok && sel.Sel.Name == "Close" {
								sweep = rs
							}
						}
					}
					return true
				})
				if sweep == nil {
					return true
				}
				if !g.DominatesNode(ds, sites[i]) {
					why = "the deferred sweep is registered after the first entry is opened"
					return true
				}
				// unconditional inside the closure: it is a top-level statement of the closure body and
				// no return statement precedes it
				top, early := false, false
				for _, st := range fl.Body.List {
					if st == ast.Stmt(sweep) {
						top = true
						break
					}
					ast.Inspect(st, func(z ast.Node) bool {
						if _, isRet := z.(*ast.ReturnStmt); isRet {
							early = true
						}
						return true
					})
				}
				if top && !early {
					ok2 = true
				} else {
					why = "the deferred sweep over " + coll.Name() + " is conditional (it is skipped on some exits, e.g. on success), so entries that were not taken over stay open: their file descriptors and mappings survive Close of the index"
				}
				return true
			})
			r.Ob(rule, fi.Name+"/"+coll.Name()+"-swept-on-every-exit", sites[i].Pos(), ok2, why)
		}
	}
	if n < 1 {
		undecidedf("no function opens segments into a local collection in %s", pkg)
	}
}

// ruleNilGuardProtectsItsSubject: `if m != nil { ... }` over a local map exists
// to make the body's use of m safe/meaningful.  A guard whose body never
// mentions the guarded map but indexes ANOTHER map of the same type is a
// copy-paste slip: the decision is taken on the wrong collection.
func ruleNilGuardProtectsItsSubject(r *Report, rule string, pkgs ...string) {
	p := r.P
	n := 0
	for _, pk := range pkgs {
		for _, fi := range p.funcsInPkg(pk) {
			if fi.Decl.Body == nil {
				continue
			}
			info := fi.Pkg.TypesInfo
			var g *FCFG
			// sites: m[k] and delete(m, k) on a local map m
			type site struct {
				n ast.Node
				m types.Object
			}
			var sites []site
			ast.Inspect(fi.Decl.Body, func(x ast.Node) bool {
				if _, isLit := x.(*ast.FuncLit); isLit {
					return false
				}
				switch y := x.(type) {
				case *ast.IndexExpr:
					if o := objOf(info, y.X); o != nil {
						if _, ok := o.Type().Underlying().(*types.Map); ok {
							if v, ok := o.(*types.Var); ok && !v.IsField() {
								sites = append(sites, site{y, o})
							}
						}
					}
				case *ast.CallExpr:
					if calleeBuiltin(info, y) == "delete" && len(y.Args) == 2 {
						if o := objOf(info, y.Args[0]); o != nil {
							if v, ok := o.(*types.Var); ok && !v.IsField() {
								sites = append(sites, site{y, o})
							}
						}
					}
				}
				return true
			})
			for _, st := range sites {
				if g == nil {
					g = buildCFG(info, fi.Decl.Body)
				}
				// local maps of the same type known to be non-nil here
				var subjects []types.Object
				for _, fc := range g.GuardsOf(st.n) {
					e, isEq, isNil := nilTest(info, fc.Expr)
					if fc.Tag != nil || !isNil || isEq == fc.Truth {
						continue
					}
					o := objOf(info, e)
					if o == nil || !types.Identical(o.Type().Underlying(), st.m.Type().Underlying()) {
						continue
					}
					dup := false
					for _, q := range subjects {
						if q == o {
							dup = true
						}
					}
					if !dup {
						subjects = append(subjects, o)
					}
				}
				if len(subjects) == 0 {
					continue
				}
				n++
				own := false
				other := ""
				for _, q := range subjects {
					if q == st.m {
						own = true
					} else {
						other = q.Name()
					}
				}
				r.Fn(fi)
				r.Ob(rule, fi.Name+"/use-of-"+st.m.Name()+"-guarded-by-its-own-nil-test", st.n.Pos(), own,
					"this use of "+st.m.Name()+" is reached only when "+other+" (a different map of the same type) is non-nil, while "+st.m.Name()+" itself is not tested: the guard was copied from a sibling branch and decides on the wrong collection")
			}
		}
	}
	if n < 2 {
		undecidedf("nil-guard rule matched %d guarded map uses", n)
	}
}

// exitAvoiding: some path leads from just after `from` to a function exit
// without executing `avoid`.
func (f *FCFG) exitAvoiding(from, avoid ast.Node) bool {
	lf, ok1 := f.Locate(from)
	la, ok3 := f.Locate(avoid)
	if !ok1 {
		return true
	}
	type st struct {
		b *cfg.Block
		i int
	}
	seen := map[*cfg.Block]bool{}
	work := []st{{lf.B, lf.I + 1}}
	for len(work) > 0 {
		cur := work[len(work)-1]
		work = work[:len(work)-1]
		blocked := false
		for i := cur.i; i < len(cur.b.Nodes); i++ {
			if ok3 && cur.b == la.B && i == la.I {
				blocked = true
				break
			}
		}
		if blocked {
			continue
		}
		if len(cur.b.Succs) == 0 {
			return true
		}
		for _, s := range cur.b.Succs {
			if !seen[s] {
				seen[s] = true
				work = append(work, st{s, 0})
			}
		}
	}
	return false
}

// ruleRegistriesUpdatedTogether (K14): a registration method stores the new
// element into several registries of its receiver (parallel lists, an index by
// key).  If one of those stores executes, every other one executes too on all
// paths (before or after it): an early return between them leaves the element
// known to one registry and unknown to another.
func ruleRegistriesUpdatedTogether(r *Report, rule, fn, owner string, fields []string) {
	p := r.P
	fi := p.MustFunc(fn)
	r.Fn(fi)
	info := fi.Pkg.TypesInfo
	g := buildCFG(info, fi.Decl.Body)
	stores := map[string]ast.Node{}
	for _, f := range fields {
		ast.Inspect(fi.Decl.Body, func(x ast.Node) bool {
			as, ok := x.(*ast.AssignStmt)
			if !ok {
				return true
			}
			for _, l := range as.Lhs {
				for {
					l = ast.Unparen(l)
					if ix, ok := l.(*ast.IndexExpr); ok {
						l = ix.X
						continue
					}
					break
				}
				if isField(info, l, owner, f) {
					// skip lazy allocation of the registry itself
					if len(as.Rhs) == 1 && allocates(info, as.Rhs[0], nil, "", "") {
						if _, isAppend := as.Rhs[0].(*ast.CallExpr); !isAppend || calleeBuiltin(info, as.Rhs[0].(*ast.CallExpr)) != "append" {
							continue
						}
					}
					stores[f] = as
				}
			}
			return true
		})
	}
	if len(stores) != len(fields) {
		undecidedf("%s: expected stores into %v, found %d", fn, fields, len(stores))
	}
	for _, a := range fields {
		for _, b := range fields {
			if a == b {
				continue
			}
			sa, sb := stores[a], stores[b]
			ok := g.DominatesNode(sb, sa) || !g.exitAvoiding(sa, sb)
			r.Ob(rule, fi.Name+"/"+a+"-implies-"+b, sa.Pos(), ok, "when the element is stored into "+owner+"."+a+" it must also be stored into "+owner+"."+b+" on every path; here a path leaves the function in between (the element is listed but never fed, or fed but never listed)")
		}
	}
}

// ruleKVGetCopyKeepsEmptyValues (K12): in the KVReader contract a nil result of
// Get means "key absent".  An adapter that copies the stored value must produce
// a non-nil slice even for an empty value: make([]byte, len(v)) + copy does,
// `append([]byte(nil), v...)` does not (it returns nil for len(v)==0 and turns
// "present with empty value" into "absent").
func ruleKVGetCopyKeepsEmptyValues(r *Report, rule string) {
	p := r.P
	n := 0
	for _, fi := range p.flist {
		rel := relPkg(fi.Pkg.PkgPath)
		if !strings.HasPrefix(rel, storeBase) || fi.Decl.Body == nil || fi.Decl.Recv == nil {
			continue
		}
		if fi.Obj.Name() != "Get" && fi.Obj.Name() != "MultiGet" {
			continue
		}
		info := fi.Pkg.TypesInfo
		n++
		r.Fn(fi)
		bad := ""
		for _, c := range builtinCalls(info, fi.Decl.Body, "append") {
			if !c.Ellipsis.IsValid() || len(c.Args) != 2 {
				continue
			}
			a0 := ast.Unparen(c.Args[0])
			isNilBase := isNilIdent(info, a0)
			if conv, ok := a0.(*ast.CallExpr); ok && len(conv.Args) == 1 && isNilIdent(info, conv.Args[0]) {
				isNilBase = true
			}
			if isNilBase && info.TypeOf(c) != nil && info.TypeOf(c).String() == "[]byte" {
				bad = exprStr(c)
			}
		}
		r.Ob(rule, fi.Name+"/copy-of-found-value-is-non-nil", fi.Decl.Pos(), bad == "", "`"+bad+"` yields nil for an empty stored value; nil means 'key absent' to every caller of Get (upsidedown's back index rows of field-less documents have empty values)")
	}
	if n < 4 {
		undecidedf("KV Get rule matched %d adapter methods", n)
	}
}

// ruleRosterRemovedByMembership (merge planner): each segment is planned into
// at most one merge task.  In plan(), once a roster was chosen (and possibly
// turned into a task) the eligible list loses exactly the roster's members
// before the next round: eligibles = removeSegments(eligibles, <that roster>),
// on every path to the next iteration.  (A roster may have holes - segments
// skipped because they did not fit - so positional cuts are wrong.)
func ruleRosterRemovedByMembership(r *Report, rule string) {
	p := r.P
	fi := p.MustFunc("index/scorch/mergeplan.plan")
	r.Fn(fi)
	info := fi.Pkg.TypesInfo
	g := buildCFG(info, fi.Decl.Body)
	n := 0
	ast.Inspect(fi.Decl.Body, func(x ast.Node) bool {
		as, ok := x.(*ast.AssignStmt)
		if !ok || len(as.Lhs) != 1 || len(as.Rhs) != 1 {
			return true
		}
		c, ok := as.Rhs[0].(*ast.CallExpr)
		if !ok || calleeBuiltin(info, c) != "append" || len(c.Args) != 2 {
			return true
		}
		// append(..., &MergeTask{Segments: X})
		var roster types.Object
		ast.Inspect(c.Args[1], func(y ast.Node) bool {
			if kv, ok := y.(*ast.KeyValueExpr); ok {
				if id, ok := kv.Key.(*ast.Ident); ok && id.Name == "Segments" {
					roster = objOf(info, kv.Value)
				}
			}
			return true
		})
		if roster == nil {
			return true
		}
		n++
		// enclosing loop
		var loop *ast.ForStmt
		for _, anc := range enclosing(fi.Decl.Body, as) {
			if fs, ok := anc.(*ast.ForStmt); ok {
				loop = fs
			}
		}
		var removal ast.Node
		var list types.Object
		ast.Inspect(fi.Decl.Body, func(y ast.Node) bool {
			a2, ok := y.(*ast.AssignStmt)
			if !ok || len(a2.Rhs) != 1 || len(a2.Lhs) != 1 {
				return true
			}
			c2, ok := a2.Rhs[0].(*ast.CallExpr)
			if !ok || len(c2.Args) != 2 {
				return true
			}
			if f := callee(info, c2); f != nil && f.Name() == "removeSegments" && objOf(info, c2.Args[1]) == roster && objOf(info, c2.Args[0]) == objOf(info, a2.Lhs[0]) {
				removal, list = a2, objOf(info, a2.Lhs[0])
			}
			return true
		})
		ok2 := false
		if removal != nil && loop != nil && loop.Cond != nil {
			ok2 = !g.reachesAvoiding(as, loop.Cond, removal) && readsVar(info, loop.Cond, list)
		} else if removal != nil && loop != nil && loop.Cond == nil && len(loop.Body.List) > 0 {
			// `for { if <exit test on the list> { break } ... }`: the next round starts at the first statement of the body
			var head ast.Node = loop.Body.List[0]
			if is, isIf := loop.Body.List[0].(*ast.IfStmt); isIf {
				head = is.Cond
			}
			ok2 = !g.reachesAvoiding(as, head, removal) && readsVar(info, head, list)
		} else if removal != nil && loop == nil {
			ok2 = !g.exitAvoiding(as, removal) // straight-line code: the removal follows on every path
		}
		r.Ob(rule, fi.Name+"/planned-roster-leaves-the-eligible-list", as.Pos(), ok2, "after a roster becomes a merge task its members must be removed from the eligible list by membership (removeSegments(list, roster)) before the next planning round; otherwise a segment can be planned into two tasks and its documents are merged twice")
		return true
	})
	if n < 1 {
		undecidedf("%s: no merge task is appended", fi.Name)
	}
}

// ruleOptimisedDisjunctionKeepsMin (K12): BooleanSearcher decides from
// shouldSearcher.Min() whether its should clause is optional.  Every searcher
// that newDisjunctionSearcher returns therefore has to carry the requested
// min: the regular constructors receive it as an argument; the optimised
// replacement (result of optimizeCompositeSearcher) must have it stored into
// it before it is returned.
func ruleOptimisedDisjunctionKeepsMin(r *Report, rule string) {
	p := r.P
	fi := p.MustFunc("search/searcher.newDisjunctionSearcher")
	r.Fn(fi)
	info := fi.Pkg.TypesInfo
	g := buildCFG(info, fi.Decl.Body)
	sig := fi.Obj.Type().(*types.Signature)
	var minParam types.Object
	// the minimum-should-match requirement is the float64 parameter (role by type, not by name)
	for i := 0; i < sig.Params().Len(); i++ {
		if b, ok := sig.Params().At(i).Type().Underlying().(*types.Basic); ok && b.Kind() == types.Float64 {
			minParam = sig.Params().At(i)
		}
	}
	if minParam == nil {
		undecidedf("%s: parameter min not found", fi.Name)
	}
	n := 0
	for _, rs := range returnsOf(fi.Decl.Body) {
		if len(rs.Results) == 2 && !isNilIdent(info, rs.Results[1]) {
			continue // error return
		}
		if len(rs.Results) == 1 {
			if _, isCall := ast.Unparen(rs.Results[0]).(*ast.CallExpr); !isCall {
				continue
			}
		}
		n++
		res := ast.Unparen(rs.Results[0])
		ok, how := false, ""
		if c, isCall := res.(*ast.CallExpr); isCall {
			for _, a := range c.Args {
				if objOf(info, a) == minParam {
					ok, how = true, "passed to "+exprShort(c.Fun)
				}
			}
		} else if o := objOf(info, res); o != nil {
			// a variable: some dominating store into one of its fields (possibly through a type-asserted alias) takes min
			ast.Inspect(fi.Decl.Body, func(x ast.Node) bool {
				as, isAs := x.(*ast.AssignStmt)
				if !isAs || len(as.Lhs) != 1 || len(as.Rhs) != 1 {
					return true
				}
				sel, isSel := ast.Unparen(as.Lhs[0]).(*ast.SelectorExpr)
				if !isSel || !readsVar(info, as.Rhs[0], minParam) {
					return true
				}
				if !g.DominatesNode(as, rs) {
					// allowed: the store sits under `if alias, ok := rv.(*T); ok { ... }` (only the
					// type assertion separates it from the return)
					if !g.ReachesFwdNode(as, rs) {
						return true
					}
					retFacts := g.RawGuardsOf(rs)
					rf := factsString(retFacts)
					for _, fct := range g.RawGuardsOf(as) { // universal: the conditions as written
						if strings.Contains(rf, fct.String()) {
							continue
						}
						if e, isEq, isNil := nilTest(info, fct.Expr); isNil && fct.Tag == nil {
							if isErrorType(info.TypeOf(e)) && isEq == fct.Truth {
								continue // "no error so far": the success path
							}
							// the same nil fact in the other spelling (`!(x == nil)` / `x != nil`) at the return
							same := false
							for _, rfct := range retFacts {
								if e2, isEq2, isNil2 := nilTest(info, rfct.Expr); isNil2 && rfct.Tag == nil && exprStr(e2) == exprStr(e) && (isEq2 == rfct.Truth) == (isEq == fct.Truth) {
									same = true
								}
							}
							if same {
								continue
							}
						}
						if _, isIdent := ast.Unparen(fct.Expr).(*ast.Ident); !isIdent || !fct.Truth {
							return true
						}
					}
				}
				base := objOf(info, sel.X)
				if base == o {
					ok, how = true, "stored into "+exprStr(sel)
				}
				// alias introduced by `ts, ok := rv.(*T)`
				ast.Inspect(fi.Decl.Body, func(y ast.Node) bool {
					if a2, isA2 := y.(*ast.AssignStmt); isA2 && len(a2.Rhs) == 1 {
						if ta, isTA := ast.Unparen(a2.Rhs[0]).(*ast.TypeAssertExpr); isTA && objOf(info, ta.X) == o && len(a2.Lhs) >= 1 && objOf(info, a2.Lhs[0]) == base {
							ok, how = true, "stored into "+exprStr(sel)+" (alias of "+o.Name()+")"
						}
					}
					return true
				})
				return true
			})
		}
		r.Ob(rule, fi.Name+"/returned-"+exprShort(res)+"-carries-min", rs.Pos(), ok, "the searcher returned here stands for a disjunction with a minimum-should-match requirement; it must carry `min` ("+how+"), because BooleanSearcher reads shouldSearcher.Min() to decide whether the should clause is optional (with Min()==0 a `must + should(min 1)` query returns documents that match no should term)")
	}
	if n < 3 {
		undecidedf("%s: expected >= 3 successful returns, found %d", fi.Name, n)
	}
}

// ruleFieldwiseEqualityComplete (K9b): a condition that decides "these two
// values of struct type T are the same" by comparing their fields one by one
// (a chain `a.F1 == b.F1 && a.F2 == b.F2 ...` with two or more fields) must
// compare every field of T (method forms a.F.Equals(b.F) count).  Dropping one
// makes distinct values collapse - e.g. term locations of different array
// elements merged by Dedupe, after which a phrase inside one element is lost.
func ruleFieldwiseEqualityComplete(r *Report, rule string, pkgs []string, allow map[string]string) {
	p := r.P
	n := 0
	for _, pk := range pkgs {
		for _, fi := range p.funcsInPkg(pk) {
			if fi.Decl.Body == nil {
				continue
			}
			info := fi.Pkg.TypesInfo
			seenChain := map[ast.Expr]bool{}
			ast.Inspect(fi.Decl.Body, func(x ast.Node) bool {
				be, ok := x.(*ast.BinaryExpr)
				if !ok || be.Op != token.LAND || seenChain[be] {
					return true
				}
				// flatten the && chain
				var conj []ast.Expr
				var flat func(e ast.Expr)
				flat = func(e ast.Expr) {
					e = ast.Unparen(e)
					if b, ok := e.(*ast.BinaryExpr); ok && b.Op == token.LAND {
						seenChain[b] = true
						flat(b.X)
						flat(b.Y)
						return
					}
					conj = append(conj, e)
				}
				flat(be)
				type pair struct{ a, b string }
				fields := map[pair]map[string]bool{}
				var structOfPair = map[pair]*types.Struct{}
				var nameOfPair = map[pair]string{}
				add := func(l, rr ast.Expr) {
					ls, ok1 := ast.Unparen(l).(*ast.SelectorExpr)
					rs, ok2 := ast.Unparen(rr).(*ast.SelectorExpr)
					if !ok1 || !ok2 || ls.Sel.Name != rs.Sel.Name {
						return
					}
					lv, _ := info.ObjectOf(ls.Sel).(*types.Var)
					if lv == nil || !lv.IsField() || exprStr(ls.X) == exprStr(rs.X) {
						return
					}
					nt := namedOf(info.TypeOf(ls.X))
					nt2 := namedOf(info.TypeOf(rs.X))
					if nt == nil || nt != nt2 {
						return
					}
					st, ok := nt.Underlying().(*types.Struct)
					if !ok {
						return
					}
					k := pair{exprStr(ls.X), exprStr(rs.X)}
					if fields[k] == nil {
						fields[k] = map[string]bool{}
					}
					fields[k][ls.Sel.Name] = true
					structOfPair[k] = st
					nameOfPair[k] = nt.Obj().Name()
				}
				for _, c := range conj {
					switch e := c.(type) {
					case *ast.BinaryExpr:
						if e.Op == token.EQL {
							add(e.X, e.Y)
						}
					case *ast.CallExpr: // a.F.Equals(b.F)
						if sel, ok := ast.Unparen(e.Fun).(*ast.SelectorExpr); ok && len(e.Args) == 1 && (sel.Sel.Name == "Equals" || sel.Sel.Name == "Equal") {
							add(sel.X, e.Args[0])
						}
					}
				}
				for k, fs := range fields {
					if len(fs) < 2 {
						continue
					}
					st := structOfPair[k]
					var missing []string
					for i := 0; i < st.NumFields(); i++ {
						f := st.Field(i).Name()
						if !fs[f] {
							if _, ok := allow[nameOfPair[k]+"."+f]; ok {
								continue
							}
							missing = append(missing, f)
						}
					}
					sort.Strings(missing)
					n++
					r.Fn(fi)
					r.Ob(rule, fi.Name+"/equality-of-"+nameOfPair[k]+"-covers-all-fields", be.Pos(), len(missing) == 0,
						"the condition treats "+k.a+" and "+k.b+" ("+nameOfPair[k]+") as equal after comparing "+itoa(len(fs))+" fields but not "+strings.Join(missing, ", ")+": values that differ only there are merged")
				}
				return true
			})
		}
	}
	if n < 1 {
		undecidedf("field-wise equality rule matched no comparison chain")
	}
}

// ruleSearcherCountIsAnEstimate (K7): search.Searcher.Count() is an upper
// estimate used to order children cheaply; synthetic searchers (the bitmap
// readers built by the score-none optimisation) report 0 although they match.
// Inside package searcher its result may be summed, compared with another
// Count() (ordering) or delegated, but never compared with a constant to
// decide emptiness.
func ruleSearcherCountIsAnEstimate(r *Report, rule string) {
	p := r.P
	searcherIface := p.Pkg("search").Types.Scope().Lookup("Searcher").Type().Underlying().(*types.Interface)
	n := 0
	for _, fi := range p.funcsInPkg("search/searcher") {
		if fi.Decl.Body == nil {
			continue
		}
		info := fi.Pkg.TypesInfo
		ast.Inspect(fi.Decl.Body, func(x ast.Node) bool {
			c, ok := x.(*ast.CallExpr)
			if !ok {
				return true
			}
			sel, ok := ast.Unparen(c.Fun).(*ast.SelectorExpr)
			if !ok || sel.Sel.Name != "Count" || len(c.Args) != 0 {
				return true
			}
			rt := info.TypeOf(sel.X)
			if rt == nil || !(types.Implements(rt, searcherIface) || types.Implements(types.NewPointer(rt), searcherIface)) {
				return true
			}
			n++
			r.Fn(fi)
			ok2 := true
			for _, anc := range enclosing(fi.Decl.Body, c) {
				if be, isB := anc.(*ast.BinaryExpr); isB {
					switch be.Op {
					case token.EQL, token.NEQ, token.LSS, token.LEQ, token.GTR, token.GEQ:
						other := be.Y
						if len(enclosing(be.Y, c)) > 0 || ast.Unparen(be.Y) == ast.Expr(c) {
							other = be.X
						}
						if tv, isT := info.Types[other]; isT && tv.Value != nil {
							ok2 = false
						}
					}
				}
			}
			r.Ob(rule, fi.Name+"/"+exprStr(sel.X)+".Count()-not-an-emptiness-test", c.Pos(), ok2, exprStr(c)+" is compared with a constant: Count() of a searcher is only an estimate (optimised bitmap searchers report 0 while matching documents), so deciding 'no matches' from it drops hits")
			return true
		})
	}
	if n < 8 {
		undecidedf("searcher Count() rule matched %d uses", n)
	}
}

func info0(info *types.Info, sel *ast.SelectorExpr) types.Object { return info.ObjectOf(sel.Sel) }

// ruleQueryOptionsReachSearcher (K9b): every exported, JSON-serialised field of
// a query type is an option the user can set and that survives a round trip;
// the type's Searcher() (or a method of the same receiver it calls, one level)
// must read it.  An option that Searcher() never looks at is silently ignored -
// the typical result of rebuilding a constructor call or delegating to another
// query type during a refactor.
func ruleQueryOptionsReachSearcher(r *Report, rule string, allow map[string]string) {
	p := r.P
	qpk := p.Pkg("search/query")
	n := 0
	for _, name := range qpk.Types.Scope().Names() {
		tn, ok := qpk.Types.Scope().Lookup(name).(*types.TypeName)
		if !ok {
			continue
		}
		st, ok := tn.Type().Underlying().(*types.Struct)
		if !ok {
			continue
		}
		sfi := p.funcs["search/query.(*"+name+").Searcher"]
		if sfi == nil || sfi.Decl.Body == nil {
			continue
		}
		info := sfi.Pkg.TypesInfo
		read := map[string]bool{}
		var scan func(fi *FuncInfo, depth int)
		visited := map[*FuncInfo]bool{}
		scan = func(fi *FuncInfo, depth int) {
			if visited[fi] || fi.Decl.Body == nil {
				return
			}
			visited[fi] = true
			recv := recvObj(fi)
			ast.Inspect(fi.Decl.Body, func(x ast.Node) bool {
				if sel, ok := x.(*ast.SelectorExpr); ok && recv != nil && objOf(fi.Pkg.TypesInfo, sel.X) == recv {
					if v, ok := fi.Pkg.TypesInfo.ObjectOf(sel.Sel).(*types.Var); ok && v.IsField() {
						read[v.Name()] = true
					}
				}
				// the receiver handed on as a whole (e.g. to a helper taking the query): every field may be read
				if c, ok := x.(*ast.CallExpr); ok {
					for _, a := range c.Args {
						if recv != nil && objOf(fi.Pkg.TypesInfo, a) == recv {
							read["*"] = true
						}
					}
					if depth < 2 {
						if f := callee(fi.Pkg.TypesInfo, c); f != nil {
							if s2, ok := ast.Unparen(c.Fun).(*ast.SelectorExpr); ok && recv != nil && objOf(fi.Pkg.TypesInfo, s2.X) == recv {
								if nf := p.funcs[funcName(f)]; nf != nil {
									scan(nf, depth+1)
								}
							}
						}
					}
				}
				return true
			})
		}
		scan(sfi, 0)
		_ = info
		for _, jf := range jsonFieldsOf(st) {
			if !jf.Var.Exported() || jf.Skip || !jf.Tagged {
				continue
			}
			n++
			r.Fn(sfi)
			key := name + "." + jf.Var.Name()
			if why, ok := allow[key]; ok && !read[jf.Var.Name()] && !read["*"] {
				r.Allow(rule, key+"/read-by-Searcher", jf.Var.Pos(), why)
				continue
			}
			r.Ob(rule, key+"/read-by-Searcher", jf.Var.Pos(), read[jf.Var.Name()] || read["*"], "option "+key+" (json \""+jf.Key+"\") is never read by "+name+".Searcher() or the receiver methods it calls: the option is accepted, serialised and ignored")
		}
	}
	if n < 40 {
		undecidedf("query option rule matched %d fields", n)
	}
}

// ruleNestedAdvanceTargetsJoinLevel (K5dep): in NestedConjunctionSearcher.Advance
// the id each child is advanced to must be derived from the JOIN level of the
// searcher (s.joinIdx): a match is decided per join-level ancestor and needs
// every child's documents below that ancestor, including documents with smaller
// ids than the requested target and documents on sibling paths.  A target
// derived from the child's own depth (or the raw target id) skips those and
// loses matches at or after the requested id (found as F15).
func ruleNestedAdvanceTargetsJoinLevel(r *Report, rule string) {
	p := r.P
	fi := p.MustFunc("search/searcher.(*NestedConjunctionSearcher).Advance")
	r.Fn(fi)
	info := fi.Pkg.TypesInfo
	d := newDeps(info, fi.Decl.Body)
	n := 0
	for _, c := range callsIn(fi.Decl.Body) {
		f := callee(info, c)
		if f == nil || f.Name() != "Advance" || len(c.Args) != 2 {
			continue
		}
		// a child searcher's Advance (receiver is not s itself)
		if sel, ok := ast.Unparen(c.Fun).(*ast.SelectorExpr); ok && objOf(info, sel.X) == recvObj(fi) {
			continue
		}
		n++
		_ = d
		// local backward slice over plain variable assignments (the receiver is not followed)
		seen := map[types.Object]bool{}
		mentions := false
		var follow func(e ast.Expr)
		follow = func(e ast.Expr) {
			ast.Inspect(e, func(x ast.Node) bool {
				if sel, ok := x.(*ast.SelectorExpr); ok && isField(info, sel, "NestedConjunctionSearcher", "joinIdx") {
					mentions = true
				}
				if id, ok := x.(*ast.Ident); ok {
					o := info.ObjectOf(id)
					if o == nil || seen[o] || o == recvObj(fi) {
						return true
					}
					if _, isVar := o.(*types.Var); !isVar {
						return true
					}
					seen[o] = true
					ast.Inspect(fi.Decl.Body, func(y ast.Node) bool {
						if as, ok := y.(*ast.AssignStmt); ok {
							for i, l := range as.Lhs {
								if objOf(info, l) == o && i < len(as.Rhs) {
									follow(as.Rhs[i])
								}
							}
						}
						return true
					})
				}
				return true
			})
		}
		follow(c.Args[1])
		r.Ob(rule, fi.Name+"/child-advance-target-derived-from-join-level", c.Pos(), mentions,
			"the id passed to "+exprShort(c)+" is not computed from s.joinIdx: children must be advanced to the join-level ancestor of the requested id (all their documents below it take part in the match), not to the requested id or an ancestor chosen by the child's own depth")
	}
	if n < 1 {
		undecidedf("%s: no child Advance call found", fi.Name)
	}
}

// ruleRegisterAllInDependencyOrder (K5): customAnalysis.registerAll re-creates
// the custom analysis components of a mapping on every open.  A component kind
// whose constructors look other kinds up in the cache (analyzers need char
// filters, tokenizers and token filters; token filters need token maps;
// synonym sources need analyzers; ...) has to be defined after them.  The
// dependency relation is derived from the code: for every constructor passed to
// registry.Register<Kind>, the `cache.<OtherKind>Named(...)` calls it (or a
// same-package helper, one level) makes.
func ruleRegisterAllInDependencyOrder(r *Report, rule string) {
	p := r.P
	kinds := []string{"CharFilter", "Tokenizer", "TokenMap", "TokenFilter", "Analyzer", "DateTimeParser", "SynonymSource"}
	isKind := map[string]bool{}
	for _, k := range kinds {
		isKind[k] = true
	}
	deps := map[string]map[string]string{} // kind -> needed kind -> witness
	var scan func(fi *FuncInfo, kind string, depth int, seen map[*FuncInfo]bool)
	scan = func(fi *FuncInfo, kind string, depth int, seen map[*FuncInfo]bool) {
		if fi == nil || fi.Decl.Body == nil || seen[fi] {
			return
		}
		seen[fi] = true
		info := fi.Pkg.TypesInfo
		for _, c := range callsDeep(fi.Decl.Body) {
			f := callee(info, c)
			if f == nil {
				continue
			}
			if strings.HasSuffix(f.Name(), "Named") && f.Pkg() != nil && strings.HasSuffix(f.Pkg().Path(), "/registry") {
				need := strings.TrimSuffix(f.Name(), "Named")
				if isKind[need] && need != kind {
					if deps[kind] == nil {
						deps[kind] = map[string]string{}
					}
					if deps[kind][need] == "" {
						deps[kind][need] = fi.Name
					}
				}
			} else if depth < 1 && f.Pkg() == fi.Pkg.Types {
				scan(p.funcs[funcName(f)], kind, depth+1, seen)
			}
		}
	}
	nCtor := 0
	for _, fi := range p.flist {
		if fi.Decl.Body == nil {
			continue
		}
		info := fi.Pkg.TypesInfo
		for _, c := range callsDeep(fi.Decl.Body) {
			f := callee(info, c)
			if f == nil || f.Pkg() == nil || !strings.HasSuffix(f.Pkg().Path(), "/registry") || !strings.HasPrefix(f.Name(), "Register") || len(c.Args) != 2 {
				continue
			}
			kind := strings.TrimPrefix(f.Name(), "Register")
			if !isKind[kind] {
				continue
			}
			if ctor, ok := objOf(info, c.Args[1]).(*types.Func); ok {
				nCtor++
				scan(p.funcs[funcName(ctor)], kind, 0, map[*FuncInfo]bool{})
			}
		}
	}
	if nCtor < 50 {
		undecidedf("only %d registered analysis constructors found", nCtor)
	}
	fi := p.MustFunc("mapping.(*customAnalysis).registerAll")
	r.Fn(fi)
	info := fi.Pkg.TypesInfo
	pos := map[string]token.Pos{}
	for _, c := range callsDeep(fi.Decl.Body) {
		if f := callee(info, c); f != nil && strings.HasPrefix(f.Name(), "Define") {
			k := strings.TrimPrefix(f.Name(), "Define")
			if isKind[k] {
				if _, ok := pos[k]; !ok {
					pos[k] = c.Pos()
				}
			}
		}
	}
	for _, k := range kinds {
		if _, ok := pos[k]; !ok {
			undecidedf("registerAll does not define kind %s", k)
		}
	}
	n := 0
	for _, k := range kinds {
		var needs []string
		for need := range deps[k] {
			needs = append(needs, need)
		}
		sort.Strings(needs)
		for _, need := range needs {
			n++
			r.Ob(rule, "registerAll/"+need+"-defined-before-"+k, pos[k], pos[need] < pos[k], "constructors of kind "+k+" look up "+need+" components in the cache (e.g. "+deps[k][need]+"), so a mapping's custom "+need+" definitions must be registered before its "+k+" definitions when the mapping is rebuilt from JSON; in the wrong order a saved mapping that is valid when built through the API fails to reopen")
		}
	}
	if n < 4 {
		undecidedf("only %d dependencies between analysis component kinds were derived", n)
	}
}

// ruleCustomComponentRecordedAfterDefine (K5, siblings): the AddCustom* methods
// of IndexMappingImpl keep two views of a custom component: the live registry
// cache (used for analysis now) and CustomAnalysis (serialised, used to rebuild
// the cache on reopen).  The config is recorded for serialisation only after
// the cache accepted the definition, on the path where the Define call's error
// is nil; recording a refused definition makes the reopened mapping differ from
// the live one (or fail to open).
func ruleCustomComponentRecordedAfterDefine(r *Report, rule string) {
	p := r.P
	n := 0
	for _, fi := range p.funcsInPkg("mapping") {
		if fi.Decl.Body == nil || fi.Decl.Recv == nil || !strings.HasPrefix(fi.Obj.Name(), "AddCustom") {
			continue
		}
		info := fi.Pkg.TypesInfo
		g := buildCFG(info, fi.Decl.Body)
		var define *ast.AssignStmt
		var errObj types.Object
		ast.Inspect(fi.Decl.Body, func(x ast.Node) bool {
			as, ok := x.(*ast.AssignStmt)
			if !ok || len(as.Rhs) != 1 {
				return true
			}
			if c, ok := as.Rhs[0].(*ast.CallExpr); ok {
				if f := callee(info, c); f != nil && strings.HasPrefix(f.Name(), "Define") {
					define = as
					errObj = objOf(info, as.Lhs[len(as.Lhs)-1])
				}
			}
			return true
		})
		if define == nil {
			continue
		}
		ast.Inspect(fi.Decl.Body, func(x ast.Node) bool {
			as, ok := x.(*ast.AssignStmt)
			if !ok || len(as.Lhs) != 1 {
				return true
			}
			ix, ok := ast.Unparen(as.Lhs[0]).(*ast.IndexExpr)
			if !ok {
				return true
			}
			sel, ok := ast.Unparen(ix.X).(*ast.SelectorExpr)
			if !ok || !isField(info, sel.X, "IndexMappingImpl", "CustomAnalysis") {
				return true
			}
			n++
			r.Fn(fi)
			okErr := false
			for _, fct := range g.GuardsOf(as) {
				if e, isEq, isNil := nilTest(info, fct.Expr); isNil && objOf(info, e) == errObj && isEq == fct.Truth {
					okErr = true
				}
			}
			r.Ob(rule, fi.Name+"/recorded-only-after-successful-Define", as.Pos(), g.DominatesNode(define, as) && okErr, "`"+exprStr(as.Lhs[0])+" = ...` must run after the cache accepted the definition and only when its error is nil; otherwise a definition the live mapping does not use is what gets serialised and re-registered on the next open")
			return true
		})
	}
	if n < 6 {
		undecidedf("AddCustom* rule matched %d recordings", n)
	}
}

// ruleTempDecoderDefaultsOnAbsenceOnly (K9): an UnmarshalJSON that decodes into
// a temporary struct and then fills in defaults must decide "the key was
// absent" by a nil test of the temporary's pointer/slice/RawMessage field.  A
// `len(temp.F) == 0` test also fires for a key that is present with an empty
// value (`"sort": []`), which MarshalJSON does write when the field has no
// omitempty: the explicit empty value is replaced by the default on the way
// back in.
func ruleTempDecoderDefaultsOnAbsenceOnly(r *Report, rule string, pkgs ...string) {
	p := r.P
	n := 0
	for _, pk := range pkgs {
		for _, fi := range p.funcsInPkg(pk) {
			if fi.Decl.Body == nil || fi.Obj.Name() != "UnmarshalJSON" {
				continue
			}
			info := fi.Pkg.TypesInfo
			// temporaries: local struct variables whose address is passed to an Unmarshal call
			temps := map[types.Object]bool{}
			for _, c := range callsDeep(fi.Decl.Body) {
				nm := calleeShortName(info, c)
				if !strings.Contains(nm, "Unmarshal") || len(c.Args) < 2 {
					continue
				}
				if u, ok := ast.Unparen(c.Args[1]).(*ast.UnaryExpr); ok && u.Op == token.AND {
					if o := objOf(info, u.X); o != nil {
						if _, isStruct := o.Type().Underlying().(*types.Struct); isStruct {
							temps[o] = true
						}
					}
				}
			}
			if len(temps) == 0 {
				continue
			}
			ast.Inspect(fi.Decl.Body, func(x ast.Node) bool {
				is, ok := x.(*ast.IfStmt)
				if !ok {
					return true
				}
				var tests []ast.Expr
				var facts []Fact
				splitCondAny(is.Cond, &facts)
				for _, f := range facts {
					tests = append(tests, f.Expr)
				}
				for _, tcond := range tests {
					be, ok := ast.Unparen(tcond).(*ast.BinaryExpr)
					if !ok {
						continue
					}
					// nil test of temp.F : fine, counted
					if e, _, isNil := nilTest(info, be); isNil {
						if sel, ok := ast.Unparen(e).(*ast.SelectorExpr); ok && temps[objOf(info, sel.X)] {
							n++
							r.Fn(fi)
							r.Ob(rule, fi.Name+"/"+exprStr(sel)+"-absence-by-nil-test", be.Pos(), true, "absence of the key is decided by a nil test")
						}
						continue
					}
					// len(temp.F) == 0 / != 0 / < 1 ...
					c, ok := ast.Unparen(be.X).(*ast.CallExpr)
					if !ok || calleeBuiltin(info, c) != "len" || len(c.Args) != 1 {
						continue
					}
					sel, ok := ast.Unparen(c.Args[0]).(*ast.SelectorExpr)
					if !ok || !temps[objOf(info, sel.X)] {
						continue
					}
					// only pointer-ish / slice fields can tell absent from empty
					switch info.TypeOf(sel).Underlying().(type) {
					case *types.Slice, *types.Map:
					default:
						continue
					}
					n++
					r.Fn(fi)
					r.Ob(rule, fi.Name+"/"+exprStr(sel)+"-absence-by-nil-test", be.Pos(), false, "`"+exprStr(be)+"` treats a key that is present with an empty value like an absent key; the branch it guards substitutes a default, so an explicitly empty "+sel.Sel.Name+" does not survive a JSON round trip (test `"+exprStr(sel)+" == nil` instead)")
				}
				return true
			})
		}
	}
	if n < 3 {
		undecidedf("temp-decoder rule matched %d absence tests", n)
	}
}

// ruleFoldBufferCoversWorstCase (K11): foldToASCII writes its output into a
// caller-provided buffer and only re-slices it (it never appends), so the
// capacity the caller reserves must cover the worst expansion: (max number of
// output runes any single case of the fold emits) x (number of input runes).
// Both numbers are read from the code: the widest case clause of foldToASCII
// and the capacity expression of the make() in Filter.
func ruleFoldBufferCoversWorstCase(r *Report, rule string) {
	p := r.P
	fold := p.MustFunc("analysis/char/asciifolding.foldToASCII")
	filt := p.MustFunc("analysis/char/asciifolding.(*AsciiFoldingFilter).Filter")
	r.Fn(fold)
	r.Fn(filt)
	maxFold := 0
	// the output cursor by role: the variable that indexes an element store (`out[cursor] = ...`)
	finfo := fold.Pkg.TypesInfo
	cursors := map[types.Object]bool{}
	ast.Inspect(fold.Decl.Body, func(x ast.Node) bool {
		if as, ok := x.(*ast.AssignStmt); ok && len(as.Lhs) == 1 {
			if ix, ok := ast.Unparen(as.Lhs[0]).(*ast.IndexExpr); ok {
				if o := objOf(finfo, ix.Index); o != nil {
					cursors[o] = true
				}
			}
		}
		return true
	})
	ast.Inspect(fold.Decl.Body, func(x ast.Node) bool {
		cc, ok := x.(*ast.CaseClause)
		if !ok {
			return true
		}
		k := 0
		for _, st := range cc.Body {
			ast.Inspect(st, func(y ast.Node) bool {
				if inc, ok := y.(*ast.IncDecStmt); ok && inc.Tok == token.INC && cursors[objOf(finfo, inc.X)] {
					k++
				}
				return true
			})
		}
		if k > maxFold {
			maxFold = k
		}
		return true
	})
	if maxFold < 2 {
		undecidedf("foldToASCII: widest case writes %d runes (pattern not recognised)", maxFold)
	}
	info := filt.Pkg.TypesInfo
	n := 0
	for _, c := range builtinCalls(info, filt.Decl.Body, "make") {
		if len(c.Args) != 3 {
			continue
		}
		n++
		ok, got := false, exprStr(c.Args[2])
		if be, isB := ast.Unparen(c.Args[2]).(*ast.BinaryExpr); isB && be.Op == token.MUL {
			if k, isC := intConst(info, be.Y); isC && k >= maxFold && exprStr(be.X) == exprStr(c.Args[1]) {
				ok = true
			}
			if k, isC := intConst(info, be.X); isC && k >= maxFold && exprStr(be.Y) == exprStr(c.Args[1]) {
				ok = true
			}
		}
		r.Ob(rule, filt.Name+"/output-capacity-covers-widest-fold", c.Pos(), ok, fmt.Sprintf("the widest case of foldToASCII emits %d runes for one input rune and the function only re-slices its output buffer; the capacity reserved here (%s) must be at least %d x the number of input runes, otherwise inputs made of such runes panic with slice bounds out of range", maxFold, got, maxFold))
	}
	if n < 1 {
		undecidedf("Filter: output buffer allocation not found")
	}
}

// ruleFilteringWrappersFilterEveryResult (K5): a searcher that wraps a child and
// a predicate (FilteringSearcher, the custom filter searcher) may hand a
// DocumentMatch to its caller only if the predicate accepted it.  In Next and
// Advance every returned non-nil match is (a) a variable on a path guarded by a
// true call of the predicate on that same variable, or (b) the result of the
// wrapper's own Next/Advance (which filters).  Returning the child's
// Next/Advance result directly by-passes the filter.
func ruleFilteringWrappersFilterEveryResult(r *Report, rule string) {
	p := r.P
	n := 0
	for _, tn := range []string{"FilteringSearcher", "CustomFilterSearcher"} {
		for _, mn := range []string{"Next", "Advance"} {
			fi := p.funcs["search/searcher.(*"+tn+")."+mn]
			if fi == nil || fi.Decl.Body == nil {
				continue
			}
			r.Fn(fi)
			info := fi.Pkg.TypesInfo
			recv := recvObj(fi)
			g := buildCFG(info, fi.Decl.Body)
			for _, rs := range returnsOf(fi.Decl.Body) {
				if len(rs.Results) == 0 || len(rs.Results) > 2 || isNilIdent(info, rs.Results[0]) {
					continue
				}
				if len(rs.Results) == 1 {
					if _, isCall := ast.Unparen(rs.Results[0]).(*ast.CallExpr); !isCall {
						continue
					}
				}
				n++
				res := ast.Unparen(rs.Results[0])
				ok, why := false, ""
				if c, isCall := res.(*ast.CallExpr); isCall {
					if sel, isSel := ast.Unparen(c.Fun).(*ast.SelectorExpr); isSel && objOf(info, sel.X) == recv && (sel.Sel.Name == "Next" || sel.Sel.Name == "Advance") {
						ok = true
					} else {
						why = "it returns " + exprStr(c) + " unfiltered"
					}
				} else if o := objOf(info, res); o != nil {
					// guarded by a true predicate call that takes this variable
					for _, fct := range g.GuardsOf(rs) {
						if c, isCall := ast.Unparen(fct.Expr).(*ast.CallExpr); isCall && fct.Truth {
							for _, a := range c.Args {
								if objOf(info, a) == o {
									ok = true
								}
							}
						}
						// `keep, err := pred(ctx, m)` ... `if keep { return m }`
						if id, isID := ast.Unparen(fct.Expr).(*ast.Ident); isID && fct.Truth {
							ko := info.ObjectOf(id)
							ast.Inspect(fi.Decl.Body, func(y ast.Node) bool {
								as, isAs := y.(*ast.AssignStmt)
								if !isAs || len(as.Rhs) != 1 || len(as.Lhs) < 1 || objOf(info, as.Lhs[0]) != ko {
									return true
								}
								if c, isCall := as.Rhs[0].(*ast.CallExpr); isCall && g.DominatesNode(as, rs) {
									for _, a := range c.Args {
										if objOf(info, a) == o {
											ok = true
										}
									}
								}
								return true
							})
						}
					}
					if !ok {
						why = "the returned match " + o.Name() + " is not on a path where the predicate accepted it"
					}
				}
				r.Ob(rule, fi.Name+"/returned-match-passed-the-filter-"+exprShort(res), rs.Pos(), ok, tn+"."+mn+" may only return matches the predicate accepted (or delegate to its own Next/Advance, which filter): "+why+". Every geo post-filter (distance, box, polygon, shape relation) and the boolean filter clause rely on this wrapper; a by-pass returns candidates outside the shape whenever the wrapper is advanced by a conjunction")
			}
		}
	}
	if n < 3 {
		undecidedf("filtering-wrapper rule matched %d returns", n)
	}
}

// ruleCarryLoopCoversIndexZero (K8): byte-string successor / carry loops
// (`for i := len(x)-1; ...; i--` that read or bump x[i]) must run down to and
// including index 0.  Stopping at 1 leaves the most significant byte out: for
// inputs whose only non-0xff byte is the first one (one-byte prefixes such as
// upsidedown's row-type prefixes) no successor is found and the scan restarts
// from the smallest key / runs without an upper bound.
func ruleCarryLoopCoversIndexZero(r *Report, rule string, pkgFilter func(rel string) bool, floor int) {
	p := r.P
	n := 0
	for _, fi := range p.flist {
		if fi.Decl.Body == nil || !pkgFilter(relPkg(fi.Pkg.PkgPath)) {
			continue
		}
		info := fi.Pkg.TypesInfo
		ast.Inspect(fi.Decl.Body, func(x ast.Node) bool {
			fs, ok := x.(*ast.ForStmt)
			if !ok || fs.Init == nil || fs.Cond == nil || fs.Post == nil {
				return true
			}
			init, ok := fs.Init.(*ast.AssignStmt)
			if !ok || len(init.Lhs) != 1 || len(init.Rhs) != 1 {
				return true
			}
			iv := objOf(info, init.Lhs[0])
			be, ok := ast.Unparen(init.Rhs[0]).(*ast.BinaryExpr)
			if !ok || be.Op != token.SUB || iv == nil {
				return true
			}
			lc, ok := ast.Unparen(be.X).(*ast.CallExpr)
			if !ok || calleeBuiltin(info, lc) != "len" {
				return true
			}
			if k, isC := intConst(info, be.Y); !isC || k != 1 {
				return true
			}
			post, ok := fs.Post.(*ast.IncDecStmt)
			if !ok || post.Tok != token.DEC || objOf(info, post.X) != iv {
				return true
			}
			// the body indexes the same slice with the loop variable
			subj := exprStr(lc.Args[0])
			uses := false
			ast.Inspect(fs.Body, func(y ast.Node) bool {
				if ix, ok := y.(*ast.IndexExpr); ok && exprStr(ix.X) == subj && objOf(info, ix.Index) == iv {
					uses = true
				}
				return true
			})
			if !uses {
				// the copy made from it (rv := make(len(in)); copy(rv,in)) is indexed instead: accept any x[i]
				ast.Inspect(fs.Body, func(y ast.Node) bool {
					if ix, ok := y.(*ast.IndexExpr); ok && objOf(info, ix.Index) == iv {
						uses = true
					}
					return true
				})
			}
			if !uses {
				return true
			}
			n++
			r.Fn(fi)
			cond, ok2 := ast.Unparen(fs.Cond).(*ast.BinaryExpr)
			good := false
			if ok2 && objOf(info, cond.X) == iv {
				if k, isC := intConst(info, cond.Y); isC {
					good = (cond.Op == token.GEQ && k == 0) || (cond.Op == token.GTR && k < 0)
				}
			}
			r.Ob(rule, fi.Name+"/descending-loop-over-"+subj+"-includes-index-0", fs.Pos(), good, "the carry loop over "+subj+" stops at `"+exprStr(fs.Cond)+"`; it has to include index 0 (i >= 0), otherwise an input whose only incrementable byte is the first one gets no successor")
			return true
		})
	}
	if n < floor {
		undecidedf("carry-loop rule matched %d loops (floor %d)", n, floor)
	}
}

// ruleTokenOffsetsAreByteOffsets (K11, units): analysis.Token.Start/End are BYTE
// offsets into the source text.  An offset value must not be computed from the
// length of a rune slice (len(x) with x of type []rune counts characters):
// for multi-byte text the two differ and every later offset drifts.
func ruleTokenOffsetsAreByteOffsets(r *Report, rule string) {
	p := r.P
	n := 0
	for _, fi := range p.flist {
		rel := relPkg(fi.Pkg.PkgPath)
		if fi.Decl.Body == nil || !strings.HasPrefix(rel, "analysis") {
			continue
		}
		info := fi.Pkg.TypesInfo
		// offset expressions: values of Start/End keys in Token literals, and stores to .Start/.End of a Token
		var offs []ast.Expr
		ast.Inspect(fi.Decl.Body, func(x ast.Node) bool {
			switch s := x.(type) {
			case *ast.CompositeLit:
				if nt := namedOf(info.TypeOf(s)); nt != nil && nt.Obj().Name() == "Token" {
					for _, el := range s.Elts {
						if kv, ok := el.(*ast.KeyValueExpr); ok {
							if id, ok := kv.Key.(*ast.Ident); ok && (id.Name == "Start" || id.Name == "End") {
								offs = append(offs, kv.Value)
							}
						}
					}
				}
			case *ast.AssignStmt:
				for i, l := range s.Lhs {
					if sel, ok := ast.Unparen(l).(*ast.SelectorExpr); ok && (sel.Sel.Name == "Start" || sel.Sel.Name == "End") && i < len(s.Rhs) {
						if nt := namedOf(info.TypeOf(sel.X)); nt != nil && nt.Obj().Name() == "Token" {
							offs = append(offs, s.Rhs[i])
						}
					}
				}
			}
			return true
		})
		for _, off := range offs {
			n++
			bad := ""
			seen := map[types.Object]bool{}
			var follow func(e ast.Expr)
			follow = func(e ast.Expr) {
				ast.Inspect(e, func(x ast.Node) bool {
					if c, ok := x.(*ast.CallExpr); ok && calleeBuiltin(info, c) == "len" && len(c.Args) == 1 {
						if t := info.TypeOf(c.Args[0]); t != nil && t.Underlying().String() == "[]rune" {
							bad = exprStr(c)
						}
					}
					if id, ok := x.(*ast.Ident); ok {
						o := info.ObjectOf(id)
						v, isVar := o.(*types.Var)
						if !isVar || v.IsField() || seen[o] {
							return true
						}
						seen[o] = true
						ast.Inspect(fi.Decl.Body, func(y ast.Node) bool {
							if as, ok := y.(*ast.AssignStmt); ok {
								for i, l := range as.Lhs {
									if objOf(info, l) == o && i < len(as.Rhs) {
										follow(as.Rhs[i])
									}
								}
							}
							return true
						})
					}
					return true
				})
			}
			follow(off)
			r.Fn(fi)
			r.Ob(rule, fi.Name+"/offset-"+exprShort(off)+"-counts-bytes", off.Pos(), bad == "", "token offset "+exprStr(off)+" is derived from "+bad+", the number of RUNES; Start/End are byte offsets into the source, so for multi-byte text the token (and every following one) points at the wrong bytes and highlighting marks the wrong span")
		}
	}
	if n < 20 {
		undecidedf("token offset rule matched %d offset expressions", n)
	}
}

// rulePooledMatchResetIsTotal (K9b): DocumentMatch objects are recycled through
// a pool; Reset() must leave no value of the previous use behind: the struct is
// zeroed as a whole (`*dm = DocumentMatch{}`) and whatever is put back afterwards
// to keep its allocation is put back EMPTY - a slice re-sliced to [:0], a map
// that was cleared.  A field restored with its old contents (sort keys, term
// locations, descendants, score breakdown) leaks into the next hit.
func rulePooledMatchResetIsTotal(r *Report, rule string) {
	p := r.P
	fi := p.MustFunc("search.(*DocumentMatch).Reset")
	r.Fn(fi)
	info := fi.Pkg.TypesInfo
	recv := recvObj(fi)
	g := buildCFG(info, fi.Decl.Body)
	var zero *ast.AssignStmt
	ast.Inspect(fi.Decl.Body, func(x ast.Node) bool {
		as, ok := x.(*ast.AssignStmt)
		if !ok || len(as.Lhs) != 1 || len(as.Rhs) != 1 {
			return true
		}
		if st, ok := ast.Unparen(as.Lhs[0]).(*ast.StarExpr); ok && objOf(info, st.X) == recv {
			if cl, ok := ast.Unparen(as.Rhs[0]).(*ast.CompositeLit); ok && len(cl.Elts) == 0 {
				zero = as
			}
		}
		return true
	})
	r.Ob(rule, fi.Name+"/whole-struct-zeroed", fi.Decl.Pos(), zero != nil, "Reset() assigns the zero DocumentMatch to *dm, so no field (present or added later) survives by omission")
	if zero == nil {
		return
	}
	n := 0
	ast.Inspect(fi.Decl.Body, func(x ast.Node) bool {
		as, ok := x.(*ast.AssignStmt)
		if !ok || len(as.Lhs) != 1 || len(as.Rhs) != 1 || as == zero {
			return true
		}
		sel, ok := ast.Unparen(as.Lhs[0]).(*ast.SelectorExpr)
		if !ok || objOf(info, sel.X) != recv || !g.DominatesNode(zero, as) {
			return true
		}
		n++
		rhs := ast.Unparen(as.Rhs[0])
		empty, how := false, ""
		if se, ok := rhs.(*ast.SliceExpr); ok && se.High != nil {
			if k, isC := intConst(info, se.High); isC && k == 0 {
				empty, how = true, "re-sliced to [:0]"
			}
		}
		if o := objOf(info, rhs); o != nil && !empty {
			if _, isMap := o.Type().Underlying().(*types.Map); isMap {
				// cleared before (clear(m)), on every path on which it is non-nil
				for _, c := range builtinCalls(info, fi.Decl.Body, "clear") {
					if len(c.Args) == 1 && objOf(info, c.Args[0]) == o && c.Pos() < as.Pos() {
						empty, how = true, "map cleared with clear()"
					}
				}
			}
		}
		if isNilIdent(info, rhs) {
			empty, how = true, "nil"
		}
		r.Ob(rule, fi.Name+"/"+sel.Sel.Name+"-restored-empty", as.Pos(), empty, "after zeroing, "+exprStr(as.Lhs[0])+" gets its old allocation back; it must come back empty ("+how+"): `"+exprStr(as.Lhs[0])+" = "+exprStr(as.Rhs[0])+"` would carry the previous hit's "+sel.Sel.Name+" into the next one")
		return true
	})
	if n < 4 {
		undecidedf("%s: only %d restored fields found", fi.Name, n)
	}
}

// ruleOneKVBatchPerIndexBatch (K12): upsidedown's atomic visibility of an index
// batch rests on handing ALL of its rows (documents, deletions, internal
// values) to the KV store in ONE ExecuteBatch.  From Batch (and the same-package
// helpers it calls, two levels) exactly one ExecuteBatch call site is reachable.
func ruleOneKVBatchPerIndexBatch(r *Report, rule string) {
	p := r.P
	root := p.MustFunc("index/upsidedown.(*UpsideDownCouch).Batch")
	r.Fn(root)
	var sites []string
	seen := map[*FuncInfo]bool{}
	var walk func(fi *FuncInfo, depth int)
	walk = func(fi *FuncInfo, depth int) {
		if fi == nil || fi.Decl.Body == nil || seen[fi] {
			return
		}
		seen[fi] = true
		info := fi.Pkg.TypesInfo
		for _, c := range callsDeep(fi.Decl.Body) {
			f := callee(info, c)
			if f == nil {
				continue
			}
			if f.Name() == "ExecuteBatch" {
				sites = append(sites, p.Pos(c.Pos()))
				continue
			}
			if depth < 2 && f.Pkg() == fi.Pkg.Types {
				walk(p.funcs[funcName(f)], depth+1)
			}
		}
	}
	walk(root, 0)
	sort.Strings(sites)
	r.Ob(rule, root.Name+"/exactly-one-ExecuteBatch-reachable", root.Decl.Pos(), len(sites) == 1, "an index batch reaches the KV store through exactly one ExecuteBatch (found at "+strings.Join(sites, ", ")+"); a second write makes a concurrent reader see the batch's documents without its internal values (or the reverse)")
}

// ruleKVGetAbsenceIsNil (K12): KVReader.Get returns nil for an absent key and a
// (possibly EMPTY) slice for a present one.  Callers must test absence with
// `== nil`; `len(v) == 0` also fires for a present key with an empty value
// (upsidedown's back-index row of a document without indexed or stored fields
// is such a value) and makes the caller treat a live row as missing.
func ruleKVGetAbsenceIsNil(r *Report, rule string) {
	p := r.P
	n := 0
	for _, fi := range p.flist {
		rel := relPkg(fi.Pkg.PkgPath)
		if fi.Decl.Body == nil || !(rel == "index/upsidedown" || strings.HasPrefix(rel, "index/upsidedown/")) {
			continue
		}
		info := fi.Pkg.TypesInfo
		vals := map[types.Object]bool{}
		ast.Inspect(fi.Decl.Body, func(x ast.Node) bool {
			as, ok := x.(*ast.AssignStmt)
			if !ok || len(as.Rhs) != 1 || len(as.Lhs) < 1 {
				return true
			}
			if c, ok := as.Rhs[0].(*ast.CallExpr); ok {
				if f := callee(info, c); f != nil && f.Name() == "Get" && strings.Contains(qname(f), "KVReader") {
					if o := objOf(info, as.Lhs[0]); o != nil {
						vals[o] = true
					}
				}
			}
			return true
		})
		if len(vals) == 0 {
			continue
		}
		ast.Inspect(fi.Decl.Body, func(x ast.Node) bool {
			be, ok := x.(*ast.BinaryExpr)
			if !ok {
				return true
			}
			if e, _, isNil := nilTest(info, be); isNil && vals[objOf(info, e)] {
				n++
				r.Fn(fi)
				r.Ob(rule, fi.Name+"/"+exprStr(e)+"-absence-tested-with-nil", be.Pos(), true, "absence of the key is tested with a nil comparison")
				return true
			}
			c, ok := ast.Unparen(be.X).(*ast.CallExpr)
			if !ok || calleeBuiltin(info, c) != "len" || len(c.Args) != 1 || !vals[objOf(info, c.Args[0])] {
				return true
			}
			if _, isC := intConst(info, be.Y); !isC {
				return true
			}
			switch be.Op {
			case token.EQL, token.NEQ, token.GTR, token.LSS, token.LEQ, token.GEQ:
				n++
				r.Fn(fi)
				r.Ob(rule, fi.Name+"/"+exprStr(c.Args[0])+"-absence-tested-with-nil", be.Pos(), false, "`"+exprStr(be)+"` on the result of KVReader.Get conflates 'key absent' (nil) with 'present with an empty value': a live row with an empty value is treated as missing")
			}
			return true
		})
	}
	if n < 3 {
		undecidedf("KV Get absence rule matched %d tests", n)
	}
}

// ruleLoopScratchBufferReset (K5): a bytes.Buffer that is declared OUTSIDE a
// loop and, inside the loop, both filled (Write*/WriteTo(&buf)/Fprintf(&buf))
// and read (Bytes/String/Len) carries the previous iteration's bytes unless it
// is Reset() in the loop before it is filled.  (Declared inside the loop it is
// fresh each time.)  Serialising per-segment data with a stale prefix stores
// "first item ++ second item ..." for the second item.
func ruleLoopScratchBufferReset(r *Report, rule string, pkgs ...string) {
	p := r.P
	n := 0
	for _, pk := range pkgs {
		for _, fi := range p.funcsInPkg(pk) {
			if fi.Decl.Body == nil {
				continue
			}
			info := fi.Pkg.TypesInfo
			// bytes.Buffer locals
			bufs := map[types.Object]bool{}
			ast.Inspect(fi.Decl.Body, func(x ast.Node) bool {
				if id, ok := x.(*ast.Ident); ok {
					if v, ok := info.Defs[id].(*types.Var); ok && !v.IsField() && v.Type().String() == "bytes.Buffer" {
						bufs[v] = true
					}
				}
				return true
			})
			for b := range bufs {
				ast.Inspect(fi.Decl.Body, func(x ast.Node) bool {
					var body *ast.BlockStmt
					switch l := x.(type) {
					case *ast.ForStmt:
						body = l.Body
					case *ast.RangeStmt:
						body = l.Body
					}
					if body == nil || declaredWithin(info, body, b) {
						return true // declared inside this loop (or not a loop)
					}
					var reads, writes, resets []ast.Node
					inspectNoLit(body, func(y ast.Node) bool {
						switch c := y.(type) {
						case *ast.CallExpr:
							if sel, ok := ast.Unparen(c.Fun).(*ast.SelectorExpr); ok && objOf(info, sel.X) == b {
								switch sel.Sel.Name {
								case "Bytes", "String", "Len":
									reads = append(reads, c)
								case "Reset", "Truncate":
									resets = append(resets, c)
								default:
									if strings.HasPrefix(sel.Sel.Name, "Write") || sel.Sel.Name == "ReadFrom" {
										writes = append(writes, c)
									}
								}
							}
							for _, a := range c.Args {
								if u, ok := ast.Unparen(a).(*ast.UnaryExpr); ok && u.Op == token.AND && objOf(info, u.X) == b {
									writes = append(writes, c) // handed to a writer (x.WriteTo(&buf), fmt.Fprintf(&buf, ..))
								}
							}
						}
						return true
					})
					if len(reads) == 0 || len(writes) == 0 {
						return true
					}
					n++
					r.Fn(fi)
					g := buildCFG(info, innermostFuncBody(fi.Decl, body))
					ok := false
					for _, rs := range resets {
						all := true
						for _, w := range writes {
							if !g.DominatesNode(rs, w) && !(rs.Pos() < w.Pos()) {
								all = false
							}
						}
						if all {
							ok = true
						}
					}
					r.Ob(rule, fi.Name+"/"+b.Name()+"-reset-each-iteration", writes[0].Pos(), ok, "bytes.Buffer "+b.Name()+" lives across iterations of this loop, is filled and read in every iteration, but is not Reset() before being filled: from the second iteration on its contents start with the previous iterations' bytes")
					return true
				})
			}
		}
	}
	// zero sites today is the expected state (buffers are declared inside their loops); the rule is kept alive by a
	// positive control below
	if n == 0 {
		r.InfoOb(rule, "no-loop-carried-buffer", 0, "no bytes.Buffer declared outside a loop is filled and read inside it (checked packages: "+strings.Join(pkgs, ", ")+")")
	}
}

// ruleRangeBoundsAreOpaqueBits (K7): the float64 bounds of NewNumericRangeSearcher
// are bit patterns, not numbers: date queries pass UnixNano reinterpreted as
// float64 (numeric.Int64ToFloat64), which yields NaN and denormal patterns for
// legitimate timestamps.  The searcher may only nil-test the pointers and hand
// the dereferenced value to numeric.Float64ToInt64; any float predicate or
// arithmetic on them (math.IsNaN, comparisons, Nextafter, ...) misreads dates.
func ruleRangeBoundsAreOpaqueBits(r *Report, rule string) {
	p := r.P
	fi := p.MustFunc("search/searcher.NewNumericRangeSearcher")
	r.Fn(fi)
	info := fi.Pkg.TypesInfo
	sig := fi.Obj.Type().(*types.Signature)
	bounds := map[types.Object]bool{}
	for i := 0; i < sig.Params().Len(); i++ {
		if sig.Params().At(i).Type().String() == "*float64" {
			bounds[sig.Params().At(i)] = true
		}
	}
	if len(bounds) != 2 {
		undecidedf("%s: expected two *float64 bounds", fi.Name)
	}
	n := 0
	// a pointer local that received a bound parameter by plain copy is the same bound
	for changed := true; changed; {
		changed = false
		ast.Inspect(fi.Decl.Body, func(x ast.Node) bool {
			as, ok := x.(*ast.AssignStmt)
			if !ok || len(as.Lhs) != len(as.Rhs) {
				return true
			}
			for k := range as.Rhs {
				if id, isID := ast.Unparen(as.Rhs[k]).(*ast.Ident); isID && bounds[info.ObjectOf(id)] {
					if o := objOf(info, as.Lhs[k]); o != nil && !bounds[o] {
						bounds[o] = true
						changed = true
					}
				}
			}
			return true
		})
	}
	// the bound's value: a dereference of a bound parameter, or a local that received one by plain copy
	tainted := map[types.Object]bool{}
	isBoundValue := func(e ast.Expr) bool {
		switch y := ast.Unparen(e).(type) {
		case *ast.StarExpr:
			return bounds[objOf(info, y.X)]
		case *ast.Ident:
			return tainted[info.Uses[y]]
		}
		return false
	}
	for changed := true; changed; {
		changed = false
		ast.Inspect(fi.Decl.Body, func(x ast.Node) bool {
			as, ok := x.(*ast.AssignStmt)
			if !ok || len(as.Lhs) != len(as.Rhs) {
				return true
			}
			for k := range as.Rhs {
				if isBoundValue(as.Rhs[k]) {
					if id, ok := as.Lhs[k].(*ast.Ident); ok {
						if o := info.ObjectOf(id); o != nil && !tainted[o] {
							tainted[o] = true
							changed = true
						}
					}
				}
			}
			return true
		})
	}
	seenKey := map[string]int{}
	ast.Inspect(fi.Decl.Body, func(x ast.Node) bool {
		e, isExpr := x.(ast.Expr)
		if !isExpr {
			return true
		}
		switch y := e.(type) {
		case *ast.StarExpr:
			if !bounds[objOf(info, y.X)] {
				return true
			}
		case *ast.Ident:
			if !tainted[info.Uses[y]] {
				return true
			}
		default:
			return true
		}
		anc := enclosing(fi.Decl.Body, e)
		if len(anc) >= 2 {
			if as, isAs := anc[len(anc)-2].(*ast.AssignStmt); isAs {
				for _, l := range as.Lhs {
					if l == e {
						return true // being assigned, not used
					}
				}
			}
		}
		n++
		ok2 := false
		for i := len(anc) - 2; i >= 0; i-- { // anc ends with the node itself
			if c, isCall := anc[i].(*ast.CallExpr); isCall {
				if f := callee(info, c); f != nil && f.Name() == "Float64ToInt64" && len(c.Args) == 1 && ast.Unparen(c.Args[0]) == e {
					ok2 = true
				}
				break
			}
			if as, isAs := anc[i].(*ast.AssignStmt); isAs && len(as.Lhs) == len(as.Rhs) {
				// a plain copy into a local (which is then subject to the same rule)
				for k := range as.Rhs {
					if ast.Unparen(as.Rhs[k]) == e {
						if _, isId := as.Lhs[k].(*ast.Ident); isId {
							ok2 = true
						}
					}
				}
				break
			}
			if _, isParen := anc[i].(*ast.ParenExpr); !isParen {
				break
			}
		}
		key := exprStr(e)
		seenKey[key]++
		r.Ob(rule, fi.Name+"/"+key+"-only-converted-to-its-int64-code", e.Pos(), ok2, "the bound "+key+" is used as a number (float predicate, comparison or arithmetic) instead of being handed straight to numeric.Float64ToInt64: date bounds arrive as int64 nanoseconds reinterpreted as float64, for which NaN/Inf/ordering tests are meaningless (timestamps after 2262-02-18 are NaN bit patterns)")
		return true
	})
	if n < 2 {
		undecidedf("%s: bounds are never dereferenced", fi.Name)
	}
}

// ruleMustNotGetsMatchAllBase (K5): a boolean query with only negative clauses
// is evaluated as "match-all minus must_not".  In BooleanQuery.Searcher the
// match-all base must be installed whenever there is a must_not searcher and no
// positive (must/should) searcher - whatever else the query carries (filter,
// boosts, ...): the guard of that assignment may only consist of nil tests of
// the clause searchers.
func ruleMustNotGetsMatchAllBase(r *Report, rule string) {
	p := r.P
	fi := p.MustFunc("search/query.(*BooleanQuery).Searcher")
	r.Fn(fi)
	info := fi.Pkg.TypesInfo
	g := buildCFG(info, fi.Decl.Body)
	n := 0
	ast.Inspect(fi.Decl.Body, func(x ast.Node) bool {
		as, ok := x.(*ast.AssignStmt)
		if !ok || len(as.Rhs) != 1 {
			return true
		}
		c, ok := as.Rhs[0].(*ast.CallExpr)
		if !ok {
			return true
		}
		if f := callee(info, c); f == nil || f.Name() != "NewMatchAllSearcher" {
			return true
		}
		// only the negative-only branch: some must_not-like searcher is known to be non-nil here
		negOnly := false
		for _, fct := range g.GuardsOf(as) {
			if e, isEq, isNil := nilTest(info, fct.Expr); isNil && isEq != fct.Truth {
				if nt := namedOf(info.TypeOf(e)); nt != nil && nt.Obj().Name() == "Searcher" {
					negOnly = true
				}
			}
		}
		if !negOnly {
			return true
		}
		n++
		bad := ""
		nilTests := 0
		for _, fct := range g.GuardsOf(as) {
			// the negation of an earlier early-return condition (`!(a && b && ..)`) is not a condition of this branch
			if be, isB := ast.Unparen(fct.Expr).(*ast.BinaryExpr); isB && be.Op == token.LAND && !fct.Truth {
				continue
			}
			e, _, isNil := nilTest(info, fct.Expr)
			if isNil {
				if nt := namedOf(info.TypeOf(e)); nt != nil && nt.Obj().Name() == "Searcher" {
					nilTests++
					continue
				}
				if isErrorType(info.TypeOf(e)) {
					continue
				}
			}
			bad = fct.String()
		}
		r.Ob(rule, fi.Name+"/match-all-base-for-negative-only-queries", as.Pos(), bad == "" && nilTests >= 2, "the match-all base searcher of a must_not-only boolean query must be installed on nothing but the nil-ness of the clause searchers; the extra condition `"+bad+"` leaves some negative-only queries (e.g. must_not + filter) without a positive cursor, and they match nothing")
		return true
	})
	if n < 1 {
		undecidedf("%s: match-all base assignment not found", fi.Name)
	}
}

// ruleSegmentRefIffCarried (K1): an introducer builds the next root from the
// segments of the current one.  A reference is taken on an old segment
// (`x.segment.AddRef()`) exactly when that segment is put into the new
// snapshot: the AddRef sits in the same basic block as the store that places
// the segment (append to / element store into <new>.segment).  An AddRef on a
// path that does not carry the segment is never released (the file stays open
// and mapped after Close); a carried segment without AddRef is closed while in
// use.
func ruleSegmentRefIffCarried(r *Report, rule string, in introducers) {
	n := 0
	for _, fi := range []*FuncInfo{in.Segment, in.Persist, in.Merge} {
		r.Fn(fi)
		info := fi.Pkg.TypesInfo
		g := buildCFG(info, fi.Decl.Body)
		// placements: stores into a `.segment` field of IndexSnapshot (append or element store)
		var places []ast.Node
		ast.Inspect(fi.Decl.Body, func(x ast.Node) bool {
			as, ok := x.(*ast.AssignStmt)
			if !ok || len(as.Lhs) != 1 {
				return true
			}
			l := ast.Unparen(as.Lhs[0])
			if ix, ok := l.(*ast.IndexExpr); ok {
				l = ix.X
			}
			if isField(info, l, "IndexSnapshot", "segment") {
				places = append(places, as)
			}
			return true
		})
		for _, c := range callsIn(fi.Decl.Body) {
			f := callee(info, c)
			if f == nil || f.Name() != "AddRef" || !strings.Contains(qname(f), "Segment") {
				continue
			}
			n++
			lc, ok := g.Locate(c)
			same := false
			if ok {
				for _, pl := range places {
					if lp, ok2 := g.Locate(pl); ok2 && lp.B == lc.B {
						same = true
					}
				}
			}
			r.Ob(rule, fi.Name+"/"+exprShort(c)+"-next-to-its-placement", c.Pos(), same, "the segment reference taken by "+exprStr(c)+" must be taken in the same straight-line block that stores the segment into the new snapshot's .segment (taken iff carried); here no such store shares its block, so on some path the reference is taken for a segment that is dropped (leaked: file stays open/mapped after Close) or a carried segment goes without one")
		}
	}
	if n < 3 {
		undecidedf("segment AddRef rule matched %d sites", n)
	}
}

// ruleDeletedBitsWrittenForEverySegment (K5): prepareBoltSnapshot writes, for
// every segment of the snapshot, the segment's current deleted bitmap under
// BoltDeletedKey.  That write may depend on the bitmap being non-nil and on
// earlier errors only - not on the kind of segment (already on disk vs. being
// flushed by this very snapshot): a freshly flushed segment can already carry
// obsoletions, and rollback to that epoch reads them from this key.
func ruleDeletedBitsWrittenForEverySegment(r *Report, rule string) {
	p := r.P
	fi := p.MustFunc("index/scorch.prepareBoltSnapshot")
	r.Fn(fi)
	info := fi.Pkg.TypesInfo
	g := buildCFG(info, fi.Decl.Body)
	n := 0
	for _, c := range callsIn(fi.Decl.Body) {
		f := callee(info, c)
		if f == nil || f.Name() != "Put" || len(c.Args) < 2 {
			continue
		}
		if sel, ok := ast.Unparen(c.Args[0]).(*ast.SelectorExpr); !ok || sel.Sel.Name != "BoltDeletedKey" {
			continue
		}
		n++
		bad := ""
		for _, fct := range g.GuardsOf(c) {
			if fct.Tag != nil && fct.Truth {
				bad = "case " + exprStr(fct.Expr) + " of switch on " + exprStr(fct.Tag)
				continue
			}
			if _, _, isNil := nilTest(info, fct.Expr); isNil {
				continue
			}
			if fct.Tag != nil {
				continue // a false case fact (fell through other cases) does not restrict the kind
			}
			if id, isID := ast.Unparen(fct.Expr).(*ast.Ident); isID && commaOkKind[info.ObjectOf(id)] != "" {
				bad = "type assertion " + id.Name
			}
		}
		r.Ob(rule, fi.Name+"/deleted-bits-written-whatever-the-segment-kind", c.Pos(), bad == "", "the Put of BoltDeletedKey is conditional on "+bad+": the deleted bitmap has to be stored for every segment of the snapshot, including one that this snapshot flushes from memory (it may already carry obsoletions; a rollback to this epoch would resurrect them)")
	}
	if n < 1 {
		undecidedf("%s: Put(BoltDeletedKey) not found", fi.Name)
	}
}

// ruleLookupMissSkipsOnlyTheItem (K13): inside a loop over requested items
// (fields, terms, ...), failing to find ONE item in a map must skip that item
// (`continue`), not end the whole loop (`break`): the remaining items are
// independent.  A break that is taken on a comma-ok map-lookup miss and that
// targets the range loop is reported.
func ruleLookupMissSkipsOnlyTheItem(r *Report, rule string, pkgs ...string) {
	p := r.P
	n := 0
	for _, pk := range pkgs {
		for _, fi := range p.funcsInPkg(pk) {
			if fi.Decl.Body == nil {
				continue
			}
			info := fi.Pkg.TypesInfo
			ast.Inspect(fi.Decl.Body, func(x ast.Node) bool {
				is, ok := x.(*ast.IfStmt)
				if !ok || len(is.Body.List) == 0 {
					return true
				}
				// `if !ok {` where ok is the comma-ok of a map lookup
				u, ok := ast.Unparen(is.Cond).(*ast.UnaryExpr)
				if !ok || u.Op != token.NOT || commaOkKind[objOf(info, u.X)] != "lookup" {
					return true
				}
				// innermost loop around the if must be a range loop
				var loop ast.Node
				for _, anc := range enclosing(fi.Decl.Body, is) {
					switch anc.(type) {
					case *ast.RangeStmt, *ast.ForStmt:
						loop = anc
					}
				}
				if _, isRange := loop.(*ast.RangeStmt); !isRange {
					return true
				}
				n++
				last := is.Body.List[len(is.Body.List)-1]
				bs, isBranch := last.(*ast.BranchStmt)
				bad := isBranch && bs.Tok == token.BREAK && bs.Label == nil
				r.Fn(fi)
				r.Ob(rule, fi.Name+"/miss-of-"+exprStr(u.X)+"-does-not-end-the-loop", is.Pos(), !bad, "a map-lookup miss for one item of the range loop ends the loop with `break`: the remaining items (e.g. the other doc-value fields of the document) are never visited; a miss concerns only the current item (`continue`)")
				return true
			})
		}
	}
	if n == 0 {
		r.InfoOb(rule, "no-lookup-miss-branch-in-range-loops", 0, "no `if !ok {...}` on a map lookup inside a range loop in "+strings.Join(pkgs, ", "))
	}
}

// rulePerSegmentFieldsInvalidatedOnSwitch (K5): DocValueReader keeps state that
// is computed for the segment it is currently positioned on (fields assigned
// from a call that takes dvr.currSegmentIndex).  The branch that moves the
// reader to another segment (the one that stores currSegmentIndex) must
// re-initialise every such field; otherwise the next segment is read with the
// previous segment's state (e.g. the list of fields to serve from the
// un-inverted cache: values are then visited twice and facet counts double).
func rulePerSegmentFieldsInvalidatedOnSwitch(r *Report, rule string) {
	p := r.P
	fi := p.MustFunc("index/scorch.(*DocValueReader).VisitDocValues")
	r.Fn(fi)
	info := fi.Pkg.TypesInfo
	g := buildCFG(info, fi.Decl.Body)
	allow := map[string]string{
		"dvs": "the DocVisitState carries the segment it belongs to and is re-initialised by documentVisitFieldTermsOnSegment/VisitDocValues of the segment when that differs",
	}
	// the switch: the store to currSegmentIndex
	sw := storesToField(info, fi.Decl.Body, "DocValueReader", "currSegmentIndex")
	if len(sw) != 1 {
		undecidedf("%s: expected one store to currSegmentIndex, found %d", fi.Name, len(sw))
	}
	// per-segment fields: assigned from a call that takes currSegmentIndex
	per := map[string]token.Pos{}
	ast.Inspect(fi.Decl.Body, func(x ast.Node) bool {
		as, ok := x.(*ast.AssignStmt)
		if !ok || len(as.Rhs) != 1 {
			return true
		}
		c, ok := as.Rhs[0].(*ast.CallExpr)
		if !ok {
			return true
		}
		takes := false
		for _, a := range c.Args {
			if isField(info, a, "DocValueReader", "currSegmentIndex") {
				takes = true
			}
		}
		if !takes {
			return true
		}
		for _, l := range as.Lhs {
			if fs, ok := asFieldSel(info, l); ok && fs.Owner == "DocValueReader" {
				per[canonFieldName(fs.Field)] = l.Pos()
			}
		}
		return true
	})
	if len(per) == 0 {
		undecidedf("%s: no per-segment field found", fi.Name)
	}
	var names []string
	for f := range per {
		names = append(names, f)
	}
	sort.Strings(names)
	for _, f := range names {
		if why, ok := allow[f]; ok {
			r.Allow(rule, "DocValueReader."+f+"/invalidated-on-segment-switch", per[f], why)
			continue
		}
		ok := false
		for _, st := range storesToField(info, fi.Decl.Body, "DocValueReader", f) {
			// in the same branch as the switch (same guards) and not the per-segment computation itself
			if st.Stmt != nil && factsString(g.GuardsOf(st.Stmt)) == factsString(g.GuardsOf(sw[0].Stmt)) && len(g.GuardsOf(st.Stmt)) > 0 {
				ok = true
			}
		}
		r.Ob(rule, "DocValueReader."+f+"/invalidated-on-segment-switch", per[f], ok, "field "+f+" is computed for the current segment (assigned from a call taking currSegmentIndex) but is not re-initialised in the branch that switches segments: the next segment is read with the previous segment's "+f)
	}
}

// ruleCompoundAdvanceCoversAllChildren (K12): Advance(target) of a compound
// searcher has to move EVERY child cursor that takes part in producing
// candidates: for each field of the searcher struct that holds a child
// search.Searcher (or a slice of them), the Advance method contains a call of
// that child's Advance (directly, or through a helper of the same type).
// Leaving one cursor behind makes Advance behave like Next for the shapes in
// which that cursor is the candidate cursor (e.g. a boolean query without a
// must clause), returning ids smaller than the target.
func ruleCompoundAdvanceCoversAllChildren(r *Report, rule string, typeNames ...string) {
	p := r.P
	searcherIface := p.Pkg("search").Types.Scope().Lookup("Searcher").Type().Underlying().(*types.Interface)
	n := 0
	for _, tn := range typeNames {
		_, st := structOf(p, "search/searcher", tn)
		fi := p.MustFunc("search/searcher.(*" + tn + ").Advance")
		r.Fn(fi)
		// call closure: Advance plus same-receiver helpers, one level
		var bodies []*FuncInfo
		bodies = append(bodies, fi)
		for _, c := range callsDeep(fi.Decl.Body) {
			if f := callee(fi.Pkg.TypesInfo, c); f != nil {
				if sel, ok := ast.Unparen(c.Fun).(*ast.SelectorExpr); ok && objOf(fi.Pkg.TypesInfo, sel.X) == recvObj(fi) && f.Name() != "Next" {
					if hf := p.funcs[funcName(f)]; hf != nil {
						bodies = append(bodies, hf)
					}
				}
			}
		}
		for i := 0; i < st.NumFields(); i++ {
			f := st.Field(i)
			t := f.Type()
			if sl, ok := t.Underlying().(*types.Slice); ok {
				t = sl.Elem()
			}
			if !(types.Implements(t, searcherIface) || types.Identical(t.Underlying(), searcherIface)) {
				continue
			}
			n++
			advanced := false
			for _, b := range bodies {
				info := b.Pkg.TypesInfo
				for _, c := range callsDeep(b.Decl.Body) {
					sel, ok := ast.Unparen(c.Fun).(*ast.SelectorExpr)
					if !ok || sel.Sel.Name != "Advance" {
						continue
					}
					// receiver expression mentions the field (s.f.Advance, or a range variable over s.f)
					x := ast.Unparen(sel.X)
					if ix, isIx := x.(*ast.IndexExpr); isIx {
						x = ast.Unparen(ix.X) // s.children[i].Advance(...)
					}
					if isField(info, x, tn, f.Name()) {
						advanced = true
					}
					if o := objOf(info, x); o != nil {
						ast.Inspect(b.Decl.Body, func(y ast.Node) bool {
							if rs, ok := y.(*ast.RangeStmt); ok && rs.Value != nil && objOf(info, rs.Value) == o && isField(info, rs.X, tn, f.Name()) {
								advanced = true
							}
							return true
						})
					}
				}
			}
			r.Ob(rule, tn+".Advance/advances-"+f.Name(), fi.Decl.Pos(), advanced, tn+".Advance never advances its child "+f.Name()+": that cursor stays where it was, so for the query shapes in which it supplies the candidates Advance(target) returns a match smaller than target")
		}
	}
	if n < 5 {
		undecidedf("compound-advance rule matched %d child fields", n)
	}
}

// ruleMergeAccumulates (K9b): a Merge/MergeWith method folds another partial
// result into the receiver.  For receiver maps whose values are collections
// (slices, maps, counters), an entry that already exists must be COMBINED with
// the incoming one - the stored value depends on the receiver's current entry
// (`dst[k] = append(dst[k], ...)`, `dst[k] += ...`), or the store is guarded by
// the entry's absence.  A plain overwrite (`dst[k] = v`, maps.Copy(dst, src))
// makes the result depend on which member answered last and loses the others'
// contribution.
func ruleMergeAccumulates(r *Report, rule string, fns ...string) {
	p := r.P
	n := 0
	for _, fn := range fns {
		fi := p.MustFunc(fn)
		r.Fn(fi)
		info := fi.Pkg.TypesInfo
		recv := recvObj(fi)
		g := buildCFG(info, fi.Decl.Body)
		rootIs := func(e ast.Expr) bool {
			for {
				e = ast.Unparen(e)
				switch x := e.(type) {
				case *ast.IndexExpr:
					e = x.X
				case *ast.SelectorExpr:
					e = x.X
				case *ast.Ident:
					return info.ObjectOf(x) == recv
				default:
					return false
				}
			}
		}
		// overwriting bulk copies
		for _, c := range callsDeep(fi.Decl.Body) {
			if f := callee(info, c); f != nil && f.Pkg() != nil && f.Pkg().Path() == "maps" && f.Name() == "Copy" && len(c.Args) == 2 && rootIs(c.Args[0]) {
				n++
				r.Ob(rule, fi.Name+"/no-overwriting-bulk-copy", c.Pos(), false, exprStr(c)+" overwrites entries the receiver already has instead of combining them with the incoming ones")
			}
		}
		ast.Inspect(fi.Decl.Body, func(x ast.Node) bool {
			as, ok := x.(*ast.AssignStmt)
			if !ok || len(as.Lhs) != 1 || len(as.Rhs) != 1 {
				return true
			}
			ix, ok := ast.Unparen(as.Lhs[0]).(*ast.IndexExpr)
			if !ok || !rootIs(ix) {
				return true
			}
			// only collection-valued entries
			switch info.TypeOf(ix).Underlying().(type) {
			case *types.Slice, *types.Map:
			default:
				if b, isB := info.TypeOf(ix).Underlying().(*types.Basic); !isB || b.Info()&types.IsNumeric == 0 {
					return true
				}
			}
			n++
			combined := as.Tok != token.ASSIGN // += etc.
			lhsText := exprStr(ix)
			ast.Inspect(as.Rhs[0], func(y ast.Node) bool {
				if e, isE := y.(ast.Expr); isE && exprStr(e) == lhsText {
					combined = true
				}
				return true
			})
			// or: guarded by the entry's absence (comma-ok miss / nil test of the entry)
			if !combined {
				for _, fct := range g.GuardsOf(as) {
					if id, isID := ast.Unparen(fct.Expr).(*ast.Ident); isID && !fct.Truth && commaOkKind[info.ObjectOf(id)] == "lookup" {
						combined = true
					}
					if e, isEq, isNil := nilTest(info, fct.Expr); isNil && isEq == fct.Truth && exprStr(e) == lhsText {
						combined = true
					}
				}
				if allocates(info, as.Rhs[0], nil, "", "") {
					combined = true // creating the (empty) entry
				}
			}
			r.Ob(rule, fi.Name+"/"+lhsText+"-combined-not-overwritten", as.Pos(), combined, "`"+exprStr(as.Lhs[0])+" = "+exprShort(as.Rhs[0])+"` replaces what the receiver already holds under that key; a merge has to combine both sides (append / add / only-if-absent)")
			return true
		})
	}
	if n < 2 {
		undecidedf("merge rule matched %d stores", n)
	}
}

// rulePageTrimCoversSizeZero (K5): hitsInCurrentPage cuts the merged hit list of
// an alias to the requested page.  The cut to Size must also apply for Size 0
// ("no hits, only totals/facets"): members are asked for Size+From hits, so with
// From > 0 there are hits to drop.  A guard `Size > 0` on the trim lets them
// through (a single index returns none).
func rulePageTrimCoversSizeZero(r *Report, rule string) {
	p := r.P
	fi := p.MustFunc("bleve.hitsInCurrentPage")
	r.Fn(fi)
	info := fi.Pkg.TypesInfo
	g := buildCFG(info, fi.Decl.Body)
	n := 0
	ast.Inspect(fi.Decl.Body, func(x ast.Node) bool {
		se, ok := x.(*ast.SliceExpr)
		if !ok || se.High == nil {
			return true
		}
		// the upper bound is req.Size, or min(.., req.Size, ..) (possibly through a single-definition local)
		hi := ast.Unparen(resolveCopies(info, fi.Decl.Body, se.High))
		isSize := isField(info, hi, "SearchRequest", "Size")
		if c, isCall := hi.(*ast.CallExpr); isCall && calleeBuiltin(info, c) == "min" {
			for _, a := range c.Args {
				if isField(info, resolveCopies(info, fi.Decl.Body, a), "SearchRequest", "Size") {
					isSize = true
				}
			}
		}
		if !isSize {
			return true
		}
		as := se // the cut may be assigned or returned directly
		n++
		bad := ""
		for _, fct := range g.GuardsOf(se) {
			be, isB := ast.Unparen(fct.Expr).(*ast.BinaryExpr)
			if !isB || !isField(info, be.X, "SearchRequest", "Size") {
				continue
			}
			if k, isC := intConst(info, be.Y); isC && k == 0 && ((be.Op == token.GTR && fct.Truth) || (be.Op == token.LEQ && !fct.Truth) || (be.Op == token.NEQ && fct.Truth)) {
				bad = fct.String()
			}
		}
		r.Ob(rule, fi.Name+"/trim-to-Size-also-for-Size-0", as.Pos(), bad == "", "the cut to req.Size is skipped when "+bad+" fails, i.e. for Size == 0: with From > 0 an alias then returns hits for a request that asks for none")
		return true
	})
	if n < 1 {
		undecidedf("%s: trim to req.Size not found", fi.Name)
	}
}

// ruleSeekAlwaysRepositions (K12, KV adapters): Iterator.Seek(k) must position
// the engine cursor for every k: on every path it either calls the wrapped
// engine iterator (Seek/SeekTo/restart) or marks the iterator invalid.  A
// "fast path" that returns without repositioning when the target is not ahead
// of the current key breaks backward seeks (entries between target and current
// key are skipped).
func ruleSeekAlwaysRepositions(r *Report, rule string) {
	p := r.P
	n := 0
	for _, fi := range p.flist {
		rel := relPkg(fi.Pkg.PkgPath)
		if !strings.HasPrefix(rel, storeBase) || fi.Decl.Body == nil || fi.Decl.Recv == nil || fi.Obj.Name() != "Seek" {
			continue
		}
		if strings.HasSuffix(rel, "/null") {
			continue // the null store holds nothing: its iterator is a no-op by design
		}
		info := fi.Pkg.TypesInfo
		g := buildCFG(info, fi.Decl.Body)
		// repositioning calls: any call named Seek/SeekTo/restart other than a recursive self call, including inside closures
		var repos []ast.Node
		inspectNoLit(fi.Decl.Body, func(x ast.Node) bool {
			if c, ok := x.(*ast.CallExpr); ok {
				nm := calleeShortName(info, c)
				if nm == "Seek" || nm == "SeekTo" || nm == "restart" {
					repos = append(repos, c)
				}
				// a closure handed to a timer wrapper that seeks inside
				for _, a := range c.Args {
					if fl, ok := a.(*ast.FuncLit); ok {
						for _, c2 := range callsDeep(fl.Body) {
							if nm2 := calleeShortName(info, c2); nm2 == "Seek" || nm2 == "SeekTo" {
								repos = append(repos, c)
							}
						}
					}
				}
			}
			return true
		})
		n++
		r.Fn(fi)
		ok := len(repos) > 0
		why := "no engine seek call found"
		if ok {
			// every exit is preceded by a reposition, or marks the iterator invalid (store of false to a bool field)
			for _, ex := range g.Exits() {
				if ex.Kind == ExitPanic {
					continue
				}
				covered := false
				for _, rp := range repos {
					lr, okr := g.Locate(rp)
					if !okr {
						// the call may be nested in an assignment node
						for _, anc := range enclosing(fi.Decl.Body, rp) {
							if l2, ok2 := g.Locate(anc); ok2 {
								lr, okr = l2, true
							}
						}
					}
					if okr && (g.dom[lr.B.Index][ex.B.Index] || lr.B == ex.B) {
						covered = true
					}
				}
				if !covered {
					// invalidation: `x.valid = false` in the exit block or a dominator
					for _, nd := range ex.B.Nodes {
						if as, isAs := nd.(*ast.AssignStmt); isAs && len(as.Rhs) == 1 && exprStr(as.Rhs[0]) == "false" {
							covered = true
						}
					}
				}
				if !covered {
					ok = false
					why = "an exit is reachable without repositioning the engine cursor or invalidating the iterator"
				}
			}
		}
		r.Ob(rule, fi.Name+"/every-path-repositions-or-invalidates", fi.Decl.Pos(), ok, "Seek must reposition for every target ("+why+"): skipping the engine seek when the target is not ahead of the current key makes backward seeks no-ops")
	}
	if n < 4 {
		undecidedf("Seek rule matched %d adapter iterators", n)
	}
}

// ruleSentinelOffsetsGuarded (K11): a token filter that fabricates placeholder
// tokens whose Start/End carry a negative sentinel ("no source span") must
// never let the sentinel flow into an emitted offset.  In every package under
// analysis/ that builds a Token literal with a negative constant Start or End,
// each read of tok.Start / tok.End that is stored into a variable or another
// token must execute only where a branch fact excludes the sentinel for that
// very selector (`tok.End != -1`, `tok.End >= 0`, ...).  Otherwise a span that
// ends in a placeholder gets End = -1 / keeps End 0 below its Start, and the
// highlighter slices orig[Start:End] with Start > End.
func ruleSentinelOffsetsGuarded(r *Report, rule string) {
	p := r.P
	// packages with a sentinel literal
	sentinelPkgs := map[string]map[string]bool{} // pkg path -> field names carrying a negative sentinel
	for _, fi := range p.flist {
		rel := relPkg(fi.Pkg.PkgPath)
		if fi.Decl.Body == nil || !strings.HasPrefix(rel, "analysis") {
			continue
		}
		info := fi.Pkg.TypesInfo
		ast.Inspect(fi.Decl.Body, func(x ast.Node) bool {
			cl, ok := x.(*ast.CompositeLit)
			if !ok {
				return true
			}
			if nt := namedOf(info.TypeOf(cl)); nt == nil || nt.Obj().Name() != "Token" {
				return true
			}
			for _, el := range cl.Elts {
				kv, ok := el.(*ast.KeyValueExpr)
				if !ok {
					continue
				}
				id, ok := kv.Key.(*ast.Ident)
				if !ok || (id.Name != "Start" && id.Name != "End") {
					continue
				}
				if tv, ok := info.Types[kv.Value]; ok && tv.Value != nil && constant.Sign(tv.Value) < 0 {
					if sentinelPkgs[fi.Pkg.PkgPath] == nil {
						sentinelPkgs[fi.Pkg.PkgPath] = map[string]bool{}
					}
					sentinelPkgs[fi.Pkg.PkgPath][id.Name] = true
				}
			}
			return true
		})
	}
	n := 0
	for _, fi := range p.flist {
		fields := sentinelPkgs[fi.Pkg.PkgPath]
		if fields == nil || fi.Decl.Body == nil {
			continue
		}
		info := fi.Pkg.TypesInfo
		var g *FCFG
		isOffsetRead := func(e ast.Expr) *ast.SelectorExpr {
			sel, ok := ast.Unparen(e).(*ast.SelectorExpr)
			if !ok || !fields[sel.Sel.Name] {
				return nil
			}
			if nt := namedOf(info.TypeOf(sel.X)); nt == nil || nt.Obj().Name() != "Token" {
				return nil
			}
			return sel
		}
		check := func(at ast.Node, rhs ast.Expr) {
			sel := isOffsetRead(rhs)
			if sel == nil {
				return
			}
			if g == nil {
				g = buildCFG(info, fi.Decl.Body)
			}
			n++
			want := exprStr(sel)
			ok := factMatch(g.GuardsOf(at), func(f Fact) bool {
				if f.Tag != nil {
					return false
				}
				be, isBin := ast.Unparen(f.Expr).(*ast.BinaryExpr)
				if !isBin {
					return false
				}
				x, y, op := be.X, be.Y, be.Op
				if exprStr(ast.Unparen(y)) == want {
					x, y = y, x
					switch op {
					case token.LSS:
						op = token.GTR
					case token.GTR:
						op = token.LSS
					case token.LEQ:
						op = token.GEQ
					case token.GEQ:
						op = token.LEQ
					}
				}
				if exprStr(ast.Unparen(x)) != want {
					return false
				}
				tv, isConst := info.Types[y]
				if !isConst || tv.Value == nil {
					return false
				}
				neg := constant.Sign(tv.Value) < 0
				zero := constant.Sign(tv.Value) == 0
				switch {
				case op == token.NEQ && neg && f.Truth, op == token.EQL && neg && !f.Truth:
					return true
				case op == token.GEQ && zero && f.Truth, op == token.LSS && zero && !f.Truth:
					return true
				case op == token.GTR && neg && f.Truth, op == token.LEQ && neg && !f.Truth:
					return true
				}
				return false
			})
			r.Fn(fi)
			r.Ob(rule, fi.Name+"/read-of-"+sel.Sel.Name+"-excludes-placeholder", rhs.Pos(), ok,
				"this package fabricates placeholder tokens with a negative "+sel.Sel.Name+"; "+want+" is copied into an emitted offset without a branch fact excluding the sentinel, so a span that includes a placeholder gets an offset below zero or an End below its Start and the highlighter slices out of range")
		}
		ast.Inspect(fi.Decl.Body, func(x ast.Node) bool {
			switch s := x.(type) {
			case *ast.AssignStmt:
				if len(s.Lhs) == len(s.Rhs) {
					for i := range s.Rhs {
						check(s, s.Rhs[i])
					}
				}
			case *ast.KeyValueExpr:
				check(s, s.Value)
			}
			return true
		})
	}
	if n < 2 {
		undecidedf("sentinel offsets rule matched %d reads", n)
	}
}

// ruleZeroTimeIsOpenEnd (K9): date range queries encode "no bound on this
// side" as the zero time.Time - that is what DateRangeQuery marshals for an
// unset endpoint and what the string form parses back.  Every conversion of an
// endpoint to the numeric term space (t.UnixNano()) inside search/query must
// therefore execute only under the branch fact !t.IsZero() for that same t;
// deciding presence from anything else (the raw string, a flag) makes a
// marshalled open-ended range come back bounded at year 1 / rejected.
func ruleZeroTimeIsOpenEnd(r *Report, rule string) {
	p := r.P
	n := 0
	for _, fi := range p.flist {
		if fi.Decl.Body == nil || relPkg(fi.Pkg.PkgPath) != "search/query" {
			continue
		}
		info := fi.Pkg.TypesInfo
		var g *FCFG
		ast.Inspect(fi.Decl.Body, func(x ast.Node) bool {
			c, ok := x.(*ast.CallExpr)
			if !ok {
				return true
			}
			f := callee(info, c)
			if f == nil || f.Name() != "UnixNano" || f.Pkg() == nil || f.Pkg().Path() != "time" {
				return true
			}
			sel, ok := ast.Unparen(c.Fun).(*ast.SelectorExpr)
			if !ok {
				return true
			}
			if g == nil {
				g = buildCFG(info, fi.Decl.Body)
			}
			want := exprStr(ast.Unparen(sel.X))
			guarded := factMatch(g.GuardsOf(c), func(fc Fact) bool {
				if fc.Tag != nil || fc.Truth {
					return false
				}
				zc, ok := ast.Unparen(fc.Expr).(*ast.CallExpr)
				if !ok {
					return false
				}
				zf := callee(info, zc)
				zs, ok2 := ast.Unparen(zc.Fun).(*ast.SelectorExpr)
				return zf != nil && zf.Name() == "IsZero" && ok2 && exprStr(ast.Unparen(zs.X)) == want
			})
			n++
			r.Fn(fi)
			r.Ob(rule, fi.Name+"/"+want+"-converted-only-when-not-zero", c.Pos(), guarded,
				"the endpoint "+want+" is turned into a numeric bound without the branch fact !"+want+".IsZero(): the zero time is how an open end is marshalled and parsed, so an open-ended range that went through JSON becomes bounded at year 1 (or is rejected as out of range)")
			return true
		})
	}
	if n < 4 {
		undecidedf("zero-time rule matched %d conversions", n)
	}
}

// ruleFullPrecisionDecodeNeedsShiftZero (K11): numeric/geo/date fields index
// every value at several precisions (prefix-coded terms with shift 0, 4/9, ...)
// and ALL of them reach a doc-value visitor.  Only the shift-0 term carries the
// value; a coarser term decodes (without error) to the corner of its cell.  In
// every function or closure of the given packages that receives a raw term as a
// []byte parameter, PrefixCoded(term).Int64() must execute only under the
// branch fact shift == 0, where shift was produced by Shift() /
// ValidPrefixCodedTermBytes for the same term.
func ruleFullPrecisionDecodeNeedsShiftZero(r *Report, rule string, pkgs ...string) {
	p := r.P
	n := 0
	for _, fi := range p.flist {
		rel := relPkg(fi.Pkg.PkgPath)
		in := false
		for _, q := range pkgs {
			if rel == q {
				in = true
			}
		}
		if !in || fi.Decl.Body == nil {
			continue
		}
		info := fi.Pkg.TypesInfo
		// units: the declaration and every function literal, each with its own parameter list
		type unit struct {
			ft   *ast.FuncType
			body *ast.BlockStmt
			name string
		}
		units := []unit{{fi.Decl.Type, fi.Decl.Body, fi.Name}}
		k := 0
		ast.Inspect(fi.Decl.Body, func(x ast.Node) bool {
			if fl, ok := x.(*ast.FuncLit); ok {
				k++
				units = append(units, unit{fl.Type, fl.Body, fmt.Sprintf("%s$%d", fi.Name, k)})
			}
			return true
		})
		for _, u := range units {
			byteParams := map[types.Object]bool{}
			for _, f := range u.ft.Params.List {
				for _, nm := range f.Names {
					if o := info.Defs[nm]; o != nil {
						if sl, ok := o.Type().Underlying().(*types.Slice); ok {
							if b, ok := sl.Elem().Underlying().(*types.Basic); ok && b.Kind() == types.Byte {
								byteParams[o] = true
							}
						}
					}
				}
			}
			if len(byteParams) == 0 {
				continue
			}
			var g *FCFG
			// locals holding PrefixCoded(param)
			derived := map[types.Object]bool{}
			fromParam := func(e ast.Expr) bool {
				e = ast.Unparen(e)
				if c, ok := e.(*ast.CallExpr); ok && len(c.Args) == 1 {
					if tv, ok := info.Types[c.Fun]; ok && tv.IsType() { // conversion
						e = ast.Unparen(c.Args[0])
					}
				}
				o := objOf(info, e)
				return o != nil && (byteParams[o] || derived[o])
			}
			ast.Inspect(u.body, func(x ast.Node) bool {
				if as, ok := x.(*ast.AssignStmt); ok && len(as.Lhs) == 1 && len(as.Rhs) == 1 && fromParam(as.Rhs[0]) {
					if o := objOf(info, as.Lhs[0]); o != nil {
						derived[o] = true
					}
				}
				return true
			})
			// shift variables: results of Shift()/ValidPrefixCodedTermBytes on the term
			shiftVars := map[types.Object]bool{}
			ast.Inspect(u.body, func(x ast.Node) bool {
				as, ok := x.(*ast.AssignStmt)
				if !ok || len(as.Rhs) != 1 {
					return true
				}
				c, ok := ast.Unparen(as.Rhs[0]).(*ast.CallExpr)
				if !ok {
					return true
				}
				f := callee(info, c)
				if f == nil || f.Pkg() == nil || !strings.HasSuffix(f.Pkg().Path(), "/numeric") {
					return true
				}
				idx := -1
				switch f.Name() {
				case "Shift":
					if sel, ok := ast.Unparen(c.Fun).(*ast.SelectorExpr); ok && fromParam(sel.X) {
						idx = 0
					}
				case "ValidPrefixCodedTermBytes", "ValidPrefixCodedTerm":
					if len(c.Args) == 1 && fromParam(c.Args[0]) {
						idx = 1
					}
				}
				if idx >= 0 && idx < len(as.Lhs) {
					if o := objOf(info, as.Lhs[idx]); o != nil {
						shiftVars[o] = true
					}
				}
				return true
			})
			ast.Inspect(u.body, func(x ast.Node) bool {
				if fl, ok := x.(*ast.FuncLit); ok && fl.Body != u.body {
					return false // its own unit
				}
				c, ok := x.(*ast.CallExpr)
				if !ok {
					return true
				}
				f := callee(info, c)
				if f == nil || f.Name() != "Int64" || f.Pkg() == nil || !strings.HasSuffix(f.Pkg().Path(), "/numeric") {
					return true
				}
				sel, ok := ast.Unparen(c.Fun).(*ast.SelectorExpr)
				if !ok || !fromParam(sel.X) {
					return true
				}
				if g == nil {
					g = buildCFG(info, u.body)
				}
				ok2 := factMatch(g.GuardsOf(c), func(fc Fact) bool {
					if fc.Tag != nil {
						return false
					}
					be, isB := ast.Unparen(fc.Expr).(*ast.BinaryExpr)
					if !isB {
						return false
					}
					v, z := be.X, be.Y
					if o := objOf(info, ast.Unparen(z)); o != nil && shiftVars[o] {
						v, z = z, v
					}
					o := objOf(info, ast.Unparen(v))
					if o == nil || !shiftVars[o] {
						return false
					}
					tv, isC := info.Types[z]
					if !isC || tv.Value == nil || constant.Sign(tv.Value) != 0 {
						return false
					}
					return (be.Op == token.EQL && fc.Truth) || (be.Op == token.NEQ && !fc.Truth)
				})
				n++
				r.Fn(fi)
				r.Ob(rule, u.name+"/full-value-decoded-only-at-shift-zero", c.Pos(), ok2,
					"a raw doc-value term is decoded with Int64() without the branch fact shift == 0: the coarser precision terms of the same value reach this visitor too and decode to the corner of their cell, so the filter/facet judges points the document does not have")
				return true
			})
		}
	}
	if n < 5 {
		undecidedf("shift-zero rule matched %d decodes", n)
	}
}

// ruleGeoPointTermsOneIndexer (K12, sibling agreement): with the s2 plugin a
// geopoint is indexed by (*Point).IndexTokens through ONE RegionTermIndexer of
// the plugin (points-only options, its own level range).  The query-side
// shapes of the same family (bounded rectangle, polygon, point-distance) must
// derive their terms from that same indexer: a covering computed with other
// level options produces cells whose terms were never indexed for points, so
// documents inside the region are not even candidates.
func ruleGeoPointTermsOneIndexer(r *Report, rule string) {
	p := r.P
	type use struct {
		fi    *FuncInfo
		field *types.Var
		pos   token.Pos
		all   []string
	}
	var uses []use
	for _, fi := range p.flist {
		if relPkg(fi.Pkg.PkgPath) != "geo" || fi.Decl.Body == nil || fi.Decl.Recv == nil {
			continue
		}
		if nm := fi.Obj.Name(); nm != "IndexTokens" && nm != "QueryTokens" {
			continue
		}
		sig := fi.Obj.Type().(*types.Signature)
		if sig.Params().Len() != 1 {
			continue
		}
		pl := sig.Params().At(0)
		pt, ok := pl.Type().(*types.Pointer)
		if !ok {
			continue
		}
		pnt, _ := pt.Elem().(*types.Named)
		if pnt == nil {
			continue
		}
		if _, isSt := pnt.Underlying().(*types.Struct); !isSt {
			continue
		}
		info := fi.Pkg.TypesInfo
		u := use{fi: fi}
		seen := map[string]bool{}
		ast.Inspect(fi.Decl.Body, func(x ast.Node) bool {
			sel, ok := x.(*ast.SelectorExpr)
			if !ok || objOf(info, sel.X) != pl {
				return true
			}
			if fv, ok := info.Uses[sel.Sel].(*types.Var); ok && fv.IsField() {
				if !seen[fv.Name()] {
					seen[fv.Name()] = true
					u.all = append(u.all, fv.Name())
				}
				if u.field == nil {
					u.field, u.pos = fv, sel.Pos()
				}
			}
			return true
		})
		if u.field != nil {
			uses = append(uses, u)
		}
	}
	var ref *types.Var
	for _, u := range uses {
		if u.fi.Obj.Name() == "IndexTokens" {
			if ref != nil && ref != u.field {
				undecidedf("geopoint family: two indexing-side term indexers (%s, %s)", ref.Name(), u.field.Name())
			}
			ref = u.field
		}
	}
	if ref == nil || len(uses) < 4 {
		undecidedf("geopoint family: %d token methods use a plugin field, indexing side found=%v", len(uses), ref != nil)
	}
	for _, u := range uses {
		r.Fn(u.fi)
		r.Ob(rule, u.fi.Name+"/terms-from-the-indexing-side-indexer", u.pos, len(u.all) == 1 && u.field == ref,
			"geopoints are indexed through plugin."+ref.Name()+" but "+u.fi.Name+" derives its terms from plugin."+strings.Join(u.all, ", plugin.")+": cells produced with other level options have no indexed counterpart, so points inside the query region are never candidates")
	}
}

// ruleAccumulatingWalkVisitsWholeTree (K13): a self-recursive walker over the
// query tree that threads an accumulator (a parameter whose type is also a
// result type: the field set, the synonym map) must visit every node.  A
// return that is conditional on the accumulator's CONTENT makes the result
// depend on sibling order - the fields of every clause after the first one
// that satisfied the test are never collected - so no return of such a walker
// may execute under a branch fact that reads the accumulator, except the nil
// test used for lazy allocation.
func ruleAccumulatingWalkVisitsWholeTree(r *Report, rule string, pkgRel string) {
	p := r.P
	n := 0
	for _, fi := range p.flist {
		if relPkg(fi.Pkg.PkgPath) != pkgRel || fi.Decl.Body == nil || fi.Decl.Recv != nil {
			continue
		}
		info := fi.Pkg.TypesInfo
		sig := fi.Obj.Type().(*types.Signature)
		var acc []*types.Var
		for i := 0; i < sig.Params().Len(); i++ {
			pv := sig.Params().At(i)
			if isErrorType(pv.Type()) {
				continue
			}
			for j := 0; j < sig.Results().Len(); j++ {
				if types.Identical(pv.Type(), sig.Results().At(j).Type()) {
					switch pv.Type().Underlying().(type) {
					case *types.Map, *types.Slice, *types.Pointer:
						acc = append(acc, pv)
					}
				}
			}
		}
		if len(acc) == 0 {
			continue
		}
		selfRec := false
		ast.Inspect(fi.Decl.Body, func(x ast.Node) bool {
			if c, ok := x.(*ast.CallExpr); ok && callee(info, c) == fi.Obj {
				selfRec = true
			}
			return true
		})
		if !selfRec {
			continue
		}
		g := buildCFG(info, fi.Decl.Body)
		k := 0
		var walk func(x ast.Node) bool
		walk = func(x ast.Node) bool {
			if _, ok := x.(*ast.FuncLit); ok {
				return false
			}
			ret, ok := x.(*ast.ReturnStmt)
			if !ok {
				return true
			}
			k++
			bad := ""
			for _, fc := range g.GuardsOf(ret) {
				if fc.Tag != nil {
					continue
				}
				if _, _, isNil := nilTest(info, fc.Expr); isNil {
					continue
				}
				ast.Inspect(fc.Expr, func(y ast.Node) bool {
					if id, ok := y.(*ast.Ident); ok {
						for _, a := range acc {
							if info.Uses[id] == a {
								bad = fc.String()
							}
						}
					}
					return true
				})
			}
			n++
			r.Fn(fi)
			r.Ob(rule, fmt.Sprintf("%s/return-%d-independent-of-accumulated-content", fi.Name, k), ret.Pos(), bad == "",
				"this walker threads an accumulator through the whole query tree, but the return executes under "+bad+", a test of what was accumulated so far: every clause visited after the test became true is skipped, so the collected set (and the nested/plain decision taken from it) depends on clause order")
			return true
		}
		ast.Inspect(fi.Decl.Body, walk)
	}
	if n < 3 {
		undecidedf("accumulating-walker rule matched %d returns in %s", n, pkgRel)
	}
}

// ruleNestedDepthCarriedByRecursion (K5dep): the nested-prefix table records
// ONLY nested object paths, each with the number of nested levels above and
// including it.  Plain objects between two nested levels have no entry, so the
// depth of a path cannot be recovered from a lookup of its parent in the table
// being built; it has to be carried down the recursion.  Every value stored
// into the table by buildNestedPrefixes must therefore not be derived from a
// read of that same table.
func ruleNestedDepthCarriedByRecursion(r *Report, rule string) {
	p := r.P
	fi := p.MustFunc("mapping.(*IndexMappingImpl).buildNestedPrefixes")
	r.Fn(fi)
	info := fi.Pkg.TypesInfo
	sig := fi.Obj.Type().(*types.Signature)
	if sig.Results().Len() != 1 {
		undecidedf("%s: result shape changed", fi.Name)
	}
	// the table: the map variable that is returned
	var table types.Object
	ast.Inspect(fi.Decl.Body, func(x ast.Node) bool {
		if _, ok := x.(*ast.FuncLit); ok {
			return false
		}
		if ret, ok := x.(*ast.ReturnStmt); ok && len(ret.Results) == 1 {
			table = objOf(info, ret.Results[0])
		}
		return true
	})
	if table == nil {
		undecidedf("%s: returned table not found", fi.Name)
	}
	readsTable := func(e ast.Node) bool {
		found := false
		ast.Inspect(e, func(x ast.Node) bool {
			if ix, ok := x.(*ast.IndexExpr); ok && objOf(info, ix.X) == table {
				found = true
			}
			return true
		})
		return found
	}
	// locals (flow-insensitively) derived from a read of the table
	tainted := map[types.Object]bool{}
	for changed := true; changed; {
		changed = false
		ast.Inspect(fi.Decl.Body, func(x ast.Node) bool {
			as, ok := x.(*ast.AssignStmt)
			if !ok {
				return true
			}
			for i, l := range as.Lhs {
				if _, isIx := ast.Unparen(l).(*ast.IndexExpr); isIx {
					continue
				}
				var rhs ast.Expr
				if len(as.Rhs) == len(as.Lhs) {
					rhs = as.Rhs[i]
				} else if len(as.Rhs) == 1 {
					rhs = as.Rhs[0]
				}
				o := objOf(info, l)
				if o == nil || rhs == nil || tainted[o] {
					continue
				}
				t := readsTable(rhs)
				ast.Inspect(rhs, func(y ast.Node) bool {
					if id, ok := y.(*ast.Ident); ok && tainted[info.Uses[id]] {
						t = true
					}
					return true
				})
				if t {
					tainted[o] = true
					changed = true
				}
			}
			return true
		})
	}
	n := 0
	ast.Inspect(fi.Decl.Body, func(x ast.Node) bool {
		as, ok := x.(*ast.AssignStmt)
		if !ok || len(as.Lhs) != 1 || len(as.Rhs) != 1 {
			return true
		}
		ix, ok := ast.Unparen(as.Lhs[0]).(*ast.IndexExpr)
		if !ok || objOf(info, ix.X) != table {
			return true
		}
		n++
		bad := readsTable(as.Rhs[0])
		ast.Inspect(as.Rhs[0], func(y ast.Node) bool {
			if id, ok := y.(*ast.Ident); ok && tainted[info.Uses[id]] {
				bad = true
			}
			return true
		})
		r.Ob(rule, fmt.Sprintf("%s/stored-depth-%d-not-looked-up-in-the-table", fi.Name, n), as.Pos(), !bad,
			"the depth stored for a nested path is derived from a lookup in the table under construction; the table has entries for nested paths only, so below a plain object the parent is missing, the lookup yields 0 and a second-level nested array is recorded at depth 1: NestedDepth then reports equal depths and a conjunction across the two levels is evaluated per document instead of per ancestor")
		return true
	})
	if n < 1 {
		undecidedf("%s: no store into the prefix table found", fi.Name)
	}
}

// ruleMaskKeepsByteLength (K11): the html char filter runs before the
// tokenizer and hides markup by overwriting it; token offsets are later used
// against the ORIGINAL stored text, so each match must be replaced by exactly
// len(match) bytes.  The callback handed to ReplaceAllFunc must return
// bytes.Repeat(<one byte>, len(in)) or make([]byte, len(in)) for its own
// parameter in; <one byte> is a value whose every definition in the package is
// a one-byte literal.
func ruleMaskKeepsByteLength(r *Report, rule string) {
	p := r.P
	fi := p.MustFunc("analysis/char/html.(*CharFilter).Filter")
	r.Fn(fi)
	info := fi.Pkg.TypesInfo
	oneByte := func(e ast.Expr) bool {
		e = ast.Unparen(e)
		if c, ok := e.(*ast.CallExpr); ok && len(c.Args) == 1 {
			if tv, ok := info.Types[c.Fun]; ok && tv.IsType() {
				if av, ok := info.Types[c.Args[0]]; ok && av.Value != nil && av.Value.Kind() == constant.String {
					return len(constant.StringVal(av.Value)) == 1
				}
			}
		}
		if cl, ok := e.(*ast.CompositeLit); ok && len(cl.Elts) == 1 {
			if _, isKV := cl.Elts[0].(*ast.KeyValueExpr); !isKV {
				return true
			}
		}
		return false
	}
	// every definition of a field/variable in the package is a one-byte literal
	var oneByteValue func(e ast.Expr) bool
	oneByteValue = func(e ast.Expr) bool {
		if oneByte(e) {
			return true
		}
		var target types.Object
		switch x := ast.Unparen(e).(type) {
		case *ast.SelectorExpr:
			target = info.Uses[x.Sel]
		case *ast.Ident:
			target = info.Uses[x]
		}
		if target == nil {
			return false
		}
		defs, good := 0, 0
		for _, f := range fi.Pkg.Syntax {
			ast.Inspect(f, func(x ast.Node) bool {
				switch s := x.(type) {
				case *ast.KeyValueExpr:
					if id, ok := s.Key.(*ast.Ident); ok && info.Uses[id] == target {
						defs++
						if oneByte(s.Value) {
							good++
						}
					}
				case *ast.AssignStmt:
					for i, l := range s.Lhs {
						var o types.Object
						switch y := ast.Unparen(l).(type) {
						case *ast.SelectorExpr:
							o = info.Uses[y.Sel]
						case *ast.Ident:
							o = info.ObjectOf(y)
						}
						if o == target && i < len(s.Rhs) {
							defs++
							if oneByte(s.Rhs[i]) {
								good++
							}
						}
					}
				case *ast.ValueSpec:
					for i, nm := range s.Names {
						if info.Defs[nm] == target && i < len(s.Values) {
							defs++
							if oneByte(s.Values[i]) {
								good++
							}
						}
					}
				}
				return true
			})
		}
		return defs > 0 && defs == good
	}
	n := 0
	ast.Inspect(fi.Decl.Body, func(x ast.Node) bool {
		c, ok := x.(*ast.CallExpr)
		if !ok {
			return true
		}
		f := callee(info, c)
		if f == nil || f.Name() != "ReplaceAllFunc" || len(c.Args) != 2 {
			return true
		}
		fl, ok := ast.Unparen(c.Args[1]).(*ast.FuncLit)
		if !ok || len(fl.Type.Params.List) != 1 || len(fl.Type.Params.List[0].Names) != 1 {
			undecidedf("%s: replacement callback is not a one-parameter literal", fi.Name)
		}
		in := info.Defs[fl.Type.Params.List[0].Names[0]]
		isLenIn := func(e ast.Expr) bool {
			lc, ok := ast.Unparen(e).(*ast.CallExpr)
			return ok && calleeBuiltin(info, lc) == "len" && len(lc.Args) == 1 && objOf(info, lc.Args[0]) == in
		}
		k := 0
		ast.Inspect(fl.Body, func(y ast.Node) bool {
			ret, ok := y.(*ast.ReturnStmt)
			if !ok || len(ret.Results) != 1 {
				return true
			}
			k++
			n++
			good := false
			e := ast.Unparen(ret.Results[0])
			// follow one local definition
			if id, isId := e.(*ast.Ident); isId {
				ast.Inspect(fl.Body, func(z ast.Node) bool {
					if as, ok := z.(*ast.AssignStmt); ok && len(as.Lhs) == 1 && len(as.Rhs) == 1 && as.Tok == token.DEFINE && info.Defs[as.Lhs[0].(*ast.Ident)] == info.Uses[id] {
						e = ast.Unparen(as.Rhs[0])
					}
					return true
				})
			}
			if rc, ok := e.(*ast.CallExpr); ok {
				if rf := callee(info, rc); rf != nil && rf.Name() == "Repeat" && rf.Pkg() != nil && rf.Pkg().Path() == "bytes" && len(rc.Args) == 2 {
					good = isLenIn(rc.Args[1]) && oneByteValue(rc.Args[0])
				} else if calleeBuiltin(info, rc) == "make" && len(rc.Args) == 2 {
					good = isLenIn(rc.Args[1])
				}
			}
			r.Ob(rule, fmt.Sprintf("%s/mask-%d-has-the-length-of-the-match", fi.Name, k), ret.Pos(), good,
				"the markup mask returned here is "+exprShort(ret.Results[0])+", which is not provably len(match) bytes (accepted: bytes.Repeat(<one byte>, len(in)) or make([]byte, len(in))): a shorter or longer mask shifts every later token offset against the stored text, so locations and highlighted spans point at the wrong bytes")
			return true
		})
		return true
	})
	if n < 1 {
		undecidedf("%s: no ReplaceAllFunc mask found", fi.Name)
	}
}

// ruleMemoKeyCoversInputs (K6/K9): a function that answers from a map when the
// key is present (`if v, ok := m[k]; ok { return v }`) and otherwise computes
// the value, stores it under the same map and returns it, is a memo.  A memo is
// only transparent when the key determines the value: every PARAMETER (receiver
// included) the computed value depends on must also be something the key
// depends on, or be the owner of the map itself.  A missing input means the
// first caller's answer is served to callers for which it is wrong.
func ruleMemoKeyCoversInputs(r *Report, rule string, minSites int, allow map[string]string, pkgPrefixes ...string) {
	p := r.P
	n := 0
	for _, fi := range p.flist {
		if fi.Decl.Body == nil {
			continue
		}
		rel := relPkg(fi.Pkg.PkgPath)
		in := false
		for _, q := range pkgPrefixes {
			if q == "" || rel == q || strings.HasPrefix(rel, q+"/") {
				in = true
			}
		}
		if !in {
			continue
		}
		info := fi.Pkg.TypesInfo
		// parameters and receiver
		params := map[string]*types.Var{}
		sig := fi.Obj.Type().(*types.Signature)
		addP := func(v *types.Var) {
			if v != nil && v.Name() != "" && v.Name() != "_" {
				params["v:"+v.Name()+"@"+itoa(int(v.Pos()))] = v
			}
		}
		addP(sig.Recv())
		for i := 0; i < sig.Params().Len(); i++ {
			addP(sig.Params().At(i))
		}
		if len(params) == 0 {
			continue
		}
		// lookups that return the looked-up value when present
		type lookup struct {
			m   ast.Expr
			key ast.Expr
		}
		var lookups []lookup
		var g *FCFG
		ast.Inspect(fi.Decl.Body, func(x ast.Node) bool {
			if _, ok := x.(*ast.FuncLit); ok {
				return false
			}
			as, ok := x.(*ast.AssignStmt)
			if !ok || len(as.Lhs) != 2 || len(as.Rhs) != 1 {
				return true
			}
			ix, ok := ast.Unparen(as.Rhs[0]).(*ast.IndexExpr)
			if !ok {
				return true
			}
			if _, isMap := info.TypeOf(ix.X).Underlying().(*types.Map); !isMap {
				return true
			}
			vObj, okObj := objOf(info, as.Lhs[0]), objOf(info, as.Lhs[1])
			if vObj == nil || okObj == nil {
				return true
			}
			// some return hands out the looked-up value under the fact "present"
			ast.Inspect(fi.Decl.Body, func(y ast.Node) bool {
				if _, ok := y.(*ast.FuncLit); ok {
					return false
				}
				ret, ok := y.(*ast.ReturnStmt)
				if !ok {
					return true
				}
				hands := false
				for _, res := range ret.Results {
					if objOf(info, res) == vObj {
						hands = true
					}
				}
				if !hands {
					return true
				}
				if g == nil {
					g = buildCFG(info, fi.Decl.Body)
				}
				if factMatch(g.GuardsOf(ret), func(fc Fact) bool { return fc.Tag == nil && fc.Truth && objOf(info, fc.Expr) == okObj }) {
					dup := false
					for _, l := range lookups {
						if exprStr(l.m) == exprStr(ix.X) {
							dup = true
						}
					}
					if !dup {
						lookups = append(lookups, lookup{ix.X, ix.Index})
					}
				}
				return true
			})
			return true
		})
		if len(lookups) == 0 {
			continue
		}
		d := newDeps(info, fi.Decl.Body)
		for _, lk := range lookups {
			mstr := exprStr(ast.Unparen(lk.m))
			ast.Inspect(fi.Decl.Body, func(x ast.Node) bool {
				if _, ok := x.(*ast.FuncLit); ok {
					return false
				}
				as, ok := x.(*ast.AssignStmt)
				if !ok || len(as.Lhs) != 1 || len(as.Rhs) != 1 {
					return true
				}
				ix, ok := ast.Unparen(as.Lhs[0]).(*ast.IndexExpr)
				if !ok || exprStr(ast.Unparen(ix.X)) != mstr {
					return true
				}
				n++
				keySlice := d.SliceOfExpr(ix.Index)
				for a := range d.SliceOfExpr(lk.key) {
					keySlice[a] = true
				}
				owner := map[string]bool{}
				if id := baseIdent(lk.m); id != nil {
					owner[d.varKey(id)] = true
				}
				valSlice := d.SliceOfExpr(as.Rhs[0])
				var missing []string
				for k, v := range params {
					if valSlice[k] && !keySlice[k] && !owner[k] {
						missing = append(missing, v.Name())
					}
				}
				sort.Strings(missing)
				if os.Getenv("MEMO_DEBUG") != "" {
					fmt.Fprintln(os.Stderr, fi.Name, "params", len(params), "val", sliceAtoms(valSlice, "v:"), "key", sliceAtoms(keySlice, "v:"))
				}
				r.Fn(fi)
				if why, ok := allow[fi.Name]; ok && len(missing) > 0 {
					r.Allow(rule, fi.Name+"/memo-"+exprShort(lk.m)+"-key-determines-value", as.Pos(), why)
					return true
				}
				r.Ob(rule, fi.Name+"/memo-"+exprShort(lk.m)+"-key-determines-value", as.Pos(), len(missing) == 0,
					"the value memoised in "+mstr+" is computed from parameter(s) "+strings.Join(missing, ", ")+" that the key "+exprStr(ix.Index)+" does not depend on: the first caller's result is served to later callers whose "+strings.Join(missing, "/")+" differs")
				return true
			})
		}
	}
	if n < minSites {
		undecidedf("memo rule matched %d memo stores (expected at least %d)", n, minSites)
	}
}

// ruleOptionalFieldEqualityKeepsAbsence (K9b): a two-operand equality method
// (receiver *T, one *T parameter, bool result) over a struct with OPTIONAL
// fields (pointer to a basic type: an absent bound is nil) must keep "absent"
// distinct from every value.  For each such field the method has to decide on
// the nil-ness of BOTH operands' field - in its own body, or in a helper that
// receives both fields - before comparing pointees.  A helper that maps one
// pointer to one value (nil -> 0) erases the distinction: "no lower bound" and
// "lower bound 0" become the same range and their counts are merged.
func ruleOptionalFieldEqualityKeepsAbsence(r *Report, rule string, pkgRel string) {
	p := r.P
	n := 0
	nilTested := func(info *types.Info, body ast.Node, match func(e ast.Expr) bool) bool {
		found := false
		ast.Inspect(body, func(x ast.Node) bool {
			if be, ok := x.(*ast.BinaryExpr); ok {
				if e, _, isNil := nilTest(info, be); isNil && match(ast.Unparen(e)) {
					found = true
				}
			}
			return true
		})
		return found
	}
	for _, fi := range p.funcsInPkg(pkgRel) {
		if fi.Decl.Body == nil || fi.Decl.Recv == nil {
			continue
		}
		sig := fi.Obj.Type().(*types.Signature)
		if sig.Params().Len() != 1 || sig.Results().Len() != 1 || !types.Identical(sig.Params().At(0).Type(), sig.Recv().Type()) {
			continue
		}
		if b, ok := sig.Results().At(0).Type().Underlying().(*types.Basic); !ok || b.Kind() != types.Bool {
			continue
		}
		nt := namedOf(sig.Recv().Type())
		if nt == nil {
			continue
		}
		st, ok := nt.Underlying().(*types.Struct)
		if !ok {
			continue
		}
		info := fi.Pkg.TypesInfo
		recv, other := types.Object(sig.Recv()), types.Object(sig.Params().At(0))
		for i := 0; i < st.NumFields(); i++ {
			f := st.Field(i)
			pt, ok := f.Type().(*types.Pointer)
			if !ok {
				continue
			}
			if _, isBasic := pt.Elem().Underlying().(*types.Basic); !isBasic {
				continue
			}
			fieldOf := func(base types.Object) func(e ast.Expr) bool {
				return func(e ast.Expr) bool {
					sel, ok := e.(*ast.SelectorExpr)
					return ok && info.Uses[sel.Sel] == f && objOf(info, sel.X) == base
				}
			}
			isA, isB := fieldOf(recv), fieldOf(other)
			used := false
			ast.Inspect(fi.Decl.Body, func(x ast.Node) bool {
				if e, ok := x.(ast.Expr); ok && (isA(e) || isB(e)) {
					used = true
				}
				return true
			})
			if !used {
				continue
			}
			n++
			good := nilTested(info, fi.Decl.Body, isA) && nilTested(info, fi.Decl.Body, isB)
			if !good {
				// a helper that receives both fields and tests both parameters for nil
				ast.Inspect(fi.Decl.Body, func(x ast.Node) bool {
					c, ok := x.(*ast.CallExpr)
					if !ok {
						return true
					}
					ia, ib := -1, -1
					for k, a := range c.Args {
						if isA(ast.Unparen(a)) {
							ia = k
						}
						if isB(ast.Unparen(a)) {
							ib = k
						}
					}
					if ia < 0 || ib < 0 {
						return true
					}
					cf := callee(info, c)
					if cf == nil {
						return true
					}
					h := p.funcs[funcName(cf)]
					if h == nil || h.Decl.Body == nil {
						return true
					}
					hs := cf.Type().(*types.Signature)
					hinfo := h.Pkg.TypesInfo
					pa, pb := hs.Params().At(ia), hs.Params().At(ib)
					isParam := func(v *types.Var) func(e ast.Expr) bool {
						return func(e ast.Expr) bool { return objOf(hinfo, e) == types.Object(v) }
					}
					if nilTested(hinfo, h.Decl.Body, isParam(pa)) && nilTested(hinfo, h.Decl.Body, isParam(pb)) {
						good = true
					}
					return true
				})
			}
			r.Fn(fi)
			r.Ob(rule, fi.Name+"/optional-"+f.Name()+"-absent-is-not-a-value", fi.Decl.Pos(), good,
				"optional field "+f.Name()+" of "+nt.Obj().Name()+" (nil = no bound) is compared without deciding on the nil-ness of both operands: an absent bound is folded into some value, so a range without the bound and a range with that value as bound count as the same range and are merged")
		}
	}
	if n < 4 {
		undecidedf("optional-field equality rule matched %d fields in %s", n, pkgRel)
	}
}

// declaredWithin: the defining identifier of o is a node of the subtree (by
// structure, not by source position: expanded helper bodies keep their own positions).
func declaredWithin(info *types.Info, root ast.Node, o types.Object) bool {
	found := false
	ast.Inspect(root, func(n ast.Node) bool {
		if id, ok := n.(*ast.Ident); ok && info.Defs[id] == o {
			found = true
		}
		return !found
	})
	return found
}

// isSigVar: o is a receiver, parameter or named result of fi.
func isSigVar(fi *FuncInfo, o types.Object) bool {
	sig, ok := fi.Obj.Type().(*types.Signature)
	if !ok || o == nil {
		return false
	}
	if sig.Recv() != nil && types.Object(sig.Recv()) == o {
		return true
	}
	for i := 0; i < sig.Params().Len(); i++ {
		if types.Object(sig.Params().At(i)) == o {
			return true
		}
	}
	for i := 0; i < sig.Results().Len(); i++ {
		if types.Object(sig.Results().At(i)) == o {
			return true
		}
	}
	return false
}
