package main

import (
	"go/ast"
	"go/token"
	"go/types"
	"strings"
)

func init() { register("C13", propC13) }

func propC13(r *Report, tier string) {
	r.Explanation = "Structural necessary conditions of 'rollback restores exactly the chosen point': (a) Rollback deletes snapshot buckets inside ONE writable transaction whose Commit (success) / Rollback (failure) and the following Sync are deferred before the first delete; the target epoch is never deleted (the delete is control-dependent on epoch != target); candidates are collected newest-first up to and including the target; (b) RollbackPoints reads each snapshot's internal values through a FileReader built from that snapshot's stored writer id (K11, shared with C03); (c) K7 DeleteBucket occurs only in Rollback and in the purger; the purger always protects the newest snapshot and never deletes a protected epoch (shared with C12); (d) a persisted snapshot describes exactly the state of ITS epoch: the equivalent snapshot persisted after an in-memory merge rebuilds each merged segment with deleted=nil instead of reusing the post-merge root's segment snapshot (which may already carry later batches' deletions); (e) segment ids, and therefore segment file names, are never reissued after a restart: nextSegmentID is derived from the *.zap files on disk (files of retained rollback points included), not from the loaded snapshot; (f) Kerr: in package scorch no error is discarded outside the clean-up set, every stored error is read on some path, and a deferred closure stores an outcome only where the caller can still see it (named result) - this is what reports F13 (Rollback swallowing its commit failure); (g) the purger keeps every file named by ANY bolt snapshot (shared with C12) and every in-memory segment of a persisted epoch lands in exactly one flush group (shared with C03): both are needed for an older rollback point to be loadable and complete."
	r.NotCovered = "that retained epochs' segment files are intact at run time (C12 under schedules), contents after reopen, retention arithmetic over timestamps"
	ruleRollbackTx(r, "K5-rollback-one-tx")
	ruleErrorsLookedAt(r, "Kerr-errors-looked-at", func(rel string) bool { return rel == "index/scorch" }, errAllowScorch)
	rulePurgerGuards(r, "K5-purger-guards")
	ruleDeletedBitsWrittenForEverySegment(r, "K5-deleted-bits-for-every-segment")
	ruleLoopScratchBufferReset(r, "K5-loop-scratch-buffer-reset", "index/scorch")
	ruleMarkBeforeCreate(r, "K5-mark-before-create")
	ruleInMemoryMergeCoverage(r, "K14-memmerge-coverage")
	ruleBoltKeyAgreement(r, "K11-bolt-keys")
	ruleDeleteBucketSites(r, "K7-delete-bucket-sites")
	rulePurgeOrderAndProtection(r, "K5-purge-bolt-first")
	ruleLatestProtected(r, "K5-latest-protected")
	ruleEquivSnapshotOwnEpoch(r, "K6-persisted-snapshot-own-epoch")
	ruleSegmentIDsNotReissued(r, "K5dep-segment-ids-from-disk")
	r.Floor("K5-rollback-one-tx", 5)
	r.Floor("K7-delete-bucket-sites", 2)
	r.Floor("K6-persisted-snapshot-own-epoch", 2)
	r.Floor("K5dep-segment-ids-from-disk", 2)
}

func ruleRollbackTx(r *Report, rule string) {
	p := r.P
	fi := p.MustFunc("index/scorch.Rollback")
	r.Fn(fi)
	info := fi.Pkg.TypesInfo
	g := buildCFG(info, fi.Decl.Body)
	dels := callsMatching(info, fi.Decl.Body, func(f *types.Func) bool { return f.Name() == "DeleteBucket" })
	begins := callsMatching(info, fi.Decl.Body, methodIs("util", "RootBoltImpl", "Begin"))
	if len(dels) != 1 || len(begins) != 1 {
		undecidedf("%s: expected one DeleteBucket and one Begin (got %d, %d)", fi.Name, len(dels), len(begins))
	}
	del, begin := dels[0], begins[0]
	// DeleteBucket is inside the closure? no: at function level
	r.Ob(rule, fi.Name+"/deletes-inside-writable-tx", del.Pos(), exprStr(begin.Args[0]) == "true" && g.DominatesNode(begin, del), "every bucket deletion of a rollback happens after Begin(true) of one writable transaction")
	okDefer := false
	ast.Inspect(fi.Decl.Body, func(x ast.Node) bool {
		ds, ok := x.(*ast.DeferStmt)
		if !ok {
			return true
		}
		var hasCommit, hasRollback, hasSync bool
		for _, c := range callsDeep(ds) {
			if f := callee(info, c); f != nil {
				switch f.Name() {
				case "Commit":
					hasCommit = true
				case "Rollback":
					hasRollback = true
				case "Sync":
					hasSync = true
				}
			}
		}
		if hasCommit && hasRollback && hasSync && g.DominatesNode(begin, ds) && g.DominatesNode(ds, del) {
			okDefer = true
		}
		return true
	})
	r.Ob(rule, fi.Name+"/commit-or-rollback+sync-deferred-before-deletes", begin.Pos(), okDefer, "Commit on success / Rollback on failure and the following Sync are deferred right after Begin, before any deletion (all deletions of one rollback are atomic and durable)")
	// target epoch never deleted
	okTarget := false
	for _, f := range g.GuardsOf(del) {
		be, ok := ast.Unparen(f.Expr).(*ast.BinaryExpr)
		if !ok {
			continue
		}
		hasTarget := isField(info, be.X, "RollbackPoint", "epoch") || isField(info, be.Y, "RollbackPoint", "epoch")
		if hasTarget && ((be.Op == token.EQL && !f.Truth) || (be.Op == token.NEQ && f.Truth)) {
			okTarget = true
		}
	}
	r.Ob(rule, fi.Name+"/target-epoch-not-deleted", del.Pos(), okTarget, "DeleteBucket is only reached when epoch != to.epoch: the chosen rollback point itself survives (guards: "+factsString(g.GuardsOf(del))+")")
	// deleted key derives from the loop epoch
	d := newDeps(info, fi.Decl.Body)
	sl := d.SliceOfExpr(del.Args[0])
	okKey := sliceHasSuffix(sl, ".encodeUvarintAscending")
	r.Ob(rule, fi.Name+"/deletes-the-visited-epoch", del.Pos(), okKey, "the bucket key deleted is the encoded epoch being visited")
	// the "target epoch seen" flag by role: a bool variable set to true under a comparison with the rollback point's epoch
	targetSeenFlags := map[types.Object]bool{}
	ast.Inspect(fi.Decl.Body, func(x ast.Node) bool {
		is, ok := x.(*ast.IfStmt)
		if !ok {
			return true
		}
		cmpEpoch := false
		ast.Inspect(is.Cond, func(y ast.Node) bool {
			if sel, ok := y.(*ast.SelectorExpr); ok && isField(info, sel, "RollbackPoint", "epoch") {
				cmpEpoch = true
			}
			return true
		})
		if !cmpEpoch {
			return true
		}
		for _, st := range is.Body.List {
			if as, ok := st.(*ast.AssignStmt); ok && len(as.Lhs) == 1 && len(as.Rhs) == 1 && exprStr(as.Rhs[0]) == "true" {
				if o := objOf(info, as.Lhs[0]); o != nil {
					targetSeenFlags[o] = true
				}
			}
		}
		return true
	})
	// the flag may be handed on by plain copies (`found = seen`, a helper's result)
	for changed := true; changed; {
		changed = false
		ast.Inspect(fi.Decl.Body, func(x ast.Node) bool {
			as, ok := x.(*ast.AssignStmt)
			if !ok || len(as.Lhs) != len(as.Rhs) {
				return true
			}
			for k := range as.Rhs {
				if src := objOf(info, as.Rhs[k]); src != nil && targetSeenFlags[src] {
					if dst := objOf(info, as.Lhs[k]); dst != nil && !targetSeenFlags[dst] {
						targetSeenFlags[dst] = true
						changed = true
					}
				}
			}
			return true
		})
	}
	// candidates: newest first, stop after the target
	okScan := false
	ast.Inspect(fi.Decl.Body, func(x ast.Node) bool {
		fs, ok := x.(*ast.ForStmt)
		if !ok || fs.Init == nil || fs.Post == nil || fs.Cond == nil {
			return true
		}
		ini := stmtRhsStr(fs.Init)
		post := stmtRhsStr(fs.Post)
		condMentionsFlag := false
		ast.Inspect(fs.Cond, func(y ast.Node) bool {
			if u, ok := y.(*ast.UnaryExpr); ok && u.Op == token.NOT && targetSeenFlags[objOf(info, u.X)] {
				condMentionsFlag = true
			}
			return true
		})
		if strings.Contains(ini, ".Last()") && strings.Contains(post, ".Prev()") && condMentionsFlag {
			// found set when epoch == target, and the epoch appended unconditionally afterwards
			okScan = true
		}
		return true
	})
	r.Ob(rule, fi.Name+"/scan-newest-first-until-target", fi.Decl.Pos(), okScan, "the candidate epochs are collected from the newest snapshot backwards and the scan stops once the target was seen")
	// errors on an unknown target
	okFound := false
	for _, rs := range returnsOf(fi.Decl.Body) {
		for _, f := range g.GuardsOf(rs) {
			if id, ok := ast.Unparen(f.Expr).(*ast.Ident); ok && !f.Truth && targetSeenFlags[info.ObjectOf(id)] && !successReturn(info, g, fi, rs) {
				okFound = g.DominatesNode(rs, begin) || !g.ReachesNode(begin, rs)
			}
		}
	}
	r.Ob(rule, fi.Name+"/unknown-target-rejected-before-tx", fi.Decl.Pos(), okFound, "a rollback point that is not in the store is rejected before anything is deleted")
}

func ruleDeleteBucketSites(r *Report, rule string) {
	p := r.P
	allowed := map[string]string{
		"index/scorch.Rollback":                         "the rollback itself",
		"index/scorch.(*Scorch).removeOldBoltSnapshots": "the purger (only unprotected eligible epochs, C12)",
	}
	n := 0
	for _, fi := range p.funcsInPkg(scorchPkg) {
		info := fi.Pkg.TypesInfo
		for _, c := range callsMatching(info, fi.Decl.Body, func(f *types.Func) bool { return f.Name() == "DeleteBucket" }) {
			n++
			r.Fn(fi)
			why, ok := allowed[fi.Name]
			if strings.HasPrefix(baseFile(p, c.Pos()), "train_") {
				r.Allow(rule, fi.Name+"/DeleteBucket", c.Pos(), "trainer bucket (vector training data), not a snapshot")
				continue
			}
			if !ok {
				why = "a new site deletes bolt buckets: snapshots may only disappear through Rollback or the purger's protected-set logic"
			}
			r.Ob(rule, fi.Name+"/DeleteBucket", c.Pos(), ok, why)
		}
	}
	if n < 2 {
		undecidedf("DeleteBucket sites: %d", n)
	}
}

func ruleLatestProtected(r *Report, rule string) {
	p := r.P
	fi := p.MustFunc("index/scorch.(*Scorch).getProtectedSnapshots")
	r.Fn(fi)
	info := fi.Pkg.TypesInfo
	g := buildCFG(info, fi.Decl.Body)
	// latest := liveSnapshots[0]; protected[latest.epoch] = ... on every path where it is not yet there
	var latest types.Object
	ast.Inspect(fi.Decl.Body, func(x ast.Node) bool {
		as, ok := x.(*ast.AssignStmt)
		if !ok || len(as.Lhs) != len(as.Rhs) {
			return true
		}
		for k := range as.Rhs {
			if ix, ok := ast.Unparen(as.Rhs[k]).(*ast.IndexExpr); ok && exprStr(ix.Index) == "0" {
				sig := fi.Obj.Type().(*types.Signature)
				if objOf(info, ix.X) == sig.Params().At(0) {
					latest = objOf(info, as.Lhs[k])
				}
			}
		}
		return true
	})
	isLatest := func(e ast.Expr) bool {
		e = ast.Unparen(e)
		if latest != nil && objOf(info, e) == latest {
			return true
		}
		if ix, ok := e.(*ast.IndexExpr); ok && exprStr(ix.Index) == "0" {
			sig := fi.Obj.Type().(*types.Signature)
			return objOf(info, ix.X) == sig.Params().At(0)
		}
		return false
	}
	ok := false
	ast.Inspect(fi.Decl.Body, func(x ast.Node) bool {
		as, isAs := x.(*ast.AssignStmt)
		if !isAs || len(as.Lhs) != 1 {
			return true
		}
		ix, isIx := ast.Unparen(as.Lhs[0]).(*ast.IndexExpr)
		if !isIx {
			return true
		}
		if sel, isSel := ast.Unparen(ix.Index).(*ast.SelectorExpr); isSel && sel.Sel.Name == "epoch" && isLatest(sel.X) {
			// only guard: "not already in the map"
			facts := g.RawGuardsOf(as)
			ok = ok || (len(facts) == 1 && !facts[0].Truth)
		}
		return true
	})
	r.Ob(rule, fi.Name+"/newest-snapshot-always-protected", fi.Decl.Pos(), ok, "the newest live snapshot (liveSnapshots[0]) is inserted into the protected set whenever it is not already there: the most recent persisted state is always a rollback point and is never purged")
	// the protected map is what the function returns
	ret := false
	for _, rs := range returnsOf(fi.Decl.Body) {
		if len(rs.Results) == 1 && objOf(info, rs.Results[0]) != nil {
			ret = true
		}
	}
	r.Ob(rule, fi.Name+"/returns-the-protected-set", fi.Decl.Pos(), ret, "the set returned is the one the newest epoch was added to")
}

// ruleEquivSnapshotOwnEpoch: C13(d).
func ruleEquivSnapshotOwnEpoch(r *Report, rule string) {
	p := r.P
	fi := p.MustFunc("index/scorch.(*Scorch).persistSnapshotMaybeMerge")
	r.Fn(fi)
	info := fi.Pkg.TypesInfo
	fresh := freshVarsOfType(fi, "IndexSnapshot")
	if len(fresh) != 1 {
		undecidedf("%s: expected one fresh IndexSnapshot (the equivalent snapshot), found %d", fi.Name, len(fresh))
	}
	equiv := fresh[0]
	sig := fi.Obj.Type().(*types.Signature)
	captured := sig.Params().At(0) // the snapshot captured by the persister
	// epoch and internal of equiv come from the captured snapshot
	d := newDeps(info, fi.Decl.Body)
	sl := d.Slice(varKeyOf(equiv))
	capKey := varKeyOf(captured)
	r.Ob(rule, fi.Name+"/equiv.epoch,internal-from-captured-snapshot", fi.Decl.Pos(), sl[capKey+".epoch"] && sl[capKey+".internal"], "the snapshot written to bolt carries the epoch and the internal values of the snapshot the persister captured")
	// appends to equiv.segment
	n := 0
	for _, st := range storesToField(info, fi.Decl.Body, "IndexSnapshot", "segment") {
		if id := baseIdent(st.Lhs.X); id == nil || info.ObjectOf(id) != equiv {
			continue
		}
		c, ok := st.Rhs.(*ast.CallExpr)
		if !ok || calleeBuiltin(info, c) != "append" || len(c.Args) != 2 {
			continue
		}
		// which list is being ranged over?
		var rng *ast.RangeStmt
		for _, anc := range enclosing(fi.Decl.Body, st.Stmt) {
			if rs, ok := anc.(*ast.RangeStmt); ok {
				rng = rs
			}
		}
		if rng == nil {
			continue
		}
		fromPostMerge := isField(info, rng.X, "IndexSnapshot", "segment") && objOf(info, ast.Unparen(rng.X).(*ast.SelectorExpr).X) != captured
		if !fromPostMerge {
			continue // segments of the captured snapshot itself: carried as they are
		}
		n++
		// must be a rebuilt literal with deleted nil/absent, not the ranged value itself
		arg := ast.Unparen(c.Args[1])
		if u, ok := arg.(*ast.UnaryExpr); ok {
			arg = u.X
		}
		cl, isLit := arg.(*ast.CompositeLit)
		okLit := false
		if isLit {
			okLit = true
			for _, el := range cl.Elts {
				if kv, ok := el.(*ast.KeyValueExpr); ok && kv.Key.(*ast.Ident).Name == "deleted" && !isNilIdent(info, kv.Value) {
					okLit = false
				}
			}
		}
		r.Ob(rule, fi.Name+"/merged-segment-rebuilt-without-later-deletions", st.Stmt.Pos(), okLit, "a merged segment taken from the POST-merge root must be re-wrapped with deleted=nil (the merge already dropped the captured epoch's deletions); reusing the root's segment snapshot would persist deletions of batches introduced after the captured epoch into that epoch's bucket")
	}
	if n == 0 {
		r.Ob(rule, fi.Name+"/merged-segment-rebuilt-without-later-deletions", fi.Decl.Pos(), false, "no append of merged segments into the equivalent snapshot found")
	}
	// what is persisted is equiv
	okPersist := false
	for _, c := range callsMatching(info, fi.Decl.Body, methodIs(scorchPkg, "Scorch", "persistSnapshotDirect")) {
		if objOf(info, c.Args[0]) == equiv {
			okPersist = true
		}
	}
	r.Ob(rule, fi.Name+"/persists-the-equivalent-snapshot", fi.Decl.Pos(), okPersist, "the equivalent snapshot is what gets persisted")
}

// ruleSegmentIDsNotReissued: C13(e).
func ruleSegmentIDsNotReissued(r *Report, rule string) {
	p := r.P
	fi := p.MustFunc("index/scorch.(*Scorch).loadFromBolt")
	r.Fn(fi)
	info := fi.Pkg.TypesInfo
	n := 0
	okDisk := false
	okInc := false
	ast.Inspect(fi.Decl.Body, func(x ast.Node) bool {
		switch s := x.(type) {
		case *ast.AssignStmt:
			for i, l := range s.Lhs {
				if !isField(info, l, "Scorch", "nextSegmentID") {
					continue
				}
				n++
				rhs := s.Rhs[0]
				if len(s.Rhs) == len(s.Lhs) {
					rhs = s.Rhs[i]
				}
				if c, ok := ast.Unparen(rhs).(*ast.CallExpr); ok {
					if f := callee(info, c); f != nil {
						if hf := p.Func(funcName(f)); hf != nil && hf.Decl.Body != nil {
							hinfo := hf.Pkg.TypesInfo
							reads := len(callsMatching(hinfo, hf.Decl.Body, calleeIs("os.ReadDir", "io/ioutil.ReadDir"))) > 0
							zap := false
							ast.Inspect(hf.Decl.Body, func(y ast.Node) bool {
								if bl, ok := y.(*ast.BasicLit); ok && strings.Contains(bl.Value, ".zap") {
									zap = true
								}
								return true
							})
							if reads && zap {
								okDisk = true
								r.Fn(hf)
							}
						}
					}
				}
			}
		case *ast.IncDecStmt:
			if s.Tok == token.INC && isField(info, s.X, "Scorch", "nextSegmentID") {
				okInc = true
			}
		}
		return true
	})
	r.Ob(rule, fi.Name+"/nextSegmentID-from-files-on-disk", fi.Decl.Pos(), n > 0 && okDisk && okInc, "on open the segment id counter restarts above the highest *.zap file present on disk (which includes files of retained older rollback points), so a new segment can never overwrite a file an older snapshot still names")
	r.Ob(rule, fi.Name+"/counter-advanced-past-the-maximum", fi.Decl.Pos(), okInc, "the counter is incremented past the highest id found")
}

// stmtRhsStr: the text of the (first) right-hand side of an assignment statement, "" for anything else.
func stmtRhsStr(s ast.Stmt) string {
	if as, ok := s.(*ast.AssignStmt); ok && len(as.Rhs) > 0 {
		return exprStr(as.Rhs[0])
	}
	return ""
}
