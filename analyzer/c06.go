package main

import (
	"fmt"
	"go/ast"
	"go/constant"
	"go/token"
	"go/types"
	"golang.org/x/tools/go/cfg"
	"sort"
	"strings"
)

func init() { register("C06", propC06) }

func propC06(r *Report, tier string) {
	r.Explanation = "Structural necessary conditions of 'hits are the requested slice of the fully sorted match list': (a) K16 exhaustive finite abstract interpretation of SortOrder.Compare and CompareScoreDescending over all <,=,> relations of the compared fields, 0..2 keys and all flag values: equals the documented order (key priority, desc negation, hit-number tie-break), antisymmetric, specialised == generic for [-_score]; searchHitSorter.Less is Compare < 0; (b) comparator parametricity: no ordering decision in package collector compares fields of two different DocumentMatch values directly (everything goes through the injected comparator); the bounded stores never read Score/Sort/HitNumber; heap Less and slice insertion have the polarity 'keep the smallest, evict the largest' (sign tables); (c) the collector offers size+skip to the store and skip to Final; the search-after sentinel drops <= 0 and the evicted-bound shortcut drops only >= 0; (d) SearchBefore: Sort.Reverse applied twice on every success path with the re-sort after the restore, and the page is cut before the restore; (e) K11 the date layout used to print a search-after cursor equals the layout used to parse it back. (f) K12 encodeSearchAfter re-encodes a cursor exactly like the sort key of its mode: raw for string/auto field sorts, _id and _score; prefix-coded for number, date and geo distance. (g) SortField.Reverse negates Desc and never re-assigns to Missing the value it has just tested for."
	r.NotCovered = "correctness of the heap/slice algorithms for all arrival orders (inductive), paging tiling, PreAllocSizeSkipCap effects, sort-key extraction (SortField.Value, missing/mode)"
	ruleComparatorTables(r, "K16-comparator-table")
	ruleHitSorterLess(r, "K16-comparator-table")
	ruleComparatorParametricity(r, "K7-comparator-parametricity")
	ruleStorePolarity(r, "K16-store-polarity")
	ruleCollectorHandlerBounds(r, "K8-collector-bounds")
	ruleSearchBeforeReverse(r, "K5-search-before-reverse")
	ruleCursorLayoutAgreement(r, "K11-cursor-layout")
	ruleCursorEncodingMirrorsSortMode(r, "K12-cursor-encoding")
	rulePooledMatchResetIsTotal(r, "K9b-pooled-match-reset-total")
	ruleReverseFlipsMissing(r, "K16-reverse-flips-missing")
	r.Floor("K16-comparator-table", 4)
	r.Floor("K7-comparator-parametricity", 3)
	r.Floor("K16-store-polarity", 2)
	r.Floor("K8-collector-bounds", 4)
	r.Floor("K5-search-before-reverse", 4)
	r.Floor("K11-cursor-layout", 1)
}

func ruleHitSorterLess(r *Report, rule string) {
	p := r.P
	fi := p.MustFunc("bleve.(*searchHitSorter).Less")
	r.Fn(fi)
	info := fi.Pkg.TypesInfo
	ok := false
	var cmpCall *ast.CallExpr
	var cmpVar types.Object
	ast.Inspect(fi.Decl.Body, func(x ast.Node) bool {
		c, isC := x.(*ast.CallExpr)
		if !isC {
			return true
		}
		if f := callee(info, c); f != nil && f.Name() == "Compare" && len(c.Args) == 4 {
			lsig := fi.Obj.Type().(*types.Signature)
			if indexedByParam(info, c.Args[2], lsig, 0) && indexedByParam(info, c.Args[3], lsig, 1) {
				cmpCall = c
			}
		}
		return true
	})
	ast.Inspect(fi.Decl.Body, func(x ast.Node) bool {
		if as, isAs := x.(*ast.AssignStmt); isAs && len(as.Rhs) == 1 && ast.Unparen(as.Rhs[0]) == ast.Expr(cmpCall) && cmpCall != nil {
			cmpVar = objOf(info, as.Lhs[0])
		}
		return true
	})
	for _, rs := range returnsOf(fi.Decl.Body) {
		if len(rs.Results) != 1 || cmpCall == nil {
			continue
		}
		be, isB := ast.Unparen(rs.Results[0]).(*ast.BinaryExpr)
		if !isB || be.Op != token.LSS || exprStr(be.Y) != "0" {
			continue
		}
		if ast.Unparen(be.X) == ast.Expr(cmpCall) || (cmpVar != nil && objOf(info, be.X) == cmpVar) {
			ok = true
		}
	}
	r.Ob(rule, fi.Name+"/Less=Compare(i,j)<0", fi.Decl.Pos(), ok, "the hit sorter's Less(i,j) is `sort.Compare(.., hits[i], hits[j]) < 0`")
}

// ruleComparatorParametricity: in package search/collector no relational
// comparison has DocumentMatch ordering fields of two different matches on its
// two sides, and the store implementations do not read ordering fields at all.
func ruleComparatorParametricity(r *Report, rule string) {
	p := r.P
	orderField := func(info *types.Info, e ast.Expr) (types.Object, string, bool) {
		e = ast.Unparen(e)
		if ix, ok := e.(*ast.IndexExpr); ok {
			e = ast.Unparen(ix.X)
		}
		fs, ok := asFieldSel(info, e)
		if !ok || fs.Owner != "DocumentMatch" {
			return nil, "", false
		}
		switch canonFieldName(fs.Field) {
		case "Score", "Sort", "HitNumber", "ID", "IndexInternalID":
			if b := baseIdent(fs.Sel.X); b != nil {
				return info.ObjectOf(b), canonFieldName(fs.Field), true
			}
		}
		return nil, "", false
	}
	n := 0
	for _, fi := range p.funcsInPkg("search/collector") {
		info := fi.Pkg.TypesInfo
		file := baseFile(p, fi.Decl.Pos())
		isStore := file == "heap.go" || file == "slice.go" || file == "list.go"
		bad := ""
		storeRead := ""
		ast.Inspect(fi.Decl.Body, func(x ast.Node) bool {
			switch y := x.(type) {
			case *ast.BinaryExpr:
				switch y.Op {
				case token.LSS, token.GTR, token.LEQ, token.GEQ, token.EQL, token.NEQ:
					a, fa, ok1 := orderField(info, y.X)
					b, fb, ok2 := orderField(info, y.Y)
					if ok1 && ok2 && a != b && fa == fb {
						bad = exprStr(y)
					}
				}
			case *ast.SelectorExpr:
				if isStore {
					if _, f, ok := orderField(info, y); ok && f != "ID" && f != "IndexInternalID" {
						storeRead = exprStr(y)
					}
				}
			}
			return true
		})
		if bad != "" || isStore {
			n++
		}
		if bad != "" {
			r.Fn(fi)
			r.Ob(rule, fi.Name+"/no-direct-match-vs-match-comparison", fi.Decl.Pos(), false, "ordering decision `"+bad+"` compares fields of two matches directly instead of going through the request's comparator: it ignores the other sort keys, the direction flags and the hit-number tie-break")
		}
		if isStore {
			r.Fn(fi)
			r.Ob(rule, fi.Name+"/store-is-comparator-parametric", fi.Decl.Pos(), storeRead == "", "bounded store code reads "+storeRead+": stores must order matches only through the injected compare function")
		}
	}
	// positive anchor: the handler uses hc.cmp
	h := p.MustFunc("search/collector.MakeTopNDocumentMatchHandler")
	r.Fn(h)
	cmpCalls := 0
	for _, c := range callsDeep(h.Decl.Body) {
		if sel, ok := ast.Unparen(c.Fun).(*ast.SelectorExpr); ok && sel.Sel.Name == "cmp" {
			cmpCalls++
		}
	}
	r.Ob(rule, h.Name+"/ordering-through-hc.cmp", h.Decl.Pos(), cmpCalls >= 3, fmt.Sprintf("the top-N handler takes its %d ordering decisions through hc.cmp", cmpCalls))
	if n == 0 {
		undecidedf("no store functions found in search/collector")
	}
}

// evalSignExpr evaluates a boolean expression over one integer variable.
func evalSignExpr(info *types.Info, e ast.Expr, v types.Object, val int) (bool, bool) {
	var iv func(x ast.Expr) (int, bool)
	iv = func(x ast.Expr) (int, bool) {
		x = ast.Unparen(x)
		if id, ok := x.(*ast.Ident); ok && info.ObjectOf(id) == v {
			return val, true
		}
		if u, ok := x.(*ast.UnaryExpr); ok && u.Op == token.SUB {
			a, ok := iv(u.X)
			return -a, ok
		}
		if exprStr(x) == "0" {
			return 0, true
		}
		return 0, false
	}
	be, ok := ast.Unparen(e).(*ast.BinaryExpr)
	if !ok {
		return false, false
	}
	a, ok1 := iv(be.X)
	b, ok2 := iv(be.Y)
	if !ok1 || !ok2 {
		return false, false
	}
	r := relEQ
	if a < b {
		r = relLT
	} else if a > b {
		r = relGT
	}
	return applyRel(be.Op, r), true
}

func ruleStorePolarity(r *Report, rule string) {
	p := r.P
	// heap: Less(i,j) must be true exactly when compare(heap[i], heap[j]) > 0 (max-heap on the sort order: Pop evicts the largest)
	hl := p.MustFunc("search/collector.(*collectStoreHeap).Less")
	r.Fn(hl)
	info := hl.Pkg.TypesInfo
	var so types.Object
	argsOK := false
	ast.Inspect(hl.Decl.Body, func(x ast.Node) bool {
		as, ok := x.(*ast.AssignStmt)
		if !ok || len(as.Rhs) != 1 {
			return true
		}
		if c, ok := as.Rhs[0].(*ast.CallExpr); ok {
			if sel, ok := ast.Unparen(c.Fun).(*ast.SelectorExpr); ok && sel.Sel.Name == "compare" && len(c.Args) == 2 {
				so = objOf(info, as.Lhs[0])
				hsig := hl.Obj.Type().(*types.Signature)
				argsOK = indexedByParam(info, c.Args[0], hsig, 0) && indexedByParam(info, c.Args[1], hsig, 1)
			}
		}
		return true
	})
	okHeap := so != nil && argsOK
	table := ""
	if okHeap {
		for _, rs := range returnsOf(hl.Decl.Body) {
			for _, v := range []int{-1, 0, 1} {
				b, ok := evalSignExpr(info, rs.Results[0], so, v)
				if !ok {
					undecidedf("%s: return expression not understood", hl.Name)
				}
				table += fmt.Sprintf("cmp=%d->%v ", v, b)
				if b != (v > 0) {
					okHeap = false
				}
			}
		}
	}
	r.Ob(rule, hl.Name+"/less-iff-compare-greater", hl.Decl.Pos(), okHeap, "heap Less(i,j) must hold exactly when compare(heap[i],heap[j]) > 0, so that the heap's root (what Pop evicts) is the LAST hit in sort order; sign table: "+table)
	// slice: scanning from the end, stop at the first element the new doc is >= of
	sa := p.MustFunc("search/collector.(*collectStoreSlice).add")
	r.Fn(sa)
	sinfo := sa.Pkg.TypesInfo
	okSlice := false
	stable := ""
	{
		// the scan index moves down (i--) exactly while compare(doc, slice[i-1]) < 0: read off the branch
		// facts at the decrement, whatever the loop's spelling (`if cmp >= 0 { break }` + post statement,
		// or the test in the loop condition)
		sg := buildCFG(sinfo, sa.Decl.Body)
		ast.Inspect(sa.Decl.Body, func(x ast.Node) bool {
			inc, ok := x.(*ast.IncDecStmt)
			if !ok || inc.Tok != token.DEC {
				return true
			}
			iv := objOf(sinfo, inc.X)
			if iv == nil {
				return true
			}
			ops := map[token.Token]bool{}
			for _, fc := range sg.GuardsOf(inc) {
				be, isB := ast.Unparen(fc.Expr).(*ast.BinaryExpr)
				if !isB || fc.Tag != nil || !fc.Truth {
					continue
				}
				tv, isC := sinfo.Types[be.Y]
				if !isC || tv.Value == nil || constant.Sign(tv.Value) != 0 {
					continue
				}
				c, isCall := ast.Unparen(resolveCopies(sinfo, sa.Decl.Body, be.X)).(*ast.CallExpr)
				if !isCall || len(c.Args) != 2 {
					continue
				}
				if sel, ok := ast.Unparen(c.Fun).(*ast.SelectorExpr); !ok || sel.Sel.Name != "compare" {
					continue
				}
				ops[be.Op] = true
			}
			var seen []string
			for op := range ops {
				seen = append(seen, op.String())
			}
			sort.Strings(seen)
			stable = "index decremented while compare(...) " + strings.Join(seen, ",") + " 0"
			// `< 0` (and its consequence `<= 0`... is NOT implied); exactly the strict form, possibly with the weaker != 0
			okSlice = ops[token.LSS] && !ops[token.LEQ] && !ops[token.GTR] && !ops[token.GEQ] && !ops[token.EQL]
			return true
		})
	}
	// compare(doc, slice[i-1]) argument order
	argOrder := false
	for _, c := range callsDeep(sa.Decl.Body) {
		if sel, ok := ast.Unparen(c.Fun).(*ast.SelectorExpr); ok && sel.Sel.Name == "compare" && len(c.Args) == 2 {
			sig := sa.Obj.Type().(*types.Signature)
			argOrder = objOf(sinfo, c.Args[0]) == sig.Params().At(0) && indexedByVarMinusOne(sinfo, c.Args[1])
		}
	}
	r.Ob(rule, sa.Name+"/insert-after-last-not-greater", sa.Decl.Pos(), okSlice && argOrder, "slice insertion scans from the end and stops at the first stored hit the new one is >= of (stable ascending order, largest last); sign table: "+stable)
}

func ruleCollectorHandlerBounds(r *Report, rule string) {
	p := r.P
	h := p.MustFunc("search/collector.MakeTopNDocumentMatchHandler")
	info := h.Pkg.TypesInfo
	// AddNotExceedingSize(d, hc.size+hc.skip)
	okSize := false
	for _, c := range callsDeep(h.Decl.Body) {
		if f := callee(info, c); f != nil && f.Name() == "AddNotExceedingSize" && len(c.Args) == 2 {
			// the bound is computed from both hc.size and hc.skip (directly or through locals)
			sl := newDeps(info, h.Decl.Body).SliceOfExpr(c.Args[1])
			okSize = sl["fld:TopNCollector.size"] && sl["fld:TopNCollector.skip"]
		}
	}
	r.Ob(rule, h.Name+"/store-bounded-by-size+skip", h.Decl.Pos(), okSize, "the bounded store keeps size+skip hits (the requested page plus everything before it)")
	// sentinel comparisons: a branch on `hc.cmp(d, <sentinel>) <op> 0` one side of which can still
	// reach the store call while the other cannot (the hit is dropped there).  The operator under
	// which the hit is dropped is read off the edge, whatever the spelling (negation, && with a nil
	// test, early return or else-branch).
	var afterOK, lowestOK bool
	var storeCall *ast.CallExpr
	for _, c := range callsDeep(h.Decl.Body) {
		if f := callee(info, c); f != nil && f.Name() == "AddNotExceedingSize" {
			storeCall = c
		}
	}
	if storeCall != nil {
		body := innermostFuncBody(h.Decl, storeCall)
		g := buildCFG(info, body)
		storeLoc, _ := g.Locate(storeCall)
		reachesStore := func(from *cfg.Block) bool {
			seen := map[int32]bool{}
			st := []*cfg.Block{from}
			for len(st) > 0 {
				b := st[len(st)-1]
				st = st[:len(st)-1]
				if b == storeLoc.B {
					return true
				}
				if seen[b.Index] {
					continue
				}
				seen[b.Index] = true
				st = append(st, b.Succs...)
			}
			return false
		}
		resolveCall := func(e ast.Expr) *ast.CallExpr {
			e = ast.Unparen(e)
			if c, ok := e.(*ast.CallExpr); ok {
				return c
			}
			if id, ok := e.(*ast.Ident); ok {
				vo := info.ObjectOf(id)
				var found *ast.CallExpr
				n := 0
				ast.Inspect(body, func(y ast.Node) bool {
					if as, isAs := y.(*ast.AssignStmt); isAs && len(as.Lhs) == 1 && len(as.Rhs) == 1 && objOf(info, as.Lhs[0]) == vo {
						n++
						if cc, isCall := ast.Unparen(as.Rhs[0]).(*ast.CallExpr); isCall {
							found = cc
						}
					}
					return true
				})
				if n == 1 {
					return found
				}
			}
			return nil
		}
		afterOps, lowestOps := map[token.Token]bool{}, map[token.Token]bool{}
		for _, b := range g.G.Blocks {
			cond, tag, ok := branchCond(b)
			if !ok || tag != nil || len(b.Succs) != 2 || b.Succs[0] == b.Succs[1] {
				continue
			}
			keep0, keep1 := reachesStore(b.Succs[0]), reachesStore(b.Succs[1])
			if keep0 == keep1 {
				continue // not a keep/drop decision (or already behind the store)
			}
			dropTruth := !keep0 == true // the edge on which the hit is dropped: true-edge iff the true edge cannot reach the store
			var atoms []Fact
			splitCond(cond, dropTruth, &atoms)
			for _, a := range factVariants(atoms) {
				be, isB := ast.Unparen(a.Expr).(*ast.BinaryExpr)
				if !isB || !a.Truth {
					continue
				}
				tv, isC := info.Types[be.Y]
				if !isC || tv.Value == nil || constant.Sign(tv.Value) != 0 {
					continue
				}
				c := resolveCall(be.X)
				if c == nil || len(c.Args) != 2 {
					continue
				}
				sel, isSel := ast.Unparen(c.Fun).(*ast.SelectorExpr)
				if !isSel || !isField(info, sel, "TopNCollector", "cmp") {
					continue
				}
				if isField(info, c.Args[1], "TopNCollector", "searchAfter") {
					afterOps[be.Op] = true
				}
				if isField(info, c.Args[1], "TopNCollector", "lowestMatchOutsideResults") {
					lowestOps[be.Op] = true
				}
			}
		}
		afterOK = len(afterOps) == 1 && afterOps[token.LEQ]
		lowestOK = len(lowestOps) == 1 && lowestOps[token.GEQ]
	}
	r.Ob(rule, h.Name+"/search-after-drops-<=0", h.Decl.Pos(), afterOK, "hits that compare <= 0 with the search-after sentinel are dropped (the boundary hit itself is excluded, everything after it kept)")
	r.Ob(rule, h.Name+"/evicted-bound-drops->=0", h.Decl.Pos(), lowestOK, "the shortcut only drops hits that compare >= 0 with the best already-evicted hit (they could never enter the page)")
	// Final(skip)
	okSkip := false
	for _, fi := range p.funcsInPkg("search/collector") {
		finfo := fi.Pkg.TypesInfo
		for _, c := range callsDeep(fi.Decl.Body) {
			if f := callee(finfo, c); f != nil && f.Name() == "Final" && len(c.Args) == 2 && isField(finfo, c.Args[0], "TopNCollector", "skip") {
				okSkip = true
				r.Fn(fi)
			}
		}
	}
	r.Ob(rule, "TopNCollector/Final(hc.skip)", h.Decl.Pos(), okSkip, "the final page drops exactly hc.skip leading hits")
	// size/skip set from the constructor arguments only
	for _, fld := range []string{"size", "skip"} {
		writers := []string{}
		for _, fi := range p.funcsStoringField("search/collector", "TopNCollector", fld) {
			writers = append(writers, fi.Name)
		}
		okW := true
		// initialised by the constructor's composite literal from its parameter of the same name
		ctor := p.MustFunc("search/collector.newTopNCollector")
		litOK := false
		ast.Inspect(ctor.Decl.Body, func(x ast.Node) bool {
			if kv, ok := x.(*ast.KeyValueExpr); ok {
				if k, ok := kv.Key.(*ast.Ident); ok && k.Name == fld {
					if v, ok := objOf(ctor.Pkg.TypesInfo, kv.Value).(*types.Var); ok {
						csig := ctor.Obj.Type().(*types.Signature)
						for i := 0; i < csig.Params().Len(); i++ {
							if csig.Params().At(i) == v {
								litOK = true // initialised from a constructor parameter
							}
						}
					}
				}
			}
			return true
		})
		okW = litOK
		for _, w := range writers {
			if !strings.Contains(w, "newTopNCollector") && !strings.Contains(w, "NewTopNCollector") {
				okW = false
			}
		}
		r.Ob(rule, "TopNCollector."+fld+"/set-only-by-constructors", h.Decl.Pos(), okW, fmt.Sprintf("hc.%s is fixed at construction from the request (writers: %v)", fld, writers))
	}
}

// ruleSearchBeforeReverse: shared by C06 and C09.
func ruleSearchBeforeReverse(r *Report, rule string) {
	p := r.P
	for _, nm := range []string{"bleve.(*indexImpl).SearchInContext", "bleve.MultiSearch", "bleve.(*indexAliasImpl).SearchInContext"} {
		fi := p.Func(nm)
		if fi == nil {
			continue
		}
		info := fi.Pkg.TypesInfo
		var revs []*ast.CallExpr
		for _, c := range callsIn(fi.Decl.Body) {
			if f := callee(info, c); f != nil && f.Name() == "Reverse" && methodIs("search", "SortOrder", "Reverse")(f) {
				revs = append(revs, c)
			}
		}
		if len(revs) == 0 {
			continue
		}
		r.Fn(fi)
		g := buildCFG(info, fi.Decl.Body)
		if len(revs) != 2 {
			r.Ob(rule, fi.Name+"/reverse-twice", fi.Decl.Pos(), false, fmt.Sprintf("%d Sort.Reverse() calls (SearchBefore is executed as SearchAfter under the reversed sort and must be restored exactly once)", len(revs)))
			continue
		}
		first, second := revs[0], revs[1]
		if g.DominatesNode(second, first) {
			first, second = second, first
		}
		// both guarded by the same flag: first under SearchBefore != nil, second under the flag it set
		f1 := g.GuardsOf(first)
		f2 := g.GuardsOf(second)
		okGuard := false
		for _, f := range f1 {
			if x, isEq, ok := nilTest(info, f.Expr); ok && isField(info, x, "SearchRequest", "SearchBefore") && (isEq != f.Truth) {
				okGuard = true
			}
		}
		var flag types.Object
		for _, f := range f2 {
			if id, ok := ast.Unparen(f.Expr).(*ast.Ident); ok && f.Truth {
				flag = info.ObjectOf(id)
			}
		}
		flagSet := false
		if flag != nil {
			ast.Inspect(fi.Decl.Body, func(x ast.Node) bool {
				if as, ok := x.(*ast.AssignStmt); ok && len(as.Lhs) == 1 && objOf(info, as.Lhs[0]) == flag && exprStr(as.Rhs[0]) == "true" {
					if factsString(g.GuardsOf(as)) == factsString(f1) {
						flagSet = true
					}
				}
				return true
			})
		}
		r.Ob(rule, fi.Name+"/restore-iff-reversed", second.Pos(), okGuard && flagSet, "the sort is reversed iff SearchBefore is set and restored iff it was reversed (same flag)")
		// every success return after the first reverse passes the restore
		okPaths := true
		for _, rs := range returnsOf(fi.Decl.Body) {
			if !g.ReachesNode(first, rs) || !successReturn(info, g, fi, rs) {
				continue
			}
			// paths where the flag is false skip the restore legitimately: require that the restore's IF dominates
			if !g.DominatesNode(g.condOf(second), rs) {
				okPaths = false
			}
		}
		r.Ob(rule, fi.Name+"/success-exits-pass-the-restore", second.Pos(), okPaths, "every successful return passes the restore block (the caller's request keeps its sort)")
		// the hits are re-sorted with the restored order after the restore
		resort := false
		for _, c := range callsIn(fi.Decl.Body) {
			if f := callee(info, c); f != nil && f.Name() == "newSearchHitSorter" && g.DominatesNode(second, c) {
				resort = true
			}
		}
		r.Ob(rule, fi.Name+"/resort-after-restore", second.Pos(), resort, "after restoring the sort direction the hits are re-sorted with the original order")
		// the page cut (hitsInCurrentPage) happens while the order is still reversed
		for _, c := range callsIn(fi.Decl.Body) {
			if f := callee(info, c); f != nil && f.Name() == "hitsInCurrentPage" {
				// only the unconditional merge-path cut matters (the rescorer path re-pages on purpose)
				if len(g.GuardsOf(c)) > 0 {
					continue
				}
				r.Ob(rule, fi.Name+"/page-cut-before-restore", c.Pos(), g.DominatesNode(c, g.condOf(second)), "the merged candidates are cut to the page while still in the reversed (search-after) order: the hits closest to the key are kept, then the order is restored")
			}
		}
	}
}

func ruleCursorLayoutAgreement(r *Report, rule string) {
	p := r.P
	layoutOf := func(fi *FuncInfo, method string) []types.Object {
		info := fi.Pkg.TypesInfo
		var out []types.Object
		for _, c := range callsDeep(fi.Decl.Body) {
			f := callee(info, c)
			if f == nil {
				continue
			}
			if (qname(f) == "time.(Time).Format" && method == "Format" && len(c.Args) == 1) || (qname(f) == "time.Parse" && method == "Parse" && len(c.Args) == 2) {
				if sel, ok := ast.Unparen(c.Args[0]).(*ast.SelectorExpr); ok {
					out = append(out, info.ObjectOf(sel.Sel))
				}
			}
		}
		return out
	}
	dec := p.MustFunc("search.(*SortField).DecodeValue")
	r.Fn(dec)
	fm := layoutOf(dec, "Format")
	var parsers []types.Object
	for _, fi := range p.funcsInPkg("search/collector") {
		if ls := layoutOf(fi, "Parse"); len(ls) > 0 && baseFile(p, fi.Decl.Pos()) == "topn.go" {
			parsers = append(parsers, ls...)
			r.Fn(fi)
		}
	}
	ok := len(fm) == 1 && len(parsers) >= 1
	for _, o := range parsers {
		if len(fm) != 1 || o != fm[0] {
			ok = false
		}
	}
	names := func(os []types.Object) []string {
		var s []string
		for _, o := range os {
			if o != nil {
				s = append(s, o.Name())
			}
		}
		return s
	}
	r.Ob(rule, "date-cursor/format-layout==parse-layout", dec.Decl.Pos(), ok, fmt.Sprintf("the layout that prints a date sort value for DecodedSort (%v) must be the layout the collector parses a SearchAfter/SearchBefore cursor with (%v); a coarser print layout makes the cursor sort before the hit it was taken from", names(fm), names(parsers)))
}

// indexedByParam: e is x[p] where p is the k-th parameter of the function (role, not name).
func indexedByParam(info *types.Info, e ast.Expr, sig *types.Signature, k int) bool {
	ix, ok := ast.Unparen(e).(*ast.IndexExpr)
	return ok && k < sig.Params().Len() && objOf(info, ix.Index) == sig.Params().At(k)
}

// indexedByVarMinusOne: e is x[v-1] for some variable v.
func indexedByVarMinusOne(info *types.Info, e ast.Expr) bool {
	ix, ok := ast.Unparen(e).(*ast.IndexExpr)
	if !ok {
		return false
	}
	be, ok := ast.Unparen(ix.Index).(*ast.BinaryExpr)
	if !ok || be.Op != token.SUB || objOf(info, be.X) == nil {
		return false
	}
	k, isC := intConst(info, be.Y)
	return isC && k == 1
}

// ruleReverseFlipsMissing (K16): SearchBefore is run as SearchAfter under the
// reversed sort, so SortField.Reverse must turn the order around completely:
// the direction AND the end at which documents without a value appear.  An
// assignment to Missing that is reached knowing the current value (an if test
// or a switch case on Missing) must assign a DIFFERENT constant - assigning
// the value just tested leaves that end unflipped (hits without the field are
// lost from the previous page).
func ruleReverseFlipsMissing(r *Report, rule string) {
	p := r.P
	fi := p.MustFunc("search.(*SortField).Reverse")
	r.Fn(fi)
	info := fi.Pkg.TypesInfo
	g := buildCFG(info, fi.Decl.Body)
	constOf := func(e ast.Expr) (int64, bool) {
		tv, ok := info.Types[e]
		if !ok || tv.Value == nil || tv.Value.Kind() != constant.Int {
			return 0, false
		}
		return constant.Int64Val(tv.Value)
	}
	n := 0
	for _, st := range storesToField(info, fi.Decl.Body, "SortField", "Missing") {
		if st.Rhs == nil {
			continue
		}
		newV, isConst := constOf(st.Rhs)
		if !isConst {
			continue
		}
		n++
		same := ""
		for _, fc := range g.GuardsOf(st.Stmt) {
			if !fc.Truth {
				continue
			}
			if fc.Tag != nil {
				if isField(info, fc.Tag, "SortField", "Missing") {
					if v, ok := constOf(fc.Expr); ok && v == newV {
						same = fc.String()
					}
				}
				continue
			}
			be, isB := ast.Unparen(fc.Expr).(*ast.BinaryExpr)
			if !isB || be.Op != token.EQL {
				continue
			}
			x, y := be.X, be.Y
			if !isField(info, x, "SortField", "Missing") {
				x, y = y, x
			}
			if isField(info, x, "SortField", "Missing") {
				if v, ok := constOf(y); ok && v == newV {
					same = fc.String()
				}
			}
		}
		r.Ob(rule, fmt.Sprintf("%s/Missing-store#%d-changes-the-tested-value", fi.Name, n), st.Stmt.Pos(), same == "", "Reverse assigns to Missing the very value it has just tested for ("+same+"): that end is not flipped, so SearchBefore under the reversed order loses or misplaces the hits without a value")
	}
	// the direction itself
	flips := false
	for _, st := range storesToField(info, fi.Decl.Body, "SortField", "Desc") {
		if u, ok := ast.Unparen(st.Rhs).(*ast.UnaryExpr); st.Rhs != nil && ok && u.Op == token.NOT && isField(info, u.X, "SortField", "Desc") {
			flips = true
		}
	}
	r.Ob(rule, fi.Name+"/flips-Desc", fi.Decl.Pos(), flips, "Reverse negates Desc")
	if n < 1 {
		undecidedf("%s: no constant store to Missing found", fi.Name)
	}
}
