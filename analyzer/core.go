package main

import (
	"encoding/json"
	"fmt"
	"go/ast"
	"go/printer"
	"go/token"
	"go/types"
	"os"
	"path/filepath"
	"sort"
	"strings"
	"time"

	"golang.org/x/tools/go/packages"
	"golang.org/x/tools/go/ssa"
	"golang.org/x/tools/go/ssa/ssautil"
	"golang.org/x/tools/go/types/typeutil"
)

const blevePath = "github.com/blevesearch/bleve/v2"

// Prog is the loaded, type-checked repository.
type Prog struct {
	Repo   string
	Fset   *token.FileSet
	Pkgs   []*packages.Package          // bleve packages only (sorted by path)
	All    map[string]*packages.Package // every loaded package incl. deps
	ByPath map[string]*packages.Package // bleve packages by import path
	funcs  map[string]*FuncInfo         // qualified name -> info
	flist  []*FuncInfo

	ssaProg *ssa.Program
	ssaPkgs []*ssa.Package
}

// FuncInfo is one source function (declared function or method) of bleve.
type FuncInfo struct {
	Pkg  *packages.Package
	Decl *ast.FuncDecl
	Obj  *types.Func
	Name string // pkgrel.(Recv).Name e.g. "index/scorch.(*Scorch).Close"

	OrigDecl *ast.FuncDecl // the declaration as written, when Decl was normalised (see inline.go)

	normalised bool // helpers / closures were expanded or struct locals taken apart in Decl
}

type undecided struct{ msg string }

// undecidedf aborts the current property with UNDECIDED (exit 2).
func undecidedf(format string, args ...interface{}) {
	panic(undecided{fmt.Sprintf(format, args...)})
}

// overlayFrom maps every file under root (relative path) onto the same
// relative path under repo: the analysis then sees the overlay contents
// instead of the files on disk (used to replay stored seeded changes without
// touching /repo).
func overlayFrom(root, repo string) map[string][]byte {
	if root == "" {
		return nil
	}
	ov := map[string][]byte{}
	filepath.Walk(root, func(path string, info os.FileInfo, err error) error {
		if err != nil || info.IsDir() {
			return nil
		}
		rel, _ := filepath.Rel(root, path)
		if b, err := os.ReadFile(path); err == nil {
			ov[filepath.Join(repo, rel)] = b
		}
		return nil
	})
	return ov
}

func loadProg(repo string, overlayRoot string) *Prog {
	cfg := &packages.Config{
		Overlay: overlayFrom(overlayRoot, repo),
		Mode: packages.NeedName | packages.NeedFiles | packages.NeedCompiledGoFiles | packages.NeedImports |
			packages.NeedDeps | packages.NeedTypes | packages.NeedSyntax | packages.NeedTypesInfo | packages.NeedTypesSizes | packages.NeedModule,
		Dir:   repo,
		Tests: false,
		Env:   append(os.Environ(), "GOWORK=off", "GOFLAGS=-mod=mod", "GOPROXY=off", "GOSUMDB=off"),
	}
	pkgs, err := packages.Load(cfg, "./...")
	if err != nil {
		undecidedf("packages.Load: %v", err)
	}
	p := &Prog{Repo: repo, All: map[string]*packages.Package{}, ByPath: map[string]*packages.Package{}, funcs: map[string]*FuncInfo{}}
	nerr := 0
	var firstErr string
	packages.Visit(pkgs, nil, func(pk *packages.Package) {
		p.All[pk.PkgPath] = pk
		if strings.HasPrefix(pk.PkgPath, blevePath) {
			for _, e := range pk.Errors {
				nerr++
				if firstErr == "" {
					firstErr = e.Error()
				}
			}
		}
	})
	if nerr > 0 {
		undecidedf("%d load/type errors in bleve packages, first: %s", nerr, firstErr)
	}
	for _, pk := range pkgs {
		if strings.HasPrefix(pk.PkgPath, blevePath) {
			p.Pkgs = append(p.Pkgs, pk)
			p.ByPath[pk.PkgPath] = pk
			if p.Fset == nil {
				p.Fset = pk.Fset
			}
		}
	}
	sort.Slice(p.Pkgs, func(i, j int) bool { return p.Pkgs[i].PkgPath < p.Pkgs[j].PkgPath })
	if len(p.Pkgs) < 100 {
		undecidedf("only %d bleve packages loaded (expected >= 100)", len(p.Pkgs))
	}
	for _, pk := range p.Pkgs {
		for _, f := range pk.Syntax {
			// role index: boolean variables that receive the `ok` of a type assertion / map lookup / channel receive
			ast.Inspect(f, func(x ast.Node) bool {
				as, ok := x.(*ast.AssignStmt)
				if !ok || len(as.Lhs) != 2 || len(as.Rhs) != 1 {
					return true
				}
				kind := ""
				switch r := ast.Unparen(as.Rhs[0]).(type) {
				case *ast.TypeAssertExpr:
					kind = "typeassert"
				case *ast.IndexExpr:
					kind = "lookup"
				case *ast.UnaryExpr:
					if r.Op == token.ARROW {
						kind = "recv"
					}
				}
				if kind == "" {
					return true
				}
				if id, ok := as.Lhs[1].(*ast.Ident); ok {
					if o := pk.TypesInfo.ObjectOf(id); o != nil {
						commaOkKind[o] = kind
					}
				}
				return true
			})
			for _, d := range f.Decls {
				fd, ok := d.(*ast.FuncDecl)
				if !ok {
					continue
				}
				obj, _ := pk.TypesInfo.Defs[fd.Name].(*types.Func)
				if obj == nil {
					continue
				}
				fi := &FuncInfo{Pkg: pk, Decl: fd, Obj: obj, Name: funcName(obj)}
				// init functions may repeat; keep first
				if _, dup := p.funcs[fi.Name]; !dup {
					p.funcs[fi.Name] = fi
				}
				p.flist = append(p.flist, fi)
			}
		}
	}
	p.normalise()
	if os.Getenv("VERIF_NO_NORMALISE") == "" {
		p.desugarLibraryCalls()
		p.splitTuples()
		p.scalarise()
		p.propagateCopies()
	}
	for _, l := range normaliseLog {
		fmt.Println("normalise:", l)
	}
	if d := os.Getenv("VERIF_DUMP_FUNC"); d != "" {
		if fi := p.funcs[d]; fi != nil {
			printer.Fprint(os.Stdout, p.Fset, fi.Decl)
			fmt.Println()
		}
	}
	return p
}

func relPkg(path string) string {
	if path == blevePath {
		return "bleve"
	}
	return strings.TrimPrefix(path, blevePath+"/")
}

// funcName renders a *types.Func as "pkgrel.(*Recv).Name" / "pkgrel.Name".
func funcName(f *types.Func) string {
	if f == nil {
		return "<nil>"
	}
	pkg := ""
	if f.Pkg() != nil {
		pkg = relPkg(f.Pkg().Path())
	}
	sig, _ := f.Type().(*types.Signature)
	if sig != nil && sig.Recv() != nil {
		t := sig.Recv().Type()
		ptr := ""
		if pt, ok := t.(*types.Pointer); ok {
			t = pt.Elem()
			ptr = "*"
		}
		name := "?"
		if nt, ok := t.(*types.Named); ok {
			name = nt.Obj().Name()
		} else if at, ok := t.(*types.Alias); ok {
			name = at.Obj().Name()
		}
		return fmt.Sprintf("%s.(%s%s).%s", pkg, ptr, name, f.Name())
	}
	return pkg + "." + f.Name()
}

// Func returns the function with the given relative qualified name or nil.
func (p *Prog) Func(name string) *FuncInfo { return p.funcs[name] }

// MustFunc returns the function or aborts UNDECIDED.
func (p *Prog) MustFunc(name string) *FuncInfo {
	f := p.funcs[name]
	if f == nil || f.Decl.Body == nil {
		if h := hostOfVanished(p, name); h != nil {
			return h
		}
		undecidedf("anchor function %s not found", name)
	}
	return f
}

func (p *Prog) Pkg(rel string) *packages.Package {
	path := blevePath
	if rel != "" && rel != "bleve" {
		path = blevePath + "/" + rel
	}
	pk := p.ByPath[path]
	if pk == nil {
		undecidedf("package %s not loaded", rel)
	}
	return pk
}

func (p *Prog) Pos(pos token.Pos) string {
	if !pos.IsValid() {
		return "?"
	}
	ps := p.Fset.Position(pos)
	rel, err := filepath.Rel(p.Repo, ps.Filename)
	if err != nil {
		rel = ps.Filename
	}
	return fmt.Sprintf("%s:%d", rel, ps.Line)
}

// SSA builds (once) the SSA form of the whole program.
func (p *Prog) SSA() *ssa.Program {
	if p.ssaProg != nil {
		return p.ssaProg
	}
	var roots []*packages.Package
	for _, pk := range p.Pkgs {
		roots = append(roots, pk)
	}
	prog, pkgs := ssautil.AllPackages(roots, ssa.InstantiateGenerics)
	prog.Build()
	p.ssaProg, p.ssaPkgs = prog, pkgs
	return prog
}

func (p *Prog) SSAFunc(fi *FuncInfo) *ssa.Function {
	prog := p.SSA()
	fn := prog.FuncValue(fi.Obj)
	if fn == nil {
		undecidedf("no SSA for %s", fi.Name)
	}
	return fn
}

// callee resolves the static callee object of a call (function, method,
// interface method) or nil for dynamic calls / builtins / conversions.
func callee(info *types.Info, call *ast.CallExpr) *types.Func {
	f, _ := typeutil.Callee(info, call).(*types.Func)
	if c, ok := funcCanon[f]; ok {
		return c
	}
	return f
}

// calleeVarName returns "pkgpath.Name" when the call goes through a
// package-level function variable (e.g. util.UnmarshalJSON = json.Unmarshal).
func calleeVarName(info *types.Info, call *ast.CallExpr) string {
	if v, ok := typeutil.Callee(info, call).(*types.Var); ok && v.Pkg() != nil && v.Parent() == v.Pkg().Scope() {
		return v.Pkg().Path() + "." + v.Name()
	}
	return ""
}

// calleeBuiltin returns the builtin name ("close", "append", ...) or "".
func calleeBuiltin(info *types.Info, call *ast.CallExpr) string {
	if b, ok := typeutil.Callee(info, call).(*types.Builtin); ok {
		return b.Name()
	}
	return ""
}

// qname renders any *types.Func with its full package path:
// "sync.(*Mutex).Lock", "go.etcd.io/bbolt.(*Tx).Commit".
func qname(f *types.Func) string {
	if f == nil {
		return ""
	}
	pkg := ""
	if f.Pkg() != nil {
		pkg = f.Pkg().Path()
	}
	sig, _ := f.Type().(*types.Signature)
	if sig != nil && sig.Recv() != nil {
		t := sig.Recv().Type()
		ptr := ""
		if pt, ok := t.(*types.Pointer); ok {
			t = pt.Elem()
			ptr = "*"
		}
		name := "?"
		switch nt := t.(type) {
		case *types.Named:
			name = nt.Obj().Name()
		case *types.Alias:
			name = nt.Obj().Name()
		}
		return fmt.Sprintf("%s.(%s%s).%s", pkg, ptr, name, f.Name())
	}
	return pkg + "." + f.Name()
}

// ---------------------------------------------------------------------
// Obligations / evidence

type Verdict string

const (
	Holds    Verdict = "holds"
	Violated Verdict = "violated"
	Allowed  Verdict = "allowed"
	Known    Verdict = "known-finding"
	Info     Verdict = "info"
)

type Obligation struct {
	Key     string  `json:"key"` // rule/construct#ordinal (no line numbers)
	Rule    string  `json:"rule"`
	Pos     string  `json:"pos"`
	Verdict Verdict `json:"verdict"`
	Detail  string  `json:"detail,omitempty"`
}

type Report struct {
	Prop        string
	P           *Prog
	Obs         []*Obligation
	keys        map[string]int
	ruleCount   map[string]int
	Explanation string
	NotCovered  string
	Assumptions []string
	Trusted     []string
	Analysed    map[string]bool // functions analysed
	floors      []floor
}

type floor struct {
	rule string
	min  int
}

func newReport(prop string, p *Prog) *Report {
	return &Report{Prop: prop, P: p, keys: map[string]int{}, ruleCount: map[string]int{}, Analysed: map[string]bool{}}
}

// Ob records an obligation. construct identifies the code construct without
// positions; an ordinal is appended when the same (rule, construct) repeats.
func (r *Report) Ob(rule, construct string, pos token.Pos, ok bool, detail string) *Obligation {
	base := rule + "/" + construct
	r.keys[base]++
	key := base
	if n := r.keys[base]; n > 1 {
		key = fmt.Sprintf("%s#%d", base, n)
	}
	v := Holds
	if !ok {
		v = Violated
	}
	o := &Obligation{Key: key, Rule: rule, Pos: r.P.Pos(pos), Verdict: v, Detail: detail}
	r.Obs = append(r.Obs, o)
	r.ruleCount[rule]++
	return o
}

func (r *Report) Allow(rule, construct string, pos token.Pos, reason string) {
	o := r.Ob(rule, construct, pos, true, reason)
	o.Verdict = Allowed
}

func (r *Report) InfoOb(rule, construct string, pos token.Pos, detail string) {
	o := r.Ob(rule, construct, pos, true, detail)
	o.Verdict = Info
}

// Floor demands at least min obligations of the rule (else UNDECIDED).
func (r *Report) Floor(rule string, min int) { r.floors = append(r.floors, floor{rule, min}) }

func (r *Report) Fn(fi *FuncInfo) { r.Analysed[fi.Name] = true }

type knownFinding struct {
	Property string `json:"property"`
	Key      string `json:"key"`
	Status   string `json:"status"` // "known" | "fixed"
	Commit   string `json:"commit,omitempty"`
	What     string `json:"what"`
}

func loadKnown(path string) []knownFinding {
	b, err := os.ReadFile(path)
	if err != nil {
		return nil
	}
	var k []knownFinding
	if err := json.Unmarshal(b, &k); err != nil {
		undecidedf("known findings file unreadable: %v", err)
	}
	return k
}

type evidence struct {
	PropertyID  string                 `json:"property_id"`
	Tier        string                 `json:"tier"`
	Seed        int                    `json:"seed"`
	Level       string                 `json:"level"`
	Coverage    map[string]interface{} `json:"coverage"`
	Assumptions []string               `json:"assumptions"`
	WallS       float64                `json:"wall_s"`
	Violations  int                    `json:"violations"`
}

// finish applies floors and known findings, writes evidence, prints the
// verdict lines and returns the process exit code.
func (r *Report) finish(tier string, seed int, start time.Time, verifDir string, loadInfo map[string]interface{}) int {
	for _, f := range r.floors {
		if r.ruleCount[f.rule] < f.min {
			undecidedf("rule %s matched %d sites, below the hand-confirmed floor %d (anchor lost?)", f.rule, r.ruleCount[f.rule], f.min)
		}
	}
	known := loadKnown(filepath.Join(verifDir, "known_findings.json"))
	nviol, nknown := 0, 0
	var viols []*Obligation
	for _, o := range r.Obs {
		if o.Verdict != Violated {
			continue
		}
		matched := false
		for _, k := range known {
			if k.Property == r.Prop && k.Status == "known" && k.Key == o.Key {
				matched = true
				o.Verdict = Known
				nknown++
				fmt.Printf("KNOWN-FINDING: property=%s %s at %s: %s\n", r.Prop, o.Key, o.Pos, k.What)
			}
		}
		if !matched {
			nviol++
			viols = append(viols, o)
		}
	}
	// evidence
	perRule := map[string]int{}
	verd := map[string]int{}
	for _, o := range r.Obs {
		perRule[o.Rule]++
		verd[string(o.Verdict)]++
	}
	var samples []interface{}
	seenRule := map[string]int{}
	for _, o := range r.Obs {
		if seenRule[o.Rule] < 2 || o.Verdict == Violated || o.Verdict == Known {
			samples = append(samples, o)
			seenRule[o.Rule]++
		}
		if len(samples) >= 60 {
			break
		}
	}
	var fns []string
	for f := range r.Analysed {
		fns = append(fns, f)
	}
	sort.Strings(fns)
	distinct := map[string]bool{}
	for _, o := range r.Obs {
		if o.Verdict != Info {
			distinct[o.Key] = true
		}
	}
	if r.Trusted == nil {
		r.Trusted = []string{"go/packages + go/types (type checking, callee resolution)", "golang.org/x/tools go/cfg"}
	}
	discharged := verd[string(Holds)] + verd[string(Allowed)] + verd[string(Known)]
	total := len(r.Obs) - verd[string(Info)]
	// the explanation always ends with the complete inventory of rules that were evaluated
	var ruleNames []string
	for k := range perRule {
		ruleNames = append(ruleNames, k)
	}
	sort.Strings(ruleNames)
	if len(ruleNames) > 0 && !strings.Contains(r.Explanation, "Rules evaluated in this run:") {
		r.Explanation += " Rules evaluated in this run: " + strings.Join(ruleNames, ", ") + "."
	}
	cov := map[string]interface{}{
		"explanation":         r.Explanation,
		"not_covered":         r.NotCovered,
		"obligations":         total,
		"discharged":          discharged,
		"evaluations":         len(r.Obs),
		"distinct_nontrivial": len(distinct),
		"rule":                "one obligation per (rule, code construct) found by resolving callees/types in /repo's current source; distinct = distinct obligation keys, info-only entries excluded",
		"per_rule":            perRule,
		"verdicts":            verd,
		"functions_analysed":  fns,
		"samples":             samples,
		"all_obligation_keys": keysOf(r.Obs),
		"checker_cmd":         fmt.Sprintf("bin/bleveverif -prop %s -tier %s -repo %s", r.Prop, tier, r.P.Repo),
		"trusted_base":        r.Trusted,
		"load":                loadInfo,
		"exhaustive":          false,
	}
	if tier == "thorough" {
		if wb, err := os.ReadFile(filepath.Join(verifDir, "evidence", r.Prop+".witness.json")); err == nil {
			var w []map[string]interface{}
			if json.Unmarshal(wb, &w) == nil {
				cov["witness_replays"] = w
				cov["witness_rule"] = "each stored seeded change recorded as detectable for this property was applied to a scratch copy of /repo's current tree and the check had to report a VIOLATION there"
			}
		}
	}
	ev := evidence{PropertyID: r.Prop, Tier: tier, Seed: seed, Level: "other", Coverage: cov,
		Assumptions: append([]string{"default build tags only: the 15 files under //go:build vectors need cgo+faiss and are not analysed", "test files are not analysed", "third-party modules are used for type/callee resolution only"}, r.Assumptions...),
		WallS:       time.Since(start).Seconds(), Violations: nviol}
	evDir := filepath.Join(verifDir, "evidence")
	os.MkdirAll(evDir, 0o755)
	b, _ := json.MarshalIndent(ev, "", " ")
	if err := os.WriteFile(filepath.Join(evDir, r.Prop+".json"), b, 0o644); err != nil {
		fmt.Fprintf(os.Stderr, "cannot write evidence: %v\n", err)
		return 2
	}
	fmt.Printf("property=%s tier=%s obligations=%d discharged=%d violations=%d known=%d info=%d functions=%d wall=%.1fs\n",
		r.Prop, tier, total, discharged, nviol, nknown, verd[string(Info)], len(fns), time.Since(start).Seconds())
	var rules []string
	for k := range perRule {
		rules = append(rules, k)
	}
	sort.Strings(rules)
	for _, k := range rules {
		fmt.Printf("  rule %-34s sites=%d\n", k, perRule[k])
	}
	if nviol > 0 {
		vpath := filepath.Join(evDir, r.Prop+".violations.json")
		vb, _ := json.MarshalIndent(viols, "", " ")
		os.WriteFile(vpath, vb, 0o644)
		for _, o := range viols {
			fmt.Printf("  violated %s at %s: %s\n", o.Key, o.Pos, o.Detail)
		}
		fmt.Printf("VIOLATION property=%s replay=%s\n", r.Prop, vpath)
		return 1
	}
	os.Remove(filepath.Join(evDir, r.Prop+".violations.json"))
	return 0
}

func keysOf(obs []*Obligation) []string {
	var ks []string
	for _, o := range obs {
		ks = append(ks, o.Key+" ["+string(o.Verdict)+"]")
	}
	return ks
}

// commaOkKind: role of boolean variables assigned as the second value of a type
// assertion ("typeassert"), a map lookup ("lookup") or a channel receive ("recv").
var commaOkKind = map[types.Object]string{}
