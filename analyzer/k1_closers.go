package main

import (
	"go/ast"
	"go/token"
	"go/types"
	"strings"

	"golang.org/x/tools/go/cfg"
)

// K1 for closable resources: a value obtained from a call inside a function
// whose type has a `Close() error` method (index readers, KV readers and
// iterators, field dictionaries, bolt handles, files) is closed on every
// non-panicking exit of that function - directly, by a defer, inside a deferred
// closure - or handed over: returned, stored into a field / literal / slice /
// map, sent on a channel, or captured by a closure that closes it.

func hasCloseMethod(t types.Type) bool {
	if t == nil {
		return false
	}
	ms := types.NewMethodSet(t)
	for i := 0; i < ms.Len(); i++ {
		m := ms.At(i).Obj()
		if m.Name() == "Close" {
			if sig, ok := m.Type().(*types.Signature); ok && sig.Params().Len() == 0 && sig.Results().Len() == 1 && isErrorType(sig.Results().At(0).Type()) {
				return true
			}
		}
	}
	if _, isPtr := t.(*types.Pointer); !isPtr {
		if _, isIface := t.Underlying().(*types.Interface); !isIface {
			return hasCloseMethod(types.NewPointer(t))
		}
	}
	return false
}

type closerHeld struct {
	Key  string
	Exit Exit
	Acq  ast.Node
}

func checkClosers(info *types.Info, body *ast.BlockStmt, acqFilter func(c *ast.CallExpr, f *types.Func) bool) (held []closerHeld, acquired int) {
	// acquisitions: x, err := call()
	type acq struct {
		v       types.Object
		errVar  types.Object
		errVars map[types.Object]bool // error variables of every acquisition into v
		stmt    *ast.AssignStmt
	}
	acqs := map[*ast.AssignStmt]acq{}
	byName := map[string]acq{} // key: name@declpos
	kOf := func(v types.Object) string { return v.Name() + "@" + itoa(int(v.Pos())) }
	inspectNoLit(body, func(x ast.Node) bool {
		as, ok := x.(*ast.AssignStmt)
		if !ok || len(as.Rhs) != 1 || len(as.Lhs) == 0 {
			return true
		}
		c, ok := as.Rhs[0].(*ast.CallExpr)
		if !ok {
			return true
		}
		id, ok := as.Lhs[0].(*ast.Ident)
		if !ok || id.Name == "_" {
			return true
		}
		v := info.ObjectOf(id)
		if v == nil || !hasCloseMethod(v.Type()) {
			return true
		}
		f := callee(info, c)
		if acqFilter != nil && !acqFilter(c, f) {
			return true
		}
		a := acq{v: v, stmt: as}
		if len(as.Lhs) >= 2 {
			if eid, ok := as.Lhs[len(as.Lhs)-1].(*ast.Ident); ok {
				if eo := info.ObjectOf(eid); eo != nil && isErrorType(eo.Type()) {
					a.errVar = eo
				}
			}
		}
		// variables of an enclosing function (assigned from inside a callback) are not this body's to close
		if !declaredWithin(info, body, v) {
			return true
		}
		a.errVars = map[types.Object]bool{}
		if prev, ok := byName[kOf(v)]; ok {
			a.errVars = prev.errVars
		}
		if a.errVar != nil {
			a.errVars[a.errVar] = true
		}
		acqs[as] = a
		byName[kOf(v)] = a
		return true
	})
	if len(acqs) == 0 {
		return nil, 0
	}
	keyOf := func(e ast.Expr) string {
		if id, ok := ast.Unparen(e).(*ast.Ident); ok {
			if o := info.ObjectOf(id); o != nil {
				if _, ok := byName[kOf(o)]; ok {
					return kOf(o)
				}
			}
		}
		return ""
	}
	// mentions: the resource appears as a VALUE (not merely as the receiver of a method call or the base of a field access)
	mentions := func(n ast.Node) []string {
		var out []string
		skip := map[*ast.Ident]bool{}
		ast.Inspect(n, func(x ast.Node) bool {
			if sel, ok := x.(*ast.SelectorExpr); ok {
				if id, ok := sel.X.(*ast.Ident); ok {
					skip[id] = true
				}
			}
			return true
		})
		ast.Inspect(n, func(x ast.Node) bool {
			if id, ok := x.(*ast.Ident); ok && !skip[id] {
				if k := keyOf(id); k != "" {
					out = append(out, k)
				}
			}
			return true
		})
		return out
	}
	g := buildCFG(info, body)
	fl := &Flow{F: g, Must: false, Entry: Set{}}
	fl.Transfer = func(n ast.Node, in Set) Set {
		out := in
		switch s := n.(type) {
		case *ast.DeferStmt:
			for _, c := range callsDeep(s.Call) {
				if sel, ok := ast.Unparen(c.Fun).(*ast.SelectorExpr); ok && isReleaseName(sel.Sel.Name) {
					if k := keyOf(sel.X); k != "" {
						out = out.with("deferred:" + k)
					}
				}
				// deferred helper that receives the resource (e.g. defer closeAll(x))
				for _, a := range c.Args {
					if k := keyOf(a); k != "" {
						out = out.with("deferred:" + k)
					}
				}
			}
			return out
		case *ast.GoStmt:
			for _, k := range mentions(s) {
				out = out.without(k) // handed to another goroutine
			}
			return out
		case *ast.ReturnStmt:
			for _, k := range mentions(s) {
				out = out.without(k) // returned (possibly wrapped)
			}
			return out
		case *ast.SendStmt:
			for _, k := range mentions(s.Value) {
				out = out.without(k)
			}
			return out
		case *ast.AssignStmt:
			if _, ok := acqs[s]; ok {
				break // handled after the generic hand-over rules below
			}
			// stored somewhere that outlives the variable
			for i, rhs := range s.Rhs {
				ks := mentions(rhs)
				if len(ks) == 0 {
					continue
				}
				toLocalIdent := false
				if i < len(s.Lhs) {
					if id, ok := s.Lhs[i].(*ast.Ident); ok && keyOf(id) == "" {
						if o := info.ObjectOf(id); o != nil && declaredWithin(info, body, o) {
							// a local alias: keep tracking the original only if the rhs is not the bare resource
							toLocalIdent = true
						}
					}
				}
				// does the assignment hand the resource over?  yes if it is stored into something that is not a
				// plain local (field, element, outer variable), aliased as a whole, put into a literal, or wrapped
				// by a constructor-like call / a call whose result is itself closable; a helper that merely USES
				// the resource (x, err := lookup(reader, ...)) does not take it over
				handsOver := !toLocalIdent
				if toLocalIdent {
					switch rx := ast.Unparen(rhs).(type) {
					case *ast.Ident:
						handsOver = true // plain alias: stop tracking (conservative: no report)
					case *ast.CompositeLit, *ast.UnaryExpr:
						handsOver = true
					case *ast.CallExpr:
						nm := calleeShortName(info, rx)
						if strings.HasPrefix(nm, "New") || strings.HasPrefix(nm, "new") || (i < len(s.Lhs) && hasCloseMethod(info.TypeOf(s.Lhs[i]))) {
							handsOver = true
						}
					default:
						handsOver = true
					}
				}
				if handsOver {
					for _, k := range ks {
						out = out.without(k)
					}
				}
			}
		}
		for _, c := range callsIn(n) {
			if sel, ok := ast.Unparen(c.Fun).(*ast.SelectorExpr); ok && isReleaseName(sel.Sel.Name) {
				if k := keyOf(sel.X); k != "" {
					out = out.without(k)
				}
			}
			// append(slice, x), constructor-like calls taking ownership
			nm := calleeShortName(info, c)
			if calleeBuiltin(info, c) == "append" || strings.HasPrefix(nm, "New") || strings.HasPrefix(nm, "new") {
				for _, a := range c.Args {
					if k := keyOf(a); k != "" {
						out = out.without(k)
					}
				}
			}
		}
		// composite literals holding the resource
		ast.Inspect(n, func(x ast.Node) bool {
			if cl, ok := x.(*ast.CompositeLit); ok {
				for _, k := range mentions(cl) {
					out = out.without(k)
				}
			}
			if fl2, ok := x.(*ast.FuncLit); ok {
				// captured by a closure that closes it
				for _, c := range callsDeep(fl2.Body) {
					if sel, ok := ast.Unparen(c.Fun).(*ast.SelectorExpr); ok && isReleaseName(sel.Sel.Name) {
						if k := keyOf(sel.X); k != "" {
							out = out.without(k)
						}
					}
				}
				return false
			}
			return true
		})
		if as, ok := n.(*ast.AssignStmt); ok {
			if a, ok := acqs[as]; ok {
				out = out.with(kOf(a.v))
			}
		}
		return out
	}
	fl.Edge = func(from *cfg.Block, succ int, out Set) (Set, bool) {
		cond, tag, ok := branchCond(from)
		if !ok || tag != nil {
			return out, true
		}
		var facts []Fact
		splitCond(cond, succ == 0, &facts)
		// the error variable tested here was last written by which statement of this block?
		lastDefIsAcqOf := func(errObj types.Object, res types.Object) bool {
			for i := len(from.Nodes) - 1; i >= 0; i-- {
				as, ok := from.Nodes[i].(*ast.AssignStmt)
				if !ok {
					continue
				}
				for _, l := range as.Lhs {
					if objOf(info, l) == errObj {
						a, isAcq := acqs[as]
						return isAcq && a.v == res
					}
				}
			}
			return false
		}
		if be, ok := ast.Unparen(cond).(*ast.BinaryExpr); ok && be.Op == token.LOR && succ == 0 {
			// `x == nil || err != nil` (true edge): the resource is absent if EACH disjunct alone implies it
			for _, a := range byName {
				all := true
				var ds []Fact
				splitCondAny(cond, &ds)
				for _, d := range ds {
					e, isEq, isNil := nilTest(info, d.Expr)
					o := objOf(info, e)
					kills := isNil && ((o != nil && a.errVars[o] && !isEq && lastDefIsAcqOf(o, a.v)) || (o == a.v && isEq))
					if !kills {
						all = false
					}
				}
				if all && out[kOf(a.v)] {
					out = out.without(kOf(a.v))
				}
			}
		}
		for _, f := range facts {
			e, isEq, isNil := nilTest(info, f.Expr)
			if !isNil {
				continue
			}
			o := objOf(info, e)
			for _, a := range byName {
				if o != nil && a.errVars[o] && o != a.v && !lastDefIsAcqOf(o, a.v) {
					continue
				}
				// acquisition failed: err != nil holds
				if o != nil && a.errVars[o] && (isEq != f.Truth) && out[kOf(a.v)] {
					out = out.without(kOf(a.v))
				}
				// resource itself nil
				if o == a.v && (isEq == f.Truth) && out[kOf(a.v)] {
					out = out.without(kOf(a.v))
				}
			}
		}
		return out, true
	}
	fl.Solve()
	for _, ex := range g.Exits() {
		if ex.Kind == ExitPanic {
			continue
		}
		s, ok := fl.AtEnd(ex.B)
		if !ok {
			continue
		}
		for _, k := range s.sorted() {
			if strings.HasPrefix(k, "deferred:") || s["deferred:"+k] {
				continue
			}
			held = append(held, closerHeld{Key: k, Exit: ex, Acq: byName[k].stmt})
		}
	}
	return held, len(acqs)
}

func ruleClosersClosed(r *Report, rule string, pkgFilter func(rel string) bool, acqFilter func(c *ast.CallExpr, f *types.Func) bool, allow map[string]string) int {
	p := r.P
	n := 0
	for _, fi := range p.flist {
		if fi.Decl.Body == nil || !pkgFilter(relPkg(fi.Pkg.PkgPath)) {
			continue
		}
		info := fi.Pkg.TypesInfo
		for _, bu := range bodiesOf(fi) {
			held, acq := checkClosers(info, bu.Body, acqFilter)
			if acq == 0 {
				continue
			}
			n += acq
			r.Fn(fi)
			if len(held) == 0 {
				r.Ob(rule, bu.Name, bu.Body.Pos(), true, "every closable value obtained here is closed or handed over on all exits")
				continue
			}
			seen := map[string]bool{}
			for _, h := range held {
				if seen[h.Key] {
					continue
				}
				seen[h.Key] = true
				pos := bu.Body.End()
				if k := len(h.Exit.B.Nodes); k > 0 {
					pos = h.Exit.B.Nodes[k-1].Pos()
				}
				h.Key = h.Key[:strings.Index(h.Key, "@")]
				acqName := ""
				if as, ok := h.Acq.(*ast.AssignStmt); ok && len(as.Rhs) == 1 {
					if ce, ok := as.Rhs[0].(*ast.CallExpr); ok {
						acqName = calleeShortName(info, ce)
					}
				}
				if why, ok := allow[bu.Name+"/"+acqName]; ok {
					r.Allow(rule, bu.Name+"/"+h.Key, pos, why)
					continue
				}
				r.Ob(rule, bu.Name+"/"+h.Key, pos, false, "exit at "+p.Pos(pos)+" may leave "+h.Key+" (obtained at "+p.Pos(h.Acq.Pos())+") unclosed: no Close, deferred Close or hand-over on this path")
			}
		}
	}
	return n
}

func isReleaseName(n string) bool {
	return n == "Close" || n == "DecRef" || n == "CloseCopyReader"
}
