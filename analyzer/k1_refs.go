package main

import (
	"go/ast"
	"go/types"
	"strings"
)

// refSpec: AddRef / DecRef on *IndexSnapshot values (package scorch).
var refSpec = pairSpec{Name: "ref", Classify: func(info *types.Info, call *ast.CallExpr) (pairEvent, bool) {
	f := callee(info, call)
	if f == nil {
		return pairEvent{}, false
	}
	sel, ok := ast.Unparen(call.Fun).(*ast.SelectorExpr)
	if !ok {
		return pairEvent{}, false
	}
	if !methodIs(scorchPkg, "IndexSnapshot", f.Name())(f) {
		return pairEvent{}, false
	}
	recv := exprStr(sel.X)
	switch f.Name() {
	case "AddRef":
		return pairEvent{true, recv}, true
	case "DecRef", "Close":
		return pairEvent{false, recv}, true
	}
	return pairEvent{}, false
}}

// ruleRefPairing (K1): every IndexSnapshot reference taken with AddRef inside
// a function of package scorch is released on all exits, or its ownership is
// transferred in one of the recognised ways.
func ruleRefPairing(r *Report, rule string) {
	st := pairStats{}
	for _, fi := range r.P.funcsInPkg(scorchPkg) {
		for _, bu := range bodiesOf(fi) {
			before := st.Funcs
			held := checkPairing(refSpec, fi.Pkg, bu.Name, bu.Body, &st)
			if st.Funcs == before {
				continue
			}
			r.Fn(fi)
			if len(held) == 0 {
				r.Ob(rule, bu.Name, bu.Body.Pos(), true, "every AddRef'd snapshot is DecRef'd (directly or deferred) on all exits")
				continue
			}
			seen := map[string]bool{}
			for _, h := range held {
				if seen[h.Key] {
					continue
				}
				seen[h.Key] = true
				pos := bu.Body.End()
				if n := len(h.Exit.B.Nodes); n > 0 {
					pos = h.Exit.B.Nodes[n-1].Pos()
				}
				if why, ok := refTransfer(fi, bu, h); ok {
					r.Allow(rule, bu.Name+"/"+h.Key, pos, why)
					continue
				}
				r.Ob(rule, bu.Name+"/"+h.Key, pos, false, "exit at "+r.P.Pos(pos)+" may leave the reference taken on "+h.Key+" un-released (a leaked snapshot ref keeps its epoch out of eligibleForRemoval and its segment files open forever)")
			}
		}
	}
}

// refTransfer recognises ownership transfers of a held snapshot reference.
func refTransfer(fi *FuncInfo, bu bodyUnit, h heldExit) (string, bool) {
	info := fi.Pkg.TypesInfo
	key := h.Key
	// (1) returned to the caller
	if h.Exit.Ret != nil {
		for _, res := range h.Exit.Ret.Results {
			if exprStr(ast.Unparen(res)) == key {
				return "ownership transfer: the referenced snapshot is returned to the caller", true
			}
		}
	}
	// (2) the variable is returned by ANY return of the function (e.g. rv := s.root; rv.AddRef(); ... return rv)
	returned := false
	inspectNoLit(bu.Body, func(n ast.Node) bool {
		if rs, ok := n.(*ast.ReturnStmt); ok {
			for _, res := range rs.Results {
				if exprStr(ast.Unparen(res)) == key {
					returned = true
				}
			}
		}
		return true
	})
	if returned && h.Exit.Ret != nil {
		for _, res := range h.Exit.Ret.Results {
			if exprStr(ast.Unparen(res)) == key {
				return "returned", true
			}
		}
	}
	// (3) stored into a composite literal / field / sent on a channel after the AddRef
	transferred := ""
	ast.Inspect(bu.Body, func(n ast.Node) bool {
		switch x := n.(type) {
		case *ast.KeyValueExpr:
			if exprStr(ast.Unparen(x.Value)) == key {
				transferred = "ownership transfer: stored into a struct literal field (" + exprStr(x.Key) + ") handed to another owner"
			}
		case *ast.SendStmt:
			if strings.Contains(exprStr(x.Value), key) {
				transferred = "ownership transfer: sent on channel " + exprStr(x.Chan)
			}
		case *ast.AssignStmt:
			for i, rhs := range x.Rhs {
				if exprStr(ast.Unparen(rhs)) == key && i < len(x.Lhs) {
					if _, isSel := ast.Unparen(x.Lhs[i]).(*ast.SelectorExpr); isSel {
						transferred = "ownership transfer: stored into field " + exprStr(x.Lhs[i])
					}
				}
			}
		}
		return true
	})
	if transferred != "" {
		return transferred, true
	}
	// (4) the new root: newSnapshot.AddRef() "1 ref for the nextMerge.notify response" handled by (3)
	_ = info
	return "", false
}
