package main

import (
	"go/ast"
	"go/token"
	"go/types"
	"strings"
)

func init() { register("C20", propC20) }

func propC20(r *Report, tier string) {
	r.Explanation = "Structural necessary conditions of 'nested-object search respects object boundaries and returns each parent once': (a) in the segment introducer, for segments that implement NestedSegment the exclusion bitmap finally stored is AddNestedDocuments applied to the complete union (old exclusions + this batch, optimistic or recomputed), after every other store to it and before the segment snapshot is appended: deleting/replacing a parent obsoletes its children in the same root swap, also on the recompute path; (b) DocCount sums the live ROOT document count and CountRoot passes the segment's exclusion bitmap; (c) collector: when a nested store exists every match goes through ProcessNestedDocument before it is prepared/handled, and the pending root is flushed after the loop; (d) collector/searcher selection: the search context is put in nested mode iff the mapping has nested fields; the nested collector is chosen iff nested mode and the query touches _id or intersects a nested prefix; ConjunctionQuery.Searcher chooses the nested conjunction iff commonDepth < maxDepth with _all/_id forcing depth 0; (e) NestedConjunctionSearcher.Advance hands back a buffered match that is at/after the target instead of discarding it; (f) K13 ExtractFields covers every compound query type."
	r.NotCovered = "the element-boundary semantics of the nested conjunction join itself, ancestor computation inside zapx, results"
	in := findIntroducers(r.P)
	ruleNestedDeletesInIntroducer(r, in, "K5dep-nested-deletes")
	ruleExclusionAtReadSites(r, "K8-exclusion-at-read-sites")
	ruleNestedCollectorFold(r, "K5-nested-fold")
	ruleNestedSelection(r, "K5-nested-selection")
	ruleNestedAdvanceBuffered(r, "K12-nested-advance-buffered")
	ruleCompoundSwitchCoverage(r, "K13-compound-coverage")
	ruleNestedDepthCarriedByRecursion(r, "K5dep-nested-depth-carried")
	ruleAccumulatingWalkVisitsWholeTree(r, "K13-accumulating-walk-whole-tree", "search/query")
	rulePivotFixedDuringAlignment(r, "K14-pivot-fixed-during-alignment")
	ruleNestedAdvanceTargetsJoinLevel(r, "K5dep-nested-advance-join-level")
	ruleParallelSlotsUpdatedTogether(r, "K14-parallel-slots", "search/searcher", "NestedConjunctionSearcher", "currs", []string{"currAncestors", "currKeys"})
	r.Floor("K5dep-nested-deletes", 1)
	r.Floor("K5-nested-fold", 3)
	r.Floor("K5-nested-selection", 4)
	r.Floor("K12-nested-advance-buffered", 1)
}

func ruleNestedDeletesInIntroducer(r *Report, in introducers, rule string) {
	fi := in.Segment
	r.Fn(fi)
	info := fi.Pkg.TypesInfo
	g := buildCFG(info, fi.Decl.Body)
	fresh := freshVarsOfType(fi, "SegmentSnapshot")
	n := 0
	for _, v := range fresh {
		// carriers of the exclusion bitmap: the field v.deleted, and any local whose value is stored into it
		// (`deleted := ...; deleted = ns.AddNestedDocuments(deleted); v.deleted = deleted`)
		carriers := map[types.Object]bool{}
		var transfers []fieldStore
		var stores []fieldStore
		for _, st := range storesToField(info, fi.Decl.Body, "SegmentSnapshot", "deleted") {
			if id := baseIdent(st.Lhs.X); id != nil && info.ObjectOf(id) == v {
				if lid, ok := ast.Unparen(st.Rhs).(*ast.Ident); ok && st.Rhs != nil {
					if lv, ok := info.ObjectOf(lid).(*types.Var); ok && !lv.IsField() && lv.Parent() != lv.Pkg().Scope() {
						carriers[lv] = true
						transfers = append(transfers, st)
						continue
					}
				}
				stores = append(stores, st)
			}
		}
		isCarrier := func(e ast.Expr) bool {
			e = ast.Unparen(e)
			if isField(info, e, "SegmentSnapshot", "deleted") {
				if sel, ok := e.(*ast.SelectorExpr); ok && objOf(info, sel.X) == v {
					return true
				}
			}
			if id, ok := e.(*ast.Ident); ok && carriers[info.ObjectOf(id)] {
				return true
			}
			return false
		}
		if len(carriers) > 0 {
			ast.Inspect(fi.Decl.Body, func(x ast.Node) bool {
				as, ok := x.(*ast.AssignStmt)
				if !ok || len(as.Lhs) != len(as.Rhs) {
					return true
				}
				for k, l := range as.Lhs {
					if id, ok := l.(*ast.Ident); ok && carriers[info.ObjectOf(id)] {
						stores = append(stores, fieldStore{as, nil, as.Rhs[k], as.Tok})
					}
				}
				return true
			})
		}
		if len(stores) == 0 && len(transfers) == 0 {
			continue
		}
		n++
		var nested *fieldStore
		for i := range stores {
			if c, ok := ast.Unparen(stores[i].Rhs).(*ast.CallExpr); ok && stores[i].Rhs != nil {
				if f := callee(info, c); f != nil && f.Name() == "AddNestedDocuments" {
					nested = &stores[i]
				}
			}
		}
		if nested == nil {
			pos := fi.Decl.Pos()
			if len(stores) > 0 {
				pos = stores[0].Stmt.Pos()
			}
			r.Ob(rule, fi.Name+"/"+v.Name()+".deleted=AddNestedDocuments(...)", pos, false, "the introducer never expands the exclusion bitmap of a carried-over segment with the nested children of the excluded documents: a deleted/replaced parent's children stay live (on the recompute path too, where no earlier phase could have done it)")
			continue
		}
		c := ast.Unparen(nested.Rhs).(*ast.CallExpr)
		// argument is the same bitmap being expanded
		okArg := len(c.Args) == 1 && isCarrier(c.Args[0])
		// guarded only by the NestedSegment type assertion on v.segment
		okGuard := true
		for _, f := range g.RawGuardsOf(nested.Stmt) {
			if !benignBitmapGuard(info, f) {
				okGuard = false
			}
		}
		hasAssert := false
		for _, anc := range enclosing(fi.Decl.Body, nested.Stmt) {
			if is, ok := anc.(*ast.IfStmt); ok && is.Init != nil {
				if as, ok := is.Init.(*ast.AssignStmt); ok && len(as.Rhs) == 1 {
					if ta, ok := ast.Unparen(as.Rhs[0]).(*ast.TypeAssertExpr); ok && strings.HasSuffix(exprStr(ta.Type), "NestedSegment") {
						hasAssert = true
					}
				}
			}
		}
		r.Ob(rule, fi.Name+"/"+v.Name()+".deleted=AddNestedDocuments("+v.Name()+".deleted)", nested.Stmt.Pos(), okArg && okGuard && hasAssert, "for segments implementing NestedSegment the exclusion bitmap is replaced by AddNestedDocuments of itself, conditional only on the type assertion")
		// it is the LAST store: every other store can reach it, it reaches none of them;
		// a transfer of the local into the field comes after it
		okLast := true
		for i := range stores {
			if &stores[i] == nested {
				continue
			}
			if !g.ReachesFwdNode(stores[i].Stmt, g.condOf(nested.Stmt)) || g.ReachesFwdNode(nested.Stmt, stores[i].Stmt) {
				okLast = false
			}
		}
		if nested.Lhs == nil { // the expansion is applied to a local: it must flow into the field afterwards
			flows := false
			for _, t := range transfers {
				if g.ReachesFwdNode(nested.Stmt, t.Stmt) {
					flows = true
				}
			}
			if !flows {
				okLast = false
			}
		}
		r.Ob(rule, fi.Name+"/nested-expansion-applied-to-the-final-union", nested.Stmt.Pos(), okLast, "the nested expansion runs after the union of old exclusions and this batch's deletions has been stored (including the recomputed delta), never before")
		// and before the snapshot is appended
		okBefore := false
		for _, st := range storesToField(info, fi.Decl.Body, "IndexSnapshot", "segment") {
			if cc, ok := st.Rhs.(*ast.CallExpr); ok && calleeBuiltin(info, cc) == "append" && len(cc.Args) == 2 && objOf(info, cc.Args[1]) == v {
				okBefore = g.ReachesFwdNode(g.condOf(nested.Stmt), st.Stmt) && !g.ReachesFwdNode(st.Stmt, nested.Stmt)
			}
		}
		r.Ob(rule, fi.Name+"/nested-expansion-before-publication", nested.Stmt.Pos(), okBefore, "the expanded bitmap is in place before the segment snapshot joins the new root")
	}
	if n == 0 {
		undecidedf("%s: no carried-over segment snapshot found", fi.Name)
	}
}

func ruleNestedCollectorFold(r *Report, rule string) {
	p := r.P
	fi := p.MustFunc("search/collector.(*TopNCollector).Collect")
	r.Fn(fi)
	info := fi.Pkg.TypesInfo
	g := buildCFG(info, fi.Decl.Body)
	var proc, cur *ast.CallExpr
	for _, c := range callsIn(fi.Decl.Body) {
		f := callee(info, c)
		if f == nil {
			continue
		}
		if f.Name() == "ProcessNestedDocument" {
			proc = c
		}
		if f.Name() == "Current" {
			if sel, ok := ast.Unparen(c.Fun).(*ast.SelectorExpr); ok && isField(info, sel.X, "TopNCollector", "nestedStore") {
				cur = c
			}
		}
	}
	if proc == nil || cur == nil {
		r.Ob(rule, fi.Name+"/nested-store-used", fi.Decl.Pos(), false, "ProcessNestedDocument / Current not found")
		return
	}
	// guard: nestedStore != nil only
	okGuard := false
	for _, f := range g.GuardsOf(proc) {
		if x, isEq, ok := nilTest(info, f.Expr); ok && isField(info, x, "TopNCollector", "nestedStore") && (isEq != f.Truth) {
			okGuard = true
		}
	}
	// in-loop handler/prepare calls are reachable only after the fold point (its if)
	okOrder := true
	var loop *ast.ForStmt
	for _, anc := range enclosing(fi.Decl.Body, proc) {
		if fs, ok := anc.(*ast.ForStmt); ok {
			loop = fs
		}
	}
	if loop == nil {
		okOrder = false
	} else {
		for _, c := range callsIn(loop.Body) {
			name := ""
			if f := callee(info, c); f != nil {
				name = f.Name()
			} else if id, ok := ast.Unparen(c.Fun).(*ast.Ident); ok {
				name = id.Name
			}
			if name == "basicPrepare" || name == "prepareDocumentMatch" || name == "dmHandler" {
				if !g.DominatesNode(g.condOf(proc), c) || g.ReachesNode(c, proc) && !blockInLoopNode(g, c) {
					okOrder = false
				}
			}
		}
	}
	r.Ob(rule, fi.Name+"/every-match-folded-before-prepare/handle", proc.Pos(), okGuard && okOrder, "when a nested store exists each match from the searcher passes ProcessNestedDocument (which folds descendants into their root and yields only complete roots) before it is prepared or handed to the store")
	// the variable fed to the handler is the fold's result
	res := false
	for _, anc := range enclosing(fi.Decl.Body, proc) {
		if as, ok := anc.(*ast.AssignStmt); ok && len(as.Lhs) >= 1 {
			if objOf(info, as.Lhs[0]) == objOf(info, proc.Args[len(proc.Args)-1]) && objOf(info, as.Lhs[0]) != nil {
				res = true
			}
		}
	}
	r.Ob(rule, fi.Name+"/fold-result-replaces-the-match", proc.Pos(), res, "the (possibly nil) root returned by the fold replaces the raw match for the rest of the iteration")
	// flush after the loop: Current() after loop, and handler called on it
	okFlush := loop != nil && cur.Pos() > loop.End()
	handled := false
	if okFlush {
		var rootObj types.Object
		for _, anc := range enclosing(fi.Decl.Body, cur) {
			if as, ok := anc.(*ast.AssignStmt); ok && len(as.Lhs) == 1 {
				rootObj = objOf(info, as.Lhs[0])
			}
		}
		for _, c := range callsIn(fi.Decl.Body) {
			if id, ok := ast.Unparen(c.Fun).(*ast.Ident); ok && isMatchHandlerVar(info, id) && len(c.Args) == 1 && objOf(info, c.Args[0]) == rootObj && rootObj != nil {
				handled = true
			}
		}
	}
	r.Ob(rule, fi.Name+"/pending-root-flushed-after-loop", cur.Pos(), okFlush && handled, "after the last match the root still buffered in the nested store (Current()) is prepared and handed to the handler")
}

func blockInLoopNode(g *FCFG, n ast.Node) bool {
	l, ok := g.Locate(n)
	return ok && blockInLoop(g, l)
}

func ruleNestedSelection(r *Report, rule string) {
	p := r.P
	// (1) SearchInContext sets nested mode iff CountNested() > 0
	si := p.MustFunc("bleve.(*indexImpl).SearchInContext")
	r.Fn(si)
	info := si.Pkg.TypesInfo
	g := buildCFG(info, si.Decl.Body)
	okMode := false
	for _, c := range callsIn(si.Decl.Body) {
		f := callee(info, c)
		if f == nil || qname(f) != "context.WithValue" || len(c.Args) != 3 {
			continue
		}
		if sel, ok := ast.Unparen(c.Args[1]).(*ast.SelectorExpr); !ok || sel.Sel.Name != "NestedSearchKey" {
			continue
		}
		if exprStr(c.Args[2]) != "true" {
			continue
		}
		for _, fct := range g.GuardsOf(c) {
			be, ok := ast.Unparen(fct.Expr).(*ast.BinaryExpr)
			if ok && fct.Truth && be.Op == token.GTR && exprStr(be.Y) == "0" && strings.HasSuffix(exprStr(be.X), ".CountNested()") {
				okMode = true
			}
		}
	}
	r.Ob(rule, si.Name+"/nested-mode-iff-mapping-has-nested-fields", si.Decl.Pos(), okMode, "the search context is marked nested exactly when the mapping reports CountNested() > 0")
	// (2) buildTopNCollector
	bc := p.MustFunc("bleve.(*indexImpl).buildTopNCollector")
	r.Fn(bc)
	binfo := bc.Pkg.TypesInfo
	bg := buildCFG(binfo, bc.Decl.Body)
	modeVars := nestedModeVars(binfo, bc.Decl.Body)
	// construction sites by role: direct calls of the collector constructors, or calls of a local closure that wraps them
	nestedCtor := func(f *types.Func) bool { return f != nil && strings.HasPrefix(f.Name(), "NewNestedTopNCollector") }
	plainCtor := func(f *types.Func) bool { return f != nil && strings.HasPrefix(f.Name(), "NewTopNCollector") }
	nestedClosures := map[types.Object]bool{}
	ctorKinds := map[string]bool{}
	ast.Inspect(bc.Decl.Body, func(x ast.Node) bool {
		if c, ok := x.(*ast.CallExpr); ok {
			if f := callee(binfo, c); nestedCtor(f) || plainCtor(f) {
				ctorKinds[f.Name()] = true
			}
		}
		as, ok := x.(*ast.AssignStmt)
		if !ok || len(as.Lhs) != 1 || len(as.Rhs) != 1 {
			return true
		}
		if fl, ok := as.Rhs[0].(*ast.FuncLit); ok {
			for _, c := range callsDeep(fl.Body) {
				if nestedCtor(callee(binfo, c)) {
					nestedClosures[objOf(binfo, as.Lhs[0])] = true
				}
			}
		}
		return true
	})
	okSel := false
	nSites := 0
	for _, c := range callsIn(bc.Decl.Body) {
		isSite := nestedCtor(callee(binfo, c))
		if id, ok := ast.Unparen(c.Fun).(*ast.Ident); ok && nestedClosures[binfo.ObjectOf(id)] {
			isSite = true
		}
		if !isSite {
			continue
		}
		nSites++
		var hasMode, hasFields bool
		for _, f := range bg.GuardsOf(c) {
			if f.Truth && modeVars[objOf(binfo, f.Expr)] {
				hasMode = true
			}
		}
		// a condition on the extracted field set: touches _id or a nested prefix
		facts := factsString(bg.GuardsOf(c))
		for _, anc := range enclosing(bc.Decl.Body, c) {
			if is, ok := anc.(*ast.IfStmt); ok {
				facts += " " + exprStr(is.Cond)
			}
		}
		if strings.Contains(facts, "HasID()") && strings.Contains(facts, "IntersectsPrefix(") {
			hasFields = true
		}
		okSel = hasMode && hasFields
		if !okSel {
			break
		}
	}
	if nSites == 0 {
		okSel = false
	}
	r.Ob(rule, bc.Name+"/nested-collector-iff-mode-and-(id-or-nested-prefix)", bc.Decl.Pos(), okSel, "the nested collector is used when the context is in nested mode and the query touches _id or a field under a nested prefix")
	// every paging variant of the plain collector has its nested counterpart in this function
	pairOK := true
	missing := ""
	for k := range ctorKinds {
		if strings.HasPrefix(k, "NewTopNCollector") {
			if want := "NewNested" + strings.TrimPrefix(k, "New"); !ctorKinds[want] {
				pairOK, missing = false, want
			}
		}
	}
	r.Ob(rule, bc.Name+"/every-plain-collector-variant-has-a-nested-one", bc.Decl.Pos(), pairOK && len(ctorKinds) >= 4, "buildTopNCollector constructs plain collectors in several paging variants (From/Size, SearchAfter); each needs its nested counterpart, otherwise that paging mode returns un-folded nested documents ("+missing+" is never constructed)")
	okExtract := len(callsMatching(binfo, bc.Decl.Body, func(f *types.Func) bool { return f.Name() == "ExtractFields" })) == 1
	r.Ob(rule, bc.Name+"/fields-from-ExtractFields(req.Query)", bc.Decl.Pos(), okExtract, "the field set is extracted from the request's query")
	// (3) ConjunctionQuery.Searcher
	cq := p.MustFunc(queryPkg + ".(*ConjunctionQuery).Searcher")
	r.Fn(cq)
	cinfo := cq.Pkg.TypesInfo
	cg := buildCFG(cinfo, cq.Decl.Body)
	cmodeVars := nestedModeVars(cinfo, cq.Decl.Body)
	commonV, maxV := nestedDepthVars(cinfo, cq.Decl.Body)
	if commonV == nil || len(cmodeVars) == 0 {
		undecidedf("%s: nested-mode flag / NestedDepth results not found", cq.Name)
	}
	okConj := false
	for _, c := range callsIn(cq.Decl.Body) {
		if f := callee(cinfo, c); f != nil && f.Name() == "NewNestedConjunctionSearcher" {
			var lt, mode bool
			for _, fct := range cg.GuardsOf(c) {
				if be, ok := ast.Unparen(fct.Expr).(*ast.BinaryExpr); ok && commonV != nil && ((fct.Truth && be.Op == token.LSS && objOf(cinfo, be.X) == commonV && objOf(cinfo, be.Y) == maxV) || (fct.Truth && be.Op == token.GTR && objOf(cinfo, be.X) == maxV && objOf(cinfo, be.Y) == commonV) || (!fct.Truth && be.Op == token.GEQ && objOf(cinfo, be.X) == commonV && objOf(cinfo, be.Y) == maxV)) {
					lt = true
				}
				if fct.Truth && cmodeVars[objOf(cinfo, fct.Expr)] {
					mode = true
				}
			}
			okConj = lt && mode
		}
	}
	r.Ob(rule, cq.Name+"/nested-conjunction-iff-commonDepth<maxDepth", cq.Decl.Pos(), okConj, "the nested conjunction searcher joins the conjuncts on their common ancestor exactly when they do not all live at one nesting depth")
	okForce := false
	ast.Inspect(cq.Decl.Body, func(x ast.Node) bool {
		if is, ok := x.(*ast.IfStmt); ok {
			s := exprStr(is.Cond)
			if strings.Contains(s, "HasAll()") && strings.Contains(s, "HasID()") {
				for _, st := range is.Body.List {
					if as, ok := st.(*ast.AssignStmt); ok && objOf(cinfo, as.Lhs[0]) == commonV && exprStr(as.Rhs[0]) == "0" {
						okForce = true
					}
				}
			}
		}
		return true
	})
	r.Ob(rule, cq.Name+"/_all,_id-force-root-depth", cq.Decl.Pos(), okForce, "conjuncts on _all or _id match at the root: they force common depth 0")
}

func ruleNestedAdvanceBuffered(r *Report, rule string) {
	p := r.P
	fi := p.MustFunc(searcherPkg + ".(*NestedConjunctionSearcher).Advance")
	r.Fn(fi)
	info := fi.Pkg.TypesInfo
	g := buildCFG(info, fi.Decl.Body)
	sig := fi.Obj.Type().(*types.Signature)
	target := sig.Params().At(1)
	// a dequeued match is returned when it compares >= target
	var deq types.Object
	ast.Inspect(fi.Decl.Body, func(x ast.Node) bool {
		as, ok := x.(*ast.AssignStmt)
		if !ok || len(as.Lhs) != 1 || len(as.Rhs) != 1 {
			return true
		}
		if c, ok := as.Rhs[0].(*ast.CallExpr); ok {
			if f := callee(info, c); f != nil && f.Name() == "Dequeue" {
				deq = objOf(info, as.Lhs[0])
			}
		}
		return true
	})
	ok := false
	if deq != nil {
		for _, rs := range returnsOf(fi.Decl.Body) {
			if len(rs.Results) != 2 || objOf(info, rs.Results[0]) != deq {
				continue
			}
			for _, f := range g.GuardsOf(rs) {
				c, op, isCmp := targetCompare(info, fi.Decl.Body, f.Expr, map[string]bool{target.Name(): true})
				if isCmp && c != nil && ((op == token.GEQ && f.Truth) || (op == token.LSS && !f.Truth)) {
					ok = true
				}
			}
		}
	}
	r.Ob(rule, fi.Name+"/buffered-match-at-or-after-target-is-returned", fi.Decl.Pos(), ok, "matches already produced and buffered by the nested conjunction belong to the ancestor group the sub-searchers have moved past; Advance must hand back the first buffered one that is >= the target instead of recycling the buffer (a boolean/disjunction parent advancing onto that group would otherwise lose it)")
}

// nestedModeVars: variables assigned from ctx.Value(search.NestedSearchKey).(bool) in body (role, not name).
func nestedModeVars(info *types.Info, body ast.Node) map[types.Object]bool {
	out := map[types.Object]bool{}
	ast.Inspect(body, func(x ast.Node) bool {
		as, ok := x.(*ast.AssignStmt)
		if !ok || len(as.Rhs) != 1 || len(as.Lhs) < 1 {
			return true
		}
		if strings.Contains(exprStr(as.Rhs[0]), "NestedSearchKey") {
			if o := objOf(info, as.Lhs[0]); o != nil {
				out[o] = true
			}
		}
		return true
	})
	return out
}

// nestedDepthVars: (common, max) = the two results of the NestedDepth call (role, not name).
func nestedDepthVars(info *types.Info, body ast.Node) (types.Object, types.Object) {
	var c, m types.Object
	ast.Inspect(body, func(x ast.Node) bool {
		as, ok := x.(*ast.AssignStmt)
		if !ok || len(as.Rhs) != 1 || len(as.Lhs) != 2 {
			return true
		}
		if call, ok := as.Rhs[0].(*ast.CallExpr); ok {
			if f := callee(info, call); f != nil && f.Name() == "NestedDepth" {
				c, m = objOf(info, as.Lhs[0]), objOf(info, as.Lhs[1])
			}
		}
		return true
	})
	return c, m
}
