package main

import (
	"go/ast"
	"go/types"
	"sort"
	"strings"
)

// K3a: self-deadlock / recursive read-lock.  A method that holds a mutex
// reachable from its receiver (recv.path) must not call, on the same
// receiver, a method that acquires the same mutex path: with sync.RWMutex a
// recursive RLock deadlocks as soon as a writer is queued between the two
// acquisitions, and a recursive Lock deadlocks immediately.

type lockAcq struct {
	path string // field path relative to the receiver, e.g. "mutex" or "s.m"
	mode string
}

// recvName returns the receiver identifier object of a method declaration.
func recvObj(fi *FuncInfo) types.Object {
	if fi.Decl.Recv == nil || len(fi.Decl.Recv.List) == 0 || len(fi.Decl.Recv.List[0].Names) == 0 {
		return nil
	}
	return fi.Pkg.TypesInfo.ObjectOf(fi.Decl.Recv.List[0].Names[0])
}

// directAcquires lists the receiver-relative mutex paths fi acquires in its
// own body (closures that are deferred/immediately invoked included; go
// statements excluded).
func directAcquires(fi *FuncInfo) []lockAcq {
	ro := recvObj(fi)
	if ro == nil {
		return nil
	}
	info := fi.Pkg.TypesInfo
	var out []lockAcq
	var walk func(n ast.Node)
	walk = func(n ast.Node) {
		ast.Inspect(n, func(x ast.Node) bool {
			switch s := x.(type) {
			case *ast.GoStmt:
				return false
			case *ast.CallExpr:
				ev, ok := lockSpec.Classify(info, s)
				if !ok || !ev.Acquire {
					return true
				}
				sel := ast.Unparen(s.Fun).(*ast.SelectorExpr)
				if id := baseIdent(sel.X); id != nil && info.ObjectOf(id) == ro {
					full := exprStr(sel.X)
					rel := strings.TrimPrefix(full, id.Name+".")
					colon := strings.LastIndex(ev.Key, ":")
					out = append(out, lockAcq{rel, ev.Key[colon+1:]})
				}
			}
			return true
		})
	}
	walk(fi.Decl.Body)
	return out
}

func ruleNoReentrantLocking(r *Report, rule string) {
	p := r.P
	// summaries: method object -> acquisitions (direct + via same-receiver callees, depth 3)
	direct := map[*types.Func][]lockAcq{}
	for _, fi := range p.flist {
		if fi.Decl.Body == nil || fi.Decl.Recv == nil {
			continue
		}
		if a := directAcquires(fi); len(a) > 0 {
			direct[fi.Obj] = a
		}
	}
	byObj := map[*types.Func]*FuncInfo{}
	for _, fi := range p.flist {
		byObj[fi.Obj] = fi
	}
	// transitive closure over same-receiver calls
	summary := map[*types.Func]map[lockAcq]bool{}
	var sum func(f *types.Func, depth int) map[lockAcq]bool
	sum = func(f *types.Func, depth int) map[lockAcq]bool {
		if s, ok := summary[f]; ok {
			return s
		}
		s := map[lockAcq]bool{}
		summary[f] = s
		for _, a := range direct[f] {
			s[a] = true
		}
		fi := byObj[f]
		if fi == nil || depth > 3 {
			return s
		}
		ro := recvObj(fi)
		if ro == nil {
			return s
		}
		info := fi.Pkg.TypesInfo
		ast.Inspect(fi.Decl.Body, func(x ast.Node) bool {
			if _, isGo := x.(*ast.GoStmt); isGo {
				return false
			}
			c, ok := x.(*ast.CallExpr)
			if !ok {
				return true
			}
			sel, ok := ast.Unparen(c.Fun).(*ast.SelectorExpr)
			if !ok || objOf(info, sel.X) != ro {
				return true
			}
			if cf := callee(info, c); cf != nil && byObj[cf] != nil {
				for a := range sum(cf, depth+1) {
					s[a] = true
				}
			}
			return true
		})
		return s
	}
	nsites := 0
	for _, fi := range p.flist {
		if fi.Decl.Body == nil || fi.Decl.Recv == nil {
			continue
		}
		ro := recvObj(fi)
		if ro == nil || len(direct[fi.Obj]) == 0 {
			continue
		}
		info := fi.Pkg.TypesInfo
		for _, bu := range bodiesOf(fi) {
			// may-hold at each call site
			has := false
			inspectNoLit(bu.Body, func(x ast.Node) bool {
				if c, ok := x.(*ast.CallExpr); ok {
					if ev, ok := lockSpec.Classify(info, c); ok && ev.Acquire {
						has = true
					}
				}
				return true
			})
			if !has {
				continue
			}
			g := buildCFG(info, bu.Body)
			fl := mayHoldFlow(g, info)
			inspectNoLit(bu.Body, func(x ast.Node) bool {
				c, ok := x.(*ast.CallExpr)
				if !ok {
					return true
				}
				sel, ok := ast.Unparen(c.Fun).(*ast.SelectorExpr)
				if !ok || objOf(info, sel.X) != ro {
					return true
				}
				cf := callee(info, c)
				if cf == nil || byObj[cf] == nil {
					return true
				}
				acq := sum(cf, 0)
				if len(acq) == 0 {
					return true
				}
				l, ok := g.Locate(c)
				if !ok {
					return true
				}
				held, ok := fl.At(l)
				if !ok {
					return true
				}
				nsites++
				var clash []string
				for a := range acq {
					for _, m := range []string{"R", "W"} {
						if held[ro.Name()+"."+a.path+":"+m] {
							clash = append(clash, ro.Name()+"."+a.path+" (held "+m+", callee takes "+a.mode+")")
						}
					}
				}
				sort.Strings(clash)
				r.Fn(fi)
				r.Ob(rule, bu.Name+"->"+cf.Name(), c.Pos(), len(clash) == 0,
					"call to "+funcName(cf)+" while holding "+strings.Join(clash, ", ")+": the callee acquires the same mutex (recursive RLock deadlocks when a writer such as Close is queued in between; recursive Lock deadlocks at once)")
				return true
			})
		}
	}
	if nsites == 0 {
		undecidedf("reentrancy rule found no same-receiver call from a locking method")
	}
}

var mayHoldCache = map[*FCFG]*Flow{}

func mayHoldFlow(g *FCFG, info *types.Info) *Flow {
	if fl, ok := mayHoldCache[g]; ok {
		return fl
	}
	fl := &Flow{F: g, Must: false, Entry: Set{}}
	fl.Transfer = func(n ast.Node, in Set) Set {
		out := in
		switch n.(type) {
		case *ast.DeferStmt, *ast.GoStmt:
			return out
		}
		for _, c := range callsIn(n) {
			ev, ok := lockSpec.Classify(info, c)
			if !ok {
				continue
			}
			if ev.Acquire {
				out = out.with(ev.Key)
			} else {
				out = out.without(ev.Key)
			}
		}
		return out
	}
	fl.Solve()
	mayHoldCache[g] = fl
	return fl
}
