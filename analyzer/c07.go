package main

import (
	"fmt"
	"go/ast"
	"go/constant"
	"go/token"
	"go/types"
	"os"
	"strings"
)

func init() { register("C07", propC07) }

func propC07(r *Report, tier string) {
	r.Explanation = "ONLY writer/reader agreement and guard-presence clauses of 'numbers sort and range-match exactly' are decided (this is a deliberately thin claim; all arithmetic is out of reach): (a) K11 the precision step the numeric and date indexers emit terms with equals the constant step the range searcher splits with; (b) K11 the prefix-coded encoder and decoder use the same group width (7 bits, mask 0x7f), sign-flip constant and shift-start byte object; (c) the float<->int64 maps are pure bit transformations: every return of Float64ToInt64 is computed from math.Float64bits and Int64ToFloat64 returns math.Float64frombits (no value-dependent special case); (d) the exclusive->inclusive bound steps are guarded against wrap-around; (e) the range splitter's base case includes both wrap-around flags; (f) the leaf-range enumerator advances terms in the encoder's radix (reports KNOWN finding F11: it counts base 256 over 7-bit digits). (g) K5 a helper that reads the first/last element of its list parameter without a length test is called only where the list is known to be non-empty (an empty range cover must match nothing, not panic)."
	r.NotCovered = "order preservation, round trip, cover/disjointness of the split, inclusive/exclusive arithmetic, date parsing: arithmetic facts over all int64/float64 that need a solver or proof (a different technique family)"
	rulePrecisionStepAgreement(r, "K11-precision-step")
	rulePrefixCodedAgreement(r, "K11-prefix-coding")
	ruleFloatMapsPureBits(r, "K5dep-float-maps-pure")
	ruleRangeBoundGuards(r, "K5-range-bound-guards")
	ruleSplitBaseCase(r, "K5-split-base-case")
	ruleEnumeratorRadix(r, "K11-enumerator-radix")
	ruleInclusiveFlagsSingleInterpreter(r, "K7-inclusive-flags-single-interpreter")
	ruleRangeBoundsAreOpaqueBits(r, "K7-range-bounds-are-opaque-bits")
	ruleCursorLayoutAgreement(r, "K11-cursor-layout")
	ruleEndpointIndexNeedsNonEmpty(r, "K5-endpoint-index-needs-non-empty")
	r.Floor("K11-precision-step", 3)
	r.Floor("K11-prefix-coding", 4)
	r.Floor("K5dep-float-maps-pure", 2)
	r.Floor("K5-range-bound-guards", 1)
	r.Floor("K5-split-base-case", 2)
	r.Floor("K11-enumerator-radix", 1)
	r.Floor("K7-inclusive-flags-single-interpreter", 12)
}

func constUint(info *types.Info, e ast.Expr) (int64, bool) {
	if tv, ok := info.Types[e]; ok && tv.Value != nil {
		if v, ok := constant.Int64Val(constant.ToInt(tv.Value)); ok {
			return v, true
		}
	}
	return 0, false
}

func rulePrecisionStepAgreement(r *Report, rule string) {
	p := r.P
	doc := p.Pkg("document")
	steps := map[string]int64{}
	for _, name := range []string{"DefaultPrecisionStep", "DefaultDateTimePrecisionStep"} {
		obj, _ := doc.Types.Scope().Lookup(name).(*types.Const)
		if obj == nil {
			undecidedf("document.%s is not a constant", name)
		}
		v, _ := constant.Int64Val(obj.Val())
		steps[name] = v
	}
	// searcher side
	n := 0
	for _, fi := range p.funcsInPkg(searcherPkg) {
		info := fi.Pkg.TypesInfo
		for _, c := range callsMatching(info, fi.Decl.Body, func(f *types.Func) bool { return f.Name() == "splitInt64Range" }) {
			n++
			r.Fn(fi)
			v, ok := constUint(info, c.Args[2])
			for name, s := range steps {
				r.Ob(rule, fi.Name+"/split-step=="+name, c.Pos(), ok && v == s, fmt.Sprintf("the range searcher splits with precision step %d; the indexer emits terms at multiples of %s=%d: they must be equal or the split asks for terms at shifts that were never indexed", v, name, s))
			}
		}
	}
	if n == 0 {
		undecidedf("no splitInt64Range call site")
	}
	// the indexers step by their constant from shift=step while shift < 64
	for _, nm := range []string{"document.(*NumericField).Analyze", "document.(*DateTimeField).Analyze"} {
		fi := p.Func(nm)
		if fi == nil {
			continue
		}
		r.Fn(fi)
		info := fi.Pkg.TypesInfo
		okStep := false
		ast.Inspect(fi.Decl.Body, func(x ast.Node) bool {
			if as, ok := x.(*ast.AssignStmt); ok && as.Tok == token.ADD_ASSIGN && len(as.Lhs) == 1 {
				if _, ok := as.Lhs[0].(*ast.Ident); ok {
					if c, ok := info.ObjectOf(baseIdent(as.Rhs[0])).(*types.Const); ok && strings.Contains(c.Name(), "PrecisionStep") {
						okStep = true
					}
				}
			}
			return true
		})
		r.Ob(rule, fi.Name+"/steps-by-its-precision-constant", fi.Decl.Pos(), okStep, "the indexer advances the shift by its precision step constant")
	}
}

func rulePrefixCodedAgreement(r *Report, rule string) {
	p := r.P
	enc := p.MustFunc("numeric.NewPrefixCodedInt64Prealloc")
	dec := p.MustFunc("numeric.(PrefixCoded).Int64")
	sh := p.MustFunc("numeric.(PrefixCoded).Shift")
	val := p.MustFunc("numeric.ValidPrefixCodedTermBytes")
	consts := func(fi *FuncInfo) (shifts map[int64]bool, masks map[int64]bool, flips map[string]bool, usesStart bool) {
		info := fi.Pkg.TypesInfo
		shifts, masks, flips = map[int64]bool{}, map[int64]bool{}, map[string]bool{}
		ast.Inspect(fi.Decl.Body, func(x ast.Node) bool {
			switch y := x.(type) {
			case *ast.BinaryExpr:
				if v, ok := constUint(info, y.Y); ok {
					switch y.Op {
					case token.SHL, token.SHR:
						shifts[v] = true
					case token.AND:
						masks[v] = true
					}
				}
				if y.Op == token.XOR {
					if tv, ok := info.Types[y.Y]; ok && tv.Value != nil {
						flips[tv.Value.ExactString()] = true
					}
				}
			case *ast.AssignStmt:
				if len(y.Rhs) == 1 {
					if v, ok := constUint(info, y.Rhs[0]); ok {
						switch y.Tok {
						case token.SHL_ASSIGN, token.SHR_ASSIGN:
							shifts[v] = true
						case token.AND_ASSIGN:
							masks[v] = true
						}
					}
				}
			case *ast.Ident:
				if c, ok := info.ObjectOf(y).(*types.Const); ok && c.Name() == "ShiftStartInt64" {
					usesStart = true
				}
			}
			return true
		})
		return
	}
	for _, f := range []*FuncInfo{enc, dec, sh, val} {
		r.Fn(f)
	}
	es, em, ef, e0 := consts(enc)
	ds, _, df, _ := consts(dec)
	_, _, _, s0 := consts(sh)
	_, _, _, v0 := consts(val)
	r.Ob(rule, "encoder~decoder/group-width-7", enc.Decl.Pos(), es[7] && ds[7] && em[0x7f], "the encoder stores 7 bits per byte (>> 7, & 0x7f) and the decoder reads 7 bits per byte (<< 7)")
	same := false
	for k := range ef {
		if df[k] {
			same = true
		}
	}
	r.Ob(rule, "encoder~decoder/sign-flip-constant", enc.Decl.Pos(), same && len(ef) == 1 && len(df) == 1, "encoder and decoder flip the same sign bit constant")
	r.Ob(rule, "ShiftStartInt64/same-constant-in-encoder,Shift,Valid", enc.Decl.Pos(), e0 && s0 && v0, "the shift byte is formed and parsed with the same ShiftStartInt64 constant")
	// nChars formula agreement between encoder and validator
	form := func(fi *FuncInfo) string {
		// the data-length computation by role: `<x> / 7 + <const>` wherever it is written (a definition, a
		// comparison operand, an expanded helper); local variable names are normalised away, conversions dropped
		out := ""
		info := fi.Pkg.TypesInfo
		// the function itself and the same-package helpers it calls (the formula may live in one)
		bodies := []ast.Node{fi.Decl.Body}
		for _, c := range callsDeep(fi.Decl.Body) {
			if f := callee(info, c); f != nil && f.Pkg() == fi.Pkg.Types {
				if h := p.funcs[funcName(f)]; h != nil && h.Decl.Body != nil && h != fi {
					bodies = append(bodies, h.Decl.Body)
				}
			}
		}
		for _, body := range bodies {
			ast.Inspect(body, func(x ast.Node) bool {
				add, ok := x.(*ast.BinaryExpr)
				if !ok || add.Op != token.ADD {
					return true
				}
				q, ok := ast.Unparen(add.X).(*ast.BinaryExpr)
				if !ok || q.Op != token.QUO {
					return true
				}
				if k, isC := intConst(info, q.Y); !isC || k != 7 {
					return true
				}
				if _, isC := intConst(info, add.Y); !isC {
					return true
				}
				out = normaliseLocals(info, add)
				return true
			})
		}
		return out
	}
	r.Ob(rule, "encoder~validator/term-length-formula", val.Decl.Pos(), form(enc) != "" && form(enc) == form(val), fmt.Sprintf("the number of data bytes for a shift is computed by the same formula when writing (%s) and validating (%s)", form(enc), form(val)))
}

func ruleFloatMapsPureBits(r *Report, rule string) {
	p := r.P
	for _, spec := range []struct{ fn, bits string }{{"numeric.Float64ToInt64", "math.Float64bits"}, {"numeric.Int64ToFloat64", "math.Float64frombits"}} {
		fi := p.MustFunc(spec.fn)
		r.Fn(fi)
		info := fi.Pkg.TypesInfo
		d := newDeps(info, fi.Decl.Body)
		ok := true
		n := 0
		for _, rs := range returnsOf(fi.Decl.Body) {
			n++
			sl := d.SliceOfExpr(rs.Results[0])
			if !sl["call:"+spec.bits] {
				ok = false
			}
		}
		// branch conditions only test the integer representation (sign), never the float value
		floatCond := ""
		ast.Inspect(fi.Decl.Body, func(x ast.Node) bool {
			if is, isIf := x.(*ast.IfStmt); isIf {
				ast.Inspect(is.Cond, func(y ast.Node) bool {
					if e, isE := y.(ast.Expr); isE {
						if t := info.TypeOf(e); t != nil {
							if b, isB := t.Underlying().(*types.Basic); isB && b.Info()&types.IsFloat != 0 {
								floatCond = exprStr(is.Cond)
							}
						}
					}
					return true
				})
			}
			return true
		})
		r.Ob(rule, fi.Name+"/every-result-from-"+spec.bits, fi.Decl.Pos(), ok && n > 0 && floatCond == "", "the map is a pure bit transformation: every returned value is computed from "+spec.bits+" and no branch depends on the float value ("+floatCond+"); a value-dependent special case breaks the exact int64 round trip the date range path relies on")
	}
}

func ruleRangeBoundGuards(r *Report, rule string) {
	p := r.P
	fi := p.MustFunc(searcherPkg + ".NewNumericRangeSearcher")
	r.Fn(fi)
	info := fi.Pkg.TypesInfo
	g := buildCFG(info, fi.Decl.Body)
	n := 0
	ast.Inspect(fi.Decl.Body, func(x ast.Node) bool {
		s, ok := x.(*ast.IncDecStmt)
		if !ok {
			return true
		}
		n++
		want := "MaxInt64"
		if s.Tok == token.DEC {
			want = "MinInt64"
		}
		guarded := false
		for _, f := range g.GuardsOf(s) {
			be, isB := ast.Unparen(f.Expr).(*ast.BinaryExpr)
			if isB && be.Op == token.NEQ && f.Truth && exprStr(be.X) == exprStr(s.X) && strings.HasSuffix(exprStr(be.Y), want) {
				guarded = true
			}
		}
		r.Ob(rule, fi.Name+"/"+exprStr(s.X)+s.Tok.String()+"-guarded-against-wrap", s.Pos(), guarded, "turning an exclusive bound into an inclusive one steps the int64 by one; the step is guarded by != math."+want+" so it cannot wrap around")
		return true
	})
	if n < 2 {
		r.Ob(rule, fi.Name+"/exclusive-bound-steps", fi.Decl.Pos(), false, "an exclusive bound becomes inclusive by stepping the ORDER-PRESERVING int64 code by one (IncDec on the int64 bound, guarded against wrap-around); no such pair of steps was found. Stepping the float (math.Nextafter) is not equivalent: -0.0/+0.0 are two adjacent codes but one float step apart, NaN payloads (dates near 2262) collapse, and infinities do not move")
	}
}

func ruleSplitBaseCase(r *Report, rule string) {
	p := r.P
	fi := p.MustFunc(searcherPkg + ".splitInt64Range")
	r.Fn(fi)
	info := fi.Pkg.TypesInfo
	sig := fi.Obj.Type().(*types.Signature)
	params := map[types.Object]bool{}
	for k := 0; k < sig.Params().Len(); k++ {
		params[sig.Params().At(k)] = true
	}
	g := buildCFG(info, fi.Decl.Body)
	// the recursion step: a bound parameter is replaced by the next-precision bound held in a local
	type step struct {
		as    *ast.AssignStmt
		param types.Object
		next  types.Object
	}
	var steps []step
	ast.Inspect(fi.Decl.Body, func(x ast.Node) bool {
		as, ok := x.(*ast.AssignStmt)
		if !ok || as.Tok != token.ASSIGN || len(as.Lhs) != len(as.Rhs) {
			return true
		}
		for k := range as.Lhs {
			po, no := objOf(info, as.Lhs[k]), objOf(info, as.Rhs[k])
			if po != nil && no != nil && params[po] && !params[no] {
				steps = append(steps, step{as, po, no})
			}
		}
		return true
	})
	// wrap flags: a boolean local defined once as `next < bound` / `next > bound` for such a (next, bound) pair
	flags := map[types.Object]string{}
	ast.Inspect(fi.Decl.Body, func(x ast.Node) bool {
		as, ok := x.(*ast.AssignStmt)
		if !ok || len(as.Lhs) != 1 || len(as.Rhs) != 1 {
			return true
		}
		be, ok := ast.Unparen(as.Rhs[0]).(*ast.BinaryExpr)
		if !ok {
			return true
		}
		lo, ro := objOf(info, be.X), objOf(info, be.Y)
		op := be.Op
		if params[lo] && !params[ro] { // bound > next  ==  next < bound
			lo, ro = ro, lo
			op = mirrorOp[op]
		}
		for _, st := range steps {
			if lo == st.next && ro == st.param {
				if op == token.LSS {
					flags[objOf(info, as.Lhs[0])] = "lower"
				}
				if op == token.GTR {
					flags[objOf(info, as.Lhs[0])] = "upper"
				}
			}
		}
		return true
	})
	r.Ob(rule, fi.Name+"/wrap-flags-computed", fi.Decl.Pos(), len(flags) == 2 && len(steps) >= 2, "both wrap-around flags (next lower bound < bound, next upper bound > bound) are computed")
	// the recursion continues only when neither flag is set (whatever the spelling of the base case)
	okBase := len(steps) >= 2
	for _, st := range steps {
		seen := map[string]bool{}
		for _, fc := range g.GuardsOf(st.as) {
			if id, ok := ast.Unparen(fc.Expr).(*ast.Ident); ok && fc.Tag == nil && !fc.Truth {
				if k, ok := flags[info.ObjectOf(id)]; ok {
					seen[k] = true
				}
			}
		}
		if !(seen["lower"] && seen["upper"]) {
			okBase = false
		}
	}
	r.Ob(rule, fi.Name+"/base-case-includes-both-wrap-flags", fi.Decl.Pos(), okBase, "the split stops (and emits the remaining range at the current shift) when either next bound wrapped around; without the flags an overflowing bound recurses to the top shift and the query matches everything")
}

func ruleEnumeratorRadix(r *Report, rule string) {
	p := r.P
	en := p.MustFunc(searcherPkg + ".(*termRange).Enumerate")
	r.Fn(en)
	info := en.Pkg.TypesInfo
	succ := callsMatching(info, en.Decl.Body, func(f *types.Func) bool { return f.Name() == "incrementBytes" })
	if len(succ) != 1 {
		undecidedf("%s: successor function not found", en.Name)
	}
	inc := p.MustFunc(funcName(callee(info, succ[0])))
	r.Fn(inc)
	iinfo := inc.Pkg.TypesInfo
	// the carry test of the successor: digits of a prefix-coded term are 7-bit groups, so the carry must happen at 0x80
	radix128 := false
	ast.Inspect(inc.Decl.Body, func(x ast.Node) bool {
		be, ok := x.(*ast.BinaryExpr)
		if !ok {
			return true
		}
		if v, ok := constUint(iinfo, be.Y); ok && (v == 0x80 || v == 0x7f) {
			switch be.Op {
			case token.LSS, token.GEQ, token.GTR, token.LEQ, token.AND:
				radix128 = true
			}
		}
		return true
	})
	r.Ob(rule, en.Name+"/successor-carries-at-the-encoder-radix", inc.Decl.Pos(), radix128, "termRange.Enumerate walks from the start term to the end term with "+inc.Obj.Name()+", which carries at byte overflow (base 256) although the data bytes of a prefix-coded term are 7-bit digits (base 128): a leaf range that straddles a 7-bit group boundary enumerates 256^k invalid terms (int64 -1..1, i.e. a date range around the epoch, needs ~2^72 steps: the query does not terminate)")
}

// normaliseLocals renders an expression with every local variable replaced by $ and
// type conversions of a single variable dropped, so that two functions computing the
// same formula over differently named (or typed) locals compare equal.
func normaliseLocals(info *types.Info, e ast.Expr) string {
	var rec func(e ast.Expr) string
	rec = func(e ast.Expr) string {
		switch x := ast.Unparen(e).(type) {
		case *ast.Ident:
			if v, ok := info.ObjectOf(x).(*types.Var); ok && !v.IsField() {
				return "$"
			}
			return x.Name
		case *ast.BinaryExpr:
			return "(" + rec(x.X) + x.Op.String() + rec(x.Y) + ")"
		case *ast.CallExpr:
			if tv, ok := info.Types[x.Fun]; ok && tv.IsType() && len(x.Args) == 1 {
				return rec(x.Args[0]) // conversion
			}
			var as []string
			for _, a := range x.Args {
				as = append(as, rec(a))
			}
			return exprStr(x.Fun) + "(" + strings.Join(as, ",") + ")"
		case *ast.BasicLit:
			return x.Value
		}
		return exprStr(e)
	}
	return rec(e)
}

// ruleEndpointIndexNeedsNonEmpty (K5): the range searchers hand the list of
// candidate terms to helpers that look at its first and last element
// (terms[0], terms[len(terms)-1]).  A range whose cover is empty (min > max,
// [x, x)) produces an empty list, so such an access needs a non-emptiness
// guard - inside the helper, or at EVERY call site on the list passed in.
// Without one an empty range panics (index out of range) instead of matching
// nothing.
func ruleEndpointIndexNeedsNonEmpty(r *Report, rule string) {
	p := r.P
	n := 0
	for _, fi := range p.flist {
		if fi.Decl == nil || fi.Decl.Body == nil || !strings.HasSuffix(fi.Pkg.PkgPath, "search/searcher") {
			continue
		}
		info := fi.Pkg.TypesInfo
		sig, _ := fi.Obj.Type().(*types.Signature)
		if sig == nil {
			continue
		}
		params := map[types.Object]int{}
		for i := 0; i < sig.Params().Len(); i++ {
			if _, isSlice := sig.Params().At(i).Type().Underlying().(*types.Slice); isSlice {
				params[sig.Params().At(i)] = i
			}
		}
		if len(params) == 0 {
			continue
		}
		var g *FCFG
		done := map[types.Object]bool{}
		ast.Inspect(fi.Decl.Body, func(x ast.Node) bool {
			if _, isLit := x.(*ast.FuncLit); isLit {
				return false
			}
			ix, ok := x.(*ast.IndexExpr)
			if !ok {
				return true
			}
			po := objOf(info, ix.X)
			pi, isParam := params[po]
			if !isParam || done[po] {
				return true
			}
			// p[0] or p[len(p)-1]
			endpoint := false
			if k, isC := intConst(info, ix.Index); isC && k == 0 {
				endpoint = true
			}
			if be, isB := ast.Unparen(ix.Index).(*ast.BinaryExpr); isB && be.Op == token.SUB {
				if c, isCall := ast.Unparen(be.X).(*ast.CallExpr); isCall && calleeBuiltin(info, c) == "len" && len(c.Args) == 1 && objOf(info, c.Args[0]) == po {
					endpoint = true
				}
			}
			if os.Getenv("VERIF_DEBUG") != "" {
				fmt.Println("endpoint:", fi.Name, exprStr(ix), endpoint, assignedOrAddressed(info, fi.Decl.Body, po))
			}
			if !endpoint {
				return true
			}
			if g == nil {
				g = buildCFG(info, fi.Decl.Body)
			}
			// the parameter still holds the caller's list here
			reassigned := false
			ast.Inspect(fi.Decl.Body, func(y ast.Node) bool {
				if as, ok := y.(*ast.AssignStmt); ok {
					for _, l := range as.Lhs {
						if objOf(info, l) == po && g.ReachesNode(as, ix) {
							reassigned = true
						}
					}
				}
				return true
			})
			if reassigned {
				return true
			}
			if !lenDomain(info, g.GuardsOf(ix), po)[0] {
				return true // guarded inside
			}
			done[po] = true
			// every static call site must exclude the empty list
			sites, guarded := 0, 0
			where := ""
			for _, caller := range p.flist {
				if caller.Decl == nil || caller.Decl.Body == nil || caller.Pkg != fi.Pkg {
					continue
				}
				var cg *FCFG
				for _, c := range callsIn(caller.Decl.Body) {
					if f := callee(info, c); f == nil || canonObj(f) != canonObj(fi.Obj) || pi >= len(c.Args) {
						continue
					}
					sites++
					ao := objOf(info, c.Args[pi])
					if cg == nil {
						cg = buildCFG(info, caller.Decl.Body)
					}
					if ao != nil && !lenDomain(info, cg.GuardsOf(c), ao)[0] {
						guarded++
					} else {
						where = p.Fset.Position(c.Pos()).String()
					}
				}
			}
			if sites == 0 {
				return true
			}
			n++
			r.Fn(fi)
			r.Ob(rule, fi.Name+"/"+po.Name()+"-endpoints-need-a-non-empty-list", ix.Pos(), sites == guarded, fmt.Sprintf("%s reads the first/last element of its parameter %s without a length test, so every caller has to exclude the empty list (%d of %d call sites do; unguarded: %s)", fi.Name, po.Name(), guarded, sites, where))
			return true
		})
	}
	if n < 1 {
		undecidedf("no endpoint access on a slice parameter found in search/searcher")
	}
}
