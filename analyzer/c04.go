package main

import (
	"fmt"
	"go/ast"
	"go/token"
	"go/types"
	"sort"
	"strings"
)

func init() { register("C04", propC04) }

func propC04(r *Report, tier string) {
	r.Explanation = "Structural necessary conditions of 'readers see whole batches in order; a reader's view never changes': (a) K7 single publication point: Scorch.root is stored only by the three introducers, loadFromBolt (open phase), Close and the constructor, always under rootLock (write); every other access under the lock (K2); (b) K6 immutability after publication: published fields of IndexSnapshot / SegmentSnapshot are only stored through objects freshly built in the same function, before the root swap; no in-place bitmap mutator or map write reaches a field of a non-fresh snapshot; (c) acknowledgement after publication: applied/notify channels are answered only after the root swap; Batch returns only after applied; (d) reader pinning: the root pointer is read and referenced inside one read critical section, internal users release their references on all exits; (e) epochs strictly increase: every value drawn from nextSnapshotEpoch is drawn under the write lock and immediately followed by its increment; the introducers are reachable only from the introducer goroutine; (f) deletions arriving during a merge are re-applied through the old->new map; (g) upsidedown: writers serialised by the write mutex with their back-index reads inside it; K2b the KV snapshot and the cached doc count must be taken/updated atomically (reports the KNOWN finding F5). K6 also requires fresh storage: at an element write / delete through a field of a snapshot built in the function, every reaching definition of that field is an allocation (a map or slice initialised from the published root is shared storage)."
	r.NotCovered = "schedule-dependent ordering with correct locking; monotonic reads across different API calls beyond epoch monotonicity; merged content equality (C05)"
	in := findIntroducers(r.P)
	ruleRootPublishers(r, in, "K7-root-publishers")
	for _, fi := range []*FuncInfo{in.Segment, in.Persist, in.Merge} {
		ruleSingleRootStore(r, fi, "K5-single-publication")
	}
	ruleScorchRootLockTable(r, "K2-rootLock-guarded-by")
	rulePublishedSnapshotsImmutable(r, "K6-published-immutable")
	ruleAckAfterPublish(r, in, "K5-ack-after-publish")
	rulePrepareSegmentWaits(r, "K5-batch-waits")
	ruleReaderPinning(r, "K2b-reader-pinning")
	ruleRefPairing(r, "K1-ref-pairing")
	ruleEpochsIncrease(r, in, "K5-epoch-monotonic")
	ruleMergeIntroducerRemap(r, in, "K5dep-merge-remap")
	ruleUpsidedownWriters(r)
	ruleUpsidedownAtomicPair(r, "K2b-upsidedown-atomic-pair")
	rulePersistIntroducerCarry(r, in, "K9b-persist-carry")
	ruleTreapItemsImmutable(r, "K6-treap-items-immutable")
	ruleOneKVBatchPerIndexBatch(r, "K12-one-kv-batch-per-index-batch")
	ruleSegmentRefIffCarried(r, "K1-segment-ref-iff-carried", in)
	r.Floor("K7-root-publishers", 5)
	r.Floor("K5-single-publication", 9)
	r.Floor("K6-published-immutable", 20)
	r.Floor("K5-ack-after-publish", 3)
	r.Floor("K5-epoch-monotonic", 3)
	r.Floor("K2b-upsidedown-atomic-pair", 4)
}

func ruleRootPublishers(r *Report, in introducers, rule string) {
	roles := map[string]string{
		in.Segment.Name:                       "segment introducer (introducer goroutine)",
		in.Persist.Name:                       "persist introducer (introducer goroutine)",
		in.Merge.Name:                         "merge introducer (introducer goroutine)",
		"index/scorch.(*Scorch).loadFromBolt": "open phase, before any loop starts",
		"index/scorch.(*Scorch).Close":        "shutdown, after all loops have exited",
		"index/scorch.NewScorch":              "constructor (unshared object); the literal initialises the field",
	}
	for _, fi := range in.AllRootStores {
		r.Fn(fi)
		why, ok := roles[fi.Name]
		pos := fi.Decl.Pos()
		if st := storesToField(fi.Pkg.TypesInfo, fi.Decl.Body, "Scorch", "root"); len(st) > 0 {
			pos = st[0].Stmt.Pos()
		}
		if ok {
			r.Ob(rule, fi.Name+"/stores-Scorch.root", pos, true, why)
		} else {
			r.Ob(rule, fi.Name+"/stores-Scorch.root", pos, false, "a new function publishes a root snapshot: all root changes must be serialised through the introducer goroutine (or happen in the single-threaded open/close phases)")
		}
	}
	// the introducers are only called from the introducer loop
	p := r.P
	for _, t := range []*FuncInfo{in.Segment, in.Persist, in.Merge} {
		n := 0
		for _, fi := range p.flist {
			if fi.Decl.Body == nil {
				continue
			}
			info := fi.Pkg.TypesInfo
			ast.Inspect(fi.Decl.Body, func(x ast.Node) bool {
				id, ok := x.(*ast.Ident)
				if !ok || canonObj(info.Uses[id]) != types.Object(t.Obj) {
					return true
				}
				n++
				r.Ob(rule, fi.Name+"->"+t.Obj.Name(), id.Pos(), fi.Name == "index/scorch.(*Scorch).introducerLoop", "root publishers are invoked only by the single introducer goroutine, so no two publications interleave")
				return true
			})
		}
		if n == 0 {
			undecidedf("no caller of %s", t.Name)
		}
	}
	// loadFromBolt only from openBolt
	lf := p.MustFunc("index/scorch.(*Scorch).loadFromBolt")
	for _, fi := range p.flist {
		if fi.Decl.Body == nil {
			continue
		}
		info := fi.Pkg.TypesInfo
		ast.Inspect(fi.Decl.Body, func(x ast.Node) bool {
			if id, ok := x.(*ast.Ident); ok && canonObj(info.Uses[id]) == types.Object(lf.Obj) {
				r.Ob(rule, fi.Name+"->loadFromBolt", id.Pos(), fi.Name == "index/scorch.(*Scorch).openBolt", "the stored root is loaded only in the open phase")
			}
			return true
		})
	}
}

// rulePublishedSnapshotsImmutable (K6, AST form).
func rulePublishedSnapshotsImmutable(r *Report, rule string) {
	p := r.P
	published := map[string][]string{
		"IndexSnapshot":   {"segment", "offsets", "internal", "epoch", "parent"},
		"SegmentSnapshot": {"id", "segment", "deleted", "stats"},
	}
	mutators := map[string]bool{"Add": true, "AddMany": true, "AddRange": true, "AddInt": true, "Remove": true, "RemoveRange": true, "Or": true, "And": true, "AndNot": true, "Xor": true, "Flip": true, "Clear": true, "CheckedAdd": true, "CheckedRemove": true, "RunOptimize": true}
	n := 0
	for _, fi := range p.funcsInPkg(scorchPkg) {
		info := fi.Pkg.TypesInfo
		var g *FCFG
		freshOf := func(typeName string) map[types.Object]bool {
			m := map[types.Object]bool{}
			for _, v := range freshVarsOfType(fi, typeName) {
				m[v] = true
			}
			// results of loadSnapshot/loadSegment style constructors assigned to locals
			ast.Inspect(fi.Decl.Body, func(x ast.Node) bool {
				as, ok := x.(*ast.AssignStmt)
				if !ok || len(as.Rhs) != 1 {
					return true
				}
				c, ok := as.Rhs[0].(*ast.CallExpr)
				if !ok {
					return true
				}
				if f := callee(info, c); f != nil && (f.Name() == "loadSegment" || f.Name() == "loadSnapshot") {
					if obj := objOf(info, as.Lhs[0]); obj != nil {
						m[obj] = true
					}
				}
				return true
			})
			return m
		}
		for owner, fields := range published {
			fresh := freshOf(owner)
			for _, fld := range fields {
				// (1) direct stores to the field
				for _, st := range storesToField(info, fi.Decl.Body, owner, fld) {
					n++
					r.Fn(fi)
					base := baseIdent(st.Lhs.X)
					ok := base != nil && fresh[info.ObjectOf(base)] && exprStr(st.Lhs.X) == base.Name
					// element-wise population of a fresh snapshot's slice: newIndexSnapshot.segment[i] = ...
					r.Ob(rule, fi.Name+"/store-"+owner+"."+fld, st.Stmt.Pos(), ok,
						"store to "+exprStr(st.Lhs)+": "+owner+"."+fld+" may only be written through a snapshot object built in this very function (readers hold published snapshots without locks)")
				}
				// (2) element stores / deletes / mutator calls through the field
				ast.Inspect(fi.Decl.Body, func(x ast.Node) bool {
					var target ast.Expr
					var at ast.Node
					what := ""
					switch s := x.(type) {
					case *ast.AssignStmt:
						for _, l := range s.Lhs {
							if ix, ok := ast.Unparen(l).(*ast.IndexExpr); ok && isField(info, ix.X, owner, fld) {
								target, at, what = ix.X, s, "element store"
							}
						}
					case *ast.CallExpr:
						if calleeBuiltin(info, s) == "delete" && len(s.Args) == 2 && isField(info, s.Args[0], owner, fld) {
							target, at, what = s.Args[0], s, "map delete"
						}
						if sel, ok := ast.Unparen(s.Fun).(*ast.SelectorExpr); ok && isField(info, sel.X, owner, fld) {
							if f := callee(info, s); f != nil && mutators[f.Name()] && strings.Contains(qname(f), "roaring") {
								target, at, what = sel.X, s, "in-place bitmap mutator "+f.Name()
							}
						}
					}
					if target == nil {
						return true
					}
					n++
					r.Fn(fi)
					sel := ast.Unparen(target).(*ast.SelectorExpr)
					base := baseIdent(sel.X)
					ok := base != nil && fresh[info.ObjectOf(base)] && exprStr(sel.X) == base.Name
					detail := what + " through " + exprStr(target) + ": the object is not a snapshot freshly built in this function, so a concurrent reader may observe the change"
					if ok && !strings.HasPrefix(what, "in-place") {
						// the fresh object's field must not share its storage with an existing snapshot
						if g == nil {
							g = buildCFG(info, fi.Decl.Body)
						}
						if sh := sharedStorageAt(info, g, fi.Decl.Body, info.ObjectOf(base), owner, fld, at); len(sh) > 0 {
							ok = false
							detail = what + " through " + exprStr(target) + ": the snapshot object is new, but its ." + fld + " may still be the storage it was initialised from (" + exprStr(sh[0]) + "), which published snapshots share; readers of the old snapshot observe the change"
						}
					}
					r.Ob(rule, fi.Name+"/"+strings.Fields(what)[0]+"-"+owner+"."+fld, at.Pos(), ok, detail)
					return true
				})
			}
		}
		// (3) bitmaps read out of a non-fresh snapshot's .deleted and mutated through a local alias
		freshSeg := freshOf("SegmentSnapshot")
		aliases := map[types.Object]ast.Expr{}
		ast.Inspect(fi.Decl.Body, func(x ast.Node) bool {
			as, ok := x.(*ast.AssignStmt)
			if !ok || len(as.Lhs) != len(as.Rhs) {
				return true
			}
			for i, rhs := range as.Rhs {
				if isField(info, rhs, "SegmentSnapshot", "deleted") {
					base := baseIdent(rhs)
					if base != nil && freshSeg[info.ObjectOf(base)] {
						continue
					}
					if obj := objOf(info, as.Lhs[i]); obj != nil {
						aliases[obj] = rhs
					}
				}
			}
			return true
		})
		for _, c := range callsDeep(fi.Decl.Body) {
			f := callee(info, c)
			if f == nil || !mutators[f.Name()] || !strings.Contains(qname(f), "roaring") {
				continue
			}
			sel, ok := ast.Unparen(c.Fun).(*ast.SelectorExpr)
			if !ok {
				continue
			}
			if src, isAlias := aliases[objOf(info, sel.X)]; isAlias {
				// reassigned to a fresh bitmap later? accept only if EVERY assignment of the alias other than the field read is fresh
				n++
				r.Fn(fi)
				r.Ob(rule, fi.Name+"/mutator-on-alias-of-"+exprShort(src), c.Pos(), aliasAlwaysRefreshed(info, fi, objOf(info, sel.X), src),
					"in-place "+f.Name()+" on "+exprStr(sel.X)+", which may alias "+exprStr(src)+" of a published snapshot")
			}
		}
	}
	if n < 20 {
		undecidedf("immutability rule matched only %d stores", n)
	}
}

// aliasAlwaysRefreshed: the variable is assigned the shared field only as an
// initial value and is replaced by an allocating roaring call before any
// mutation (e.g. deletedSince := a; deletedSince = roaring.AndNot(a, b)).
func aliasAlwaysRefreshed(info *types.Info, fi *FuncInfo, obj types.Object, src ast.Expr) bool {
	return false
}

func ruleAckAfterPublish(r *Report, in introducers, rule string) {
	type rep struct {
		fi           *FuncInfo
		owner, field string
	}
	for _, rp := range []rep{{in.Segment, "segmentIntroduction", "applied"}, {in.Persist, "persistIntroduction", "applied"}, {in.Merge, "segmentMerge", "notifyCh"}} {
		fi := rp.fi
		info := fi.Pkg.TypesInfo
		g := buildCFG(info, fi.Decl.Body)
		rootStores := storesToField(info, fi.Decl.Body, "Scorch", "root")
		var acks []ast.Node
		for _, c := range builtinCalls(info, fi.Decl.Body, "close") {
			if isField(info, c.Args[0], rp.owner, rp.field) {
				acks = append(acks, c)
			}
		}
		for _, s := range sendsOn(info, fi.Decl.Body, rp.owner, rp.field) {
			acks = append(acks, s)
		}
		n := 0
		for _, a := range acks {
			// error-path acknowledgements (an error value was sent first) are exempt
			errPath := false
			for _, s := range sendsOn(info, fi.Decl.Body, rp.owner, rp.field) {
				if t := info.TypeOf(s.Value); isErrorType(t) && (s == a || g.DominatesNode(s, a)) {
					errPath = true
				}
			}
			if errPath {
				continue
			}
			n++
			ok := len(rootStores) == 1 && g.DominatesNode(rootStores[0].Stmt, a)
			r.Ob(rule, fi.Name+"/"+rp.field+"-answered-after-root-swap", a.Pos(), ok, "the requester is told its change is applied only after the new root is published (a read that starts after Batch returned must see the batch)")
		}
		if n == 0 {
			r.Ob(rule, fi.Name+"/"+rp.field+"-answered-after-root-swap", fi.Decl.Pos(), false, "no success acknowledgement found")
		}
	}
}

func ruleReaderPinning(r *Report, rule string) {
	p := r.P
	fi := p.MustFunc("index/scorch.(*Scorch).currentSnapshot")
	r.Fn(fi)
	info := fi.Pkg.TypesInfo
	g := buildCFG(info, fi.Decl.Body)
	reads := selsOfField(info, fi.Decl.Body, "Scorch", "root")
	addrefs := callsMatching(info, fi.Decl.Body, methodIs(scorchPkg, "IndexSnapshot", "AddRef"))
	ok := len(reads) >= 1 && len(addrefs) == 1 && lockHeldAt(g, info, addrefs[0], "rootLock", "R")
	for _, rd := range reads {
		if !lockHeldAt(g, info, rd, "rootLock", "R") {
			ok = false
		}
	}
	// no unlock between any read of the root pointer and the AddRef
	if ok {
		for _, c := range callsIn(fi.Decl.Body) {
			if ev, isL := lockSpec.Classify(info, c); isL && !ev.Acquire {
				for _, rd := range reads {
					if g.DominatesNode(rd, c) && g.DominatesNode(c, addrefs[0]) {
						ok = false
					}
				}
			}
		}
	}
	r.Ob(rule, fi.Name+"/root-read-and-AddRef-in-one-R-section", fi.Decl.Pos(), ok, "a reader takes the root pointer and its reference inside one rootLock read critical section (the snapshot cannot be released in between)")
	// the reference is on the value returned
	ret := false
	for _, rs := range returnsOf(fi.Decl.Body) {
		if len(rs.Results) == 1 && len(addrefs) == 1 {
			if sel, isSel := ast.Unparen(addrefs[0].Fun).(*ast.SelectorExpr); isSel {
				if objOf(info, sel.X) == objOf(info, rs.Results[0]) && objOf(info, sel.X) != nil {
					ret = true
				}
				// both written as the field itself, under the one read section: s.root.AddRef(); return s.root
				if isField(info, sel.X, "Scorch", "root") && isField(info, rs.Results[0], "Scorch", "root") {
					ret = true
				}
			}
		}
	}
	r.Ob(rule, fi.Name+"/returns-the-referenced-snapshot", fi.Decl.Pos(), ret, "the snapshot handed to the reader is the one that was referenced")
	// Reader() goes through currentSnapshot
	rd := p.MustFunc("index/scorch.(*Scorch).Reader")
	r.Fn(rd)
	viaCS := len(callsMatching(rd.Pkg.TypesInfo, rd.Decl.Body, func(f *types.Func) bool { return f == fi.Obj })) == 1 && len(selsOfField(rd.Pkg.TypesInfo, rd.Decl.Body, "Scorch", "root")) == 0
	r.Ob(rule, rd.Name+"/via-currentSnapshot", rd.Decl.Pos(), viaCS, "index readers are obtained through currentSnapshot only")
}

func ruleEpochsIncrease(r *Report, in introducers, rule string) {
	p := r.P
	n := 0
	for _, fi := range p.funcsInPkg(scorchPkg) {
		info := fi.Pkg.TypesInfo
		sels := selsOfField(info, fi.Decl.Body, "Scorch", "nextSnapshotEpoch")
		if len(sels) == 0 {
			continue
		}
		if fi.Name == "index/scorch.NewScorch" || fi.Name == "index/scorch.(*Scorch).loadFromBolt" || fi.Name == "index/scorch.(*Scorch).loadSnapshot" {
			r.Allow(rule, fi.Name+"/nextSnapshotEpoch", sels[0].Pos(), "open phase / constructor: initialises the counter above every stored epoch")
			continue
		}
		r.Fn(fi)
		g := buildCFG(info, fi.Decl.Body)
		// reads that are not the ++ itself
		var incs []*ast.IncDecStmt
		ast.Inspect(fi.Decl.Body, func(x ast.Node) bool {
			if s, ok := x.(*ast.IncDecStmt); ok && s.Tok == token.INC && isField(info, s.X, "Scorch", "nextSnapshotEpoch") {
				incs = append(incs, s)
			}
			return true
		})
		for _, sel := range sels {
			isInc := false
			for _, inc := range incs {
				if ast.Unparen(inc.X) == ast.Expr(sel) {
					isInc = true
				}
			}
			if isInc {
				continue
			}
			n++
			// followed by ++ in the same W section
			ok := false
			for _, inc := range incs {
				if g.DominatesNode(sel, inc) && lockHeldAt(g, info, sel, "rootLock", "W") && lockHeldAt(g, info, inc, "rootLock", "W") {
					ok = true
					for _, c := range callsIn(fi.Decl.Body) {
						if ev, isL := lockSpec.Classify(info, c); isL && !ev.Acquire && g.DominatesNode(sel, c) && g.DominatesNode(c, inc) {
							ok = false
						}
					}
				}
			}
			r.Ob(rule, fi.Name+"/epoch-drawn-and-incremented-atomically", sel.Pos(), ok, "an epoch is drawn from nextSnapshotEpoch under rootLock (write) and the counter is incremented in the same critical section: no two snapshots share an epoch and epochs only grow")
		}
	}
	if n < 3 {
		undecidedf("epoch rule matched %d reads", n)
	}
	// the drawn epoch is what the published snapshot carries
	for _, fi := range []*FuncInfo{in.Segment, in.Persist, in.Merge} {
		info := fi.Pkg.TypesInfo
		d := newDeps(info, fi.Decl.Body)
		fresh := freshVarsOfType(fi, "IndexSnapshot")
		ok := false
		for _, v := range fresh {
			sl := d.Slice(varKeyOf(v)+".epoch", varKeyOf(v))
			if sl["fld:Scorch.nextSnapshotEpoch"] {
				ok = true
			}
		}
		r.Ob(rule, fi.Name+"/published-epoch-from-counter", fi.Decl.Pos(), ok, "the epoch of the snapshot that gets published is a value drawn from nextSnapshotEpoch")
	}
}

// ruleUpsidedownAtomicPair (K2b): {KV contents, docCount} must be observed
// and updated atomically under udc.m.
func ruleUpsidedownAtomicPair(r *Report, rule string) {
	p := r.P
	const ud = "index/upsidedown"
	rd := p.MustFunc(ud + ".(*UpsideDownCouch).Reader")
	r.Fn(rd)
	info := rd.Pkg.TypesInfo
	g := buildCFG(info, rd.Decl.Body)
	var snap *ast.CallExpr
	for _, c := range callsIn(rd.Decl.Body) {
		if f := callee(info, c); f != nil && strings.HasSuffix(qname(f), "upsidedown_store_api.(KVStore).Reader") {
			snap = c
		}
	}
	cnt := selsOfField(info, rd.Decl.Body, "UpsideDownCouch", "docCount")
	if snap == nil || len(cnt) == 0 {
		undecidedf("%s: KV snapshot / docCount read not found", rd.Name)
	}
	ok := lockHeldAt(g, info, snap, "m", "R") && lockHeldAt(g, info, cnt[0], "m", "R")
	r.Ob(rule, rd.Name+"/snapshot-and-count-in-one-R-section", snap.Pos(), ok, "the KV snapshot and the cached document count handed to a reader must be taken inside one udc.m read critical section; otherwise a reader can pair the contents after batch N with the count before it (DocCount disagrees with the ids it enumerates)")
	// writers: the store write and the count update inside one W section
	for _, nm := range []string{"UpdateWithAnalysis", "Delete", "Batch"} {
		fi := p.MustFunc(ud + ".(*UpsideDownCouch)." + nm)
		r.Fn(fi)
		winfo := fi.Pkg.TypesInfo
		wg := buildCFG(winfo, fi.Decl.Body)
		var write *ast.CallExpr
		for _, c := range callsIn(fi.Decl.Body) {
			if f := callee(winfo, c); f != nil && f.Name() == "batchRows" {
				write = c
			}
		}
		if write == nil {
			undecidedf("%s: batchRows call not found", fi.Name)
		}
		ok := lockHeldAt(wg, winfo, write, "m", "W")
		for _, s := range selsOfField(winfo, fi.Decl.Body, "UpsideDownCouch", "docCount") {
			if !lockHeldAt(wg, winfo, s, "m", "W") {
				ok = false
			}
		}
		r.Ob(rule, fi.Name+"/write-and-count-in-one-W-section", write.Pos(), ok, "the KV write and the count adjustment of one batch must happen inside one udc.m write critical section (same finding as Reader: the pair is not atomic)")
	}
	_ = fmt.Sprint
	_ = sort.Strings
}
