package main

import (
	"go/ast"
	"go/token"
	"go/types"
	"strings"

	"golang.org/x/tools/go/cfg"
)

// K-err: error discipline.  In the given packages every call that returns an
// error has that error LOOKED AT: it is not discarded (expression statement,
// blank assignment) unless the callee is one of the clean-up operations the
// tree consistently ignores (Close, DecRef, Rollback, ...), and when it is
// stored in a variable some path reads that variable before it is overwritten
// or the function ends (no dead error store).

var cleanupCallees = map[string]string{
	"CloseEx":     "moss store close with options (clean-up)",
	"KeyTo":       "serialises into a buffer the caller sized with KeySize(): cannot fail",
	"ValueTo":     "serialises into a buffer the caller sized with ValueSize(): cannot fail",
	"Close":       "closing a resource on a failure/clean-up path; the primary error is already being reported",
	"DecRef":      "reference release; its error is the Close error of the last holder",
	"Rollback":    "abandoning a transaction",
	"Remove":      "best-effort file removal (the purger retries)",
	"RemoveAll":   "best-effort directory removal",
	"Write":       "hash.Hash / bytes.Buffer writers never fail",
	"WriteString": "strings.Builder / bytes.Buffer writers never fail",
	"WriteByte":   "strings.Builder / bytes.Buffer writers never fail",
	"WriteRune":   "strings.Builder / bytes.Buffer writers never fail",
	"Fprintf":     "diagnostic output",
	"Fprintln":    "diagnostic output",
	"Fprint":      "diagnostic output",
	"Printf":      "diagnostic output",
	"Println":     "diagnostic output",
}

func lastResultIsError(info *types.Info, c *ast.CallExpr) bool {
	t := info.TypeOf(c)
	if t == nil {
		return false
	}
	if tup, ok := t.(*types.Tuple); ok {
		return tup.Len() > 0 && isErrorType(tup.At(tup.Len()-1).Type())
	}
	return isErrorType(t)
}

func calleeShortName(info *types.Info, c *ast.CallExpr) string {
	if f := callee(info, c); f != nil {
		return f.Name()
	}
	if nm := calleeVarName(info, c); nm != "" {
		if i := strings.LastIndex(nm, "."); i >= 0 {
			return nm[i+1:]
		}
		return nm
	}
	switch fn := ast.Unparen(c.Fun).(type) {
	case *ast.Ident:
		return fn.Name
	case *ast.SelectorExpr:
		return fn.Sel.Name
	}
	return ""
}

// readsVar: node n (a CFG node) reads v other than as a pure assignment target.
func readsVar(info *types.Info, n ast.Node, v types.Object) bool {
	read := false
	var visit func(x ast.Node, lhs bool)
	visit = func(x ast.Node, lhs bool) {}
	_ = visit
	lhsIdents := map[*ast.Ident]bool{}
	if as, ok := n.(*ast.AssignStmt); ok {
		for _, l := range as.Lhs {
			if id, ok := l.(*ast.Ident); ok {
				lhsIdents[id] = true
			}
		}
	}
	ast.Inspect(n, func(x ast.Node) bool {
		if id, ok := x.(*ast.Ident); ok && !lhsIdents[id] && info.ObjectOf(id) == v {
			read = true
		}
		return !read
	})
	return read
}

func definesVar(info *types.Info, n ast.Node, v types.Object) bool {
	if as, ok := n.(*ast.AssignStmt); ok {
		for _, l := range as.Lhs {
			if id, ok := l.(*ast.Ident); ok && info.ObjectOf(id) == v {
				return true
			}
		}
	}
	return false
}

// liveAfter: some path from just after location l reads v before redefining it.
func liveAfter(info *types.Info, g *FCFG, l Loc, v types.Object, namedResult bool) bool {
	type st struct {
		b *cfg.Block
		i int
	}
	seen := map[*cfg.Block]bool{}
	work := []st{{l.B, l.I + 1}}
	for len(work) > 0 {
		cur := work[len(work)-1]
		work = work[:len(work)-1]
		killed := false
		for i := cur.i; i < len(cur.b.Nodes); i++ {
			n := cur.b.Nodes[i]
			if readsVar(info, n, v) {
				return true
			}
			if rs, ok := n.(*ast.ReturnStmt); ok && namedResult && len(rs.Results) == 0 {
				return true
			}
			if definesVar(info, n, v) {
				killed = true
				break
			}
		}
		if killed {
			continue
		}
		if len(cur.b.Succs) == 0 && namedResult {
			return true // falls off the end / bare return of a named result
		}
		for _, s := range cur.b.Succs {
			if !seen[s] {
				seen[s] = true
				work = append(work, st{s, 0})
			}
		}
	}
	return false
}

func ruleErrorsLookedAt(r *Report, rule string, pkgFilter func(rel string) bool, allowFuncs map[string]string) int {
	p := r.P
	n := 0
	for _, fi := range p.flist {
		if fi.Decl.Body == nil || !pkgFilter(relPkg(fi.Pkg.PkgPath)) {
			continue
		}
		info := fi.Pkg.TypesInfo
		for _, bu := range bodiesOf(fi) {
			var g *FCFG
			// variables captured by closures are treated as always read
			captured := map[types.Object]bool{}
			ast.Inspect(bu.Body, func(x ast.Node) bool {
				if fl, ok := x.(*ast.FuncLit); ok {
					ast.Inspect(fl.Body, func(y ast.Node) bool {
						if id, ok := y.(*ast.Ident); ok {
							if o := info.ObjectOf(id); o != nil && !declaredWithin(info, fl, o) {
								captured[o] = true
							}
						}
						return true
					})
				}
				return true
			})
			named := map[types.Object]bool{}
			var sig *types.Signature
			if bu.Lit != nil {
				sig, _ = info.TypeOf(bu.Lit).(*types.Signature)
			} else {
				sig, _ = fi.Obj.Type().(*types.Signature)
			}
			if sig != nil {
				for i := 0; i < sig.Results().Len(); i++ {
					if sig.Results().At(i).Name() != "" {
						named[sig.Results().At(i)] = true
					}
				}
			}
			// deferred closures of this function, in registration order
			isDeferred := false
			var earlierDeferred []*ast.FuncLit
			if bu.Lit != nil {
				ast.Inspect(fi.Decl.Body, func(x ast.Node) bool {
					if ds, ok := x.(*ast.DeferStmt); ok {
						if fl, ok := ds.Call.Fun.(*ast.FuncLit); ok {
							if fl == bu.Lit {
								isDeferred = true
							} else if !isDeferred {
								earlierDeferred = append(earlierDeferred, fl)
							}
						}
					}
					return true
				})
			}
			// the function (declaration or closure) whose body directly contains the defer statement
			parentLo, parentHi := fi.Decl.Body.Pos(), fi.Decl.Body.End()
			if isDeferred {
				ast.Inspect(fi.Decl.Body, func(x ast.Node) bool {
					if fl, ok := x.(*ast.FuncLit); ok && fl != bu.Lit && fl.Body.Pos() <= bu.Lit.Pos() && bu.Lit.End() <= fl.Body.End() {
						if fl.Body.Pos() >= parentLo {
							parentLo, parentHi = fl.Body.Pos(), fl.Body.End()
						}
					}
					return true
				})
			}
			declaredInParent := func(v types.Object) bool { return v.Pos() >= parentLo && v.Pos() <= parentHi }
			outerNamed := map[types.Object]bool{}
			if fsig, ok := fi.Obj.Type().(*types.Signature); ok {
				for i := 0; i < fsig.Results().Len(); i++ {
					if fsig.Results().At(i).Name() != "" {
						outerNamed[fsig.Results().At(i)] = true
					}
				}
			}
			for o := range synthNamedResults {
				outerNamed[o] = true // named results of an expanded helper
			}
			if isDeferred {
				// any store (not only of a call result) into an error variable of the enclosing
				// function that nobody can observe any more
				inspectNoLit(bu.Body, func(x ast.Node) bool {
					as, ok := x.(*ast.AssignStmt)
					if !ok || len(as.Lhs) != 1 || len(as.Rhs) != 1 {
						return true
					}
					if _, isCall := as.Rhs[0].(*ast.CallExpr); isCall {
						return true // handled below
					}
					id, ok := as.Lhs[0].(*ast.Ident)
					if !ok {
						return true
					}
					v := info.ObjectOf(id)
					if v == nil || !isErrorType(v.Type()) || declaredWithin(info, bu.Lit, v) || outerNamed[v] || isNilIdent(info, as.Rhs[0]) || !declaredInParent(v) {
						return true
					}
					if g == nil {
						g = buildCFG(info, bu.Body)
					}
					l, ok := g.Locate(as)
					if !ok {
						return true
					}
					live := liveAfter(info, g, l, v, false)
					// a value that is itself the outcome of a clean-up call (cerr := x.Close()) belongs to the
					// clean-up class: losing it is the tree's accepted practice
					if rid, ok := ast.Unparen(as.Rhs[0]).(*ast.Ident); ok && !live {
						ro := info.ObjectOf(rid)
						ast.Inspect(bu.Body, func(z ast.Node) bool {
							if a2, ok := z.(*ast.AssignStmt); ok && len(a2.Rhs) == 1 {
								if c2, ok := a2.Rhs[0].(*ast.CallExpr); ok {
									for _, l2 := range a2.Lhs {
										if info.ObjectOf(identOf(l2)) == ro && ro != nil {
											if _, isCleanup := cleanupCallees[calleeShortName(info, c2)]; isCleanup {
												live = true
											}
										}
									}
								}
							}
							return true
						})
					}
					n++
					r.Fn(fi)
					if why, ok := allowFuncs[bu.Name+"/"+id.Name]; ok && !live {
						r.Allow(rule, bu.Name+"/deferred-store-reaches-caller-"+id.Name, as.Pos(), why)
						return true
					}
					r.Ob(rule, bu.Name+"/deferred-store-reaches-caller-"+id.Name, as.Pos(), live, "the deferred closure stores "+exprStr(as.Rhs[0])+" in "+id.Name+", which is not a named result of the enclosing function and is not read afterwards: the value the caller receives was fixed before the closure ran, so this failure is reported as success")
					return true
				})
			}
			inspectNoLit(bu.Body, func(x ast.Node) bool {
				switch s := x.(type) {
				case *ast.ExprStmt:
					c, ok := s.X.(*ast.CallExpr)
					if !ok || !lastResultIsError(info, c) {
						return true
					}
					n++
					nm := calleeShortName(info, c)
					r.Fn(fi)
					if why, ok := cleanupCallees[nm]; ok {
						r.Allow(rule, bu.Name+"/dropped-"+nm, s.Pos(), why)
					} else if localCleanupClosure(info, fi.Decl.Body, c) {
						r.Allow(rule, bu.Name+"/dropped-local-cleanup-closure", s.Pos(), "local closure whose only fallible calls are clean-up operations")
					} else if why, ok := allowFuncs[bu.Name+"/"+nm]; ok {
						r.Allow(rule, bu.Name+"/dropped-"+nm, s.Pos(), why)
					} else {
						r.Ob(rule, bu.Name+"/dropped-"+nm, s.Pos(), false, "the error returned by "+exprShort(c)+" is discarded (call used as a statement); only clean-up operations may be ignored on these paths")
					}
				case *ast.DeferStmt, *ast.GoStmt:
					return true
				case *ast.AssignStmt:
					if len(s.Rhs) != 1 {
						return true
					}
					c, ok := s.Rhs[0].(*ast.CallExpr)
					if !ok || !lastResultIsError(info, c) {
						return true
					}
					errLhs := s.Lhs[len(s.Lhs)-1]
					id, ok := errLhs.(*ast.Ident)
					if !ok {
						return true // stored into a field/element: looked at elsewhere
					}
					n++
					nm := calleeShortName(info, c)
					r.Fn(fi)
					if id.Name == "_" {
						if why, ok := cleanupCallees[nm]; ok {
							r.Allow(rule, bu.Name+"/blank-"+nm, s.Pos(), why)
						} else if localCleanupClosure(info, fi.Decl.Body, c) {
							r.Allow(rule, bu.Name+"/blank-local-cleanup-closure", s.Pos(), "local closure whose only fallible calls are clean-up operations")
						} else if why, ok := allowFuncs[bu.Name+"/"+nm]; ok {
							r.Allow(rule, bu.Name+"/blank-"+nm, s.Pos(), why)
						} else {
							r.Ob(rule, bu.Name+"/blank-"+nm, s.Pos(), false, "the error returned by "+exprShort(c)+" is assigned to _; only clean-up operations may be ignored on these paths")
						}
						return true
					}
					v := info.ObjectOf(id)
					if v == nil || captured[v] {
						r.Ob(rule, bu.Name+"/checked-"+nm, s.Pos(), true, "error stored in a variable that a closure (deferred clean-up) reads")
						return true
					}
					if g == nil {
						g = buildCFG(info, bu.Body)
					}
					l, ok := g.Locate(s)
					if !ok {
						return true
					}
					live := liveAfter(info, g, l, v, named[v])
					if bu.Lit != nil && !declaredWithin(info, bu.Lit, v) {
						// variable of the enclosing function
						if !isDeferred {
							live = true // a callback: the enclosing function goes on and may read it
						} else if !live && !declaredInParent(v) {
							live = true // captured from further out: still observable after the parent returns
						} else if !live {
							// a deferred closure runs when the function is returning: the store is seen only
							// through a named result or by a deferred closure registered earlier (runs later)
							live = outerNamed[v]
							if _, isCleanup := cleanupCallees[nm]; isCleanup {
								live = true // clean-up outcome: accepted to be lost
							}
							if !live {
								r.Ob(rule, bu.Name+"/deferred-store-reaches-caller-"+nm, s.Pos(), false, "the error returned by "+exprShort(c)+" is stored in "+id.Name+" inside a deferred closure, but "+id.Name+" is not a named result of the enclosing function: the value the caller receives was fixed before the closure ran, so this failure is reported as success")
								return true
							}
						}
					}
					if !live {
						if why, ok := allowFuncs[bu.Name+"/"+nm]; ok {
							r.Allow(rule, bu.Name+"/checked-"+nm, s.Pos(), why)
							return true
						}
					}
					r.Ob(rule, bu.Name+"/checked-"+nm, s.Pos(), live, "the error returned by "+exprShort(c)+" is stored in "+id.Name+" but no path reads "+id.Name+" before it is overwritten or the function returns: the failure is silently ignored")
				}
				return true
			})
			_ = token.NoPos
		}
	}
	return n
}

func identOf(e ast.Expr) *ast.Ident {
	if id, ok := ast.Unparen(e).(*ast.Ident); ok {
		return id
	}
	return &ast.Ident{Name: "_"}
}

// localCleanupClosure: the call invokes a local closure (v := func() error {...}) whose own
// error-returning calls are all clean-up operations: such a helper is a clean-up operation itself.
func localCleanupClosure(info *types.Info, body ast.Node, c *ast.CallExpr) bool {
	id, ok := ast.Unparen(c.Fun).(*ast.Ident)
	if !ok {
		return false
	}
	v, ok := info.ObjectOf(id).(*types.Var)
	if !ok {
		return false
	}
	var lit *ast.FuncLit
	ast.Inspect(body, func(x ast.Node) bool {
		if as, ok := x.(*ast.AssignStmt); ok && len(as.Lhs) == 1 && len(as.Rhs) == 1 && objOf(info, as.Lhs[0]) == v {
			if fl, ok := as.Rhs[0].(*ast.FuncLit); ok {
				lit = fl
			}
		}
		return true
	})
	if lit == nil {
		return false
	}
	n := 0
	for _, c2 := range callsDeep(lit.Body) {
		if !lastResultIsError(info, c2) {
			continue
		}
		n++
		if _, isCleanup := cleanupCallees[calleeShortName(info, c2)]; !isCleanup {
			return false
		}
	}
	return n > 0
}
