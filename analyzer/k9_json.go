package main

import (
	"fmt"
	"go/ast"
	"go/constant"
	"go/token"
	"go/types"
	"reflect"
	"sort"
	"strings"
)

// K9 struct/JSON agreement.

type jsonField struct {
	Var       *types.Var
	Key       string
	OmitEmpty bool
	Tagged    bool
	Skip      bool // json:"-"
}

// jsonFieldsOf lists the fields of a named struct with their JSON keys.
func jsonFieldsOf(st *types.Struct) []jsonField {
	var out []jsonField
	for i := 0; i < st.NumFields(); i++ {
		v := st.Field(i)
		tag := reflect.StructTag(st.Tag(i)).Get("json")
		jf := jsonField{Var: v, Key: v.Name()}
		if tag != "" {
			jf.Tagged = true
			parts := strings.Split(tag, ",")
			if parts[0] == "-" && len(parts) == 1 {
				jf.Skip = true
			} else if parts[0] != "" {
				jf.Key = parts[0]
			}
			for _, o := range parts[1:] {
				if o == "omitempty" {
					jf.OmitEmpty = true
				}
			}
		}
		out = append(out, jf)
	}
	return out
}

func structOf(p *Prog, pkgRel, typeName string) (*types.Named, *types.Struct) {
	pk := p.Pkg(pkgRel)
	obj := pk.Types.Scope().Lookup(typeName)
	if obj == nil {
		undecidedf("type %s.%s not found", pkgRel, typeName)
	}
	nt, ok := obj.Type().(*types.Named)
	if !ok {
		undecidedf("%s.%s is not a named type", pkgRel, typeName)
	}
	st, ok := nt.Underlying().(*types.Struct)
	if !ok {
		undecidedf("%s.%s is not a struct", pkgRel, typeName)
	}
	return nt, st
}

// keySwitchCases extracts, from a hand-written key-switch decoder, the map
// JSON key -> field decoded into (the &recv.F argument of an Unmarshal call
// in the case body).  cases without such a call map to nil.
type keyCase struct {
	Key   string
	Field *types.Var
	Pos   token.Pos
	Body  []ast.Stmt
}

func keySwitchCases(fi *FuncInfo, owner string) ([]keyCase, bool, *ast.RangeStmt) {
	info := fi.Pkg.TypesInfo
	var out []keyCase
	hasDefault := false
	var loop *ast.RangeStmt
	ast.Inspect(fi.Decl.Body, func(n ast.Node) bool {
		rs, ok := n.(*ast.RangeStmt)
		if !ok || rs.Key == nil {
			return true
		}
		keyObj := objOf(info, rs.Key)
		ast.Inspect(rs.Body, func(m ast.Node) bool {
			sw, ok := m.(*ast.SwitchStmt)
			if !ok || sw.Tag == nil || objOf(info, sw.Tag) != keyObj || keyObj == nil {
				return true
			}
			loop = rs
			// without a default clause an unknown key falls out of the switch: that is the "default"
			// when something follows the switch inside the loop (an expanded helper's `return false`)
			ast.Inspect(rs.Body, func(q ast.Node) bool {
				var lst []ast.Stmt
				switch y := q.(type) {
				case *ast.BlockStmt:
					lst = y.List
				case *ast.CaseClause:
					lst = y.Body
				}
				for i, st := range lst {
					if st == ast.Stmt(sw) && i+1 < len(lst) {
						hasDefault = true
					}
				}
				return true
			})
			for _, c := range sw.Body.List {
				cc := c.(*ast.CaseClause)
				if cc.List == nil {
					hasDefault = true
					continue
				}
				var fld *types.Var
				for _, st := range cc.Body {
					ast.Inspect(st, func(x ast.Node) bool {
						call, ok := x.(*ast.CallExpr)
						if !ok || len(call.Args) < 2 {
							return true
						}
						nm := calleeVarName(info, call)
						if f := callee(info, call); f != nil {
							nm = f.Name()
						}
						if !strings.Contains(nm, "Unmarshal") {
							return true
						}
						if u, ok := ast.Unparen(call.Args[1]).(*ast.UnaryExpr); ok && u.Op == token.AND {
							if fs, ok := asFieldSel(info, u.X); ok && fs.Owner == owner {
								fld = fs.Field
							}
						}
						return true
					})
				}
				if fld == nil {
					// `dst = &x.F` in the case, one shared `Unmarshal(v, dst)` after the switch
					for _, st := range cc.Body {
						as, ok := st.(*ast.AssignStmt)
						if !ok || len(as.Lhs) != 1 || len(as.Rhs) != 1 {
							continue
						}
						u, ok := ast.Unparen(as.Rhs[0]).(*ast.UnaryExpr)
						if !ok || u.Op != token.AND {
							continue
						}
						fs, ok := asFieldSel(info, u.X)
						if !ok || fs.Owner != owner {
							continue
						}
						dst := objOf(info, as.Lhs[0])
						if dst == nil {
							continue
						}
						ast.Inspect(rs.Body, func(x ast.Node) bool {
							call, ok := x.(*ast.CallExpr)
							if !ok || len(call.Args) < 2 || objOf(info, call.Args[1]) != dst {
								return true
							}
							nm := calleeVarName(info, call)
							if f := callee(info, call); f != nil {
								nm = f.Name()
							}
							if strings.Contains(nm, "Unmarshal") {
								fld = fs.Field
							}
							return true
						})
					}
				}
				for _, v := range cc.List {
					if tv, ok := info.Types[v]; ok && tv.Value != nil && tv.Value.Kind() == constant.String {
						out = append(out, keyCase{constant.StringVal(tv.Value), fld, cc.Pos(), cc.Body})
					}
				}
			}
			return false
		})
		return true
	})
	if len(out) == 0 {
		out, hasDefault, loop = keyTableCases(fi, owner)
	}
	return out, hasDefault, loop
}

// keyTableCases: the table-driven spelling of the key switch - a map literal
// from key to the address of the field it configures, looked up with the range
// key inside the loop over the decoded object, the found address handed to one
// shared Unmarshal call; a failed lookup is the "default".
func keyTableCases(fi *FuncInfo, owner string) ([]keyCase, bool, *ast.RangeStmt) {
	info := fi.Pkg.TypesInfo
	var out []keyCase
	hasDefault := false
	var loop *ast.RangeStmt
	type table struct {
		holder types.Object
		lit    *ast.CompositeLit
	}
	var tables []table
	collect := func(n ast.Node) bool {
		switch y := n.(type) {
		case *ast.AssignStmt:
			if len(y.Lhs) == 1 && len(y.Rhs) == 1 {
				if cl, ok := ast.Unparen(y.Rhs[0]).(*ast.CompositeLit); ok {
					tables = append(tables, table{objOf(info, y.Lhs[0]), cl})
				}
			}
		case *ast.ValueSpec:
			if len(y.Names) == 1 && len(y.Values) == 1 {
				if cl, ok := ast.Unparen(y.Values[0]).(*ast.CompositeLit); ok {
					tables = append(tables, table{info.Defs[y.Names[0]], cl})
				}
			}
		}
		return true
	}
	ast.Inspect(fi.Decl.Body, collect)
	// package-level tables
	for _, file := range fi.Pkg.Syntax {
		for _, d := range file.Decls {
			if gd, ok := d.(*ast.GenDecl); ok && gd.Tok == token.VAR {
				for _, sp := range gd.Specs {
					collect(sp)
				}
			}
		}
	}
	// the field an entry's value designates: `&x.F`, or an accessor `func(x *T) any { return &x.F }`
	fieldOf := func(v ast.Expr) *types.Var {
		v = ast.Unparen(v)
		if fl, ok := v.(*ast.FuncLit); ok {
			if len(fl.Body.List) != 1 {
				return nil
			}
			rs, ok := fl.Body.List[0].(*ast.ReturnStmt)
			if !ok || len(rs.Results) != 1 {
				return nil
			}
			v = ast.Unparen(rs.Results[0])
		}
		u, ok := v.(*ast.UnaryExpr)
		if !ok || u.Op != token.AND {
			return nil
		}
		fs, ok := asFieldSel(info, u.X)
		if !ok || fs.Owner != owner {
			return nil
		}
		return fs.Field
	}
	for _, t := range tables {
		if loop != nil || t.holder == nil {
			continue
		}
		if _, isMap := info.TypeOf(t.lit).Underlying().(*types.Map); !isMap {
			continue
		}
		var cand []keyCase
		okAll := true
		for _, el := range t.lit.Elts {
			kv, ok := el.(*ast.KeyValueExpr)
			if !ok {
				okAll = false
				break
			}
			tv, ok := info.Types[kv.Key]
			fld := fieldOf(kv.Value)
			if !ok || tv.Value == nil || tv.Value.Kind() != constant.String || fld == nil {
				okAll = false
				break
			}
			cand = append(cand, keyCase{constant.StringVal(tv.Value), fld, kv.Pos(), nil})
		}
		if !okAll || len(cand) < 3 {
			continue
		}
		// the loop that looks the range key up in the table and decodes into what it finds
		ast.Inspect(fi.Decl.Body, func(m ast.Node) bool {
			rs, ok := m.(*ast.RangeStmt)
			if !ok || rs.Key == nil || loop != nil {
				return true
			}
			keyObj := objOf(info, rs.Key)
			if keyObj == nil {
				return true
			}
			ast.Inspect(rs.Body, func(q ast.Node) bool {
				as, ok := q.(*ast.AssignStmt)
				if !ok || len(as.Rhs) != 1 {
					return true
				}
				ix, ok := ast.Unparen(as.Rhs[0]).(*ast.IndexExpr)
				if !ok || objOf(info, ix.X) != t.holder || objOf(info, ix.Index) != keyObj {
					return true
				}
				dst := objOf(info, as.Lhs[0])
				decoded := false
				ast.Inspect(rs.Body, func(x ast.Node) bool {
					call, ok := x.(*ast.CallExpr)
					if !ok || len(call.Args) < 2 || dst == nil {
						return true
					}
					target := ast.Unparen(call.Args[1])
					if c2, isCall := target.(*ast.CallExpr); isCall { // accessor form: Unmarshal(v, member(x))
						target = ast.Unparen(c2.Fun)
					}
					if objOf(info, target) != dst {
						return true
					}
					nm := calleeVarName(info, call)
					if f := callee(info, call); f != nil {
						nm = f.Name()
					}
					if strings.Contains(nm, "Unmarshal") {
						decoded = true
					}
					return true
				})
				if decoded {
					loop = rs
					hasDefault = len(as.Lhs) == 2 // comma-ok: a failed lookup can be told apart
				}
				return true
			})
			return true
		})
		if loop != nil {
			out = cand
		}
	}
	return out, hasDefault, loop
}

// ruleDecoderBijection (K9a): the key switch of (*T).UnmarshalJSON and the
// json tags of T are in bijection and each case decodes into the field that
// owns the tag; untagged exported fields are flagged; omitempty fields must
// have JSON-empty decoder defaults.
func ruleDecoderBijection(r *Report, rule, pkgRel, typeName string, allowUntagged map[string]string) {
	p := r.P
	nt, st := structOf(p, pkgRel, typeName)
	fi := p.MustFunc(pkgRel + ".(*" + typeName + ").UnmarshalJSON")
	r.Fn(fi)
	info := fi.Pkg.TypesInfo
	cases, hasDefault, loop := keySwitchCases(fi, typeName)
	if len(cases) == 0 || loop == nil {
		undecidedf("%s: key-switch decoder idiom not recognised", fi.Name)
	}
	fields := jsonFieldsOf(st)
	byKey := map[string]jsonField{}
	for _, f := range fields {
		if f.Skip || !f.Var.Exported() {
			continue
		}
		if !f.Tagged {
			if why, ok := allowUntagged[f.Var.Name()]; ok {
				r.Allow(rule, typeName+"."+f.Var.Name()+"/tagged", f.Var.Pos(), why)
			} else {
				r.Ob(rule, typeName+"."+f.Var.Name()+"/tagged", f.Var.Pos(), false, "exported field without a json tag: encoding/json writes it under its Go name, which the hand-written decoder does not accept (lost or rejected on reopen)")
			}
			continue
		}
		byKey[f.Key] = f
	}
	caseByKey := map[string]keyCase{}
	for _, c := range cases {
		if _, dup := caseByKey[c.Key]; dup {
			r.Ob(rule, typeName+"/case-"+c.Key+"/unique", c.Pos, false, "duplicate case for key "+c.Key)
		}
		caseByKey[c.Key] = c
	}
	var keys []string
	for k := range byKey {
		keys = append(keys, k)
	}
	sort.Strings(keys)
	for _, k := range keys {
		f := byKey[k]
		c, ok := caseByKey[k]
		if !ok {
			r.Ob(rule, typeName+"/key-"+k+"->"+f.Var.Name(), f.Var.Pos(), false, "field "+f.Var.Name()+" is serialised under key \""+k+"\" but the decoder has no case for it (strict mode rejects the stored mapping, lax mode silently drops the option)")
			continue
		}
		detail := "case \"" + k + "\" must decode into " + typeName + "." + f.Var.Name()
		if c.Field != nil && c.Field != f.Var {
			detail += ", but decodes into ." + c.Field.Name() + " (option applied to another field)"
		}
		r.Ob(rule, typeName+"/key-"+k+"->"+f.Var.Name(), c.Pos, c.Field == f.Var, detail)
	}
	var cks []string
	for k := range caseByKey {
		cks = append(cks, k)
	}
	sort.Strings(cks)
	for _, k := range cks {
		if _, ok := byKey[k]; !ok {
			r.Ob(rule, typeName+"/case-"+k+"/has-field", caseByKey[k].Pos, false, "the decoder accepts key \""+k+"\" but no field is serialised under it (the option does not survive a save)")
		}
	}
	r.Ob(rule, typeName+"/default-collects-invalid-keys", fi.Decl.Pos(), hasDefault, "unknown keys reach the default branch (strict mode can reject them)")
	// no custom MarshalJSON: encoder = encoding/json over the same tags
	hasMarshal := false
	for i := 0; i < nt.NumMethods(); i++ {
		if nt.Method(i).Name() == "MarshalJSON" {
			hasMarshal = true
		}
	}
	r.Ob(rule, typeName+"/no-custom-MarshalJSON", nt.Obj().Pos(), !hasMarshal, "the type is encoded by encoding/json from its tags (a custom MarshalJSON would need its own agreement check)")
	// defaults assigned before the key loop
	g := buildCFG(info, fi.Decl.Body)
	for _, f := range fields {
		if !f.Tagged || f.Skip {
			continue
		}
		for _, stf := range storesToField(info, fi.Decl.Body, typeName, f.Var.Name()) {
			if !g.DominatesNode(stf.Stmt, loop.X) {
				// a store after the key loop that is conditional on the field still being zero:
				// "present with the zero value" is then decoded like "absent"
				if g.ReachesNode(loop.X, stf.Stmt) && stf.Stmt.Pos() > loop.End() {
					zeroGuard := false
					for _, fct := range g.GuardsOf(stf.Stmt) {
						be, isB := ast.Unparen(fct.Expr).(*ast.BinaryExpr)
						if !isB || fct.Tag != nil {
							continue
						}
						if fs, ok := asFieldSel(info, be.X); ok && fs.Owner == typeName && fs.Field == f.Var && ((be.Op == token.EQL && fct.Truth) || (be.Op == token.NEQ && !fct.Truth)) {
							zeroGuard = true
						}
					}
					if zeroGuard && !jsonEmptyDefault(info, stf.Rhs, f.Var.Type()) {
						r.Ob(rule, typeName+"."+f.Var.Name()+"/explicit-zero-is-not-defaulted", stf.Stmt.Pos(), false,
							"after the key loop the decoder replaces a zero "+f.Var.Name()+" by "+exprShort(stf.Rhs)+": a mapping saved with the field explicitly set to its zero value reopens with the default instead (present-but-empty is decoded like absent)")
					}
				}
				continue // not a pre-loop default
			}
			empty := jsonEmptyDefault(info, stf.Rhs, f.Var.Type())
			if f.OmitEmpty {
				r.Ob(rule, typeName+"."+f.Var.Name()+"/omitempty-default-is-empty", stf.Stmt.Pos(), empty,
					"field "+f.Var.Name()+" is `omitempty` but the decoder defaults it to "+exprShort(stf.Rhs)+": a stored zero value is omitted on save and comes back as that default on every open")
			} else {
				r.Ob(rule, typeName+"."+f.Var.Name()+"/non-omitempty-with-default", stf.Stmt.Pos(), true, "always serialised, so the decoder default ("+exprShort(stf.Rhs)+") only applies to hand-written JSON")
			}
		}
	}
}

// jsonEmptyDefault: the default expression is what `omitempty` would omit.
func jsonEmptyDefault(info *types.Info, e ast.Expr, t types.Type) bool {
	if e == nil {
		return false
	}
	if tv, ok := info.Types[e]; ok && tv.Value != nil {
		switch tv.Value.Kind() {
		case constant.Bool:
			return !constant.BoolVal(tv.Value)
		case constant.String:
			return constant.StringVal(tv.Value) == ""
		case constant.Int, constant.Float:
			return constant.Sign(tv.Value) == 0
		}
	}
	if isNilIdent(info, e) {
		return true
	}
	switch t.Underlying().(type) {
	case *types.Map, *types.Slice:
		if c, ok := ast.Unparen(e).(*ast.CallExpr); ok && calleeBuiltin(info, c) == "make" {
			return true
		}
		if cl, ok := ast.Unparen(e).(*ast.CompositeLit); ok && len(cl.Elts) == 0 {
			return true
		}
	case *types.Pointer:
		// a non-nil default pointer is never omitted by omitempty, so it is
		// always written; nothing can be lost
		return true
	}
	return false
}

// ruleStructEncodedByTags: types without custom UnmarshalJSON/MarshalJSON:
// every exported field carries a json tag.
func ruleAllExportedTagged(r *Report, rule, pkgRel, typeName string) {
	_, st := structOf(r.P, pkgRel, typeName)
	for _, f := range jsonFieldsOf(st) {
		if !f.Var.Exported() {
			continue
		}
		r.Ob(rule, typeName+"."+f.Var.Name()+"/tagged", f.Var.Pos(), f.Tagged, fmt.Sprintf("exported field %s.%s must carry a json tag", typeName, f.Var.Name()))
	}
}

// ruleOmitemptyNeedsEmptyDefault (K9): for every struct type T that is decoded
// by a hand-written (*T).UnmarshalJSON but encoded by encoding/json from its
// tags, a field tagged `omitempty` is missing from the output whenever it is
// zero, so the decoder must give a missing key the zero value.  Every store of
// a constant (or non-empty literal) into such a field inside UnmarshalJSON must
// therefore be JSON-empty; a non-empty default turns "explicitly zero" into
// the default after one marshal/unmarshal round trip (Size 0 -> 10).
// Fields without omitempty are reported as obligations too (they are always
// written), so the rule sees every (field, default) pair.
func ruleOmitemptyNeedsEmptyDefault(r *Report, rule string, pkgPrefixes ...string) {
	p := r.P
	n := 0
	for _, fi := range p.flist {
		if fi.Decl.Body == nil || fi.Decl.Recv == nil || fi.Obj.Name() != "UnmarshalJSON" {
			continue
		}
		rel := relPkg(fi.Pkg.PkgPath)
		okPkg := len(pkgPrefixes) == 0
		for _, pre := range pkgPrefixes {
			if rel == pre || strings.HasPrefix(rel, pre+"/") {
				okPkg = true
			}
		}
		if !okPkg {
			continue
		}
		sig := fi.Obj.Type().(*types.Signature)
		rt := sig.Recv().Type()
		if pt, ok := rt.(*types.Pointer); ok {
			rt = pt.Elem()
		}
		nt, _ := rt.(*types.Named)
		if nt == nil {
			continue
		}
		st, ok := nt.Underlying().(*types.Struct)
		if !ok {
			continue
		}
		hasMarshal := false
		for i := 0; i < nt.NumMethods(); i++ {
			if nt.Method(i).Name() == "MarshalJSON" {
				hasMarshal = true
			}
		}
		if hasMarshal {
			continue // encoder is hand-written too: agreement is a different rule
		}
		info := fi.Pkg.TypesInfo
		typeName := nt.Obj().Name()
		for _, f := range jsonFieldsOf(st) {
			if f.Skip || !f.Var.Exported() {
				continue
			}
			for _, stf := range storesToField(info, fi.Decl.Body, typeName, f.Var.Name()) {
				if stf.Rhs == nil {
					continue
				}
				tv, isConst := info.Types[stf.Rhs]
				lit := false
				if cl, ok := ast.Unparen(stf.Rhs).(*ast.CompositeLit); ok && len(cl.Elts) > 0 {
					// a literal built from decoded values is not a default
					lit = true
					ast.Inspect(cl, func(x ast.Node) bool {
						if id, ok := x.(*ast.Ident); ok {
							if v, ok := info.Uses[id].(*types.Var); ok && !v.IsField() && v.Parent() != v.Pkg().Scope() {
								lit = false
							}
						}
						return true
					})
				}
				if !(isConst && tv.Value != nil) && !lit {
					continue
				}
				n++
				r.Fn(fi)
				empty := jsonEmptyDefault(info, stf.Rhs, f.Var.Type())
				key := rel + "." + typeName + "." + f.Var.Name() + "/default-" + exprShort(stf.Rhs)
				if f.OmitEmpty {
					r.Ob(rule, key+"/omitempty-default-is-empty", stf.Stmt.Pos(), empty,
						"field "+f.Var.Name()+" is `omitempty` (a zero value is left out by encoding/json) but UnmarshalJSON gives it "+exprShort(stf.Rhs)+" when nothing better was decoded: a request/mapping with the field explicitly zero comes back with that default after one marshal/unmarshal round trip")
				} else {
					r.Ob(rule, key+"/always-written", stf.Stmt.Pos(), true, "not omitempty: always written, so the default only applies to hand-written JSON")
				}
			}
		}
	}
	if n < 2 {
		undecidedf("omitempty/default rule matched %d constant defaults", n)
	}
}
