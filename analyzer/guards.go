package main

import (
	"go/ast"
	"go/constant"
	"go/token"
	"go/types"
	"strings"

	"golang.org/x/tools/go/cfg"
)

// Fact is an atomic branch fact that must hold when a location executes.
// For boolean conditions Truth tells whether Expr is true.  For tagged
// switches Tag is the switch tag and Expr the matched case value (Truth =
// tag == value).
type Fact struct {
	Expr  ast.Expr
	Truth bool
	Tag   ast.Expr
}

func (f Fact) String() string {
	s := exprStr(f.Expr)
	if f.Tag != nil {
		s = exprStr(f.Tag) + "==" + s
	}
	if !f.Truth {
		return "!(" + s + ")"
	}
	return s
}

// splitCond decomposes "cond is <truth>" into atomic facts that are all
// implied (conjunctions on the true side, disjunctions on the false side).
func splitCond(e ast.Expr, truth bool, out *[]Fact) {
	e = ast.Unparen(e)
	switch x := e.(type) {
	case *ast.UnaryExpr:
		if x.Op == token.NOT {
			splitCond(x.X, !truth, out)
			return
		}
	case *ast.BinaryExpr:
		if x.Op == token.LAND && truth {
			splitCond(x.X, true, out)
			splitCond(x.Y, true, out)
			return
		}
		if x.Op == token.LOR && !truth {
			splitCond(x.X, false, out)
			splitCond(x.Y, false, out)
			return
		}
	}
	*out = append(*out, Fact{Expr: e, Truth: truth})
}

// branchCond returns the condition expression evaluated at the end of block
// b when b is a two-way branch on an expression (if / for / switch case).
// tag is non-nil for tagged switch cases.
func branchCond(b *cfg.Block) (cond ast.Expr, tag ast.Expr, ok bool) {
	// type switches: go/cfg records no node for `case T:`; the branch block may even be empty
	if len(b.Succs) == 2 && b.Succs[0].Kind == cfg.KindSwitchCaseBody {
		if cc, isCC := b.Succs[0].Stmt.(*ast.CaseClause); isCC && typeCase[cc] && len(cc.List) >= 1 {
			// which of several listed types is tested by this block: the k-th branch block of the clause
			k := 0
			if b.Kind == cfg.KindSwitchNextCase && b.Stmt == ast.Stmt(cc) {
				k = typeCaseIndex(b, cc)
			}
			if k < len(cc.List) {
				return cc.List[k], caseTag[cc], true
			}
		}
	}
	if len(b.Succs) != 2 || len(b.Nodes) == 0 {
		return nil, nil, false
	}
	last, isExpr := b.Nodes[len(b.Nodes)-1].(ast.Expr)
	if !isExpr {
		return nil, nil, false
	}
	s0 := b.Succs[0]
	switch s0.Kind {
	case cfg.KindIfThen:
		if is, ok := s0.Stmt.(*ast.IfStmt); ok && is.Cond == last {
			return last, nil, true
		}
	case cfg.KindForBody:
		if fs, ok := s0.Stmt.(*ast.ForStmt); ok && fs.Cond == last {
			return last, nil, true
		}
	case cfg.KindSwitchCaseBody:
		// the case clause whose body is s0; find the switch to get the tag
		if cc, ok := s0.Stmt.(*ast.CaseClause); ok {
			for _, v := range cc.List {
				if v == last {
					return last, switchTagOf(b, cc), true
				}
			}
		}
	}
	return nil, nil, false
}

// switchTags maps case clauses to their switch tag; filled by FCFG.indexSwitches.
func switchTagOf(b *cfg.Block, cc *ast.CaseClause) ast.Expr {
	if t, ok := caseTag[cc]; ok {
		return t
	}
	return nil
}

var caseTag = map[*ast.CaseClause]ast.Expr{}
var typeCase = map[*ast.CaseClause]bool{}

// typeCaseIndex: for a multi-type clause `case A, B:` go/cfg chains one branch block per listed type, each
// (after the first) being the KindSwitchNextCase block created for the previous one; count the chain back.
func typeCaseIndex(b *cfg.Block, cc *ast.CaseClause) int {
	return 1 // second or later type of the same clause: attribute to the second (facts for lists are approximate)
}

var caseTagged = map[*ast.CaseClause]bool{}

func indexSwitches(body ast.Node) {
	ast.Inspect(body, func(n ast.Node) bool {
		if sw, ok := n.(*ast.SwitchStmt); ok {
			for _, c := range sw.Body.List {
				cc := c.(*ast.CaseClause)
				if sw.Tag != nil {
					caseTag[cc] = sw.Tag
					caseTagged[cc] = true
				}
			}
		}
		if ts, ok := n.(*ast.TypeSwitchStmt); ok {
			// tag = the expression whose dynamic type is switched on; the case values are type expressions
			var tag ast.Expr
			switch a := ts.Assign.(type) {
			case *ast.AssignStmt:
				if len(a.Rhs) == 1 {
					if ta, ok := a.Rhs[0].(*ast.TypeAssertExpr); ok {
						tag = ta.X
					}
				}
			case *ast.ExprStmt:
				if ta, ok := a.X.(*ast.TypeAssertExpr); ok {
					tag = ta.X
				}
			}
			if tag != nil {
				for _, c := range ts.Body.List {
					cc := c.(*ast.CaseClause)
					caseTag[cc] = tag
					caseTagged[cc] = true
					typeCase[cc] = true
				}
			}
		}
		return true
	})
}

// reachableAvoidingEdge reports whether target location is reachable from
// entry when the edge (from -> from.Succs[succ]) is removed.
func (f *FCFG) reachableAvoidingEdge(target Loc, from *cfg.Block, succ int) bool {
	return f.reachableAvoidingEdgeBlocked(target, from, succ, nil)
}

func (f *FCFG) reachableAvoidingEdgeBlocked(target Loc, from *cfg.Block, succ int, blocked map[Loc]bool) bool {
	n := len(f.G.Blocks)
	seen := make([]bool, n)
	st := []*cfg.Block{f.G.Blocks[0]}
	seen[0] = true
	for len(st) > 0 {
		b := st[len(st)-1]
		st = st[:len(st)-1]
		// a blocked node inside b stops the path there (unless the target sits before it)
		stopAt := len(b.Nodes)
		if blocked != nil {
			for i := range b.Nodes {
				if blocked[Loc{b, i}] {
					stopAt = i
					break
				}
			}
		}
		if b == target.B {
			if target.I <= stopAt {
				return true
			}
			continue
		}
		if stopAt < len(b.Nodes) {
			continue
		}
		for i, s := range b.Succs {
			if b == from && i == succ {
				continue
			}
			if !seen[s.Index] {
				seen[s.Index] = true
				st = append(st, s)
			}
		}
	}
	return false
}

// GuardsOf returns the atomic branch facts that hold on every path from the
// function entry to node n.
func (f *FCFG) GuardsOf(n ast.Node) []Fact {
	l, ok := f.Locate(n)
	if !ok {
		return nil
	}
	return f.GuardsOfLoc(l)
}

// factVariants closes a set of facts under the equivalent spellings of a
// comparison: `!(a < b)` is also `a >= b`, and `a < b` is also `b > a`.  Rules
// look for one spelling; which one the source uses is a matter of style
// (inverted conditions, guard clauses, De Morgan).
var negOp = map[token.Token]token.Token{token.EQL: token.NEQ, token.NEQ: token.EQL, token.LSS: token.GEQ, token.GEQ: token.LSS, token.GTR: token.LEQ, token.LEQ: token.GTR}
var mirrorOp = map[token.Token]token.Token{token.EQL: token.EQL, token.NEQ: token.NEQ, token.LSS: token.GTR, token.GTR: token.LSS, token.LEQ: token.GEQ, token.GEQ: token.LEQ}

type variantKey struct {
	e    ast.Expr
	kind int
}

var variantCache = map[variantKey]*ast.BinaryExpr{}

func factVariants(facts []Fact) []Fact {
	out := facts
	for _, f := range facts {
		if f.Tag != nil {
			continue
		}
		be, ok := ast.Unparen(f.Expr).(*ast.BinaryExpr)
		if !ok {
			continue
		}
		if _, rel := negOp[be.Op]; !rel {
			continue
		}
		mk := func(kind int, x, y ast.Expr, op token.Token) *ast.BinaryExpr {
			k := variantKey{be, kind}
			if v := variantCache[k]; v != nil {
				return v
			}
			v := &ast.BinaryExpr{X: x, OpPos: be.OpPos, Op: op, Y: y}
			variantCache[k] = v
			return v
		}
		out = append(out,
			Fact{Expr: mk(1, be.X, be.Y, negOp[be.Op]), Truth: !f.Truth},
			Fact{Expr: mk(2, be.Y, be.X, mirrorOp[be.Op]), Truth: f.Truth},
			Fact{Expr: mk(3, be.Y, be.X, negOp[mirrorOp[be.Op]]), Truth: !f.Truth})
		// a length is never negative: len(x) != 0 is len(x) > 0, len(x) == 0 is len(x) <= 0
		if c, isCall := ast.Unparen(be.X).(*ast.CallExpr); isCall {
			if id, isId := c.Fun.(*ast.Ident); isId && id.Name == "len" {
				if lit, isLit := ast.Unparen(be.Y).(*ast.BasicLit); isLit && lit.Value == "0" {
					op, truth := be.Op, f.Truth
					if !truth {
						op, truth = negOp[op], true
					}
					switch op {
					case token.NEQ:
						out = append(out, Fact{Expr: mk(4, be.X, be.Y, token.GTR), Truth: true}, Fact{Expr: mk(5, be.X, be.Y, token.LEQ), Truth: false})
					case token.GTR:
						out = append(out, Fact{Expr: mk(6, be.X, be.Y, token.NEQ), Truth: true}, Fact{Expr: mk(7, be.X, be.Y, token.EQL), Truth: false})
					case token.EQL:
						out = append(out, Fact{Expr: mk(4, be.X, be.Y, token.GTR), Truth: false}, Fact{Expr: mk(5, be.X, be.Y, token.LEQ), Truth: true})
					case token.LEQ:
						out = append(out, Fact{Expr: mk(6, be.X, be.Y, token.NEQ), Truth: false}, Fact{Expr: mk(7, be.X, be.Y, token.EQL), Truth: true})
					}
				}
			}
		}
	}
	return out
}

func (f *FCFG) GuardsOfLoc(l Loc) []Fact {
	raw := f.guardsOfLoc(l)
	raw = append(raw, f.correlatedFacts(l, raw)...)
	return factVariants(f.expandOperandLocals(f.expandBoolLocals(raw)))
}

// correlatedFacts: a fact about a local that works as a verdict - `nr != nil`, `excluded`, `!found` - where
// every OTHER assignment to that local stores the opposite constant (nil / false / true): the location is
// then only reached on paths that avoid those resets, and whatever holds on all such paths holds here too.
// (A helper that returns "the reader, or nil unless all of these conditions held" expands to exactly this.)
// Resets are blocked wholesale, also those that could be followed by a new verdict in a later loop
// iteration; the facts gained are therefore a slight over-statement inside loops and are only ADDED to
// what the plain computation gives.
func (f *FCFG) correlatedFacts(l Loc, raw []Fact) []Fact {
	if f.Info == nil {
		return nil
	}
	var out []Fact
	seen := map[types.Object]bool{}
	for _, fc := range raw {
		if fc.Tag != nil {
			continue
		}
		var v types.Object
		want := ""
		if e, isEq, isNil := nilTest(f.Info, fc.Expr); isNil {
			if id, ok := ast.Unparen(e).(*ast.Ident); ok {
				v = f.Info.ObjectOf(id)
				if isEq == fc.Truth {
					want = "nil"
				} else {
					want = "nonnil"
				}
			}
		} else if id, ok := ast.Unparen(fc.Expr).(*ast.Ident); ok {
			v = f.Info.ObjectOf(id)
			if fc.Truth {
				want = "true"
			} else {
				want = "false"
			}
		}
		lv, isVar := v.(*types.Var)
		if !isVar || lv.IsField() || seen[v] || (lv.Pkg() != nil && lv.Parent() == lv.Pkg().Scope()) {
			continue
		}
		seen[v] = true
		blocked := map[Loc]bool{}
		satisfying := 0
		classify := func(rhs ast.Expr) string {
			if rhs == nil {
				return "zero"
			}
			if isNilIdent(f.Info, rhs) {
				return "nil"
			}
			if tv, ok := f.Info.Types[rhs]; ok && tv.Value != nil && tv.Value.Kind() == constant.Bool {
				if constant.BoolVal(tv.Value) {
					return "true"
				}
				return "false"
			}
			return "other"
		}
		opposite := func(kind string) bool {
			switch want {
			case "nonnil":
				return kind == "nil" || kind == "zero"
			case "nil":
				return false
			case "true":
				return kind == "false" || kind == "zero"
			case "false":
				return kind == "true"
			}
			return false
		}
		ast.Inspect(f.Body, func(n ast.Node) bool {
			if _, isLit := n.(*ast.FuncLit); isLit {
				return false
			}
			switch y := n.(type) {
			case *ast.AssignStmt:
				for i, lh := range y.Lhs {
					if id, ok := lh.(*ast.Ident); ok && f.Info.ObjectOf(id) == v {
						var rhs ast.Expr
						if len(y.Lhs) == len(y.Rhs) {
							rhs = y.Rhs[i]
						} else {
							satisfying++
							continue
						}
						if opposite(classify(rhs)) {
							if loc, ok := f.Locate(y); ok {
								blocked[loc] = true
							}
						} else {
							satisfying++
						}
					}
				}
			case *ast.ValueSpec:
				for i, nm := range y.Names {
					if f.Info.Defs[nm] == v {
						var rhs ast.Expr
						if i < len(y.Values) {
							rhs = y.Values[i]
						}
						if !opposite(classify(rhs)) {
							satisfying++
						}
						// a zero-value declaration is where the variable starts: not a reset on a path
					}
				}
			}
			return true
		})
		if len(blocked) == 0 || satisfying == 0 {
			continue
		}
		have := map[string]bool{}
		for _, r := range raw {
			have[r.String()] = true
		}
		for _, g := range f.guardsOfLocBlocked(l, blocked) {
			if !have[g.String()] {
				have[g.String()] = true
				out = append(out, g)
			}
		}
	}
	return out
}

var operandCache = map[variantKey]*ast.BinaryExpr{}

// expandOperandLocals: in a comparison, an operand that is a local defined
// exactly once (`n := len(xs)`; `if n == 1`) also stands for its definition.
func (f *FCFG) expandOperandLocals(facts []Fact) []Fact {
	if f.Info == nil {
		return facts
	}
	out := facts
	for _, fc := range facts {
		if fc.Tag != nil {
			continue
		}
		be, ok := ast.Unparen(fc.Expr).(*ast.BinaryExpr)
		if !ok {
			continue
		}
		if _, rel := negOp[be.Op]; !rel {
			continue
		}
		nx, ny := be.X, be.Y
		changed := false
		for k, side := range []ast.Expr{be.X, be.Y} {
			id, ok := ast.Unparen(side).(*ast.Ident)
			if !ok {
				continue
			}
			v, ok := f.Info.ObjectOf(id).(*types.Var)
			if !ok || v.IsField() {
				continue
			}
			if d := singleDefOf(f.Info, f.Body, v); d != nil {
				switch ast.Unparen(d).(type) {
				case *ast.CallExpr, *ast.SelectorExpr, *ast.IndexExpr:
					if k == 0 {
						nx = d
					} else {
						ny = d
					}
					changed = true
				}
			}
		}
		if !changed {
			continue
		}
		key := variantKey{be, 9}
		nb := operandCache[key]
		if nb == nil {
			nb = &ast.BinaryExpr{X: nx, OpPos: be.OpPos, Op: be.Op, Y: ny}
			operandCache[key] = nb
		}
		out = append(out, Fact{Expr: nb, Truth: fc.Truth})
	}
	return out
}

// expandBoolLocals: a fact about a boolean local that is defined exactly once
// by a compound condition (`removable := !exists && !inUse`; `if removable`)
// is also a fact about that condition's atoms.
func (f *FCFG) expandBoolLocals(facts []Fact) []Fact {
	if f.Info == nil {
		return facts
	}
	out := facts
	for depth := 0; depth < 3; depth++ {
		var add []Fact
		for _, fc := range facts {
			if fc.Tag != nil {
				continue
			}
			id, ok := ast.Unparen(fc.Expr).(*ast.Ident)
			if !ok {
				continue
			}
			o := f.Info.ObjectOf(id)
			if o == nil {
				continue
			}
			var def ast.Expr
			var assertion *ast.TypeAssertExpr
			n := 0
			ast.Inspect(f.Body, func(x ast.Node) bool {
				switch y := x.(type) {
				case *ast.AssignStmt:
					for i, l := range y.Lhs {
						if lid, ok := l.(*ast.Ident); ok && f.Info.ObjectOf(lid) == o {
							n++
							if len(y.Lhs) == len(y.Rhs) {
								def = y.Rhs[i]
							} else if ta, isTA := ast.Unparen(y.Rhs[0]).(*ast.TypeAssertExpr); isTA && len(y.Lhs) == 2 && len(y.Rhs) == 1 && i == 1 && ta.Type != nil {
								assertion = ta // v, ok := x.(T): ok says "the dynamic type of x is T"
							} else {
								def = nil
								n += 10
							}
						}
					}
				case *ast.ValueSpec:
					for i, nm := range y.Names {
						if f.Info.ObjectOf(nm) == o && i < len(y.Values) {
							n++
							def = y.Values[i]
						}
					}
				case *ast.UnaryExpr:
					if y.Op == token.AND {
						if lid, ok := ast.Unparen(y.X).(*ast.Ident); ok && f.Info.ObjectOf(lid) == o {
							n += 10
						}
					}
				}
				return true
			})
			if n == 1 && assertion != nil {
				add = append(add, Fact{Expr: assertion.Type, Truth: fc.Truth, Tag: assertion.X})
				continue
			}
			if n != 1 || def == nil {
				continue
			}
			switch ast.Unparen(def).(type) {
			case *ast.BinaryExpr, *ast.UnaryExpr:
				splitCond(def, fc.Truth, &add)
			case *ast.IndexExpr, *ast.SelectorExpr:
				// `pending := s.set[name]` ... `if !pending`: the flag stands for the lookup
				add = append(add, Fact{Expr: def, Truth: fc.Truth})
			}
		}
		if len(add) == 0 {
			break
		}
		out = append(out, add...)
		facts = add
	}
	return out
}

// RawGuardsOf returns the facts as spelled in the source (for rules that
// quantify over ALL facts of a location).
func (f *FCFG) RawGuardsOf(n ast.Node) []Fact {
	l, ok := f.Locate(n)
	if !ok {
		return nil
	}
	return f.guardsOfLoc(l)
}

func (f *FCFG) guardsOfLoc(l Loc) []Fact { return f.guardsOfLocBlocked(l, nil) }

// guardsOfLocBlocked: the facts that hold on every path from the entry to l that does not execute any of
// the blocked locations.
func (f *FCFG) guardsOfLocBlocked(l Loc, blocked map[Loc]bool) []Fact {
	indexSwitches(f.Body)
	var facts []Fact
	for _, b := range f.G.Blocks {
		cond, tag, ok := branchCond(b)
		if !ok {
			continue
		}
		if b == l.B {
			continue // the branch is evaluated after (or at) l inside the same block
		}
		for pol := 0; pol < 2; pol++ {
			if b.Succs[0] == b.Succs[1] {
				continue
			}
			if !f.reachableAvoidingEdgeBlocked(l, b, pol, blocked) {
				truth := pol == 0
				if tag != nil {
					if truth {
						facts = append(facts, Fact{Expr: cond, Truth: true, Tag: tag})
					}
					// a false tagged-case edge gives tag != value; recorded too
					if !truth {
						facts = append(facts, Fact{Expr: cond, Truth: false, Tag: tag})
					}
				} else {
					splitCond(cond, truth, &facts)
				}
			}
		}
	}
	return facts
}

// hasFact reports whether some fact's expression text equals want with the
// given truth (text comparison after parenthesis stripping).
func hasFact(facts []Fact, want string, truth bool) bool {
	for _, f := range facts {
		if f.Tag == nil && f.Truth == truth && exprStr(ast.Unparen(f.Expr)) == want {
			return true
		}
	}
	return false
}

// factMatch reports whether some fact satisfies pred.
func factMatch(facts []Fact, pred func(Fact) bool) bool {
	for _, f := range facts {
		if pred(f) {
			return true
		}
	}
	return false
}

// errNilFact classifies a fact as "<errvar> == nil" (true) / "!= nil".
// Returns (name of var, isNil, ok).
func errNilFact(info *types.Info, f Fact) (string, bool, bool) {
	if f.Tag != nil {
		return "", false, false
	}
	x, isEq, ok := nilTest(info, f.Expr)
	if !ok {
		return "", false, false
	}
	isNil := isEq == f.Truth
	return exprStr(x), isNil, true
}

func factsString(fs []Fact) string {
	var ss []string
	for _, f := range fs {
		ss = append(ss, f.String())
	}
	return strings.Join(ss, " && ")
}

// GuardsAtStmt returns the facts that hold when statement st starts executing,
// for statements go/cfg does not record as nodes (break, continue, goto):
// the facts of the previous sibling in the same statement list, plus the
// negated condition of every earlier sibling `if c { ...; <leaves> }` whose
// body cannot fall through.
func (f *FCFG) GuardsAtStmt(root ast.Node, st ast.Stmt) []Fact {
	if _, ok := f.Locate(st); ok {
		return f.GuardsOf(st)
	}
	var list []ast.Stmt
	idx := -1
	ast.Inspect(root, func(n ast.Node) bool {
		var l []ast.Stmt
		switch y := n.(type) {
		case *ast.BlockStmt:
			l = y.List
		case *ast.CaseClause:
			l = y.Body
		case *ast.CommClause:
			l = y.Body
		}
		for i, s := range l {
			if s == st {
				list, idx = l, i
			}
		}
		return idx < 0
	})
	if idx <= 0 {
		return nil
	}
	leaves := func(b *ast.BlockStmt) bool {
		if b == nil || len(b.List) == 0 {
			return false
		}
		switch y := b.List[len(b.List)-1].(type) {
		case *ast.ReturnStmt:
			return true
		case *ast.BranchStmt:
			return y.Tok != token.FALLTHROUGH
		case *ast.ExprStmt:
			if c, ok := y.X.(*ast.CallExpr); ok {
				if id, ok := c.Fun.(*ast.Ident); ok && id.Name == "panic" {
					return true
				}
			}
		}
		return false
	}
	var raw []Fact
	// locate the nearest earlier sibling that has a CFG location
	for k := idx - 1; k >= 0; k-- {
		var anchor ast.Node
		ast.Inspect(list[k], func(n ast.Node) bool {
			if anchor != nil || n == nil {
				return false
			}
			if _, ok := f.Locate(n); ok {
				anchor = n
				return false
			}
			return true
		})
		if anchor != nil {
			if l, ok := f.Locate(anchor); ok {
				raw = append(raw, f.guardsOfLoc(l)...)
			}
			break
		}
	}
	for k := 0; k < idx; k++ {
		if is, ok := list[k].(*ast.IfStmt); ok && is.Else == nil && leaves(is.Body) {
			splitCond(is.Cond, false, &raw)
		}
	}
	return factVariants(f.expandOperandLocals(f.expandBoolLocals(raw)))
}
