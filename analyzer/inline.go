package main

// Normalisation of the analysed program: helper functions that did not exist
// when the rules were calibrated are looked through.
//
// Every rule of this checker is anchored in functions of the tree the rules
// were written against (found by qualified name, then by role inside the
// body).  A maintainer who extracts part of such a function into a new helper
// - or turns a closure into a method - does not change behaviour, but moves
// the constructs a rule looks for out of the body it looks in.  Instead of
// teaching each of ~150 rules about every possible helper, the loader undoes
// the extraction before any rule runs:
//
//   * baseline_funcs.json (committed, generated once from the pinned tree
//     with -prop INFER-BASELINE) lists the functions that existed when the
//     rules were written.  It is NOT an oracle for any property: it only
//     decides which callees are "new helpers".
//   * a static call from any analysed function to a new, non-recursive
//     helper of the same package is replaced by a copy of the helper's body
//     (parameters substituted when the argument is a stable expression,
//     bound by `p := arg` otherwise; `return` becomes assignment + goto to a
//     label behind the body; top-level defers are replayed at each exit); a
//     reference to such a helper as a function value becomes a function
//     literal with the helper's body.  The copy re-uses the helper's type
//     information, so positions in reports still point into the helper.
//   * a new function that takes the place of exactly one vanished baseline
//     function with the same receiver and signature is treated as that
//     function renamed.
//   * an unexported helper all of whose uses were expanded is removed from
//     the function list, so package-wide rules (lock discipline, error
//     discipline) judge its statements in the callers' context only.
//
// The result need not be compilable Go; it only has to be a faithful flow
// graph and syntax tree for the rules (go/cfg accepts it).  On the unchanged
// tree there are no new functions and nothing is rewritten.

import (
	"encoding/json"
	"fmt"
	"go/ast"
	"go/constant"
	"go/token"
	"go/types"
	"os"
	"path/filepath"
	"reflect"
	"sort"
	"strings"

	"golang.org/x/tools/go/packages"
)

var baselinePath string // set from -verif in main

var normaliseLog []string

// synthNamedResults: named results of an expanded helper (now locals of the caller). A deferred closure of the helper
// that stores into them still "reports to the caller" as far as the error-discipline rules are concerned.
var synthNamedResults = map[types.Object]bool{}

// failureReturns: return statements synthesised by the normaliser on a path where the error result is known to be set.
var failureReturns = map[*ast.ReturnStmt]bool{}

// funcCanon maps a renamed function to a stand-in object with its baseline name (see normalise).
var funcCanon = map[*types.Func]*types.Func{}

func loadBaseline() map[string]bool {
	if baselinePath == "" {
		return nil
	}
	b, err := os.ReadFile(baselinePath)
	if err != nil {
		return nil
	}
	var names []string
	if json.Unmarshal(b, &names) != nil {
		return nil
	}
	m := map[string]bool{}
	for _, n := range names {
		m[n] = true
	}
	return m
}

func writeBaseline(p *Prog, verif string) {
	var names []string
	seen := map[string]bool{}
	for _, fi := range p.flist {
		if !seen[fi.Name] {
			seen[fi.Name] = true
			names = append(names, fi.Name)
		}
	}
	sort.Strings(names)
	b, _ := json.MarshalIndent(names, "", " ")
	os.WriteFile(filepath.Join(verif, "baseline_funcs.json"), append(b, '\n'), 0o644)
	fmt.Printf("baseline: %d functions written\n", len(names))
	// who called whom inside one package (used only to find the host of a helper that was inlined away)
	callers := map[string][]string{}
	for _, fi := range p.flist {
		if fi.Decl.Body == nil {
			continue
		}
		seenC := map[string]bool{}
		ast.Inspect(fi.Decl.Body, func(n ast.Node) bool {
			if id, ok := n.(*ast.Ident); ok {
				if f, ok := fi.Pkg.TypesInfo.Uses[id].(*types.Func); ok && f.Pkg() == fi.Pkg.Types {
					cn := funcName(f)
					if cn != fi.Name && !seenC[cn] {
						seenC[cn] = true
						callers[cn] = append(callers[cn], fi.Name)
					}
				}
			}
			return true
		})
	}
	for k := range callers {
		sort.Strings(callers[k])
	}
	fields := map[string][]string{}
	for _, pk := range p.Pkgs {
		sc := pk.Types.Scope()
		for _, nm := range sc.Names() {
			tn, ok := sc.Lookup(nm).(*types.TypeName)
			if !ok {
				continue
			}
			st, ok := tn.Type().Underlying().(*types.Struct)
			if !ok {
				continue
			}
			key := relPkg(pk.PkgPath) + "." + nm
			for i := 0; i < st.NumFields(); i++ {
				fields[key] = append(fields[key], st.Field(i).Name()+"|"+types.TypeString(st.Field(i).Type(), nil))
			}
		}
	}
	closures := map[string][]string{}
	for _, fi := range p.flist {
		if fi.Decl.Body == nil {
			continue
		}
		for _, cv := range closureVars(fi.Pkg.TypesInfo, fi.Decl.Body) {
			closures[fi.Name] = append(closures[fi.Name], cv.obj.Name())
		}
		sort.Strings(closures[fi.Name])
	}
	clb, _ := json.MarshalIndent(closures, "", " ")
	os.WriteFile(filepath.Join(verif, "baseline_closures.json"), append(clb, '\n'), 0o644)
	fb, _ := json.MarshalIndent(fields, "", " ")
	os.WriteFile(filepath.Join(verif, "baseline_fields.json"), append(fb, '\n'), 0o644)
	cb, _ := json.MarshalIndent(callers, "", " ")
	os.WriteFile(filepath.Join(verif, "baseline_callers.json"), append(cb, '\n'), 0o644)
}

type closureVar struct {
	obj  types.Object
	lit  *ast.FuncLit
	stmt ast.Stmt
}

// closureVars lists the local variables of body that are defined exactly once, by a function literal.
func closureVars(info *types.Info, body ast.Node) []closureVar {
	var out []closureVar
	ast.Inspect(body, func(n ast.Node) bool {
		switch y := n.(type) {
		case *ast.AssignStmt:
			if y.Tok == token.DEFINE && len(y.Lhs) == 1 && len(y.Rhs) == 1 {
				if lit, ok := ast.Unparen(y.Rhs[0]).(*ast.FuncLit); ok {
					if id, ok := y.Lhs[0].(*ast.Ident); ok {
						if o := info.Defs[id]; o != nil {
							out = append(out, closureVar{o, lit, y})
						}
					}
				}
			}
		case *ast.DeclStmt:
			if gd, ok := y.Decl.(*ast.GenDecl); ok && len(gd.Specs) == 1 {
				if vs, ok := gd.Specs[0].(*ast.ValueSpec); ok && len(vs.Names) == 1 && len(vs.Values) == 1 {
					if lit, ok := ast.Unparen(vs.Values[0]).(*ast.FuncLit); ok {
						if o := info.Defs[vs.Names[0]]; o != nil {
							out = append(out, closureVar{o, lit, y})
						}
					}
				}
			}
		}
		return true
	})
	return out
}

// newClosures: closure variables of fi that did not exist in the baseline, are never reassigned,
// are only ever CALLED (not passed around) and do not call themselves.
func newClosures(info *types.Info, fi *FuncInfo, base map[string][]string, pk *packages.Package) map[types.Object]*FuncInfo {
	known := map[string]bool{}
	for _, n := range base[fi.Name] {
		known[n] = true
	}
	out := map[types.Object]*FuncInfo{}
	for _, cv := range closureVars(info, fi.Decl.Body) {
		if known[cv.obj.Name()] {
			continue
		}
		callFun := map[*ast.Ident]bool{}
		ast.Inspect(fi.Decl.Body, func(n ast.Node) bool {
			if c, ok := n.(*ast.CallExpr); ok {
				if id, ok := ast.Unparen(c.Fun).(*ast.Ident); ok {
					callFun[id] = true
				}
			}
			return true
		})
		ok := true
		ast.Inspect(fi.Decl.Body, func(n ast.Node) bool {
			if id, isId := n.(*ast.Ident); isId && info.Uses[id] == cv.obj && !callFun[id] {
				ok = false // used as a value or assigned
			}
			return true
		})
		ast.Inspect(cv.lit.Body, func(n ast.Node) bool {
			if id, isId := n.(*ast.Ident); isId && info.Uses[id] == cv.obj {
				ok = false // recursive
			}
			return true
		})
		sig, isSig := info.TypeOf(cv.lit).(*types.Signature)
		if !ok || !isSig {
			continue
		}
		syn := types.NewFunc(cv.lit.Pos(), pk.Types, cv.obj.Name(), sig)
		out[cv.obj] = &FuncInfo{Pkg: pk, Obj: syn, Name: fi.Name + "$" + cv.obj.Name(),
			Decl: &ast.FuncDecl{Name: &ast.Ident{NamePos: cv.lit.Pos(), Name: cv.obj.Name()}, Type: cv.lit.Type, Body: cv.lit.Body}}
	}
	return out
}

func loadBaselineClosures() map[string][]string {
	if baselinePath == "" {
		return nil
	}
	b, err := os.ReadFile(filepath.Join(filepath.Dir(baselinePath), "baseline_closures.json"))
	if err != nil {
		return nil
	}
	m := map[string][]string{}
	if json.Unmarshal(b, &m) != nil {
		return nil
	}
	return m
}

// fieldCanon maps a struct field that was renamed since the baseline to the
// name the rules know it by: a vanished field and a new field of the same
// struct with the same type, unique on both sides.
var fieldCanon = map[*types.Var]string{}

// canonObj: the stand-in of a renamed function, anything else unchanged.
func canonObj(o types.Object) types.Object {
	if f, ok := o.(*types.Func); ok {
		if c, ok := funcCanon[f]; ok {
			return c
		}
	}
	return o
}

func canonFieldName(v *types.Var) string {
	if n, ok := fieldCanon[v]; ok {
		return n
	}
	return v.Name()
}

func (p *Prog) canonFields() {
	if baselinePath == "" {
		return
	}
	b, err := os.ReadFile(filepath.Join(filepath.Dir(baselinePath), "baseline_fields.json"))
	if err != nil {
		return
	}
	base := map[string][]string{}
	if json.Unmarshal(b, &base) != nil {
		return
	}
	for _, pk := range p.Pkgs {
		sc := pk.Types.Scope()
		for _, nm := range sc.Names() {
			tn, ok := sc.Lookup(nm).(*types.TypeName)
			if !ok {
				continue
			}
			st, ok := tn.Type().Underlying().(*types.Struct)
			if !ok {
				continue
			}
			old, ok := base[relPkg(pk.PkgPath)+"."+nm]
			if !ok {
				continue
			}
			oldSet := map[string]string{}
			for _, e := range old {
				if i := strings.Index(e, "|"); i >= 0 {
					oldSet[e[:i]] = e[i+1:]
				}
			}
			cur := map[string]*types.Var{}
			for i := 0; i < st.NumFields(); i++ {
				cur[st.Field(i).Name()] = st.Field(i)
			}
			vanishedByType := map[string][]string{}
			for n, t := range oldSet {
				if cur[n] == nil {
					vanishedByType[t] = append(vanishedByType[t], n)
				}
			}
			addedByType := map[string][]*types.Var{}
			for n, v := range cur {
				if _, was := oldSet[n]; !was {
					t := types.TypeString(v.Type(), nil)
					addedByType[t] = append(addedByType[t], v)
				}
			}
			for t, vs := range vanishedByType {
				if as := addedByType[t]; len(vs) == 1 && len(as) == 1 {
					fieldCanon[as[0]] = vs[0]
					normaliseLog = append(normaliseLog, fmt.Sprintf("renamed field: %s.%s is treated as %s", nm, as[0].Name(), vs[0]))
				}
			}
		}
	}
}

// hostOfVanished: a baseline function that no longer exists and used to be
// referenced from exactly one function of its package was most likely inlined
// into that function; rules anchored in it look there instead.
func hostOfVanished(p *Prog, name string) *FuncInfo {
	if baselinePath == "" {
		return nil
	}
	b, err := os.ReadFile(filepath.Join(filepath.Dir(baselinePath), "baseline_callers.json"))
	if err != nil {
		return nil
	}
	callers := map[string][]string{}
	if json.Unmarshal(b, &callers) != nil {
		return nil
	}
	seen := map[string]bool{}
	for hop := 0; hop < 3; hop++ {
		cs := callers[name]
		if len(cs) != 1 || seen[name] {
			return nil
		}
		seen[name] = true
		if fi := p.funcs[cs[0]]; fi != nil && fi.Decl.Body != nil {
			normaliseLog = append(normaliseLog, fmt.Sprintf("vanished: %s is looked for in its only former caller %s", name, fi.Name))
			return fi
		}
		name = cs[0]
	}
	return nil
}

// ---------------------------------------------------------------- copying

type astCopier struct {
	info  *types.Info
	subst map[types.Object]ast.Expr
}

var (
	tObject = reflect.TypeOf((*ast.Object)(nil))
	tScope  = reflect.TypeOf((*ast.Scope)(nil))
)

func (c *astCopier) copyStmt(s ast.Stmt) ast.Stmt {
	if s == nil {
		return nil
	}
	return c.val(reflect.ValueOf(&s).Elem()).Interface().(ast.Stmt)
}

func (c *astCopier) copyExpr(e ast.Expr) ast.Expr {
	if e == nil {
		return nil
	}
	return c.val(reflect.ValueOf(&e).Elem()).Interface().(ast.Expr)
}

func (c *astCopier) copyBlock(b *ast.BlockStmt) *ast.BlockStmt {
	if b == nil {
		return nil
	}
	return c.val(reflect.ValueOf(b)).Interface().(*ast.BlockStmt)
}

func (c *astCopier) val(v reflect.Value) reflect.Value {
	switch v.Kind() {
	case reflect.Interface:
		if v.IsNil() {
			return v
		}
		// substitution of a parameter use by the argument expression
		if id, ok := v.Interface().(*ast.Ident); ok && c.subst != nil {
			if o := c.info.Uses[id]; o != nil {
				if repl, ok := c.subst[o]; ok {
					plain := &astCopier{info: c.info}
					ne := plain.copyExpr(repl)
					switch ne.(type) {
					case *ast.Ident, *ast.SelectorExpr, *ast.BasicLit, *ast.ParenExpr:
					default:
						pe := &ast.ParenExpr{Lparen: id.Pos(), X: ne, Rparen: id.End()}
						if tv, ok := c.info.Types[ne]; ok {
							c.info.Types[pe] = tv
						}
						ne = pe
					}
					nv := reflect.New(v.Type()).Elem()
					nv.Set(reflect.ValueOf(ne))
					return nv
				}
			}
		}
		e := c.val(v.Elem())
		nv := reflect.New(v.Type()).Elem()
		nv.Set(e)
		return nv
	case reflect.Ptr:
		if v.IsNil() {
			return v
		}
		if v.Type() == tObject || v.Type() == tScope {
			return reflect.Zero(v.Type())
		}
		if v.Elem().Kind() != reflect.Struct {
			return v
		}
		np := reflect.New(v.Type().Elem())
		for i := 0; i < v.Elem().NumField(); i++ {
			if np.Elem().Field(i).CanSet() {
				np.Elem().Field(i).Set(c.val(v.Elem().Field(i)))
			}
		}
		c.dupInfo(v.Interface(), np.Interface())
		return np
	case reflect.Slice:
		if v.IsNil() {
			return v
		}
		ns := reflect.MakeSlice(v.Type(), v.Len(), v.Len())
		for i := 0; i < v.Len(); i++ {
			ns.Index(i).Set(c.val(v.Index(i)))
		}
		return ns
	case reflect.Struct:
		ns := reflect.New(v.Type()).Elem()
		for i := 0; i < v.NumField(); i++ {
			if ns.Field(i).CanSet() {
				ns.Field(i).Set(c.val(v.Field(i)))
			}
		}
		return ns
	}
	return v
}

func (c *astCopier) dupInfo(old, nw interface{}) {
	info := c.info
	if r, ok := old.(*ast.ReturnStmt); ok && failureReturns[r] {
		failureReturns[nw.(*ast.ReturnStmt)] = true
	}
	if e, ok := old.(ast.Expr); ok {
		if tv, ok := info.Types[e]; ok {
			info.Types[nw.(ast.Expr)] = tv
		}
	}
	if id, ok := old.(*ast.Ident); ok {
		nid := nw.(*ast.Ident)
		if o, ok := info.Defs[id]; ok {
			info.Defs[nid] = o
		}
		if o, ok := info.Uses[id]; ok {
			info.Uses[nid] = o
		}
		if in, ok := info.Instances[id]; ok {
			info.Instances[nid] = in
		}
	}
	if s, ok := old.(*ast.SelectorExpr); ok {
		if sel, ok := info.Selections[s]; ok {
			info.Selections[nw.(*ast.SelectorExpr)] = sel
		}
	}
	if n, ok := old.(ast.Node); ok {
		if o, ok := info.Implicits[n]; ok {
			info.Implicits[nw.(ast.Node)] = o
		}
		if sc, ok := info.Scopes[n]; ok {
			info.Scopes[nw.(ast.Node)] = sc
		}
	}
}

// ---------------------------------------------------------------- statement lists

// mapStmtLists applies f to every statement list under n (blocks, case and
// comm clauses), innermost first, not descending into function literals
// unless lits is true.
func mapStmtLists(n ast.Node, lits bool, f func(list []ast.Stmt) []ast.Stmt) {
	var walk func(n ast.Node)
	walk = func(n ast.Node) {
		if n == nil || reflect.ValueOf(n).IsNil() {
			return
		}
		ast.Inspect(n, func(x ast.Node) bool {
			if x == nil || x == n {
				return true
			}
			switch y := x.(type) {
			case *ast.FuncLit:
				if lits {
					walk(y.Body)
					y.Body.List = f(y.Body.List)
				}
				return false
			case *ast.BlockStmt:
				walk(y)
				y.List = f(y.List)
				return false
			case *ast.CaseClause:
				for _, e := range y.List {
					walk(e)
				}
				tmp := &ast.BlockStmt{List: y.Body}
				walk(tmp)
				y.Body = f(tmp.List)
				return false
			case *ast.CommClause:
				tmp := &ast.BlockStmt{List: y.Body}
				walk(tmp)
				y.Body = f(tmp.List)
				return false
			}
			return true
		})
	}
	walk(n)
	if b, ok := n.(*ast.BlockStmt); ok {
		b.List = f(b.List)
	}
}

// ---------------------------------------------------------------- the inliner

type inliner struct {
	pk       *packages.Package
	info     *types.Info
	helpers  map[*types.Func]*FuncInfo
	closures map[types.Object]*FuncInfo // new local closure variables of the function being rewritten
	seq      *int
	changed  bool
	alias    map[types.Object]types.Object // caller variable defined from a helper result that is one local of the helper
	brTrue   string                        // modeBranch: labels for `return true` / `return false`
	brFalse  string
	body     *ast.BlockStmt // the (copied) body being rewritten
	caller   *FuncInfo
	thread   *errThread // modeAssign followed by `if err != nil {..}`: returns jump straight to the right side of that test
}

// errThread: the caller tests the helper's error result right after the call.
// A return of the helper whose error value is known to be nil (or non-nil) is
// connected directly to the matching side of the caller's test, so the facts
// of the helper's path are not lost in a merged `err` variable.
type errThread struct {
	errIdx          int
	lErr, lOk, lChk string
	lEnd            string
	usedChk         bool
	usedErr         bool
	nilness         map[token.Pos]string // position of a return in the helper -> "nil" / "nonnil" / ""
	errBody         []ast.Stmt           // the caller's `if err != nil { .. }` body: duplicated at each failing return (when small)
	cond            ast.Expr             // the caller's test
}

func (x *inliner) helperOfCall(c *ast.CallExpr) *FuncInfo {
	if c == nil {
		return nil
	}
	f := callee(x.info, c)
	if f == nil {
		if id, ok := ast.Unparen(c.Fun).(*ast.Ident); ok && x.closures != nil {
			if h := x.closures[x.info.Uses[id]]; h != nil {
				return h
			}
		}
		return nil
	}
	return x.helpers[f]
}

func (x *inliner) newIdent(name string, pos token.Pos, obj types.Object, def bool) *ast.Ident {
	id := &ast.Ident{NamePos: pos, Name: name}
	if def {
		x.info.Defs[id] = obj
	} else {
		x.info.Uses[id] = obj
		if obj != nil {
			x.info.Types[id] = types.TypeAndValue{Type: obj.Type()}
		}
	}
	return id
}

func stableArg(info *types.Info, e ast.Expr) bool {
	switch y := ast.Unparen(e).(type) {
	case *ast.Ident:
		return true
	case *ast.BasicLit:
		return true
	case *ast.SelectorExpr:
		if sel, ok := info.Selections[y]; ok && sel.Kind() != types.FieldVal {
			return false
		}
		return stableArg(info, y.X)
	case *ast.StarExpr:
		return stableArg(info, y.X)
	case *ast.UnaryExpr:
		return y.Op == token.AND && stableArg(info, y.X)
	}
	return false
}

func assignedOrAddressed(info *types.Info, body ast.Node, o types.Object) bool {
	found := false
	ast.Inspect(body, func(n ast.Node) bool {
		switch y := n.(type) {
		case *ast.AssignStmt:
			for _, l := range y.Lhs {
				if id, ok := ast.Unparen(l).(*ast.Ident); ok && info.ObjectOf(id) == o {
					found = true
				}
			}
		case *ast.IncDecStmt:
			if id, ok := ast.Unparen(y.X).(*ast.Ident); ok && info.ObjectOf(id) == o {
				found = true
			}
		case *ast.UnaryExpr:
			if id, ok := ast.Unparen(y.X).(*ast.Ident); ok && y.Op == token.AND && info.ObjectOf(id) == o {
				found = true
			}
		case *ast.RangeStmt:
			for _, l := range []ast.Expr{y.Key, y.Value} {
				if id, ok := l.(*ast.Ident); ok && info.ObjectOf(id) == o {
					found = true
				}
			}
		}
		return true
	})
	return found
}

const (
	modeStmt = iota
	modeAssign
	modeReturn
	modeBranch // the call is an if condition: returns become jumps to the then/else labels
)

// expand returns the statements that replace a call to helper h, or nil when
// the call cannot be expanded faithfully.
func (x *inliner) expand(call *ast.CallExpr, h *FuncInfo, mode int, lhs []ast.Expr, tok token.Token) []ast.Stmt {
	sig := h.Obj.Type().(*types.Signature)
	if sig.Variadic() && call.Ellipsis == token.NoPos {
		return nil
	}
	if sig.TypeParams().Len() > 0 {
		return nil // a generic helper's body mentions its type parameters; rules read the instantiation at the call
	}
	if len(call.Args) != sig.Params().Len() {
		return nil // f(g()) with multiple results
	}
	body := h.Decl.Body
	// defers: only top-level ones can be replayed at the exits
	var defers []*ast.DeferStmt
	nested := false
	ast.Inspect(body, func(n ast.Node) bool {
		if _, ok := n.(*ast.FuncLit); ok {
			return false
		}
		if d, ok := n.(*ast.DeferStmt); ok {
			top := false
			for _, s := range body.List {
				if s == d {
					top = true
				}
			}
			if !top {
				nested = true
			}
			defers = append(defers, d)
		}
		return true
	})
	if mode != modeReturn && nested {
		return nil
	}
	*x.seq++
	n := *x.seq
	pos := call.Pos()
	var out []ast.Stmt
	subst := map[types.Object]ast.Expr{}
	bind := func(pv *types.Var, nameIdent *ast.Ident, arg ast.Expr) {
		if pv == nil || nameIdent == nil || nameIdent.Name == "_" {
			if !stableArg(x.info, arg) {
				blank := &ast.Ident{NamePos: pos, Name: "_"}
				out = append(out, &ast.AssignStmt{Lhs: []ast.Expr{blank}, TokPos: pos, Tok: token.ASSIGN, Rhs: []ast.Expr{arg}})
			}
			return
		}
		if stableArg(x.info, arg) && !assignedOrAddressed(x.info, body, pv) {
			subst[pv] = arg
			return
		}
		// the argument is a variable of the caller whose only use is this call: the helper's
		// parameter is that variable (the extraction moved its whole life into the helper)
		if aid, isID := ast.Unparen(arg).(*ast.Ident); isID && x.body != nil && x.caller != nil {
			if v, isVar := x.info.Uses[aid].(*types.Var); isVar && !v.IsField() && v.Pkg() != nil && v.Parent() != v.Pkg().Scope() && types.Identical(v.Type(), pv.Type()) {
				namedResult := false
				if cs, isSig := x.caller.Obj.Type().(*types.Signature); isSig {
					for i := 0; i < cs.Results().Len(); i++ {
						if cs.Results().At(i) == v {
							namedResult = true
						}
					}
				}
				uses := 0
				ast.Inspect(x.body, func(q ast.Node) bool {
					if id, ok := q.(*ast.Ident); ok && x.info.Uses[id] == v {
						uses++
					}
					return true
				})
				inLoop := false
				for _, anc := range enclosing(x.body, aid) {
					switch anc.(type) {
					case *ast.ForStmt, *ast.RangeStmt, *ast.FuncLit:
						inLoop = true
					}
				}
				if uses == 1 && !namedResult && !inLoop {
					subst[pv] = arg
					return
				}
			}
		}
		id := x.newIdent(pv.Name(), pos, pv, true)
		out = append(out, &ast.AssignStmt{Lhs: []ast.Expr{id}, TokPos: pos, Tok: token.DEFINE, Rhs: []ast.Expr{arg}})
	}
	// receiver
	if sig.Recv() != nil {
		sel, ok := ast.Unparen(call.Fun).(*ast.SelectorExpr)
		if !ok {
			return nil
		}
		var rid *ast.Ident
		if h.Decl.Recv != nil && len(h.Decl.Recv.List) == 1 && len(h.Decl.Recv.List[0].Names) == 1 {
			rid = h.Decl.Recv.List[0].Names[0]
		}
		var rv *types.Var
		if rid != nil {
			rv, _ = x.info.Defs[rid].(*types.Var)
		}
		bind(rv, rid, sel.X)
	}
	// parameters
	k := 0
	for _, f := range h.Decl.Type.Params.List {
		if len(f.Names) == 0 {
			bind(nil, nil, call.Args[k])
			k++
			continue
		}
		for _, nm := range f.Names {
			pv, _ := x.info.Defs[nm].(*types.Var)
			bind(pv, nm, call.Args[k])
			k++
		}
	}
	// named results are ordinary variables of the expansion
	var resultVars []*types.Var
	if h.Decl.Type.Results != nil {
		for _, f := range h.Decl.Type.Results.List {
			for _, nm := range f.Names {
				if rv, _ := x.info.Defs[nm].(*types.Var); rv != nil && nm.Name != "_" {
					resultVars = append(resultVars, rv)
					synthNamedResults[rv] = true
					{
						id := x.newIdent(rv.Name(), pos, rv, true)
						tid := &ast.Ident{NamePos: pos, Name: types.TypeString(rv.Type(), nil)}
						x.info.Types[tid] = types.TypeAndValue{Type: rv.Type()}
						out = append(out, &ast.DeclStmt{Decl: &ast.GenDecl{TokPos: pos, Tok: token.VAR, Specs: []ast.Spec{&ast.ValueSpec{Names: []*ast.Ident{id}, Type: tid}}}})
					}
				}
			}
		}
	}
	cp := &astCopier{info: x.info, subst: subst}
	nb := cp.copyBlock(body)
	x.foldConstantBranches(nb)
	if mode == modeReturn {
		if len(resultVars) > 0 {
			// the helper's named results are locals of the expansion; a bare return names them
			mapStmtLists(nb, false, func(list []ast.Stmt) []ast.Stmt {
				for _, s := range list {
					if ret, ok := s.(*ast.ReturnStmt); ok && len(ret.Results) == 0 {
						for _, rv := range resultVars {
							ret.Results = append(ret.Results, x.newIdent(rv.Name(), ret.Pos(), rv, false))
						}
					}
				}
				return list
			})
		}
		x.changed = true
		return append(out, nb.List...)
	}
	label := fmt.Sprintf("inl_ret_%d", n)
	usedLabel := false
	// deferred calls of the copy, in source order
	var cdefers []*ast.DeferStmt
	for _, s := range nb.List {
		if d, ok := s.(*ast.DeferStmt); ok {
			cdefers = append(cdefers, d)
		}
	}
	replay := func(before token.Pos) []ast.Stmt {
		var ss []ast.Stmt
		for i := len(cdefers) - 1; i >= 0; i-- {
			if cdefers[i].Pos() < before {
				plain := &astCopier{info: x.info}
				ss = append(ss, &ast.ExprStmt{X: plain.copyExpr(cdefers[i].Call)})
			}
		}
		return ss
	}
	// `x := helper()` where every return of the helper yields the same local
	// variable at that position: x IS that variable (no copy is introduced)
	aliasPos := map[int]types.Object{}
	aliasZero := map[int]bool{}
	aliasDead := map[int]bool{}
	if mode == modeAssign && tok == token.DEFINE {
		first := true
		ast.Inspect(nb, func(n ast.Node) bool {
			if _, ok := n.(*ast.FuncLit); ok {
				return false
			}
			ret, ok := n.(*ast.ReturnStmt)
			if !ok {
				return true
			}
			cur := map[int]types.Object{}
			zero := map[int]bool{} // nil / zero constant at that position (failure paths): compatible with any variable
			if len(ret.Results) == len(lhs) {
				for i, e := range ret.Results {
					if id, ok := ast.Unparen(e).(*ast.Ident); ok {
						if v, ok := x.info.Uses[id].(*types.Var); ok && !v.IsField() && v.Parent() != nil && v.Parent() != x.pk.Types.Scope() {
							cur[i] = v
						}
					}
					if isNilIdent(x.info, e) {
						zero[i] = true
					}
				}
			}
			if first {
				aliasPos = cur
				for i := range zero {
					aliasZero[i] = true
				}
				first = false
			} else {
				for i := range lhs {
					switch {
					case zero[i]:
						// keeps whatever was established
					case aliasZero[i] && aliasPos[i] == nil && cur[i] != nil:
						aliasPos[i] = cur[i]
						delete(aliasZero, i)
					case cur[i] != aliasPos[i]:
						delete(aliasPos, i)
						aliasDead[i] = true
					}
				}
			}
			for i := range aliasDead {
				delete(aliasPos, i)
			}
			return true
		})
		for i := range aliasPos {
			lid, ok := lhs[i].(*ast.Ident)
			if !ok || x.info.Defs[lid] == nil || lid.Name == "_" {
				delete(aliasPos, i)
				continue
			}
			if _, isParam := subst[aliasPos[i]]; isParam {
				delete(aliasPos, i)
			}
		}
		for i, o := range aliasPos {
			if x.alias == nil {
				x.alias = map[types.Object]types.Object{}
			}
			x.alias[x.info.Defs[lhs[i].(*ast.Ident)]] = o
		}
	}
	var lastTop ast.Stmt
	if len(nb.List) > 0 {
		lastTop = nb.List[len(nb.List)-1]
	}
	endPos := body.End()
	rewriteReturns := func(list []ast.Stmt) []ast.Stmt {
		var res []ast.Stmt
		for _, s := range list {
			if d, ok := s.(*ast.DeferStmt); ok && len(cdefers) > 0 {
				isTop := false
				for _, cd := range cdefers {
					if cd == d {
						isTop = true
					}
				}
				if isTop {
					continue // replayed at the exits
				}
			}
			ret, ok := s.(*ast.ReturnStmt)
			if !ok {
				res = append(res, s)
				continue
			}
			vals := ret.Results
			if len(vals) == 0 && len(resultVars) > 0 {
				for _, rv := range resultVars {
					vals = append(vals, x.newIdent(rv.Name(), ret.Pos(), rv, false))
				}
			}
			if mode == modeBranch && len(vals) == 1 {
				res = append(res, replay(ret.Pos())...)
				jump := func(l string) ast.Stmt {
					return &ast.BranchStmt{TokPos: ret.Pos(), Tok: token.GOTO, Label: &ast.Ident{NamePos: ret.Pos(), Name: l}}
				}
				if tv, ok := x.info.Types[vals[0]]; ok && tv.Value != nil && tv.Value.Kind() == constant.Bool {
					if constant.BoolVal(tv.Value) {
						res = append(res, jump(x.brTrue))
					} else {
						res = append(res, jump(x.brFalse))
					}
				} else {
					res = append(res, &ast.IfStmt{If: ret.Pos(), Cond: vals[0], Body: &ast.BlockStmt{Lbrace: ret.Pos(), List: []ast.Stmt{jump(x.brTrue)}, Rbrace: ret.End()}})
					res = append(res, jump(x.brFalse))
				}
				continue
			}
			switch {
			case mode == modeAssign && len(lhs) > 0 && len(vals) == len(lhs):
				plain := &astCopier{info: x.info}
				var l2 []ast.Expr
				for _, l := range lhs {
					if id, ok := l.(*ast.Ident); ok {
						// the same identifier node would be shared between several assignments; copy it
						nid := &ast.Ident{NamePos: id.NamePos, Name: id.Name}
						if o, ok := x.info.Defs[id]; ok {
							x.info.Defs[nid] = o
						}
						if o, ok := x.info.Uses[id]; ok {
							x.info.Uses[nid] = o
						}
						if tv, ok := x.info.Types[id]; ok {
							x.info.Types[nid] = tv
						}
						l2 = append(l2, nid)
					} else {
						l2 = append(l2, plain.copyExpr(l))
					}
				}
				allBlank := true
				for i := range l2 {
					if ao, al := aliasPos[i]; al {
						if rid, isId := ast.Unparen(vals[i]).(*ast.Ident); isId && x.info.Uses[rid] == ao {
							l2[i] = &ast.Ident{NamePos: ret.Pos(), Name: "_"} // returns the variable itself
						} else {
							// a failure path returns nil/zero in this position: the shared variable is reset
							l2[i] = x.newIdent(ao.Name(), ret.Pos(), ao, false)
							allBlank = false
						}
					} else if id, ok := l2[i].(*ast.Ident); !ok || id.Name != "_" {
						allBlank = false
					}
				}
				if !allBlank {
					atok := tok
					if len(aliasPos) > 0 {
						// some names are no longer defined here; keep := only if a fresh name remains
						fresh := false
						for _, l := range l2 {
							if id, ok := l.(*ast.Ident); ok && x.info.Defs[id] != nil {
								fresh = true
							}
						}
						if !fresh {
							atok = token.ASSIGN
						}
					}
					res = append(res, &ast.AssignStmt{Lhs: l2, TokPos: ret.Pos(), Tok: atok, Rhs: vals})
				}
			case mode == modeAssign && len(lhs) > 0 && len(vals) == 1:
				// return g() with several results
				res = append(res, &ast.AssignStmt{Lhs: lhs, TokPos: ret.Pos(), Tok: tok, Rhs: vals})
			default:
				for _, v := range vals {
					if c, ok := ast.Unparen(v).(*ast.CallExpr); ok {
						res = append(res, &ast.ExprStmt{X: c})
					}
				}
			}
			res = append(res, replay(ret.Pos())...)
			if mode == modeAssign && x.thread != nil {
				target := x.thread.lChk
				switch x.thread.nilness[ret.Pos()] {
				case "nil":
					target = x.thread.lOk
				case "nonnil":
					target = x.thread.lErr
					if len(x.thread.errBody) <= 6 {
						// tail duplication: the caller's error branch is copied to this failing return, so the
						// facts of this path (which call failed, what was rolled back) reach its exits
						plain := &astCopier{info: x.info}
						var dup []ast.Stmt
						for _, es := range x.thread.errBody {
							dup = append(dup, plain.copyStmt(es))
						}
						// the copy runs only where the error is known to be set: its returns are failure exits
						for _, ds := range dup {
							ast.Inspect(ds, func(n ast.Node) bool {
								if _, isLit := n.(*ast.FuncLit); isLit {
									return false
								}
								if r, isRet := n.(*ast.ReturnStmt); isRet {
									failureReturns[r] = true
								}
								return true
							})
						}
						res = append(res, dup...)
						target = x.thread.lEnd // behind the whole if statement
					} else {
						x.thread.usedErr = true
					}
				default:
					x.thread.usedChk = true
				}
				res = append(res, &ast.BranchStmt{TokPos: ret.Pos(), Tok: token.GOTO, Label: &ast.Ident{NamePos: ret.Pos(), Name: target}})
				continue
			}
			if s != lastTop {
				usedLabel = true
				res = append(res, &ast.BranchStmt{TokPos: ret.Pos(), Tok: token.GOTO, Label: &ast.Ident{NamePos: ret.Pos(), Name: label}})
			}
		}
		return res
	}
	mapStmtLists(nb, false, rewriteReturns)
	out = append(out, nb.List...)
	if mode == modeBranch {
		x.changed = true
		return out
	}
	if _, endsInReturn := lastTop.(*ast.ReturnStmt); !endsInReturn {
		out = append(out, replay(endPos+1)...)
	}
	if usedLabel {
		out = append(out, &ast.LabeledStmt{Label: &ast.Ident{NamePos: endPos, Name: label}, Colon: endPos, Stmt: &ast.EmptyStmt{Semicolon: endPos, Implicit: true}})
	}
	x.changed = true
	return out
}

// exprOf expands a call to a helper whose body is a single `return <expr>`
// (a predicate or accessor) into that expression, when every argument can be
// substituted for its parameter.
func (x *inliner) exprOf(call *ast.CallExpr, h *FuncInfo) ast.Expr {
	if len(h.Decl.Body.List) != 1 {
		return nil
	}
	ret, ok := h.Decl.Body.List[0].(*ast.ReturnStmt)
	if !ok || len(ret.Results) != 1 {
		return nil
	}
	sig := h.Obj.Type().(*types.Signature)
	if sig.Variadic() || len(call.Args) != sig.Params().Len() {
		return nil
	}
	subst := map[types.Object]ast.Expr{}
	if sig.Recv() != nil {
		sel, ok := ast.Unparen(call.Fun).(*ast.SelectorExpr)
		if !ok || !stableArg(x.info, sel.X) || h.Decl.Recv == nil || len(h.Decl.Recv.List) != 1 {
			return nil
		}
		if len(h.Decl.Recv.List[0].Names) == 1 {
			if rv := x.info.Defs[h.Decl.Recv.List[0].Names[0]]; rv != nil {
				subst[rv] = sel.X
			}
		}
	}
	k := 0
	for _, f := range h.Decl.Type.Params.List {
		if len(f.Names) == 0 {
			k++
			continue
		}
		for _, nm := range f.Names {
			if nm.Name != "_" {
				if !stableArg(x.info, call.Args[k]) {
					return nil
				}
				if pv := x.info.Defs[nm]; pv != nil {
					subst[pv] = call.Args[k]
				}
			}
			k++
		}
	}
	cp := &astCopier{info: x.info, subst: subst}
	e := cp.copyExpr(ret.Results[0])
	pe := &ast.ParenExpr{Lparen: call.Pos(), X: e, Rparen: call.End()}
	if tv, ok := x.info.Types[e]; ok {
		x.info.Types[pe] = tv
	}
	x.changed = true
	return pe
}

// errNilness classifies the error value of every return of helper h (see errThread).
func (x *inliner) errNilness(h *FuncInfo, errIdx int) map[token.Pos]string {
	out := map[token.Pos]string{}
	g := buildCFG(x.info, h.Decl.Body)
	ast.Inspect(h.Decl.Body, func(n ast.Node) bool {
		if _, ok := n.(*ast.FuncLit); ok {
			return false
		}
		ret, ok := n.(*ast.ReturnStmt)
		if !ok || errIdx >= len(ret.Results) {
			return true
		}
		v := ast.Unparen(ret.Results[errIdx])
		switch {
		case isNilIdent(x.info, v):
			out[ret.Pos()] = "nil"
		default:
			if sel, ok := v.(*ast.SelectorExpr); ok {
				if pv, isVar := x.info.Uses[sel.Sel].(*types.Var); isVar && !pv.IsField() && pv.Pkg() != nil && pv.Parent() == pv.Pkg().Scope() && isErrorType(pv.Type()) {
					out[ret.Pos()] = "nonnil"
				}
			}
			if c, ok := v.(*ast.CallExpr); ok {
				if f := callee(x.info, c); f != nil && f.Pkg() != nil && (f.Pkg().Path() == "fmt" || f.Pkg().Path() == "errors") {
					out[ret.Pos()] = "nonnil"
				}
			}
			if id, ok := v.(*ast.Ident); ok {
				o := x.info.ObjectOf(id)
				if _, isConst := o.(*types.Const); isConst {
					out[ret.Pos()] = "nonnil" // a typed constant (bleve.Error) converted to error is never nil
				}
				// a package-level sentinel (`var ErrClosed = errors.New(..)`) is a non-nil error
				if pv, isVar := o.(*types.Var); isVar && pv.Pkg() != nil && pv.Parent() == pv.Pkg().Scope() && isErrorType(pv.Type()) {
					out[ret.Pos()] = "nonnil"
				}
				for _, fc := range g.GuardsOf(ret) {
					e, isEq, isNil := nilTest(x.info, fc.Expr)
					if fc.Tag != nil || !isNil || objOf(x.info, e) != o || o == nil {
						continue
					}
					if isEq == fc.Truth {
						out[ret.Pos()] = "nil"
					} else {
						out[ret.Pos()] = "nonnil"
					}
				}
				// `err = fmt.Errorf(..)` right before `return err`
				if out[ret.Pos()] == "" {
					if d := lastDefBefore(x.info, h.Decl.Body, o, ret); d != nil {
						if c, ok := ast.Unparen(d).(*ast.CallExpr); ok {
							if f := callee(x.info, c); f != nil && f.Pkg() != nil && (f.Pkg().Path() == "fmt" || f.Pkg().Path() == "errors") {
								out[ret.Pos()] = "nonnil"
							}
						}
					}
				}
			}
		}
		return true
	})
	return out
}

// lastDefBefore: the value assigned to o by the statement immediately preceding `at` in its block, if any.
func lastDefBefore(info *types.Info, body ast.Node, o types.Object, at ast.Stmt) ast.Expr {
	var res ast.Expr
	ast.Inspect(body, func(n ast.Node) bool {
		var list []ast.Stmt
		switch y := n.(type) {
		case *ast.BlockStmt:
			list = y.List
		case *ast.CaseClause:
			list = y.Body
		case *ast.CommClause:
			list = y.Body
		}
		for i, st := range list {
			if st == at && i > 0 {
				if as, ok := list[i-1].(*ast.AssignStmt); ok && len(as.Lhs) == len(as.Rhs) {
					for k, l := range as.Lhs {
						if objOf(info, l) == o {
							res = as.Rhs[k]
						}
					}
				}
			}
		}
		return true
	})
	return res
}

// foldConstantBranches: after a constant argument was substituted for a flag parameter
// (`setMark(name, true)`), `if !flag {..}` is dead or unconditional code; prune it so that the
// caller only shows the branch it really takes.
func (x *inliner) foldConstantBranches(root *ast.BlockStmt) {
	var konst func(e ast.Expr) (bool, bool)
	konst = func(e ast.Expr) (bool, bool) {
		switch y := ast.Unparen(e).(type) {
		case *ast.Ident:
			if c, ok := x.info.Uses[y].(*types.Const); ok && c.Val().Kind() == constant.Bool && c.Parent() == types.Universe {
				return constant.BoolVal(c.Val()), true
			}
		case *ast.UnaryExpr:
			if y.Op == token.NOT {
				if v, ok := konst(y.X); ok {
					return !v, true
				}
			}
		case *ast.BinaryExpr:
			a, oka := konst(y.X)
			b, okb := konst(y.Y)
			switch y.Op {
			case token.LAND:
				if (oka && !a) || (okb && !b) {
					return false, true
				}
				if oka && okb {
					return a && b, true
				}
			case token.LOR:
				if (oka && a) || (okb && b) {
					return true, true
				}
				if oka && okb {
					return a || b, true
				}
			}
		}
		return false, false
	}
	mapStmtLists(root, false, func(list []ast.Stmt) (out []ast.Stmt) {
		folded := false
		defer func() {
			if !folded {
				return
			}
			// what follows an unconditional return in the same list is dead now (up to the next label)
			for i, st := range out {
				if _, isRet := st.(*ast.ReturnStmt); isRet {
					j := i + 1
					for j < len(out) {
						if _, isLab := out[j].(*ast.LabeledStmt); isLab {
							break
						}
						j++
					}
					out = append(out[:i+1:i+1], out[j:]...)
					break
				}
			}
		}()
		for _, st := range list {
			is, ok := st.(*ast.IfStmt)
			if !ok || is.Init != nil {
				out = append(out, st)
				continue
			}
			v, isC := konst(is.Cond)
			if !isC {
				out = append(out, st)
				continue
			}
			folded = true
			if v {
				out = append(out, is.Body.List...)
			} else {
				switch el := is.Else.(type) {
				case *ast.BlockStmt:
					out = append(out, el.List...)
				case nil:
				default:
					out = append(out, el)
				}
			}
		}
		return out
	})
}

// exprOf2ok reports whether the helper is a one-expression function (handled by exprOf).
func (x *inliner) exprOf2ok(call *ast.CallExpr, h *FuncInfo) bool {
	if len(h.Decl.Body.List) != 1 {
		return false
	}
	_, ok := h.Decl.Body.List[0].(*ast.ReturnStmt)
	return ok
}

// funcLitOf builds a function literal with the helper's body (for references
// to the helper as a value).  recv is the receiver expression of a method value.
func (x *inliner) funcLitOf(h *FuncInfo, recv ast.Expr, at ast.Expr) ast.Expr {
	subst := map[types.Object]ast.Expr{}
	sig := h.Obj.Type().(*types.Signature)
	if sig.Recv() != nil {
		if recv == nil || h.Decl.Recv == nil || len(h.Decl.Recv.List) != 1 || len(h.Decl.Recv.List[0].Names) != 1 {
			return nil
		}
		rv := x.info.Defs[h.Decl.Recv.List[0].Names[0]]
		if rv != nil {
			subst[rv] = recv
		}
	}
	cp := &astCopier{info: x.info, subst: subst}
	plain := &astCopier{info: x.info}
	ft := plain.val(reflect.ValueOf(h.Decl.Type)).Interface().(*ast.FuncType)
	lit := &ast.FuncLit{Type: ft, Body: cp.copyBlock(h.Decl.Body)}
	if tv, ok := x.info.Types[at]; ok {
		x.info.Types[lit] = tv
	}
	x.changed = true
	return lit
}

// hoistNested replaces helper calls nested inside the header expressions of
// statement s by temporaries defined just before s.
func (x *inliner) hoistNested(s ast.Stmt) []ast.Stmt {
	var pre []ast.Stmt
	var visit func(ep *ast.Expr)
	visit = func(ep *ast.Expr) {
		if ep == nil || *ep == nil {
			return
		}
		// children first (arguments are evaluated before the call)
		switch y := (*ep).(type) {
		case *ast.FuncLit:
			return
		case *ast.CallExpr:
			visit(&y.Fun)
			for i := range y.Args {
				visit(&y.Args[i])
			}
			if h := x.helperOfCall(y); h != nil {
				sig := h.Obj.Type().(*types.Signature)
				if e := x.exprOf(y, h); e != nil {
					*ep = e
					return
				}
				if sig.Results().Len() == 1 {
					*x.seq++
					name := fmt.Sprintf("inl_tmp_%d", *x.seq)
					tv := types.NewVar(y.Pos(), x.pk.Types, name, sig.Results().At(0).Type())
					def := x.newIdent(name, y.Pos(), tv, true)
					if st := x.expand(y, h, modeAssign, []ast.Expr{def}, token.DEFINE); st != nil {
						pre = append(pre, st...)
						*ep = x.newIdent(name, y.Pos(), tv, false)
					}
				}
			}
			return
		case *ast.ParenExpr:
			visit(&y.X)
		case *ast.UnaryExpr:
			visit(&y.X)
		case *ast.BinaryExpr:
			visit(&y.X)
			if y.Op != token.LAND && y.Op != token.LOR { // the right operand is conditional
				visit(&y.Y)
			}
		case *ast.SelectorExpr:
			visit(&y.X)
		case *ast.IndexExpr:
			visit(&y.X)
			visit(&y.Index)
		case *ast.SliceExpr:
			visit(&y.X)
			visit(&y.Low)
			visit(&y.High)
			visit(&y.Max)
		case *ast.StarExpr:
			visit(&y.X)
		case *ast.TypeAssertExpr:
			visit(&y.X)
		case *ast.KeyValueExpr:
			visit(&y.Value)
		case *ast.CompositeLit:
			for i := range y.Elts {
				visit(&y.Elts[i])
			}
		}
	}
	switch y := s.(type) {
	case *ast.ExprStmt:
		visit(&y.X)
	case *ast.AssignStmt:
		for i := range y.Lhs {
			if _, isId := y.Lhs[i].(*ast.Ident); !isId {
				visit(&y.Lhs[i])
			}
		}
		for i := range y.Rhs {
			visit(&y.Rhs[i])
		}
	case *ast.ReturnStmt:
		for i := range y.Results {
			visit(&y.Results[i])
		}
	case *ast.IfStmt:
		if y.Init == nil {
			visit(&y.Cond)
		}
	case *ast.SwitchStmt:
		if y.Init == nil {
			visit(&y.Tag)
		}
	case *ast.SendStmt:
		visit(&y.Value)
	case *ast.IncDecStmt:
		visit(&y.X)
	case *ast.DeferStmt:
		for i := range y.Call.Args {
			visit(&y.Call.Args[i])
		}
	case *ast.GoStmt:
		for i := range y.Call.Args {
			visit(&y.Call.Args[i])
		}
	case *ast.RangeStmt:
		visit(&y.X)
	}
	return pre
}

// valueRefs replaces references to helpers as function values under the
// header expressions of s (and anywhere inside nested literals' headers).
func (x *inliner) valueRefs(root ast.Node) {
	// collect call.Fun expressions: those are calls, not value references
	callFun := map[ast.Expr]bool{}
	ast.Inspect(root, func(n ast.Node) bool {
		if c, ok := n.(*ast.CallExpr); ok {
			callFun[ast.Unparen(c.Fun)] = true
		}
		return true
	})
	replace := func(e ast.Expr) ast.Expr {
		if e == nil || callFun[e] {
			return nil
		}
		switch y := e.(type) {
		case *ast.Ident:
			if f, ok := x.info.Uses[y].(*types.Func); ok {
				if h := x.helpers[f]; h != nil && f.Type().(*types.Signature).Recv() == nil {
					return x.funcLitOf(h, nil, e)
				}
			}
		case *ast.SelectorExpr:
			if sel, ok := x.info.Selections[y]; ok && sel.Kind() == types.MethodVal {
				if f, ok := sel.Obj().(*types.Func); ok {
					if h := x.helpers[f]; h != nil && stableArg(x.info, y.X) {
						return x.funcLitOf(h, y.X, e)
					}
				}
			}
		}
		return nil
	}
	// generic in-place replacement of ast.Expr-typed fields and slice elements
	var walk func(v reflect.Value)
	walk = func(v reflect.Value) {
		switch v.Kind() {
		case reflect.Interface:
			if v.IsNil() {
				return
			}
			if e, ok := v.Interface().(ast.Expr); ok && v.CanSet() {
				if r := replace(e); r != nil {
					v.Set(reflect.ValueOf(r))
					return
				}
			}
			walk(v.Elem())
		case reflect.Ptr:
			if v.IsNil() || v.Type() == tObject || v.Type() == tScope || v.Elem().Kind() != reflect.Struct {
				return
			}
			for i := 0; i < v.Elem().NumField(); i++ {
				walk(v.Elem().Field(i))
			}
		case reflect.Slice:
			for i := 0; i < v.Len(); i++ {
				walk(v.Index(i))
			}
		}
	}
	walk(reflect.ValueOf(root))
}

// rewriteList expands helper calls in one statement list.
func (x *inliner) rewriteList(list0 []ast.Stmt) []ast.Stmt {
	// `if v, err := helper(); err != nil {` is the two statements `v, err := helper()` and `if err != nil {`
	var list []ast.Stmt
	for _, s := range list0 {
		if is, ok := s.(*ast.IfStmt); ok && is.Init != nil {
			if as, ok := is.Init.(*ast.AssignStmt); ok && len(as.Rhs) == 1 {
				if c, ok := ast.Unparen(as.Rhs[0]).(*ast.CallExpr); ok && x.helperOfCall(c) != nil {
					list = append(list, as)
					is.Init = nil
				}
			}
		}
		list = append(list, s)
	}
	var out []ast.Stmt
	skip := false
	for i, s := range list {
		if skip {
			skip = false
			continue
		}
		// err-threading: `.. err := helper(..)` immediately followed by `if err != nil { .. }`
		if as, ok := s.(*ast.AssignStmt); ok && len(as.Rhs) == 1 && i+1 < len(list) {
			if c, ok := ast.Unparen(as.Rhs[0]).(*ast.CallExpr); ok {
				if h := x.helperOfCall(c); h != nil {
					if is, ok := list[i+1].(*ast.IfStmt); ok && is.Init == nil {
						if e, isEq, isNil := nilTest(x.info, is.Cond); isNil {
							errIdx := -1
							for k, l := range as.Lhs {
								if o := objOf(x.info, l); o != nil && o == objOf(x.info, e) && isErrorType(o.Type()) {
									errIdx = k
								}
							}
							if errIdx >= 0 && h.Obj.Type().(*types.Signature).Results().Len() == len(as.Lhs) {
								*x.seq++
								n := *x.seq
								th := &errThread{errIdx: errIdx, lErr: fmt.Sprintf("inl_err_%d", n), lOk: fmt.Sprintf("inl_ok_%d", n), lChk: fmt.Sprintf("inl_chk_%d", n), lEnd: fmt.Sprintf("inl_end_%d", n)}
								th.nilness = x.errNilness(h, errIdx)
								var elseList []ast.Stmt
								switch el := is.Else.(type) {
								case *ast.BlockStmt:
									elseList = append(elseList, el.List...)
								case nil:
								default:
									elseList = append(elseList, el)
								}
								// `if err != nil {E} else {O}` or `if err == nil {O} else {E}`
								errStmts, okStmts := is.Body.List, elseList
								if isEq {
									errStmts, okStmts = elseList, is.Body.List
								}
								th.errBody = errStmts
								th.cond = is.Cond
								x.thread = th
								pre := x.hoistArgs(c)
								st := x.expand(c, h, modeAssign, as.Lhs, as.Tok)
								x.thread = nil
								if st != nil {
									pos := is.Pos()
									jump := func(l string) ast.Stmt {
										return &ast.BranchStmt{TokPos: pos, Tok: token.GOTO, Label: &ast.Ident{NamePos: pos, Name: l}}
									}
									lab := func(l string, st ast.Stmt) ast.Stmt {
										return &ast.LabeledStmt{Label: &ast.Ident{NamePos: pos, Name: l}, Colon: pos, Stmt: st}
									}
									out = append(out, pre...)
									out = append(out, st...)
									if th.usedChk {
										onTrue, onFalse := th.lErr, th.lOk
										if isEq {
											onTrue, onFalse = th.lOk, th.lErr
										}
										out = append(out, lab(th.lChk, &ast.IfStmt{If: pos, Cond: is.Cond, Body: &ast.BlockStmt{Lbrace: pos, List: []ast.Stmt{jump(onTrue)}, Rbrace: pos}}))
										out = append(out, jump(onFalse))
									}
									if th.usedChk || th.usedErr {
										errList := append(append([]ast.Stmt{}, errStmts...), jump(th.lEnd))
										out = append(out, lab(th.lErr, &ast.BlockStmt{Lbrace: pos, List: errList, Rbrace: is.Body.End()}))
									}
									if len(okStmts) > 0 {
										out = append(out, lab(th.lOk, &ast.BlockStmt{Lbrace: pos, List: append([]ast.Stmt{}, okStmts...), Rbrace: is.End()}))
									} else {
										out = append(out, lab(th.lOk, &ast.EmptyStmt{Semicolon: pos, Implicit: true}))
									}
									out = append(out, lab(th.lEnd, &ast.EmptyStmt{Semicolon: pos, Implicit: true}))
									skip = true
									continue
								}
							}
						}
					}
				}
			}
		}
		switch y := s.(type) {
		case *ast.ExprStmt:
			if c, ok := ast.Unparen(y.X).(*ast.CallExpr); ok {
				if h := x.helperOfCall(c); h != nil {
					pre := x.hoistArgs(c)
					if st := x.expand(c, h, modeStmt, nil, token.ILLEGAL); st != nil {
						out = append(out, pre...)
						out = append(out, st...)
						continue
					}
				}
			}
		case *ast.AssignStmt:
			if len(y.Rhs) == 1 {
				if c, ok := ast.Unparen(y.Rhs[0]).(*ast.CallExpr); ok {
					if h := x.helperOfCall(c); h != nil {
						pre := x.hoistArgs(c)
						if st := x.expand(c, h, modeAssign, y.Lhs, y.Tok); st != nil {
							out = append(out, pre...)
							out = append(out, st...)
							continue
						}
					}
				}
			}
		case *ast.ReturnStmt:
			if len(y.Results) == 1 {
				if c, ok := ast.Unparen(y.Results[0]).(*ast.CallExpr); ok {
					if h := x.helperOfCall(c); h != nil {
						pre := x.hoistArgs(c)
						if st := x.expand(c, h, modeReturn, nil, token.ILLEGAL); st != nil {
							out = append(out, pre...)
							out = append(out, st...)
							// a helper whose body does not end in a return falls through to nothing: keep flow closed
							if len(st) == 0 {
								out = append(out, &ast.ReturnStmt{Return: y.Return})
							} else if _, isRet := st[len(st)-1].(*ast.ReturnStmt); !isRet {
								out = append(out, &ast.ReturnStmt{Return: y.Return})
							}
							continue
						}
					}
				}
			}
		case *ast.IfStmt:
			if y.Init != nil {
				if init := x.rewriteList([]ast.Stmt{y.Init}); len(init) != 1 || init[0] != y.Init {
					y.Init = nil
					out = append(out, init...)
				}
			}
			if y.Init == nil && y.Else == nil {
				// `if a && helper() { B }` is `if a { if helper() { B } }`
				if be, ok := ast.Unparen(y.Cond).(*ast.BinaryExpr); ok && be.Op == token.LAND {
					hasHelper := false
					ast.Inspect(be, func(n ast.Node) bool {
						if c, ok := n.(*ast.CallExpr); ok && x.helperOfCall(c) != nil {
							hasHelper = true
						}
						return true
					})
					if hasHelper {
						inner := &ast.IfStmt{If: y.If, Cond: be.Y, Body: y.Body}
						y.Cond = be.X
						y.Body = &ast.BlockStmt{Lbrace: y.Body.Lbrace, List: x.rewriteList([]ast.Stmt{inner}), Rbrace: y.Body.Rbrace}
						x.changed = true
					}
				}
			}
			if y.Init == nil {
				cond := ast.Unparen(y.Cond)
				neg := false
				if u, ok := cond.(*ast.UnaryExpr); ok && u.Op == token.NOT {
					neg = true
					cond = ast.Unparen(u.X)
				}
				if c, ok := cond.(*ast.CallExpr); ok {
					if h := x.helperOfCall(c); h != nil && !x.exprOf2ok(c, h) {
						if b, isB := h.Obj.Type().(*types.Signature).Results().At(0).Type().Underlying().(*types.Basic); isB && b.Kind() == types.Bool && h.Obj.Type().(*types.Signature).Results().Len() == 1 {
							*x.seq++
							n := *x.seq
							lt, lf, le := fmt.Sprintf("inl_then_%d", n), fmt.Sprintf("inl_else_%d", n), fmt.Sprintf("inl_end_%d", n)
							x.brTrue, x.brFalse = lt, lf
							if neg {
								x.brTrue, x.brFalse = lf, lt
							}
							pre := x.hoistArgs(c)
							if st := x.expand(c, h, modeBranch, nil, token.ILLEGAL); st != nil {
								pos := y.Pos()
								jumpEnd := func() ast.Stmt {
									return &ast.BranchStmt{TokPos: pos, Tok: token.GOTO, Label: &ast.Ident{NamePos: pos, Name: le}}
								}
								out = append(out, pre...)
								out = append(out, st...)
								thenList := append(append([]ast.Stmt{}, y.Body.List...), jumpEnd())
								out = append(out, &ast.LabeledStmt{Label: &ast.Ident{NamePos: pos, Name: lt}, Colon: pos, Stmt: &ast.BlockStmt{Lbrace: pos, List: thenList, Rbrace: y.Body.End()}})
								var elseList []ast.Stmt
								switch e := y.Else.(type) {
								case *ast.BlockStmt:
									elseList = append(elseList, e.List...)
								case nil:
								default:
									elseList = append(elseList, e)
								}
								elseList = append(elseList, jumpEnd())
								out = append(out, &ast.LabeledStmt{Label: &ast.Ident{NamePos: pos, Name: lf}, Colon: pos, Stmt: &ast.BlockStmt{Lbrace: pos, List: elseList, Rbrace: y.End()}})
								out = append(out, &ast.LabeledStmt{Label: &ast.Ident{NamePos: pos, Name: le}, Colon: pos, Stmt: &ast.EmptyStmt{Semicolon: pos, Implicit: true}})
								continue
							}
						}
					}
				}
			}
		case *ast.SwitchStmt:
			if y.Init != nil {
				if init := x.rewriteList([]ast.Stmt{y.Init}); len(init) != 1 || init[0] != y.Init {
					y.Init = nil
					out = append(out, init...)
				}
			}
		case *ast.DeferStmt, *ast.GoStmt:
			var c *ast.CallExpr
			if d, ok := y.(*ast.DeferStmt); ok {
				c = d.Call
			} else {
				c = y.(*ast.GoStmt).Call
			}
			if h := x.helperOfCall(c); h != nil {
				// arguments are evaluated now, the body later
				var pre []ast.Stmt
				for i, a := range c.Args {
					if !stableArg(x.info, a) {
						*x.seq++
						name := fmt.Sprintf("inl_arg_%d", *x.seq)
						tv := types.NewVar(a.Pos(), x.pk.Types, name, x.info.TypeOf(a))
						pre = append(pre, &ast.AssignStmt{Lhs: []ast.Expr{x.newIdent(name, a.Pos(), tv, true)}, TokPos: a.Pos(), Tok: token.DEFINE, Rhs: []ast.Expr{a}})
						c.Args[i] = x.newIdent(name, a.Pos(), tv, false)
					}
				}
				if st := x.expand(c, h, modeStmt, nil, token.ILLEGAL); st != nil {
					lit := &ast.FuncLit{Type: &ast.FuncType{Func: c.Pos(), Params: &ast.FieldList{}}, Body: &ast.BlockStmt{Lbrace: c.Pos(), List: st, Rbrace: c.End()}}
					nc := &ast.CallExpr{Fun: lit, Lparen: c.Lparen, Rparen: c.Rparen}
					out = append(out, pre...)
					if d, ok := y.(*ast.DeferStmt); ok {
						out = append(out, &ast.DeferStmt{Defer: d.Defer, Call: nc})
					} else {
						out = append(out, &ast.GoStmt{Go: y.(*ast.GoStmt).Go, Call: nc})
					}
					continue
				}
			}
		}
		out = append(out, x.hoistNested(s)...)
		out = append(out, s)
	}
	return out
}

// hoistArgs expands helper calls nested in the arguments of c.
func (x *inliner) hoistArgs(c *ast.CallExpr) []ast.Stmt {
	tmp := &ast.ExprStmt{X: &ast.CallExpr{Fun: &ast.Ident{Name: "_"}, Args: c.Args}}
	pre := x.hoistNested(tmp)
	return pre
}

// splitTuples: `a, b = x, y` is the two assignments `a = x; b = y` when no earlier left-hand side is
// read by a later right-hand side.  Rules look at single assignments; which spelling the source uses is style.
func (p *Prog) splitTuples() {
	for _, fi := range p.flist {
		if fi.Decl.Body == nil {
			continue
		}
		info := fi.Pkg.TypesInfo
		has := false
		ast.Inspect(fi.Decl.Body, func(n ast.Node) bool {
			if as, ok := n.(*ast.AssignStmt); ok && len(as.Lhs) > 1 && len(as.Lhs) == len(as.Rhs) && (as.Tok == token.ASSIGN || as.Tok == token.DEFINE) {
				has = true
			}
			return !has
		})
		if !has {
			continue
		}
		cp := &astCopier{info: info}
		nb := cp.copyBlock(fi.Decl.Body)
		changed := false
		mapStmtLists(nb, true, func(list []ast.Stmt) []ast.Stmt {
			var out []ast.Stmt
			for _, st := range list {
				as, ok := st.(*ast.AssignStmt)
				if !ok || len(as.Lhs) < 2 || len(as.Lhs) != len(as.Rhs) || (as.Tok != token.ASSIGN && as.Tok != token.DEFINE) {
					out = append(out, st)
					continue
				}
				safe := true
				for i := 0; i < len(as.Lhs) && safe; i++ {
					li := exprStr(ast.Unparen(as.Lhs[i]))
					lo := objOf(info, as.Lhs[i])
					for j := i + 1; j < len(as.Rhs) && safe; j++ {
						ast.Inspect(as.Rhs[j], func(n ast.Node) bool {
							switch y := n.(type) {
							case *ast.Ident:
								if lo != nil && info.ObjectOf(y) == lo {
									safe = false
								}
							case *ast.SelectorExpr, *ast.IndexExpr:
								if lo == nil && exprStr(y.(ast.Expr)) == li {
									safe = false
								}
							case *ast.CallExpr:
								if lo == nil {
									safe = false // a call might read the field/element being assigned
								}
							}
							return safe
						})
					}
				}
				if !safe {
					out = append(out, st)
					continue
				}
				for i := range as.Lhs {
					if id, isId := as.Lhs[i].(*ast.Ident); isId && id.Name == "_" {
						if _, plain := ast.Unparen(as.Rhs[i]).(*ast.Ident); plain {
							continue // `_ = x`: nothing happens
						}
					}
					tok := token.ASSIGN
					if id, isId := as.Lhs[i].(*ast.Ident); isId && as.Tok == token.DEFINE && (info.Defs[id] != nil || id.Name == "_") {
						tok = token.DEFINE
						if id.Name == "_" {
							tok = token.ASSIGN
						}
					}
					out = append(out, &ast.AssignStmt{Lhs: []ast.Expr{as.Lhs[i]}, TokPos: as.TokPos, Tok: tok, Rhs: []ast.Expr{as.Rhs[i]}})
				}
				changed = true
			}
			return out
		})
		if changed {
			nd := *fi.Decl
			nd.Body = nb
			if fi.OrigDecl == nil {
				fi.OrigDecl = fi.Decl
			}
			fi.Decl = &nd
		}
	}
}

// scalarise: a NEW struct type (not in baseline_fields.json) that only bundles a few locals - a state struct
// replacing several variables, a result struct instead of multiple returns - is taken apart again: a local of
// such a type that is only ever used field by field becomes one variable per field.
func (p *Prog) scalarise() {
	if baselinePath == "" {
		return
	}
	b, err := os.ReadFile(filepath.Join(filepath.Dir(baselinePath), "baseline_fields.json"))
	if err != nil {
		return
	}
	base := map[string][]string{}
	if json.Unmarshal(b, &base) != nil {
		return
	}
	newTypes := map[*types.TypeName]bool{}
	for _, pk := range p.Pkgs {
		sc := pk.Types.Scope()
		for _, nm := range sc.Names() {
			tn, ok := sc.Lookup(nm).(*types.TypeName)
			if !ok {
				continue
			}
			if _, isSt := tn.Type().Underlying().(*types.Struct); !isSt {
				continue
			}
			if _, known := base[relPkg(pk.PkgPath)+"."+nm]; !known {
				newTypes[tn] = true
			}
		}
	}
	if len(newTypes) == 0 {
		return
	}
	for _, fi := range p.flist {
		if fi.Decl.Body == nil {
			continue
		}
		info := fi.Pkg.TypesInfo
		// candidates
		cands := map[*types.Var]*types.Struct{}
		ast.Inspect(fi.Decl.Body, func(n ast.Node) bool {
			if id, ok := n.(*ast.Ident); ok {
				if v, ok := info.Defs[id].(*types.Var); ok && !v.IsField() {
					if nt, ok := v.Type().(*types.Named); ok && newTypes[nt.Obj()] {
						cands[v] = nt.Underlying().(*types.Struct)
					}
				}
			}
			return true
		})
		if len(cands) == 0 {
			continue
		}
		cp := &astCopier{info: info}
		nb := cp.copyBlock(fi.Decl.Body)
		// every use must be a field selection or a whole-value definition from a literal / another candidate
		okUse := map[*ast.Ident]bool{}
		ast.Inspect(nb, func(n ast.Node) bool {
			switch y := n.(type) {
			case *ast.SelectorExpr:
				if id, ok := y.X.(*ast.Ident); ok {
					okUse[id] = true
				}
			case *ast.AssignStmt:
				if len(y.Lhs) == len(y.Rhs) {
					for i, l := range y.Lhs {
						id, ok := l.(*ast.Ident)
						if !ok {
							continue
						}
						v, _ := info.ObjectOf(id).(*types.Var)
						if v == nil || cands[v] == nil {
							continue
						}
						switch r := ast.Unparen(y.Rhs[i]).(type) {
						case *ast.CompositeLit:
							keyed := true
							for _, el := range r.Elts {
								if _, isKV := el.(*ast.KeyValueExpr); !isKV {
									keyed = false
								}
							}
							if keyed {
								okUse[id] = true
							}
						case *ast.Ident:
							if w, _ := info.ObjectOf(r).(*types.Var); w != nil && cands[w] != nil {
								okUse[id] = true
								okUse[r] = true
							}
						}
					}
				}
			case *ast.ValueSpec:
				if len(y.Values) == 0 {
					for _, nm := range y.Names {
						okUse[nm] = true
					}
				}
			}
			return true
		})
		ast.Inspect(nb, func(n ast.Node) bool {
			if id, ok := n.(*ast.Ident); ok && !okUse[id] {
				if v, _ := info.ObjectOf(id).(*types.Var); v != nil && cands[v] != nil {
					delete(cands, v)
				}
			}
			return true
		})
		if len(cands) == 0 {
			continue
		}
		// one variable per (candidate, field)
		fieldVar := map[*types.Var]map[string]*types.Var{}
		for v, st := range cands {
			fieldVar[v] = map[string]*types.Var{}
			for i := 0; i < st.NumFields(); i++ {
				f := st.Field(i)
				fieldVar[v][f.Name()] = types.NewVar(v.Pos(), v.Pkg(), v.Name()+"_"+f.Name(), f.Type())
			}
		}
		mkIdent := func(fv *types.Var, pos token.Pos, def bool) *ast.Ident {
			id := &ast.Ident{NamePos: pos, Name: fv.Name()}
			if def {
				info.Defs[id] = fv
			} else {
				info.Uses[id] = fv
				info.Types[id] = types.TypeAndValue{Type: fv.Type()}
			}
			return id
		}
		declare := func(v *types.Var, pos token.Pos, vals map[string]ast.Expr, define bool) []ast.Stmt {
			var out []ast.Stmt
			st := cands[v]
			for i := 0; i < st.NumFields(); i++ {
				f := st.Field(i)
				fv := fieldVar[v][f.Name()]
				if val, ok := vals[f.Name()]; ok {
					tok := token.ASSIGN
					if define {
						tok = token.DEFINE
					}
					out = append(out, &ast.AssignStmt{Lhs: []ast.Expr{mkIdent(fv, pos, define)}, TokPos: pos, Tok: tok, Rhs: []ast.Expr{val}})
				} else if define {
					tid := &ast.Ident{NamePos: pos, Name: types.TypeString(f.Type(), nil)}
					info.Types[tid] = types.TypeAndValue{Type: f.Type()}
					out = append(out, &ast.DeclStmt{Decl: &ast.GenDecl{TokPos: pos, Tok: token.VAR, Specs: []ast.Spec{&ast.ValueSpec{Names: []*ast.Ident{mkIdent(fv, pos, true)}, Type: tid}}}})
				}
			}
			return out
		}
		declared := map[*types.Var]bool{}
		mapStmtLists(nb, true, func(list []ast.Stmt) []ast.Stmt {
			var out []ast.Stmt
			for _, stt := range list {
				switch y := stt.(type) {
				case *ast.AssignStmt:
					if len(y.Lhs) == 1 && len(y.Rhs) == 1 {
						if id, ok := y.Lhs[0].(*ast.Ident); ok {
							if v, _ := info.ObjectOf(id).(*types.Var); v != nil && cands[v] != nil {
								define := !declared[v]
								declared[v] = true
								switch r := ast.Unparen(y.Rhs[0]).(type) {
								case *ast.CompositeLit:
									vals := map[string]ast.Expr{}
									for _, el := range r.Elts {
										kv := el.(*ast.KeyValueExpr)
										vals[kv.Key.(*ast.Ident).Name] = kv.Value
									}
									if !define {
										// a re-assignment resets the fields that are not named
										stc := cands[v]
										for i := 0; i < stc.NumFields(); i++ {
											if _, has := vals[stc.Field(i).Name()]; !has {
												z := &ast.Ident{NamePos: y.Pos(), Name: "nil"}
												vals[stc.Field(i).Name()] = z
											}
										}
									}
									out = append(out, declare(v, y.Pos(), vals, define)...)
									continue
								case *ast.Ident:
									if w, _ := info.ObjectOf(r).(*types.Var); w != nil && cands[w] != nil {
										vals := map[string]ast.Expr{}
										for name, fw := range fieldVar[w] {
											vals[name] = mkIdent(fw, y.Pos(), false)
										}
										out = append(out, declare(v, y.Pos(), vals, define)...)
										continue
									}
								}
							}
						}
					}
				case *ast.DeclStmt:
					if gd, ok := y.Decl.(*ast.GenDecl); ok && len(gd.Specs) == 1 {
						if vs, ok := gd.Specs[0].(*ast.ValueSpec); ok && len(vs.Names) == 1 && len(vs.Values) == 0 {
							if v, _ := info.Defs[vs.Names[0]].(*types.Var); v != nil && cands[v] != nil {
								declared[v] = true
								out = append(out, declare(v, y.Pos(), map[string]ast.Expr{}, true)...)
								continue
							}
						}
					}
				}
				out = append(out, stt)
			}
			return out
		})
		// v.f -> v_f
		var walk func(v reflect.Value)
		walk = func(v reflect.Value) {
			switch v.Kind() {
			case reflect.Interface:
				if v.IsNil() {
					return
				}
				if sel, ok := v.Interface().(*ast.SelectorExpr); ok && v.CanSet() {
					if id, ok := sel.X.(*ast.Ident); ok {
						if cv, _ := info.ObjectOf(id).(*types.Var); cv != nil && cands[cv] != nil {
							if fv := fieldVar[cv][sel.Sel.Name]; fv != nil {
								v.Set(reflect.ValueOf(mkIdent(fv, sel.Pos(), false)))
								return
							}
						}
					}
				}
				walk(v.Elem())
			case reflect.Ptr:
				if v.IsNil() || v.Type() == tObject || v.Type() == tScope || v.Elem().Kind() != reflect.Struct {
					return
				}
				for i := 0; i < v.Elem().NumField(); i++ {
					walk(v.Elem().Field(i))
				}
			case reflect.Slice:
				for i := 0; i < v.Len(); i++ {
					walk(v.Index(i))
				}
			}
		}
		walk(reflect.ValueOf(nb))
		nd := *fi.Decl
		nd.Body = nb
		if fi.OrigDecl == nil {
			fi.OrigDecl = fi.Decl
		}
		fi.Decl = &nd
		fi.normalised = true
		normaliseLog = append(normaliseLog, fmt.Sprintf("took apart %d local(s) of new struct types in %s", len(cands), fi.Name))
	}
}

// propagateCopies: in a function that was rewritten above, `x := y` between two locals where x is never
// assigned again makes x another name of y (expansion and scalarisation leave such hops behind:
// `ourSnapshot := work_snapshot`).  Only rewritten functions are touched.
func (p *Prog) propagateCopies() {
	for _, fi := range p.flist {
		if !fi.normalised || fi.Decl.Body == nil {
			continue
		}
		info := fi.Pkg.TypesInfo
		body := fi.Decl.Body
		alias := map[types.Object]types.Object{}
		var drop []ast.Stmt
		ast.Inspect(body, func(n ast.Node) bool {
			as, ok := n.(*ast.AssignStmt)
			if !ok || as.Tok != token.DEFINE || len(as.Lhs) != 1 || len(as.Rhs) != 1 {
				return true
			}
			lid, ok1 := as.Lhs[0].(*ast.Ident)
			rid, ok2 := ast.Unparen(as.Rhs[0]).(*ast.Ident)
			if !ok1 || !ok2 || lid.Name == "_" {
				return true
			}
			x, _ := info.Defs[lid].(*types.Var)
			y, _ := info.Uses[rid].(*types.Var)
			if x == nil || y == nil || y.IsField() || (y.Parent() != nil && y.Pkg() != nil && y.Parent() == y.Pkg().Scope()) || isSigVar(fi, y) {
				return true
			}
			if !types.Identical(x.Type(), y.Type()) || singleDefOf(info, body, x) == nil {
				return true
			}
			alias[x] = y
			drop = append(drop, as)
			return true
		})
		if len(alias) == 0 {
			continue
		}
		resolve := func(o types.Object) types.Object {
			for hop := 0; hop < 5; hop++ {
				n, ok := alias[o]
				if !ok {
					break
				}
				o = n
			}
			return o
		}
		ast.Inspect(body, func(n ast.Node) bool {
			if id, ok := n.(*ast.Ident); ok {
				if o := info.Uses[id]; o != nil {
					if r := resolve(o); r != o {
						info.Uses[id] = r
						id.Name = r.Name()
					}
				}
			}
			return true
		})
		isDropped := map[ast.Stmt]bool{}
		for _, d := range drop {
			isDropped[d] = true
		}
		mapStmtLists(body, true, func(list []ast.Stmt) []ast.Stmt {
			var out []ast.Stmt
			for _, st := range list {
				if !isDropped[st] {
					out = append(out, st)
				}
			}
			return out
		})
	}
}

// expandNewClosures: a block that was turned into a local closure (called, never passed around) is
// put back at its call sites, like a new helper function.
func (p *Prog) expandNewClosures() {
	base := loadBaselineClosures()
	if base == nil {
		return
	}
	seq := 100000
	for _, fi := range p.flist {
		if fi.Decl.Body == nil {
			continue
		}
		info := fi.Pkg.TypesInfo
		cl := newClosures(info, fi, base, fi.Pkg)
		if len(cl) == 0 {
			continue
		}
		x := &inliner{pk: fi.Pkg, info: info, helpers: map[*types.Func]*FuncInfo{}, closures: cl, seq: &seq}
		cp := &astCopier{info: info}
		nb := cp.copyBlock(fi.Decl.Body)
		x.body, x.caller = nb, fi
		for round := 0; round < 3; round++ {
			x.changed = false
			mapStmtLists(nb, true, x.rewriteList)
			if !x.changed {
				break
			}
		}
		// closures whose every call was expanded lose their definition
		still := map[types.Object]bool{}
		ast.Inspect(nb, func(n ast.Node) bool {
			if id, ok := n.(*ast.Ident); ok {
				if _, isCl := cl[info.Uses[id]]; isCl {
					still[info.Uses[id]] = true
				}
			}
			return true
		})
		expanded := false
		mapStmtLists(nb, true, func(list []ast.Stmt) []ast.Stmt {
			var out []ast.Stmt
			for _, st := range list {
				drop := false
				for _, cv := range closureVars(info, &ast.BlockStmt{List: []ast.Stmt{st}}) {
					if cv.stmt == st && cl[cv.obj] != nil && !still[cv.obj] {
						drop = true
					}
				}
				if drop {
					expanded = true
					continue
				}
				out = append(out, st)
			}
			return out
		})
		if expanded {
			if len(x.alias) > 0 {
				ast.Inspect(nb, func(n ast.Node) bool {
					if id, ok := n.(*ast.Ident); ok {
						if o, ok := x.alias[info.Uses[id]]; ok && info.Uses[id] != nil {
							info.Uses[id] = o
							id.Name = o.Name()
						}
						if o, ok := x.alias[info.Defs[id]]; ok && info.Defs[id] != nil {
							info.Defs[id] = o
							id.Name = o.Name()
						}
					}
					return true
				})
			}
			nd := *fi.Decl
			nd.Body = nb
			if fi.OrigDecl == nil {
				fi.OrigDecl = fi.Decl
			}
			fi.Decl = &nd
			fi.normalised = true
			normaliseLog = append(normaliseLog, fmt.Sprintf("expanded new local closure(s) in %s", fi.Name))
		}
	}
}

// normalise looks through new helpers (see the comment at the top).
func (p *Prog) normalise() {
	base := loadBaseline()
	if base == nil {
		return
	}
	p.canonFields()
	// per package: new functions
	byPkgNew := map[*packages.Package][]*FuncInfo{}
	present := map[string]bool{}
	for _, fi := range p.flist {
		present[fi.Name] = true
	}
	for _, fi := range p.flist {
		if !base[fi.Name] {
			byPkgNew[fi.Pkg] = append(byPkgNew[fi.Pkg], fi)
		}
	}
	p.expandNewClosures()
	if len(byPkgNew) == 0 {
		return
	}
	// renamed functions: one vanished baseline function, one new function, same package, receiver and signature
	vanished := map[string][]string{} // pkgrel -> names
	for n := range base {
		if !present[n] {
			i := strings.Index(n, ".")
			pkgrel := n
			if j := strings.Index(n, ".("); j >= 0 {
				pkgrel = n[:j]
			} else if k := strings.LastIndex(n, "."); k >= 0 {
				pkgrel = n[:k]
			}
			_ = i
			vanished[pkgrel] = append(vanished[pkgrel], n)
		}
	}
	sigKey := func(name string, f *types.Func) string {
		// receiver part of the qualified name + signature without receiver
		recv := ""
		if j := strings.Index(name, ".("); j >= 0 {
			recv = name[j:strings.LastIndex(name, ".")]
		}
		return recv + "|" + types.TypeString(f.Type(), nil)
	}
	for pk, news := range byPkgNew {
		rel := relPkg(pk.PkgPath)
		van := vanished[rel]
		if len(van) == 0 {
			continue
		}
		// method <-> function conversion under the same name: `(*T).f()` became `f(t.field)` or the reverse
		{
			shortOf := func(n string) string { return n[strings.LastIndex(n, ".")+1:] }
			recvOf := func(n string) string {
				if j := strings.Index(n, ".("); j >= 0 {
					return n[j+1 : strings.LastIndex(n, ".")]
				}
				return ""
			}
			var rest []*FuncInfo
			for _, nf := range news {
				var cands []string
				for _, v := range van {
					if shortOf(v) == shortOf(nf.Name) && recvOf(v) != recvOf(nf.Name) {
						cands = append(cands, v)
					}
				}
				same := 0
				for _, o := range news {
					if o != nf && shortOf(o.Name) == shortOf(nf.Name) {
						same++
					}
				}
				if len(cands) != 1 || same != 0 {
					rest = append(rest, nf)
					continue
				}
				old := cands[0]
				nsig := nf.Obj.Type().(*types.Signature)
				var params []*types.Var
				for i := 0; i < nsig.Params().Len(); i++ {
					params = append(params, nsig.Params().At(i))
				}
				var recv *types.Var
				if rt := recvOf(old); rt != "" {
					tn := strings.TrimSuffix(strings.TrimPrefix(strings.TrimPrefix(rt, "("), "*"), ")")
					if o, ok := pk.Types.Scope().Lookup(tn).(*types.TypeName); ok {
						var t types.Type = o.Type()
						if strings.HasPrefix(rt, "(*") {
							t = types.NewPointer(t)
						}
						recv = types.NewVar(nf.Obj.Pos(), pk.Types, "", t)
					}
					if recv == nil {
						rest = append(rest, nf)
						continue
					}
				}
				normaliseLog = append(normaliseLog, fmt.Sprintf("converted: %s is treated as %s", nf.Name, old))
				delete(p.funcs, nf.Name)
				nf.Name = old
				p.funcs[old] = nf
				syn := types.NewFunc(nf.Obj.Pos(), nf.Obj.Pkg(), shortOf(old), types.NewSignatureType(recv, nil, nil, types.NewTuple(params...), nsig.Results(), nsig.Variadic()))
				funcCanon[nf.Obj] = syn
				nf.Obj = syn
				var van2 []string
				for _, v := range van {
					if v != old {
						van2 = append(van2, v)
					}
				}
				van = van2
			}
			news = rest
		}
		var keep []*FuncInfo
		for _, nf := range news {
			var cands []string
			for _, v := range van {
				recvV := ""
				if j := strings.Index(v, ".("); j >= 0 {
					recvV = v[j:strings.LastIndex(v, ".")]
				}
				recvN := ""
				if j := strings.Index(nf.Name, ".("); j >= 0 {
					recvN = nf.Name[j:strings.LastIndex(nf.Name, ".")]
				}
				if recvV == recvN {
					cands = append(cands, v)
				}
			}
			_ = sigKey
			// the new function must be the only new one with that receiver, and the vanished one unique as well
			others := 0
			for _, o := range news {
				if o != nf {
					ro, rn := "", ""
					if j := strings.Index(o.Name, ".("); j >= 0 {
						ro = o.Name[j:strings.LastIndex(o.Name, ".")]
					}
					if j := strings.Index(nf.Name, ".("); j >= 0 {
						rn = nf.Name[j:strings.LastIndex(nf.Name, ".")]
					}
					if ro == rn {
						others++
					}
				}
			}
			if len(cands) == 1 && others == 0 {
				old := cands[0]
				normaliseLog = append(normaliseLog, fmt.Sprintf("renamed: %s is treated as %s", nf.Name, old))
				delete(p.funcs, nf.Name)
				nf.Name = old
				p.funcs[old] = nf
				// rules also recognise callees by name: calls to the renamed function resolve to a
				// stand-in object that carries the name the rules know
				short := old[strings.LastIndex(old, ".")+1:]
				syn := types.NewFunc(nf.Obj.Pos(), nf.Obj.Pkg(), short, nf.Obj.Type().(*types.Signature))
				funcCanon[nf.Obj] = syn
				nf.Obj = syn
				continue
			}
			keep = append(keep, nf)
		}
		byPkgNew[pk] = keep
	}
	seq := 0
	if os.Getenv("VERIF_DEBUG_NORMALISE") != "" {
		for pk, news := range byPkgNew {
			for _, n := range news {
				fmt.Println("normalise-debug: new function", pk.PkgPath, n.Name)
			}
		}
	}
	for pk, news := range byPkgNew {
		if len(news) == 0 {
			continue
		}
		info := pk.TypesInfo
		helpers := map[*types.Func]*FuncInfo{}
		for _, h := range news {
			if h.Decl.Body == nil {
				continue
			}
			// not recursive (directly)
			rec := false
			ast.Inspect(h.Decl.Body, func(n ast.Node) bool {
				if id, ok := n.(*ast.Ident); ok && info.Uses[id] == h.Obj {
					rec = true
				}
				return true
			})
			if !rec {
				helpers[h.Obj] = h
			}
		}
		if len(helpers) == 0 {
			continue
		}
		uses := func(fi *FuncInfo) bool {
			found := false
			ast.Inspect(fi.Decl.Body, func(n ast.Node) bool {
				if id, ok := n.(*ast.Ident); ok {
					if f, ok := info.Uses[id].(*types.Func); ok && helpers[f] != nil {
						found = true
					}
				}
				return true
			})
			return found
		}
		for round := 0; round < 5; round++ {
			any := false
			// helpers first, so that nested helpers are already expanded when their callers are
			var order []*FuncInfo
			for _, fi := range p.flist {
				if fi.Pkg == pk && fi.Decl.Body != nil && helpers[fi.Obj] != nil {
					order = append(order, fi)
				}
			}
			for _, fi := range p.flist {
				if fi.Pkg == pk && fi.Decl.Body != nil && helpers[fi.Obj] == nil {
					order = append(order, fi)
				}
			}
			for _, fi := range order {
				if !uses(fi) {
					continue
				}
				x := &inliner{pk: pk, info: info, helpers: helpers, seq: &seq}
				// a helper must not be expanded into itself through a cycle
				hs := map[*types.Func]*FuncInfo{}
				for k, v := range helpers {
					if k != fi.Obj {
						hs[k] = v
					}
				}
				x.helpers = hs
				cp := &astCopier{info: info}
				nb := cp.copyBlock(fi.Decl.Body)
				x.body, x.caller = nb, fi
				mapStmtLists(nb, true, x.rewriteList)
				x.valueRefs(nb)
				if len(x.alias) > 0 {
					ast.Inspect(nb, func(n ast.Node) bool {
						if id, ok := n.(*ast.Ident); ok {
							if o, ok := x.alias[info.Uses[id]]; ok && info.Uses[id] != nil {
								info.Uses[id] = o
								id.Name = o.Name() // rules compare expressions by text within one function
							}
							if o, ok := x.alias[info.Defs[id]]; ok && info.Defs[id] != nil {
								info.Defs[id] = o
								id.Name = o.Name()
							}
						}
						return true
					})
				}
				if x.changed {
					nd := *fi.Decl
					nd.Body = nb
					if fi.OrigDecl == nil {
						fi.OrigDecl = fi.Decl
					}
					fi.Decl = &nd
					any = true
					fi.normalised = true
					normaliseLog = append(normaliseLog, fmt.Sprintf("expanded new helper(s) in %s", fi.Name))
				}
			}
			if !any {
				break
			}
		}
		// drop unexported helpers that are no longer referenced from any analysed body
		for {
			dropped := false
			for f, h := range helpers {
				if ast.IsExported(f.Name()) {
					continue
				}
				ref := false
				for _, fi := range p.flist {
					if fi.Pkg != pk || fi == h || fi.Decl.Body == nil {
						continue
					}
					ast.Inspect(fi.Decl.Body, func(n ast.Node) bool {
						if id, ok := n.(*ast.Ident); ok && info.Uses[id] == f {
							ref = true
						}
						return true
					})
				}
				// package-level references (var x = helper)
				for _, file := range pk.Syntax {
					for _, d := range file.Decls {
						if gd, ok := d.(*ast.GenDecl); ok {
							ast.Inspect(gd, func(n ast.Node) bool {
								if id, ok := n.(*ast.Ident); ok && info.Uses[id] == f {
									ref = true
								}
								return true
							})
						}
					}
				}
				if !ref {
					var nl []*FuncInfo
					for _, fi := range p.flist {
						if fi != h {
							nl = append(nl, fi)
						}
					}
					p.flist = nl
					delete(p.funcs, h.Name)
					delete(helpers, f)
					normaliseLog = append(normaliseLog, fmt.Sprintf("helper %s fully expanded into its callers", h.Name))
					dropped = true
				}
			}
			if !dropped {
				break
			}
		}
	}
}

// desugarLibraryCalls: statement-level library idioms that stand for a loop are
// spelled out before any rule runs (on the unchanged tree too), so that a
// modernisation of a hand-written loop into the library call changes nothing:
//
//	maps.Copy(dst, src)   =>   for k, v := range src { dst[k] = v }
//	for i := range n      =>   for i := 0; i < n; i++ { }
func (p *Prog) desugarLibraryCalls() {
	seq := 0
	for _, fi := range p.flist {
		if fi.Decl.Body == nil {
			continue
		}
		info := fi.Pkg.TypesInfo
		isCopy := func(st ast.Stmt) *ast.CallExpr {
			es, ok := st.(*ast.ExprStmt)
			if !ok {
				return nil
			}
			c, ok := es.X.(*ast.CallExpr)
			if !ok || len(c.Args) != 2 {
				return nil
			}
			f := callee(info, c)
			if f == nil || f.Pkg() == nil || f.Pkg().Path() != "maps" || f.Name() != "Copy" {
				return nil
			}
			if _, isMap := info.TypeOf(c.Args[1]).Underlying().(*types.Map); !isMap {
				return nil
			}
			return c
		}
		isIntRange := func(st ast.Stmt) *ast.RangeStmt {
			rs, ok := st.(*ast.RangeStmt)
			if !ok || rs.Value != nil || (rs.Tok != token.DEFINE && rs.Key != nil) {
				return nil
			}
			t := info.TypeOf(rs.X)
			if t == nil {
				return nil
			}
			if b, isBasic := t.Underlying().(*types.Basic); !isBasic || b.Info()&types.IsInteger == 0 {
				return nil
			}
			return rs
		}
		has := false
		ast.Inspect(fi.Decl.Body, func(n ast.Node) bool {
			if st, ok := n.(ast.Stmt); ok && (isCopy(st) != nil || isIntRange(st) != nil) {
				has = true
			}
			return !has
		})
		if !has {
			continue
		}
		cp := &astCopier{info: info}
		nb := cp.copyBlock(fi.Decl.Body)
		changed := false
		// for i := range n   =>   for i := 0; i < n; i++
		intLoop := func(rs *ast.RangeStmt) *ast.ForStmt {
			seq++
			pos := rs.Pos()
			t := info.TypeOf(rs.X)
			if b, isBasic := t.(*types.Basic); isBasic && b.Info()&types.IsUntyped != 0 {
				t = types.Typ[types.Int]
			}
			var keyDef *ast.Ident
			var kv *types.Var
			if id, ok := rs.Key.(*ast.Ident); ok && id.Name != "_" && info.Defs[id] != nil {
				keyDef = id
				kv, _ = info.Defs[id].(*types.Var)
			}
			if kv == nil {
				kv = types.NewVar(pos, fi.Pkg.Types, fmt.Sprintf("ri_%d", seq), t)
				keyDef = &ast.Ident{NamePos: pos, Name: kv.Name()}
				info.Defs[keyDef] = kv
			}
			use := func() *ast.Ident {
				id := &ast.Ident{NamePos: pos, Name: kv.Name()}
				info.Uses[id] = kv
				info.Types[id] = types.TypeAndValue{Type: kv.Type()}
				return id
			}
			zero := &ast.BasicLit{ValuePos: pos, Kind: token.INT, Value: "0"}
			info.Types[zero] = types.TypeAndValue{Type: kv.Type(), Value: constant.MakeInt64(0)}
			cond := &ast.BinaryExpr{X: use(), OpPos: pos, Op: token.LSS, Y: rs.X}
			info.Types[cond] = types.TypeAndValue{Type: types.Typ[types.Bool]}
			return &ast.ForStmt{For: rs.For,
				Init: &ast.AssignStmt{Lhs: []ast.Expr{keyDef}, TokPos: pos, Tok: token.DEFINE, Rhs: []ast.Expr{zero}},
				Cond: cond,
				Post: &ast.IncDecStmt{X: use(), TokPos: pos, Tok: token.INC},
				Body: rs.Body}
		}
		mapStmtLists(nb, true, func(list []ast.Stmt) []ast.Stmt {
			var out []ast.Stmt
			for _, st := range list {
				if rs := isIntRange(st); rs != nil {
					out = append(out, intLoop(rs))
					changed = true
					continue
				}
				if ls, ok := st.(*ast.LabeledStmt); ok {
					if rs := isIntRange(ls.Stmt); rs != nil {
						ls.Stmt = intLoop(rs)
						changed = true
					}
				}
				c := isCopy(st)
				if c == nil || !stableArg(info, c.Args[0]) {
					out = append(out, st)
					continue
				}
				mt := info.TypeOf(c.Args[1]).Underlying().(*types.Map)
				seq++
				pos := c.Pos()
				kv := types.NewVar(pos, fi.Pkg.Types, fmt.Sprintf("mck_%d", seq), mt.Key())
				vv := types.NewVar(pos, fi.Pkg.Types, fmt.Sprintf("mcv_%d", seq), mt.Elem())
				mk := func(v *types.Var, def bool) *ast.Ident {
					id := &ast.Ident{NamePos: pos, Name: v.Name()}
					if def {
						info.Defs[id] = v
					} else {
						info.Uses[id] = v
						info.Types[id] = types.TypeAndValue{Type: v.Type()}
					}
					return id
				}
				ix := &ast.IndexExpr{X: c.Args[0], Lbrack: pos, Index: mk(kv, false), Rbrack: pos}
				info.Types[ix] = types.TypeAndValue{Type: mt.Elem()}
				body := &ast.BlockStmt{Lbrace: pos, Rbrace: pos, List: []ast.Stmt{
					&ast.AssignStmt{Lhs: []ast.Expr{ix}, TokPos: pos, Tok: token.ASSIGN, Rhs: []ast.Expr{mk(vv, false)}},
				}}
				out = append(out, &ast.RangeStmt{For: pos, Key: mk(kv, true), Value: mk(vv, true), TokPos: pos, Tok: token.DEFINE, X: c.Args[1], Body: body})
				changed = true
			}
			return out
		})
		if changed {
			nd := *fi.Decl
			nd.Body = nb
			if fi.OrigDecl == nil {
				fi.OrigDecl = fi.Decl
			}
			fi.Decl = &nd
		}
	}
}
