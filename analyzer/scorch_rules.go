package main

import (
	"fmt"
	"go/ast"
	"go/token"
	"go/types"
	"strings"
)

const scorchPkg = "index/scorch"

// introducer roles: functions of package scorch that store to Scorch.root and
// take the given message type.
type introducers struct {
	Segment, Persist, Merge *FuncInfo
	AllRootStores           []*FuncInfo
}

func findIntroducers(p *Prog) introducers {
	var in introducers
	in.AllRootStores = p.funcsStoringField(scorchPkg, "Scorch", "root")
	for _, fi := range in.AllRootStores {
		switch {
		case paramOfType(fi, scorchPkg, "segmentIntroduction") != nil:
			if in.Segment != nil {
				undecidedf("two segment introducers: %s and %s", in.Segment.Name, fi.Name)
			}
			in.Segment = fi
		case paramOfType(fi, scorchPkg, "persistIntroduction") != nil:
			in.Persist = fi
		case paramOfType(fi, scorchPkg, "segmentMerge") != nil:
			in.Merge = fi
		}
	}
	if in.Segment == nil || in.Persist == nil || in.Merge == nil {
		undecidedf("introducer roles not found (segment=%v persist=%v merge=%v)", in.Segment != nil, in.Persist != nil, in.Merge != nil)
	}
	return in
}

// freshVarsOfType lists local variables of fi defined by a composite literal
// (&T{...} or T{...}) of the named struct type.
func freshVarsOfType(fi *FuncInfo, typeName string) []*types.Var {
	// a variable bound to a fresh object of the type: &T{..}, T{..}, new(T) or `var v T`
	var out []*types.Var
	seen := map[*types.Var]bool{}
	for _, bo := range builtObjects(fi.Pkg.TypesInfo, fi.Decl.Body, typeName) {
		if bo.Var != nil && !seen[bo.Var] {
			seen[bo.Var] = true
			out = append(out, bo.Var)
		}
	}
	return out
}

func varKeyOf(v *types.Var) string { return "v:" + v.Name() + "@" + itoa(int(v.Pos())) }

// varsHoldingRoot lists local variables whose value derives from Scorch.root.
func varsHoldingRoot(fi *FuncInfo, d *Deps) map[string]bool {
	out := map[string]bool{}
	info := fi.Pkg.TypesInfo
	ast.Inspect(fi.Decl.Body, func(n ast.Node) bool {
		as, ok := n.(*ast.AssignStmt)
		if !ok || len(as.Lhs) != len(as.Rhs) {
			return true
		}
		for i, r := range as.Rhs {
			if isField(info, r, "Scorch", "root") {
				if id, ok := as.Lhs[i].(*ast.Ident); ok {
					if v, ok := info.ObjectOf(id).(*types.Var); ok {
						out[varKeyOf(v)] = true
					}
				}
			}
		}
		return true
	})
	// locals standing for one segment of such a root: `seg := root.segment[i]`, `for _, seg := range root.segment`
	isRootSegs := func(e ast.Expr) bool {
		sel, ok := ast.Unparen(e).(*ast.SelectorExpr)
		if !ok || !isField(info, sel, "IndexSnapshot", "segment") {
			return false
		}
		if id := baseIdent(sel.X); id != nil {
			if v, ok := info.ObjectOf(id).(*types.Var); ok && out[varKeyOf(v)] {
				return true
			}
		}
		return false
	}
	ast.Inspect(fi.Decl.Body, func(n ast.Node) bool {
		switch y := n.(type) {
		case *ast.AssignStmt:
			if len(y.Lhs) == len(y.Rhs) {
				for i, r := range y.Rhs {
					if ix, ok := ast.Unparen(r).(*ast.IndexExpr); ok && isRootSegs(ix.X) {
						if id, ok := y.Lhs[i].(*ast.Ident); ok {
							if v, ok := info.ObjectOf(id).(*types.Var); ok {
								out[varKeyOf(v)] = true
							}
						}
					}
				}
			}
		case *ast.RangeStmt:
			if y.Value != nil && isRootSegs(y.X) {
				if id, ok := y.Value.(*ast.Ident); ok {
					if v, ok := info.ObjectOf(id).(*types.Var); ok {
						out[varKeyOf(v)] = true
					}
				}
			}
		}
		return true
	})
	return out
}

// ruleSegmentIntroducerObsoletes: C01(a) — the exclusion bitmap of every
// carried-over segment is built from its previous exclusion bitmap AND the
// batch's ids looked up in that segment (optimistic result or recomputed).
func ruleSegmentIntroducerObsoletes(r *Report, in introducers) {
	fi := in.Segment
	r.Fn(fi)
	info := fi.Pkg.TypesInfo
	d := newDeps(info, fi.Decl.Body)
	rootVars := varsHoldingRoot(fi, d)
	fresh := freshVarsOfType(fi, "SegmentSnapshot")
	g := buildCFG(info, fi.Decl.Body)
	const rule = "K5dep-obsoletes-union"
	n := 0
	for _, v := range fresh {
		stores := []fieldStore{}
		for _, st := range storesToField(info, fi.Decl.Body, "SegmentSnapshot", "deleted") {
			if id := baseIdent(st.Lhs.X); id != nil && info.ObjectOf(id) == v {
				stores = append(stores, st)
			}
		}
		if len(stores) == 0 {
			continue // e.g. the snapshot of the brand-new segment: nothing deleted
		}
		// the carried-over segment snapshot: must range over the old root
		sl := d.Slice(varKeyOf(v) + ".deleted")
		n++
		hasOld := false
		for a := range sl {
			if strings.HasSuffix(a, ".deleted") && strings.HasPrefix(a, "v:") {
				base := a[:strings.LastIndex(a, ".")]
				if rootVars[base] {
					hasOld = true
				}
				// the element variable of a loop over the old root's segments
				for b := range d.Slice(base) {
					if rootVars[b] || (strings.HasPrefix(b, "v:") && strings.HasSuffix(b, ".segment") && rootVars[b[:strings.LastIndex(b, ".")]]) {
						hasOld = true
					}
				}
			}
		}
		r.Ob(rule, fi.Name+"/"+v.Name()+".deleted<-old-exclusion", stores[0].Stmt.Pos(), hasOld,
			"the bitmap stored to "+v.Name()+".deleted must be computed from the previous root's .deleted of the same segment (deletions accumulated so far would be forgotten otherwise); slice="+strings.Join(sliceAtoms(sl, "fld:", "call:"), ","))
		hasObs := sl["fld:segmentIntroduction.obsoletes"]
		r.Ob(rule, fi.Name+"/"+v.Name()+".deleted<-optimistic-obsoletes", stores[0].Stmt.Pos(), hasObs,
			"the bitmap stored to .deleted must depend on the introduction's pre-computed obsoletes map")
		hasRecompute := sl["fld:segmentIntroduction.ids"] && sliceHasSuffix(sl, ".DocNumbers")
		r.Ob(rule, fi.Name+"/"+v.Name()+".deleted<-recomputed-for-unseen-segments", stores[0].Stmt.Pos(), hasRecompute,
			"for root segments the optimistic pre-computation did not see, the batch ids must be looked up again (DocNumbers(next.ids)) and flow into .deleted")
		// every store is conditional only on emptiness/nil/type tests
		for _, st := range stores {
			facts := g.GuardsOf(st.Stmt)
			bad := ""
			for _, f := range facts {
				if !benignBitmapGuard(info, f) {
					bad = f.String()
				}
			}
			r.Ob("K5-obsoletes-unconditional", fi.Name+"/"+exprStr(st.Lhs)+"="+exprShort(st.Rhs), st.Stmt.Pos(), bad == "",
				"store to .deleted is conditional on "+bad+" (only nil / IsEmpty / type-assertion guards keep the update total)")
		}
	}
	if n == 0 {
		undecidedf("%s: no fresh SegmentSnapshot with a .deleted store found", fi.Name)
	}
	// the fallback lookup is guarded by the comma-ok miss of the obsoletes map
	calls := callsMatching(info, fi.Decl.Body, func(f *types.Func) bool { return f.Name() == "DocNumbers" })
	if len(calls) == 0 {
		r.Ob("K5-fallback-guard", fi.Name+"/DocNumbers", fi.Decl.Pos(), false, "no DocNumbers recomputation in the segment introducer")
	}
	for _, c := range calls {
		facts := g.GuardsOf(c)
		ok := false
		for _, f := range facts {
			if f.Truth || f.Tag != nil {
				continue
			}
			id, isID := ast.Unparen(f.Expr).(*ast.Ident)
			if !isID {
				continue
			}
			// ok variable must come from a comma-ok lookup in the obsoletes map
			if commaOkOfField(info, fi.Decl.Body, info.ObjectOf(id), "segmentIntroduction", "obsoletes") {
				ok = true
			}
		}
		r.Ob("K5-fallback-guard", fi.Name+"/DocNumbers", c.Pos(), ok,
			"the DocNumbers(next.ids) recomputation must run exactly when the obsoletes map has no entry for the segment (guards: "+factsString(facts)+")")
	}
}

func sliceHasSuffix(sl map[string]bool, suffix string) bool {
	for a := range sl {
		if strings.HasPrefix(a, "call:") && strings.HasSuffix(a, suffix) {
			return true
		}
	}
	return false
}

func exprShort(e ast.Expr) string {
	if e == nil {
		return "?"
	}
	s := exprStr(e)
	if len(s) > 60 {
		s = s[:57] + "..."
	}
	return s
}

// benignBitmapGuard: nil tests, IsEmpty()/LiveSize()/GetCardinality tests and
// type-assertion ok variables do not make an exclusion update partial.
func benignBitmapGuard(info *types.Info, f Fact) bool {
	if f.Tag != nil {
		// "the dynamic type of x is T" (a type switch case or the ok of a type assertion) is as benign as the ok variable itself
		if tv, ok := info.Types[f.Expr]; ok && tv.IsType() {
			return true
		}
		return false
	}
	if _, _, ok := nilTest(info, f.Expr); ok {
		return true
	}
	e := ast.Unparen(f.Expr)
	if c, ok := e.(*ast.CallExpr); ok {
		if fn := callee(info, c); fn != nil && (fn.Name() == "IsEmpty") {
			return true
		}
	}
	if id, ok := e.(*ast.Ident); ok {
		// ok variable of a type assertion
		if v, ok := info.ObjectOf(id).(*types.Var); ok && commaOkKind[v] == "typeassert" {
			return true
		}
	}
	return false
}

// commaOkOfField reports whether okObj is defined by "v, ok := <owner.field>[k]".
func commaOkOfField(info *types.Info, body ast.Node, okObj types.Object, owner, field string) bool {
	found := false
	ast.Inspect(body, func(n ast.Node) bool {
		as, ok := n.(*ast.AssignStmt)
		if !ok || len(as.Lhs) != 2 || len(as.Rhs) != 1 {
			return true
		}
		id, ok := as.Lhs[1].(*ast.Ident)
		if !ok || info.ObjectOf(id) != okObj {
			return true
		}
		if ix, ok := ast.Unparen(as.Rhs[0]).(*ast.IndexExpr); ok && isField(info, ix.X, owner, field) {
			found = true
		}
		return true
	})
	return found
}

// ruleIntroducerInternalMap: C01(c) — the new root's internal map is a copy
// of the old one overridden by the batch's ops, nil meaning delete.
func ruleIntroducerInternalMap(r *Report, in introducers) {
	fi := in.Segment
	info := fi.Pkg.TypesInfo
	const rule = "K9b-internal-map"
	fresh := freshVarsOfType(fi, "IndexSnapshot")
	if len(fresh) != 1 {
		undecidedf("%s: expected one fresh IndexSnapshot, found %d", fi.Name, len(fresh))
	}
	snap := fresh[0]
	g := buildCFG(info, fi.Decl.Body)
	isSnapInternalIndex := func(e ast.Expr) bool {
		ix, ok := ast.Unparen(e).(*ast.IndexExpr)
		if !ok || !isField(info, ix.X, "IndexSnapshot", "internal") {
			return false
		}
		id := baseIdent(ix.X)
		return id != nil && info.ObjectOf(id) == snap
	}
	// copy loop: range over <rootvar>.internal assigning snap.internal[k] = v
	copied := false
	for _, rs := range rangesOverField(info, fi.Decl.Body, "IndexSnapshot", "internal") {
		if id := baseIdent(rs.X); id == nil || info.ObjectOf(id) == snap {
			continue
		}
		ast.Inspect(rs.Body, func(n ast.Node) bool {
			if as, ok := n.(*ast.AssignStmt); ok && len(as.Lhs) == 1 && isSnapInternalIndex(as.Lhs[0]) {
				if rs.Value != nil && objOf(info, as.Rhs[0]) == objOf(info, rs.Value) && len(g.GuardsOf(as)) == guardCountOutside(g, rs) {
					copied = true
				}
			}
			return true
		})
	}
	r.Ob(rule, fi.Name+"/copy-old-internal", fi.Decl.Pos(), copied, "every key of the previous root's internal map is copied unconditionally into the new snapshot")
	// override loop
	setOK, delOK := false, false
	var pos token.Pos = fi.Decl.Pos()
	for _, rs := range rangesOverField(info, fi.Decl.Body, "segmentIntroduction", "internal") {
		pos = rs.Pos()
		valObj := objOf(info, rs.Value)
		keyObj := objOf(info, rs.Key)
		ast.Inspect(rs.Body, func(n ast.Node) bool {
			switch x := n.(type) {
			case *ast.AssignStmt:
				if len(x.Lhs) == 1 && isSnapInternalIndex(x.Lhs[0]) && objOf(info, x.Rhs[0]) == valObj && valObj != nil {
					ix := ast.Unparen(x.Lhs[0]).(*ast.IndexExpr)
					if objOf(info, ix.Index) == keyObj && guardedByNilness(info, g.GuardsOf(x), valObj, false) {
						setOK = true
					}
				}
			case *ast.CallExpr:
				if calleeBuiltin(info, x) == "delete" && len(x.Args) == 2 && isField(info, x.Args[0], "IndexSnapshot", "internal") {
					if id := baseIdent(x.Args[0]); id != nil && info.ObjectOf(id) == snap && objOf(info, x.Args[1]) == keyObj {
						if guardedByNilness(info, g.GuardsOf(x), valObj, true) {
							delOK = true
						}
					}
				}
			}
			return true
		})
	}
	r.Ob(rule, fi.Name+"/override-set-non-nil", pos, setOK, "a non-nil internal op value overrides the key in the new snapshot")
	r.Ob(rule, fi.Name+"/override-delete-nil", pos, delOK, "a nil internal op value deletes the key from the new snapshot")
}

// guardCountOutside returns the number of guard facts of the range statement
// itself plus one (the loop condition is not a fact) — used to require that a
// statement in the loop body has no extra guards.
func guardCountOutside(g *FCFG, rs *ast.RangeStmt) int {
	return len(g.GuardsOf(rs.X))
}

// guardedByNilness: facts contain "<obj> == nil" (wantNil) / "!= nil".
func guardedByNilness(info *types.Info, facts []Fact, obj types.Object, wantNil bool) bool {
	if obj == nil {
		return false
	}
	for _, f := range facts {
		if f.Tag != nil {
			continue
		}
		x, isEq, ok := nilTest(info, f.Expr)
		if !ok {
			continue
		}
		if objOf(info, x) == obj && (isEq == f.Truth) == wantNil {
			return true
		}
	}
	return false
}

// ruleSingleRootStore: exactly one store to Scorch.root per introducer whose
// value is the fresh snapshot, inside a W critical section of rootLock, and
// every population of the fresh snapshot's published fields precedes it.
func ruleSingleRootStore(r *Report, fi *FuncInfo, rule string) {
	r.Fn(fi)
	info := fi.Pkg.TypesInfo
	stores := storesToField(info, fi.Decl.Body, "Scorch", "root")
	if len(stores) != 1 {
		r.Ob(rule, fi.Name+"/one-root-store", fi.Decl.Pos(), false, fmt.Sprintf("%d stores to Scorch.root (the batch must become visible in exactly one swap)", len(stores)))
		return
	}
	st := stores[0]
	fresh := freshVarsOfType(fi, "IndexSnapshot")
	okFresh := false
	var snap *types.Var
	for _, v := range fresh {
		if objOf(info, st.Rhs) == v {
			okFresh = true
			snap = v
		}
	}
	r.Ob(rule, fi.Name+"/root=fresh-snapshot", st.Stmt.Pos(), okFresh, "the value stored to Scorch.root is the snapshot freshly built in this function")
	if snap == nil {
		return
	}
	g := buildCFG(info, fi.Decl.Body)
	// held W lock at the store
	held := lockHeldAt(g, info, st.Stmt, "rootLock", "W")
	r.Ob(rule, fi.Name+"/root-store-under-W-lock", st.Stmt.Pos(), held, "the root pointer swap happens with rootLock write-held")
	// all stores into published fields of the fresh snapshot dominate the swap
	for _, fld := range []string{"segment", "offsets", "internal"} {
		for _, fs := range storesToField(info, fi.Decl.Body, "IndexSnapshot", fld) {
			if id := baseIdent(fs.Lhs.X); id == nil || info.ObjectOf(id) != snap {
				continue
			}
			ok := !g.ReachesNode(st.Stmt, fs.Stmt)
			r.Ob(rule, fi.Name+"/populate-before-publish/"+fld, fs.Stmt.Pos(), ok, "every store to "+snap.Name()+"."+fld+" precedes the root swap (readers never see a half-built snapshot)")
		}
	}
	// index/map element stores & deletes on the fresh snapshot's fields
	ast.Inspect(fi.Decl.Body, func(n ast.Node) bool {
		var target ast.Expr
		var at ast.Node
		switch x := n.(type) {
		case *ast.AssignStmt:
			for _, l := range x.Lhs {
				if ix, ok := ast.Unparen(l).(*ast.IndexExpr); ok {
					target, at = ix.X, x
				}
			}
		case *ast.CallExpr:
			if calleeBuiltin(info, x) == "delete" && len(x.Args) == 2 {
				target, at = x.Args[0], x
			}
		}
		if target == nil {
			return true
		}
		fs, ok := asFieldSel(info, target)
		if !ok || fs.Owner != "IndexSnapshot" {
			return true
		}
		if id := baseIdent(fs.Sel.X); id == nil || info.ObjectOf(id) != snap {
			return true
		}
		okDom := !g.ReachesNode(st.Stmt, at)
		r.Ob(rule, fi.Name+"/populate-before-publish/"+canonFieldName(fs.Field)+"[]", at.Pos(), okDom, "element store into "+snap.Name()+"."+canonFieldName(fs.Field)+" precedes the root swap")
		return true
	})
}

// lockHeldAt: must-hold analysis — is a mutex whose receiver expression ends
// in fieldName held in the given mode ("W", "R", or "any") at node n?
func lockHeldAt(g *FCFG, info *types.Info, n ast.Node, fieldName, mode string) bool {
	l, ok := g.Locate(n)
	if !ok {
		return false
	}
	fl := mustHoldFlow(g, info)
	s, ok := fl.At(l)
	if !ok {
		return false
	}
	for k := range s {
		colon := strings.LastIndex(k, ":")
		recv, m := k[:colon], k[colon+1:]
		if !(recv == fieldName || strings.HasSuffix(recv, "."+fieldName)) {
			continue
		}
		if mode == "any" || m == mode || (mode == "R" && m == "W") {
			return true
		}
	}
	return false
}

var mustHoldCache = map[*FCFG]*Flow{}

// mustHoldFlow computes the set of locks held on ALL paths at each point.
func mustHoldFlow(g *FCFG, info *types.Info) *Flow {
	if fl, ok := mustHoldCache[g]; ok {
		return fl
	}
	fl := &Flow{F: g, Must: true, Entry: Set{}}
	fl.Transfer = func(n ast.Node, in Set) Set {
		out := in
		switch n.(type) {
		case *ast.DeferStmt, *ast.GoStmt:
			return out
		}
		for _, c := range callsIn(n) {
			ev, ok := lockSpec.Classify(info, c)
			if !ok {
				continue
			}
			if ev.Acquire {
				out = out.with(ev.Key)
			} else {
				out = out.without(ev.Key)
			}
		}
		return out
	}
	fl.Solve()
	mustHoldCache[g] = fl
	return fl
}
