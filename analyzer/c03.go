package main

import (
	"fmt"
	"go/ast"
	"go/token"
	"go/types"
	"sort"
	"strings"
)

func init() { register("C03", propC03) }

func propC03(r *Report, tier string) {
	r.Explanation = "Ordering clauses of the durability protocol (not recovery contents), decided on every path of the anchored functions: (a) snapshot persister: prepareBoltSnapshot (all segment writes) -> tx.Commit -> rootBolt.Sync on every success path, rollback deferred for every failure exit, ineligible marks cleared only after Commit; (b) persister loop: batch waiters released and persisted-callbacks invoked only after persistSnapshot returned, error delivered before close, callbacks only on success and retained on failure, waiters taken in the same critical section as the root; (c) prepareSegment waits for applied then persisted (channel created iff safe-batch) and returns the persisted error; the introducer registers the waiter in the same write critical section that swaps the root; (d) merge products are marked ineligible before MergeUsing creates them and un-marked only on failure/skip; (e) bolt key agreement: every key read on open/rollback is written by prepareBoltSnapshot with matching writer/reader nil-ness; (f) on open, loadFromBolt and the open-phase purge complete before any background loop starts. (h) un-marking in the introducers: names are queued for un-marking only on paths that do not carry that segment into the new root, and un-marked after the root swap. (i) Kerr error discipline over package scorch: no error-returning call is used as a statement or assigned to _ unless the callee is a clean-up operation (Close, DecRef, Rollback, ...; four named read-side exceptions), every error stored in a variable is read on some path before being overwritten, and deferred closures store outcomes only into named results."
	r.NotCovered = "what a reopened index contains; torn files; bbolt/zapx fsync behaviour (trusted); index_meta.json durability; unsafe-batch callback timing beyond (b)"
	r.Trusted = []string{"bbolt Tx.Commit is atomic and durable after DB.Sync", "zapx Persist/MergeUsing fsync the segment file before returning", "go/types callee resolution, go/cfg"}
	ruleSnapshotPersisterOrder(r, "K5-persist-order")
	rulePersisterLoopAck(r, "K5-ack-after-persist")
	rulePrepareSegmentWaits(r, "K5-batch-waits")
	ruleMarkBeforeCreate(r, "K5-mark-before-create")
	ruleUnmarkAfterCommit(r, "K5-unmark-after-commit")
	ruleEquivSnapshotOwnEpoch(r, "K6-persisted-snapshot-own-epoch")
	ruleDeletedBitsWrittenForEverySegment(r, "K5-deleted-bits-for-every-segment")
	ruleLoopScratchBufferReset(r, "K5-loop-scratch-buffer-reset", "index/scorch", "index/upsidedown", "util")
	ruleSegmentIDsNotReissued(r, "K5dep-segment-ids-from-disk")
	ruleErrorsLookedAt(r, "Kerr-errors-looked-at", func(rel string) bool { return rel == "index/scorch" }, errAllowScorch)
	ruleInMemoryMergeCoverage(r, "K14-memmerge-coverage")
	ruleBoltKeyAgreement(r, "K11-bolt-keys")
	ruleOpenPhaseOrder(r, "K5-open-phase")
	r.Floor("K5-persist-order", 14)
	r.Floor("K5-ack-after-persist", 5)
	r.Floor("K5-batch-waits", 4)
	r.Floor("K5-mark-before-create", 6)
	r.Floor("K11-bolt-keys", 8)
	r.Floor("K5-open-phase", 4)
}

// successReturn: the return statement does not return a (possibly) non-nil error.
func successReturn(info *types.Info, g *FCFG, fi *FuncInfo, rs *ast.ReturnStmt) bool {
	if failureReturns[rs] {
		return false
	}
	sig := fi.Obj.Type().(*types.Signature)
	n := sig.Results().Len()
	if n == 0 {
		return true
	}
	last := sig.Results().At(n - 1)
	if !isErrorType(last.Type()) {
		return true
	}
	var e ast.Expr
	if len(rs.Results) == n {
		e = rs.Results[n-1]
	} else if len(rs.Results) == 0 {
		// bare return with named result
		id := ast.NewIdent(last.Name())
		_ = id
		facts := g.GuardsOf(rs)
		for _, f := range facts {
			if x, isNil, ok := errNilFact(info, f); ok && !isNil && x == last.Name() {
				return false
			}
		}
		return true
	} else {
		return true
	}
	if isNilIdent(info, e) {
		return true
	}
	if id, ok := ast.Unparen(e).(*ast.Ident); ok {
		// `return err` right after `if err != nil`
		for _, f := range g.GuardsOf(rs) {
			if x, isNil, ok := errNilFact(info, f); ok && !isNil && x == id.Name {
				return false
			}
		}
		// returned variable last assigned from a call: may be non-nil => treat as
		// non-success unless it is dominated by an `err == nil` fact
		for _, f := range g.GuardsOf(rs) {
			if x, isNil, ok := errNilFact(info, f); ok && isNil && x == id.Name {
				return true
			}
		}
		return true // conservative: counts as a success path
	}
	return false // fmt.Errorf(...), constants: failure
}

func returnsOf(body *ast.BlockStmt) []*ast.ReturnStmt {
	var out []*ast.ReturnStmt
	inspectNoLit(body, func(n ast.Node) bool {
		if rs, ok := n.(*ast.ReturnStmt); ok {
			out = append(out, rs)
		}
		return true
	})
	return out
}

// ruleSnapshotPersisterOrder: C03(a), also used by C12/C14 for the copy path.
func ruleSnapshotPersisterOrder(r *Report, rule string) {
	p := r.P
	n := 0
	for _, fi := range p.funcsInPkg(scorchPkg) {
		info := fi.Pkg.TypesInfo
		prep := callsMatching(info, fi.Decl.Body, calleeIs(blevePath+"/index/scorch.prepareBoltSnapshot"))
		if len(prep) == 0 {
			continue
		}
		n++
		r.Fn(fi)
		if len(prep) != 1 {
			undecidedf("%s: %d prepareBoltSnapshot calls", fi.Name, len(prep))
		}
		g := buildCFG(info, fi.Decl.Body)
		if fi.Name == "index/scorch.(*Builder).Close" {
			r.Allow(rule, fi.Name+"/offline-builder", fi.Decl.Pos(), "offline builder: writes a brand-new index directory once (Commit then Close of a private bolt file); not part of the live persister protocol the property quantifies over")
			continue
		}
		onTx := func(name string) func(*types.Func) bool {
			return func(f *types.Func) bool {
				return methodIs("util", "BoltTxImpl", name)(f) || methodIs("bbolt", "Tx", name)(f)
			}
		}
		commits := callsMatching(info, fi.Decl.Body, onTx("Commit"))
		syncs := callsMatching(info, fi.Decl.Body, func(f *types.Func) bool {
			return methodIs("util", "RootBoltImpl", "Sync")(f) || methodIs("bbolt", "DB", "Sync")(f)
		})
		begins := callsMatching(info, fi.Decl.Body, methodIs("util", "RootBoltImpl", "Begin"))
		rollbacks := callsMatching(info, fi.Decl.Body, onTx("Rollback"))
		if len(commits) != 1 || len(syncs) < 1 || len(begins) != 1 {
			r.Ob(rule, fi.Name+"/commit+sync-present", fi.Decl.Pos(), false, fmt.Sprintf("expected one Begin, one Commit and a Sync, found begin=%d commit=%d sync=%d", len(begins), len(commits), len(syncs)))
			continue
		}
		commit := commits[0]
		// same transaction: the tx passed to prepareBoltSnapshot is the one committed
		txObj := objOf(info, prep[0].Args[1])
		csel := ast.Unparen(commit.Fun).(*ast.SelectorExpr)
		r.Ob(rule, fi.Name+"/commit-same-tx-as-prepared", commit.Pos(), txObj != nil && objOf(info, csel.X) == txObj, "the transaction committed is the one the snapshot was written into")
		writable := len(begins[0].Args) == 1 && exprStr(begins[0].Args[0]) == "true"
		r.Ob(rule, fi.Name+"/tx-writable", begins[0].Pos(), writable, "Begin(true): one writable transaction")
		r.Ob(rule, fi.Name+"/prepare-before-commit", commit.Pos(), g.DominatesNode(prep[0], commit), "every segment file is written (prepareBoltSnapshot) before the bolt transaction naming it is committed")
		var sync *ast.CallExpr
		for _, s := range syncs {
			if g.DominatesNode(commit, s) {
				sync = s
			}
		}
		r.Ob(rule, fi.Name+"/commit-before-sync", commit.Pos(), sync != nil, "rootBolt.Sync follows the commit")
		// success exits pass Commit and Sync
		nsucc := 0
		syncReturned := false
		for _, rs := range returnsOf(fi.Decl.Body) {
			if sync != nil && len(rs.Results) == 1 && ast.Unparen(rs.Results[0]) == ast.Expr(sync) {
				// `return db.Sync()`: the sync result IS the function result
				nsucc++
				syncReturned = true
				r.Ob(rule, fi.Name+"/success-exit-after-commit+sync", rs.Pos(), g.DominatesNode(commit, rs), "the function returns the result of Sync() after the commit")
				continue
			}
			if !successReturn(info, g, fi, rs) {
				continue
			}
			nsucc++
			ok := g.DominatesNode(commit, rs) && sync != nil && g.DominatesNode(sync, rs)
			r.Ob(rule, fi.Name+"/success-exit-after-commit+sync", rs.Pos(), ok, "every success return is dominated by tx.Commit() and rootBolt.Sync() (an acknowledged snapshot is durable)")
			// and the error results of both were checked: facts must not allow err != nil
		}
		if nsucc == 0 {
			r.Ob(rule, fi.Name+"/success-exit-after-commit+sync", fi.Decl.Pos(), false, "no success exit found")
		}
		// errors of Commit and Sync are checked (assigned and tested)
		for _, c := range []*ast.CallExpr{commit, sync} {
			if c == nil || (c == sync && syncReturned) {
				continue
			}
			checked := false
			for _, anc := range enclosing(fi.Decl.Body, c) {
				if as, ok := anc.(*ast.AssignStmt); ok && len(as.Lhs) == 1 {
					errObj := objOf(info, as.Lhs[0])
					// a following if err != nil { return }
					for _, rs := range returnsOf(fi.Decl.Body) {
						if !g.DominatesNode(as, rs) {
							continue
						}
						for _, f := range g.GuardsOf(rs) {
							if x, isNil, ok := nilTest(info, f.Expr); ok && objOf(info, x) == errObj && errObj != nil && (isNil != f.Truth) {
								checked = true
							}
						}
					}
				}
			}
			r.Ob(rule, fi.Name+"/"+callee(info, c).Name()+"-error-checked", c.Pos(), checked, "the error of "+exprShort(c)+" is tested and leads to a failure return")
		}
		// rollback deferred for failure exits
		okRollback := false
		ast.Inspect(fi.Decl.Body, func(nd ast.Node) bool {
			ds, ok := nd.(*ast.DeferStmt)
			if !ok {
				return true
			}
			for _, rb := range rollbacks {
				if len(enclosing(ds, rb)) == 0 {
					continue
				}
				rsel := ast.Unparen(rb.Fun).(*ast.SelectorExpr)
				if objOf(info, rsel.X) != txObj {
					continue
				}
				if g.DominatesNode(begins[0], ds) && g.DominatesNode(ds, prep[0]) {
					okRollback = true
				}
			}
			return true
		})
		if !okRollback {
			// alternative idiom: every failure return between prepare and commit is preceded by an explicit Rollback
			okRollback = true
			nfail := 0
			for _, rs := range returnsOf(fi.Decl.Body) {
				if !g.DominatesNode(prep[0], rs) || g.DominatesNode(commit, rs) {
					continue
				}
				nfail++
				has := false
				for _, rb := range rollbacks {
					if g.DominatesNode(rb, rs) {
						has = true
					}
				}
				if !has {
					okRollback = false
				}
			}
			if nfail == 0 {
				okRollback = false
			}
		}
		r.Ob(rule, fi.Name+"/rollback-on-failure-exits", begins[0].Pos(), okRollback, "every failure exit after writing started rolls the transaction back (deferred rollback registered before the writes, or an explicit Rollback before each failure return)")
		// ineligible marks cleared only after the commit
		for _, c := range builtinCalls(info, fi.Decl.Body, "delete") {
			if len(c.Args) == 2 && isField(info, c.Args[0], "Scorch", "ineligibleForRemoval") {
				r.Ob(rule, fi.Name+"/unmark-after-commit", c.Pos(), g.DominatesNode(commit, c) && (sync == nil || g.DominatesNode(sync, c)), "files become eligible for removal only after the commit (and sync) that names them")
				r.Ob(rule, fi.Name+"/unmark-under-rootLock", c.Pos(), lockHeldAt(g, info, c, "rootLock", "W"), "ineligibleForRemoval mutated with rootLock write-held")
			}
		}
		// the persist introduction (if any) precedes the commit and is awaited
		for _, st := range sendsOn(info, fi.Decl.Body, "Scorch", "persists") {
			r.Ob(rule, fi.Name+"/persist-introduction-before-commit", st.Pos(), g.ReachesNode(st, commit) && !g.ReachesNode(commit, st), "the persisted segments are swapped into the root before the transaction is committed")
		}
	}
	if n < 2 {
		undecidedf("expected >=2 callers of prepareBoltSnapshot (persister, CopyTo), found %d", n)
	}
}

// sendsOn lists send statements whose channel is field owner.field.
func sendsOn(info *types.Info, n ast.Node, owner, field string) []*ast.SendStmt {
	var out []*ast.SendStmt
	ast.Inspect(n, func(x ast.Node) bool {
		if s, ok := x.(*ast.SendStmt); ok && isField(info, s.Chan, owner, field) {
			out = append(out, s)
		}
		return true
	})
	return out
}

// rulePersisterLoopAck: C03(b).
func rulePersisterLoopAck(r *Report, rule string) {
	p := r.P
	fi := p.MustFunc("index/scorch.(*Scorch).persisterLoop")
	r.Fn(fi)
	info := fi.Pkg.TypesInfo
	g := buildCFG(info, fi.Decl.Body)
	persistCalls := callsMatching(info, fi.Decl.Body, methodIs(scorchPkg, "Scorch", "persistSnapshot"))
	if len(persistCalls) != 1 {
		undecidedf("%s: expected one persistSnapshot call, found %d", fi.Name, len(persistCalls))
	}
	pc := persistCalls[0]
	// error variable receiving the result
	var errObj types.Object
	for _, anc := range enclosing(fi.Decl.Body, pc) {
		if as, ok := anc.(*ast.AssignStmt); ok && len(as.Lhs) == 1 {
			errObj = objOf(info, as.Lhs[0])
		}
	}
	if errObj == nil {
		undecidedf("%s: persistSnapshot result not assigned", fi.Name)
	}
	// the waiters variable: local assigned from s.rootPersisted
	var waiters, callbacks, snapVar types.Object
	var takeStmts []*ast.AssignStmt
	ast.Inspect(fi.Decl.Body, func(n ast.Node) bool {
		as, ok := n.(*ast.AssignStmt)
		if !ok || len(as.Lhs) != 1 || len(as.Rhs) != 1 {
			return true
		}
		switch {
		case isField(info, as.Rhs[0], "Scorch", "rootPersisted"):
			waiters = objOf(info, as.Lhs[0])
			takeStmts = append(takeStmts, as)
		case isField(info, as.Rhs[0], "Scorch", "persistedCallbacks"):
			callbacks = objOf(info, as.Lhs[0])
			takeStmts = append(takeStmts, as)
		case isField(info, as.Rhs[0], "Scorch", "root"):
			snapVar = objOf(info, as.Lhs[0])
			takeStmts = append(takeStmts, as)
		}
		return true
	})
	if waiters == nil || callbacks == nil || snapVar == nil {
		undecidedf("%s: waiter/callback/snapshot hand-over not found", fi.Name)
	}
	// same critical section & same guards for the three takes; fields reset to nil
	base := factsString(g.GuardsOf(takeStmts[0]))
	same := true
	for _, t := range takeStmts {
		if factsString(g.GuardsOf(t)) != base || !lockHeldAt(g, info, t, "rootLock", "W") {
			same = false
		}
	}
	same = same && sameCriticalSection(g, info, takeStmts, "rootLock")
	r.Ob(rule, fi.Name+"/snapshot,waiters,callbacks-taken-together", takeStmts[0].Pos(), same, "the root snapshot, its batch waiters and its callbacks are taken in ONE rootLock write critical section under the same condition (a waiter is never paired with an older snapshot)")
	for _, fld := range []string{"rootPersisted", "persistedCallbacks"} {
		reset := false
		for _, st := range storesToField(info, fi.Decl.Body, "Scorch", fld) {
			if isNilIdent(info, st.Rhs) && factsString(g.GuardsOf(st.Stmt)) == base && lockHeldAt(g, info, st.Stmt, "rootLock", "W") {
				reset = true
			}
		}
		r.Ob(rule, fi.Name+"/"+fld+"-reset-in-same-section", takeStmts[0].Pos(), reset, "s."+fld+" is emptied in the same critical section (no waiter is released twice or lost)")
	}
	// the snapshot persisted is the one taken
	r.Ob(rule, fi.Name+"/persists-the-taken-snapshot", pc.Pos(), objOf(info, pc.Args[0]) == snapVar, "persistSnapshot is called on the snapshot taken together with the waiters")
	// close(ch) over waiters dominated by persistSnapshot; ch <- err guarded by err != nil before close
	nclose := 0
	for _, rs := range rangeOverObj(info, fi.Decl.Body, waiters) {
		chObj := objOf(info, rs.Value)
		for _, c := range builtinCalls(info, rs.Body, "close") {
			if objOf(info, c.Args[0]) != chObj {
				continue
			}
			nclose++
			r.Ob(rule, fi.Name+"/waiters-released-after-persist", c.Pos(), g.DominatesNode(pc, c), "batch waiters are closed only after persistSnapshot returned")
			// error delivery before close
			sent := false
			ast.Inspect(rs.Body, func(n ast.Node) bool {
				if s, ok := n.(*ast.SendStmt); ok && objOf(info, s.Chan) == chObj && objOf(info, s.Value) == errObj {
					facts := g.GuardsOf(s)
					for _, f := range facts {
						if x, isEq, ok := nilTest(info, f.Expr); ok && objOf(info, x) == errObj && (isEq != f.Truth) {
							if g.DominatesNode(s, c) || g.ReachesNode(s, c) {
								sent = true
							}
						}
					}
				}
				return true
			})
			r.Ob(rule, fi.Name+"/error-delivered-before-close", c.Pos(), sent, "when persisting failed the waiter receives the error before its channel is closed (a failed batch is not acknowledged as durable)")
		}
	}
	if nclose == 0 {
		r.Ob(rule, fi.Name+"/waiters-released-after-persist", fi.Decl.Pos(), false, "no close() over the taken waiters found")
	}
	// the taken callbacks may be handed on to another local (`ours := taken`) before they are used
	cbVars := map[types.Object]bool{callbacks: true}
	ast.Inspect(fi.Decl.Body, func(n ast.Node) bool {
		if as, ok := n.(*ast.AssignStmt); ok && as.Tok == token.DEFINE && len(as.Lhs) == 1 && len(as.Rhs) == 1 {
			if src := objOf(info, as.Rhs[0]); src != nil && cbVars[src] {
				if dst := objOf(info, as.Lhs[0]); dst != nil {
					cbVars[dst] = true
				}
			}
		}
		return true
	})
	// callbacks invoked only on success, after persist
	ncb := 0
	ast.Inspect(fi.Decl.Body, func(n ast.Node) bool {
		c, ok := n.(*ast.CallExpr)
		if !ok {
			return true
		}
		ix, ok := ast.Unparen(c.Fun).(*ast.IndexExpr)
		if !ok || !cbVars[objOf(info, ix.X)] {
			return true
		}
		ncb++
		facts := g.GuardsOf(c)
		onSuccess := false
		for _, f := range facts {
			if x, isEq, ok := nilTest(info, f.Expr); ok && objOf(info, x) == errObj && (isEq == f.Truth) {
				onSuccess = true
			}
		}
		r.Ob(rule, fi.Name+"/callbacks-after-persist-on-success", c.Pos(), g.DominatesNode(pc, c) && onSuccess, "persisted-callbacks fire only after persistSnapshot succeeded (guards: "+factsString(facts)+")")
		return true
	})
	if ncb == 0 {
		r.Ob(rule, fi.Name+"/callbacks-after-persist-on-success", fi.Decl.Pos(), false, "no invocation of the taken callbacks found")
	}
	// callbacks of a failed round are retained
	retained := false
	ast.Inspect(fi.Decl.Body, func(n ast.Node) bool {
		as, ok := n.(*ast.AssignStmt)
		if !ok || len(as.Rhs) != 1 {
			return true
		}
		c, ok := as.Rhs[0].(*ast.CallExpr)
		if !ok || calleeBuiltin(info, c) != "append" {
			return true
		}
		uses := false
		for _, a := range c.Args[1:] {
			if cbVars[objOf(info, a)] {
				uses = true
			}
		}
		if !uses || cbVars[objOf(info, as.Lhs[0])] {
			return true
		}
		for _, f := range g.GuardsOf(as) {
			if x, isEq, ok := nilTest(info, f.Expr); ok && objOf(info, x) == errObj && (isEq != f.Truth) {
				retained = true
			}
		}
		return true
	})
	r.Ob(rule, fi.Name+"/failed-round-callbacks-retained", pc.Pos(), retained, "callbacks of a round whose persist failed are kept for the retry (never dropped, never fired early)")
}

func rangeOverObj(info *types.Info, n ast.Node, obj types.Object) []*ast.RangeStmt {
	var out []*ast.RangeStmt
	ast.Inspect(n, func(x ast.Node) bool {
		if rs, ok := x.(*ast.RangeStmt); ok && objOf(info, rs.X) == obj && obj != nil {
			out = append(out, rs)
		}
		return true
	})
	return out
}

// sameCriticalSection: all statements are executed with the lock held and no
// release of that lock lies between the first and the last of them.
func sameCriticalSection(g *FCFG, info *types.Info, stmts []*ast.AssignStmt, lockField string) bool {
	if len(stmts) == 0 {
		return false
	}
	var releases []*ast.CallExpr
	for _, c := range callsIn(g.Body) {
		if ev, ok := lockSpec.Classify(info, c); ok && !ev.Acquire && strings.Contains(ev.Key, lockField+":") {
			releases = append(releases, c)
		}
	}
	for _, a := range stmts {
		for _, b := range stmts {
			if a == b {
				continue
			}
			for _, rel := range releases {
				if g.ReachesFwdNode(a, rel) && g.ReachesFwdNode(rel, b) && !g.ReachesFwdNode(b, a) {
					// a ... unlock ... b within one pass: the release lies between them on every path to b
					// (a itself may be conditional, e.g. `if next.persisted != nil { append }`)
					if g.DominatesNode(rel, b) {
						return false
					}
				}
			}
		}
	}
	return true
}

// rulePrepareSegmentWaits: C03(c) and C04 "Batch returns only after applied".
func rulePrepareSegmentWaits(r *Report, rule string) {
	p := r.P
	fi := p.MustFunc("index/scorch.(*Scorch).prepareSegment")
	r.Fn(fi)
	info := fi.Pkg.TypesInfo
	g := buildCFG(info, fi.Decl.Body)
	// receives
	var recvApplied, recvPersisted *ast.UnaryExpr
	ast.Inspect(fi.Decl.Body, func(n ast.Node) bool {
		if u, ok := n.(*ast.UnaryExpr); ok && u.Op == token.ARROW {
			if isField(info, u.X, "segmentIntroduction", "applied") {
				recvApplied = u
			}
			if isField(info, u.X, "segmentIntroduction", "persisted") {
				recvPersisted = u
			}
		}
		return true
	})
	sends := sendsOn(info, fi.Decl.Body, "Scorch", "introductions")
	if len(sends) != 1 {
		undecidedf("%s: expected one send on s.introductions", fi.Name)
	}
	r.Ob(rule, fi.Name+"/waits-for-applied", fi.Decl.Pos(), recvApplied != nil && g.DominatesNode(sends[0], recvApplied), "after handing the introduction to the introducer the call blocks on <-introduction.applied")
	if recvApplied == nil {
		return
	}
	// every success return is dominated by the applied receive
	for _, rs := range returnsOf(fi.Decl.Body) {
		if g.ReachesNode(sends[0], rs) {
			r.Ob(rule, fi.Name+"/return-after-applied", rs.Pos(), g.DominatesNode(recvApplied, rs), "no return after the hand-off skips the applied wait (Batch returns only after its introduction was applied)")
		}
	}
	// applied error checked
	r.Ob(rule, fi.Name+"/waits-for-persisted-after-applied", fi.Decl.Pos(), recvPersisted != nil && g.DominatesNode(recvApplied, recvPersisted), "in safe-batch mode the call then blocks on <-introduction.persisted")
	if recvPersisted != nil {
		// guarded only by persisted != nil (and err == nil of applied)
		facts := g.GuardsOf(recvPersisted)
		okGuard := false
		for _, f := range facts {
			if x, isEq, ok := nilTest(info, f.Expr); ok && isField(info, x, "segmentIntroduction", "persisted") && (isEq != f.Truth) {
				okGuard = true
			}
		}
		bad := ""
		for _, f := range facts {
			x, _, ok := nilTest(info, f.Expr)
			if ok && (isField(info, x, "segmentIntroduction", "persisted") || isErrorType(info.TypeOf(x))) {
				continue
			}
			bad = f.String()
		}
		r.Ob(rule, fi.Name+"/persisted-wait-unconditional-when-channel-exists", recvPersisted.Pos(), okGuard && bad == "", "the persisted wait is skipped only when no channel was created ("+bad+")")
		// returned error flows from the receive
		d := newDeps(info, fi.Decl.Body)
		flows := false
		for _, rs := range returnsOf(fi.Decl.Body) {
			if len(rs.Results) == 1 && g.ReachesNode(recvPersisted, rs) {
				for _, anc := range enclosing(fi.Decl.Body, recvPersisted) {
					if as, ok := anc.(*ast.AssignStmt); ok && len(as.Lhs) == 1 && objOf(info, as.Lhs[0]) == objOf(info, rs.Results[0]) && objOf(info, rs.Results[0]) != nil {
						flows = true
					}
				}
			}
		}
		_ = d
		r.Ob(rule, fi.Name+"/returns-persisted-error", recvPersisted.Pos(), flows, "the error received from the persister is what the call returns")
	}
	// channel created iff !unsafeBatch
	created := false
	for _, st := range storesToField(info, fi.Decl.Body, "segmentIntroduction", "persisted") {
		c, ok := st.Rhs.(*ast.CallExpr)
		if !ok || calleeBuiltin(info, c) != "make" {
			continue
		}
		facts := g.GuardsOf(st.Stmt)
		if len(facts) == 1 && !facts[0].Truth && isField(info, facts[0].Expr, "Scorch", "unsafeBatch") && len(c.Args) == 2 && exprStr(c.Args[1]) == "1" {
			created = true
		}
	}
	r.Ob(rule, fi.Name+"/persisted-channel-iff-safe-batch", fi.Decl.Pos(), created, "introduction.persisted = make(chan error, 1) exactly when !s.unsafeBatch (capacity 1: the persister's send never blocks)")
	// applied channel always created, unbuffered is fine
	// introducer registers the waiter in the swap's critical section
	in := findIntroducers(p)
	si := in.Segment
	r.Fn(si)
	sinfo := si.Pkg.TypesInfo
	sg := buildCFG(sinfo, si.Decl.Body)
	rootStores := storesToField(sinfo, si.Decl.Body, "Scorch", "root")
	for _, fld := range []string{"rootPersisted", "persistedCallbacks"} {
		ok := false
		var pos token.Pos = si.Decl.Pos()
		for _, st := range storesToField(sinfo, si.Decl.Body, "Scorch", fld) {
			pos = st.Stmt.Pos()
			if len(rootStores) == 1 && lockHeldAt(sg, sinfo, st.Stmt, "rootLock", "W") &&
				sameCriticalSection(sg, sinfo, []*ast.AssignStmt{st.Stmt, rootStores[0].Stmt}, "rootLock") &&
				sg.DominatesNode(sg.condOf(st.Stmt), rootStores[0].Stmt) {
				ok = true
			}
		}
		r.Ob(rule, si.Name+"/"+fld+"-registered-in-swap-section", pos, ok, "the batch's "+fld+" entry is appended inside the same rootLock write critical section that swaps the root (no persister round can take the new root without its waiter)")
	}
	// close(next.applied) / error path: applied closed only after the swap on success
	for _, c := range builtinCalls(sinfo, si.Decl.Body, "close") {
		if !isField(sinfo, c.Args[0], "segmentIntroduction", "applied") {
			continue
		}
		// success close: the one not preceded by an error send in the same block
		isErrPath := false
		for _, s := range sendsOn(sinfo, si.Decl.Body, "segmentIntroduction", "applied") {
			if sg.DominatesNode(s, c) {
				isErrPath = true
			}
		}
		if isErrPath {
			continue
		}
		r.Ob(rule, si.Name+"/applied-closed-after-swap", c.Pos(), len(rootStores) == 1 && sg.DominatesNode(rootStores[0].Stmt, c), "the batch is acknowledged as applied only after the root swap")
	}
}

// condOf returns the node itself when it can be located, else the innermost
// located ancestor condition; helper so DominatesNode works for statements
// nested in an if body (the statement is located directly).
func (f *FCFG) condOf(n ast.Node) ast.Node {
	// a statement guarded by `if x != nil { stmt }` does not dominate later
	// code; use the if condition instead
	for _, anc := range enclosing(f.Body, n) {
		if is, ok := anc.(*ast.IfStmt); ok {
			if _, located := f.Locate(is.Cond); located && len(enclosing(is.Body, n)) > 0 {
				return is.Cond
			}
		}
	}
	return n
}

// processedBoltKeys resolves util.boltKeysProcessed (the keys / bucket names
// whose values go through the file reader/writer callbacks).
func processedBoltKeys(p *Prog) map[string]bool {
	pk := p.Pkg("util")
	out := map[string]bool{}
	for _, f := range pk.Syntax {
		ast.Inspect(f, func(n ast.Node) bool {
			vs, ok := n.(*ast.ValueSpec)
			if !ok || len(vs.Names) != 1 || vs.Names[0].Name != "boltKeysProcessed" || len(vs.Values) != 1 {
				return true
			}
			cl, ok := vs.Values[0].(*ast.CompositeLit)
			if !ok {
				return true
			}
			for _, el := range cl.Elts {
				kv, ok := el.(*ast.KeyValueExpr)
				if !ok {
					continue
				}
				ast.Inspect(kv.Key, func(x ast.Node) bool {
					if id, ok := x.(*ast.Ident); ok {
						if v, ok := pk.TypesInfo.ObjectOf(id).(*types.Var); ok && v.Parent() == pk.Types.Scope() {
							out[v.Name()] = true
						}
					}
					return true
				})
			}
			return true
		})
	}
	if len(out) < 3 {
		undecidedf("util.boltKeysProcessed not resolved (%d keys)", len(out))
	}
	return out
}

// ruleBoltKeyAgreement: C03(e) / C13(b) — K11.
func ruleBoltKeyAgreement(r *Report, rule string) {
	p := r.P
	processed := processedBoltKeys(p)
	type site struct {
		fn     string
		pos    token.Pos
		nilArg bool
	}
	puts := map[string][]site{}
	gets := map[string][]site{}
	for _, fi := range p.funcsInPkg(scorchPkg) {
		info := fi.Pkg.TypesInfo
		var d *Deps
		for _, c := range callsDeep(fi.Decl.Body) {
			f := callee(info, c)
			if f == nil {
				continue
			}
			isPut := methodIs("util", "BoltBucketImpl", "Put")(f)
			isGet := methodIs("util", "BoltBucketImpl", "Get")(f)
			isEach := methodIs("util", "BoltBucketImpl", "ForEach")(f)
			if !isPut && !isGet && !isEach {
				continue
			}
			last := c.Args[len(c.Args)-1]
			key := ""
			if !isEach {
				if sel, ok := ast.Unparen(c.Args[0]).(*ast.SelectorExpr); ok {
					if v, ok := info.ObjectOf(sel.Sel).(*types.Var); ok && v.Pkg() != nil && strings.HasSuffix(v.Pkg().Path(), "/util") {
						key = v.Name()
					}
				}
			}
			if key == "" {
				// dynamic key or ForEach: processed iff the bucket is a processed bucket
				if d == nil {
					d = newDeps(info, fi.Decl.Body)
				}
				recv := ast.Unparen(c.Fun).(*ast.SelectorExpr).X
				sl := d.SliceOfExpr(recv)
				inProcessed := ""
				for k := range processed {
					if sliceHasPrefix(sl, "v:"+k+"@") {
						inProcessed = k
					}
				}
				if inProcessed == "" {
					continue
				}
				r.Fn(fi)
				what := "Put"
				if isGet {
					what = "Get"
				} else if isEach {
					what = "ForEach"
				}
				r.Ob(rule, fi.Name+"/bucket-"+inProcessed+"/"+what+"-with-callback", c.Pos(), !isNilIdent(info, last), what+" on the processed bucket util."+inProcessed+" must pass a non-nil file reader/writer (values are stored processed)")
				continue
			}
			r.Fn(fi)
			s := site{fi.Name, c.Pos(), isNilIdent(info, last)}
			if isPut {
				puts[key] = append(puts[key], s)
			} else {
				gets[key] = append(gets[key], s)
			}
		}
	}
	var keys []string
	for k := range gets {
		keys = append(keys, k)
	}
	sort.Strings(keys)
	for _, k := range keys {
		var pos token.Pos = gets[k][0].pos
		r.Ob(rule, "key-"+k+"/read-implies-written", pos, len(puts[k]) > 0, "bolt key util."+k+" is read (by "+gets[k][0].fn+") so some snapshot writer must Put it")
	}
	keys = keys[:0]
	for k := range processed {
		keys = append(keys, k)
	}
	sort.Strings(keys)
	for _, k := range keys {
		for _, s := range puts[k] {
			r.Ob(rule, s.fn+"/key-"+k+"/Put-with-writer", s.pos, !s.nilArg, "util."+k+" is a processed key: its value must be written through a non-nil FileWriter")
		}
		for _, s := range gets[k] {
			r.Ob(rule, s.fn+"/key-"+k+"/Get-with-reader", s.pos, !s.nilArg, "util."+k+" is a processed key: its value must be read through a non-nil FileReader")
		}
	}
	// prepareBoltSnapshot writes the path key for both segment kinds
	fi := p.MustFunc("index/scorch.prepareBoltSnapshot")
	info := fi.Pkg.TypesInfo
	np := 0
	for _, c := range callsMatching(info, fi.Decl.Body, methodIs("util", "BoltBucketImpl", "Put")) {
		if sel, ok := ast.Unparen(c.Args[0]).(*ast.SelectorExpr); ok && sel.Sel.Name == "BoltPathKey" {
			np++
		}
	}
	r.Ob(rule, fi.Name+"/path-key-for-persisted-and-unpersisted", fi.Decl.Pos(), np >= 2, "both the already-persisted and the freshly persisted segment record their file name under BoltPathKey")
	// readers build their FileReader from the snapshot's stored writer id
	for _, fi := range p.funcsInPkg(scorchPkg) {
		info := fi.Pkg.TypesInfo
		for _, c := range callsMatching(info, fi.Decl.Body, calleeIs(blevePath+"/util.NewFileReader")) {
			d := newDeps(info, fi.Decl.Body)
			sl := d.SliceOfExpr(c.Args[0])
			ok := sliceHasPrefix(sl, "v:BoltMetaDataFileWriterIDKey@") && sliceHasSuffix(sl, ".Get")
			r.Fn(fi)
			r.Ob(rule, fi.Name+"/reader-from-stored-writer-id", c.Pos(), ok, "the FileReader used to decode a snapshot is created from the writer id stored in that snapshot's meta bucket")
		}
	}
}

func withStr(b bool) string {
	if b {
		return "with"
	}
	return "without"
}

// ruleOpenPhaseOrder: C03(f).
func ruleOpenPhaseOrder(r *Report, rule string) {
	p := r.P
	open := p.MustFunc("index/scorch.(*Scorch).Open")
	ob := p.MustFunc("index/scorch.(*Scorch).openBolt")
	r.Fn(open)
	r.Fn(ob)
	info := open.Pkg.TypesInfo
	g := buildCFG(info, open.Decl.Body)
	obCalls := callsMatching(info, open.Decl.Body, func(f *types.Func) bool { return f == ob.Obj })
	if len(obCalls) != 1 {
		undecidedf("%s: expected one openBolt call", open.Name)
	}
	ngo := 0
	ast.Inspect(open.Decl.Body, func(n ast.Node) bool {
		gs, ok := n.(*ast.GoStmt)
		if !ok {
			return true
		}
		ngo++
		// the openBolt call is under `if s.rootBolt == nil`: its condition dominates
		okDom := g.DominatesNode(g.condOf(obCalls[0]), gs) && !g.ReachesNode(gs, obCalls[0])
		r.Ob(rule, open.Name+"/loops-start-after-openBolt/"+exprShort(gs.Call.Fun), gs.Pos(), okDom, "background loop "+exprShort(gs.Call.Fun)+" is started only after the open phase (loadFromBolt + purge) completed")
		return true
	})
	if ngo < 3 {
		undecidedf("%s: expected >=3 go statements, found %d", open.Name, ngo)
	}
	// the error of openBolt aborts Open
	aborted := false
	for _, rs := range returnsOf(open.Decl.Body) {
		if g.DominatesNode(obCalls[0], rs) && !successReturn(info, g, open, rs) {
			aborted = true
		}
	}
	r.Ob(rule, open.Name+"/openBolt-error-aborts", obCalls[0].Pos(), aborted, "a failing open phase returns the error before any loop is started")
	// openBolt: loadFromBolt and removeOldZapFiles are called, errors returned, no go statements
	binfo := ob.Pkg.TypesInfo
	bg := buildCFG(binfo, ob.Decl.Body)
	for _, nm := range []string{"loadFromBolt", "removeOldZapFiles"} {
		calls := callsMatching(binfo, ob.Decl.Body, methodIs(scorchPkg, "Scorch", nm))
		ok := len(calls) == 1
		if ok {
			checked := false
			for _, rs := range returnsOf(ob.Decl.Body) {
				if bg.DominatesNode(calls[0], rs) && !successReturn(binfo, bg, ob, rs) {
					checked = true
				}
			}
			ok = checked
		}
		var pos token.Pos = ob.Decl.Pos()
		if len(calls) > 0 {
			pos = calls[0].Pos()
		}
		r.Ob(rule, ob.Name+"/calls-"+nm+"-and-checks-error", pos, ok, "the open phase runs "+nm+" synchronously and fails the open on its error")
	}
	hasGo := false
	ast.Inspect(ob.Decl.Body, func(n ast.Node) bool {
		if _, ok := n.(*ast.GoStmt); ok {
			hasGo = true
		}
		return true
	})
	r.Ob(rule, ob.Name+"/no-goroutines-in-open-phase", ob.Decl.Pos(), !hasGo, "the open phase itself starts no goroutine")
}

// ruleInMemoryMergeCoverage: the snapshot persisted after an in-memory merge
// must cover EVERY unpersisted segment of the captured root: (1) the leftover
// group after the size-based grouping loop is flushed whenever it is
// non-empty; (2) the merged snapshot is used only when ALL flush groups were
// introduced (otherwise fall back to persisting the captured root directly).
func ruleInMemoryMergeCoverage(r *Report, rule string) {
	p := r.P
	fi := p.MustFunc("index/scorch.(*Scorch).persistSnapshotMaybeMerge")
	r.Fn(fi)
	info := fi.Pkg.TypesInfo
	n := 0
	ast.Inspect(fi.Decl.Body, func(nd ast.Node) bool {
		cl, ok := nd.(*ast.CompositeLit)
		if !ok {
			return true
		}
		if nt := namedOf(info.TypeOf(cl)); nt == nil || nt.Obj().Name() != "flushable" {
			return true
		}
		inLoop := false
		var ifs []*ast.IfStmt
		for _, anc := range enclosing(fi.Decl.Body, cl) {
			switch x := anc.(type) {
			case *ast.ForStmt, *ast.RangeStmt:
				inLoop = true
			case *ast.IfStmt:
				if len(enclosing(x.Body, cl)) > 0 {
					ifs = append(ifs, x)
				}
			}
		}
		if inLoop || len(ifs) == 0 {
			return true
		}
		// innermost if: must be a pure non-emptiness test of the batch list
		cond := ast.Unparen(ifs[len(ifs)-1].Cond)
		be, isBin := cond.(*ast.BinaryExpr)
		if !isBin {
			return true
		}
		c, isLen := ast.Unparen(be.X).(*ast.CallExpr)
		if !isLen || calleeBuiltin(info, c) != "len" {
			return true // e.g. the legacy-mode switch
		}
		n++
		rhs := exprStr(be.Y)
		ok2 := (be.Op == token.GTR && rhs == "0") || (be.Op == token.NEQ && rhs == "0") || (be.Op == token.GEQ && rhs == "1")
		r.Ob(rule, fi.Name+"/leftover-group-flushed-when-non-empty", ifs[len(ifs)-1].Pos(), ok2,
			"after the size-based grouping loop the remaining segments are flushed whenever there is at least one ("+exprStr(cond)+"); otherwise an unpersisted segment of the captured root is in no persisted snapshot while its batch is acknowledged")
		return true
	})
	if n == 0 {
		undecidedf("%s: leftover flush site not found", fi.Name)
	}
	// (2)
	mf := p.MustFunc("index/scorch.(*Scorch).mergeAndPersistInMemorySegments")
	r.Fn(mf)
	minfo := mf.Pkg.TypesInfo
	g := buildCFG(minfo, mf.Decl.Body)
	m := 0
	for _, rs := range returnsOf(mf.Decl.Body) {
		if len(rs.Results) != 3 || isNilIdent(minfo, rs.Results[0]) {
			continue
		}
		m++
		idsObj := objOf(minfo, rs.Results[1])
		ok := false
		for _, f := range g.GuardsOf(rs) {
			be, isBin := ast.Unparen(f.Expr).(*ast.BinaryExpr)
			if !isBin {
				continue
			}
			c, isLen := ast.Unparen(be.X).(*ast.CallExpr)
			if !isLen || calleeBuiltin(minfo, c) != "len" || objOf(minfo, c.Args[0]) != idsObj || idsObj == nil {
				continue
			}
			// other side: the number of flush groups
			other := objOf(minfo, be.Y)
			if other == nil || !definedAsLenOfParam(minfo, mf, other) {
				continue
			}
			if (be.Op == token.NEQ && !f.Truth) || (be.Op == token.EQL && f.Truth) {
				ok = true
			}
		}
		r.Ob(rule, mf.Name+"/merged-snapshot-only-if-all-groups-introduced", rs.Pos(), ok,
			"a merged snapshot is handed back for persistence only when EVERY flush group was introduced (len(introduced) == number of groups); a partially introduced merge must fall back to persisting the captured root")
	}
	if m == 0 {
		undecidedf("%s: no return of a merged snapshot found", mf.Name)
	}
}

func definedAsLenOfParam(info *types.Info, fi *FuncInfo, obj types.Object) bool {
	sig := fi.Obj.Type().(*types.Signature)
	found := false
	ast.Inspect(fi.Decl.Body, func(n ast.Node) bool {
		as, ok := n.(*ast.AssignStmt)
		if !ok || len(as.Lhs) != 1 || len(as.Rhs) != 1 || objOf(info, as.Lhs[0]) != obj {
			return true
		}
		c, ok := as.Rhs[0].(*ast.CallExpr)
		if !ok || calleeBuiltin(info, c) != "len" {
			return true
		}
		for i := 0; i < sig.Params().Len(); i++ {
			if objOf(info, c.Args[0]) == sig.Params().At(i) {
				found = true
			}
		}
		return true
	})
	return found
}

// one named call site each: errors the tree deliberately ignores outside the clean-up set
var errAllowScorch = map[string]string{
	"index/scorch.(*Scorch).loadSegment/Get":                       "BoltBucketImpl.Get returns nil bytes together with any error; the nil test that follows reports 'segment path missing', so the failure is not silent (only its text is lost)",
	"index/scorch.(*IndexSnapshotFieldDict).Contains/Contains":     "read-side dictionary probe (not on the durability path): a vellum error only arises from a corrupt FST and is answered as 'not contained'",
	"index/scorch.(*IndexSnapshotThesaurusKeys).Contains/Contains": "read-side thesaurus probe (not on the durability path): same as FieldDict.Contains",
}
