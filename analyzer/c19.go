package main

import (
	"fmt"
	"go/ast"
	"go/token"
	"go/types"
	"sort"
	"strings"
)

func init() { register("C19", propC19) }

func propC19(r *Report, tier string) {
	r.Explanation = "A narrow claim (termination and panic-freedom over all byte strings are out of reach): (a) every analysis.Token composite literal built by a Tokenizer implementation sets Term, Start, End and Position (a token without Position has position 0, violating 'positive'); (b) K12 sibling agreement of the fragment formatters (html, ansi, plain): every slice of the fragment's original text has bounds drawn only from {curr, termLocation.Start, termLocation.End, f.End}; a location is skipped when it starts before the cursor (compared against the SAME cursor variable used as slice bound) and the loop stops when it ends after the fragment; the cursor only moves to termLocation.End; (c) last-element accesses x[len(x)-1] in the analysis and highlight packages are dominated by a non-emptiness fact for x (or x was just appended to). (d) K6 no range loop of the analysis/highlight packages assigns to its own key variable (such an adjustment is a no-op and the loop keeps the original length)."
	r.NotCovered = "termination and absence of index/slice panics in ~150 hand-written scanners/filters for arbitrary byte strings, offset monotonicity, token filters' offset preservation: value-range and loop-variant reasoning outside this technique"
	ruleTokenLiteralsComplete(r, "K9b-token-fields")
	ruleFormatterSiblings(r, "K12-formatter-bounds")
	ruleLastElementGuarded(r, "K5-last-element-guarded")
	ruleNilSlotsNotDereferenced(r, "K6-nil-slots-not-dereferenced", "search/highlight")
	ruleFoldBufferCoversWorstCase(r, "K11-fold-buffer-worst-case")
	ruleTokenOffsetsAreByteOffsets(r, "K11-token-offsets-are-bytes")
	ruleSentinelOffsetsGuarded(r, "K11-sentinel-offsets-guarded")
	ruleMaskKeepsByteLength(r, "K11-mask-keeps-byte-length")
	ruleRangeIndexNotAdjusted(r, "K6-range-index-not-adjusted")
	ruleIndexMinusOneGuarded(r, "K5-index-minus-one-guarded", func(rel string) bool {
		return strings.HasPrefix(rel, "analysis/") || strings.HasPrefix(rel, "search/highlight")
	})
	r.Floor("K9b-token-fields", 5)
	r.Floor("K12-formatter-bounds", 9)
	r.Floor("K5-last-element-guarded", 1)
}

func ruleTokenLiteralsComplete(r *Report, rule string) {
	p := r.P
	n := 0
	for _, fi := range p.flist {
		rel := relPkg(fi.Pkg.PkgPath)
		if !strings.HasPrefix(rel, "analysis/tokenizer/") || fi.Decl.Body == nil || fi.Obj.Name() != "Tokenize" {
			continue
		}
		info := fi.Pkg.TypesInfo
		ast.Inspect(fi.Decl.Body, func(x ast.Node) bool {
			cl, ok := x.(*ast.CompositeLit)
			if !ok {
				return true
			}
			if nt := namedOf(info.TypeOf(cl)); nt == nil || nt.Obj().Name() != "Token" || !strings.HasSuffix(nt.Obj().Pkg().Path(), "/analysis") {
				return true
			}
			n++
			r.Fn(fi)
			set := map[string]bool{}
			for _, el := range cl.Elts {
				if kv, ok := el.(*ast.KeyValueExpr); ok {
					set[kv.Key.(*ast.Ident).Name] = true
				}
			}
			// fields assigned right after through the variable
			var missing []string
			for _, f := range []string{"Term", "Start", "End", "Position"} {
				if !set[f] {
					// assigned later in the function via <var>.F = ...
					later := false
					for _, st := range storesToField(info, fi.Decl.Body, "Token", f) {
						if st.Stmt.Pos() > cl.Pos() {
							later = true
						}
					}
					if !later {
						missing = append(missing, f)
					}
				}
			}
			r.Ob(rule, fi.Name+"/token-literal", cl.Pos(), len(missing) == 0, fmt.Sprintf("a token emitted by a tokenizer must carry Term, Start, End and Position; missing: %v", missing))
			return true
		})
	}
	if n < 5 {
		undecidedf("only %d Token literals in tokenizers", n)
	}
}

func ruleFormatterSiblings(r *Report, rule string) {
	p := r.P
	var fns []*FuncInfo
	for _, fi := range p.flist {
		rel := relPkg(fi.Pkg.PkgPath)
		if strings.HasPrefix(rel, "search/highlight/format/") && fi.Obj.Name() == "Format" && fi.Decl.Recv != nil && fi.Decl.Body != nil {
			fns = append(fns, fi)
		}
	}
	sort.Slice(fns, func(i, j int) bool { return fns[i].Name < fns[j].Name })
	if len(fns) < 3 {
		undecidedf("only %d fragment formatters found", len(fns))
	}
	for _, fi := range fns {
		r.Fn(fi)
		info := fi.Pkg.TypesInfo
		g := buildCFG(info, fi.Decl.Body)
		sig := fi.Obj.Type().(*types.Signature)
		frag := sig.Params().At(0)
		// cursor: local initialised from f.Start
		var curr types.Object
		ast.Inspect(fi.Decl.Body, func(x ast.Node) bool {
			if as, ok := x.(*ast.AssignStmt); ok && as.Tok == token.DEFINE && len(as.Lhs) == 1 && len(as.Rhs) == 1 {
				if sel, ok := ast.Unparen(as.Rhs[0]).(*ast.SelectorExpr); ok && sel.Sel.Name == "Start" && objOf(info, sel.X) == frag {
					curr = objOf(info, as.Lhs[0])
				}
			}
			return true
		})
		if curr == nil {
			r.Ob(rule, fi.Name+"/cursor", fi.Decl.Pos(), false, "no cursor initialised from f.Start")
			continue
		}
		classify := func(e ast.Expr) string {
			e = ast.Unparen(e)
			if objOf(info, e) == curr {
				return "curr"
			}
			e = ast.Unparen(resolveCopies(info, fi.Decl.Body, e)) // termEnd := termLocation.End
			if sel, ok := e.(*ast.SelectorExpr); ok {
				if objOf(info, sel.X) == frag && sel.Sel.Name == "End" {
					return "f.End"
				}
				if sel.Sel.Name == "Start" || sel.Sel.Name == "End" {
					if t := info.TypeOf(sel.X); t != nil && typeIs(t, "highlight", "TermLocation") {
						return "loc." + sel.Sel.Name
					}
				}
			}
			return "?" + exprStr(e)
		}
		// slices of f.Orig
		okBounds := true
		nsl := 0
		var lowGuardOK, highGuardOK = true, true
		ast.Inspect(fi.Decl.Body, func(x ast.Node) bool {
			se, ok := x.(*ast.SliceExpr)
			if !ok {
				return true
			}
			sel, ok := ast.Unparen(se.X).(*ast.SelectorExpr)
			if !ok || sel.Sel.Name != "Orig" || objOf(info, sel.X) != frag {
				return true
			}
			nsl++
			lo, hi := classify(se.Low), classify(se.High)
			if strings.HasPrefix(lo, "?") || strings.HasPrefix(hi, "?") {
				okBounds = false
			}
			// a slice whose bound is a term-location offset must be guarded
			if strings.HasPrefix(lo, "loc.") || strings.HasPrefix(hi, "loc.") {
				facts := g.GuardsOf(se)
				lowOK, highOK := false, false
				for _, f := range facts {
					be, ok := ast.Unparen(f.Expr).(*ast.BinaryExpr)
					if !ok {
						continue
					}
					a, b := classify(be.X), classify(be.Y)
					// not (loc.Start < curr)
					if a == "loc.Start" && b == "curr" && ((be.Op == token.LSS && !f.Truth) || (be.Op == token.GEQ && f.Truth)) {
						lowOK = true
					}
					// not (loc.End > f.End)
					if a == "loc.End" && b == "f.End" && ((be.Op == token.GTR && !f.Truth) || (be.Op == token.LEQ && f.Truth)) {
						highOK = true
					}
				}
				if !lowOK {
					lowGuardOK = false
				}
				if !highOK {
					highGuardOK = false
				}
			}
			return true
		})
		r.Ob(rule, fi.Name+"/slice-bounds-from-cursor-and-location", fi.Decl.Pos(), okBounds && nsl >= 3, "every slice of f.Orig is bounded by the cursor, a term location's Start/End or f.End")
		r.Ob(rule, fi.Name+"/location-start-not-before-cursor", fi.Decl.Pos(), lowGuardOK, "slices bounded by a term location are only reached when termLocation.Start >= curr, the very cursor used as the slice's lower bound (overlapping or out-of-order locations are skipped instead of producing f.Orig[curr:Start] with curr > Start)")
		r.Ob(rule, fi.Name+"/location-end-within-fragment", fi.Decl.Pos(), highGuardOK, "slices bounded by a term location are only reached when termLocation.End <= f.End")
		// cursor only moves to loc.End
		okMove := true
		nmove := 0
		ast.Inspect(fi.Decl.Body, func(x ast.Node) bool {
			as, ok := x.(*ast.AssignStmt)
			if !ok || as.Tok != token.ASSIGN || len(as.Lhs) != 1 || objOf(info, as.Lhs[0]) != curr {
				return true
			}
			nmove++
			if classify(as.Rhs[0]) != "loc.End" {
				okMove = false
			}
			return true
		})
		r.Ob(rule, fi.Name+"/cursor-advances-to-location-end", fi.Decl.Pos(), okMove && nmove == 1, "the cursor only ever moves to the end of the location just emitted")
	}
}

// ruleLastElementGuarded: x[len(x)-1] needs a non-emptiness fact.
func ruleLastElementGuarded(r *Report, rule string) {
	p := r.P
	n := 0
	nScope := 0
	for _, fi := range p.flist {
		rel := relPkg(fi.Pkg.PkgPath)
		if fi.Decl.Body == nil {
			continue
		}
		inScope := strings.HasPrefix(rel, "analysis/") || strings.HasPrefix(rel, "search/highlight")
		info := fi.Pkg.TypesInfo
		for _, bu := range bodiesOf(fi) {
			var g *FCFG
			inspectNoLit(bu.Body, func(x ast.Node) bool {
				ix, ok := x.(*ast.IndexExpr)
				if !ok {
					return true
				}
				be, ok := ast.Unparen(ix.Index).(*ast.BinaryExpr)
				if !ok || be.Op != token.SUB || exprStr(be.Y) != "1" {
					return true
				}
				c, ok := ast.Unparen(be.X).(*ast.CallExpr)
				if !ok || calleeBuiltin(info, c) != "len" || exprStr(c.Args[0]) != exprStr(ix.X) {
					return true
				}
				n++
				r.Fn(fi)
				if g == nil {
					g = buildCFG(info, bu.Body)
				}
				subject := exprStr(ix.X)
				guarded := false
				why := ""
				facts := g.GuardsOf(ix)
				// short-circuit facts inside the same condition: in `A || B` B runs only when A is false, in `A && B` only when A is true
				for _, anc := range enclosing(bu.Body, ix) {
					if b3, ok := anc.(*ast.BinaryExpr); ok && (b3.Op == token.LOR || b3.Op == token.LAND) && len(enclosing(b3.Y, ix)) > 0 {
						splitCond(b3.X, b3.Op == token.LAND, &facts)
					}
				}
				for _, f := range facts {
					fe := ast.Unparen(f.Expr)
					if b2, ok := fe.(*ast.BinaryExpr); ok {
						l, rr := exprStr(b2.X), exprStr(b2.Y)
						isLen := l == "len("+subject+")"
						isNum := len(rr) > 0 && rr[0] >= '0' && rr[0] <= '9'
						switch {
						case isLen && b2.Op == token.GTR && f.Truth && isNum,
							isLen && b2.Op == token.LSS && !f.Truth && isNum && rr != "0",
							isLen && b2.Op == token.GEQ && f.Truth && rr != "0",
							isLen && b2.Op == token.NEQ && f.Truth && rr == "0",
							isLen && b2.Op == token.EQL && !f.Truth && rr == "0",
							isLen && b2.Op == token.LSS && !f.Truth && rr != "0",
							isLen && b2.Op == token.LEQ && !f.Truth:
							guarded = true
							why = f.String()
						}
					}
				}
				if !guarded {
					// x = append(x, ...) dominates the access in the same body
					ast.Inspect(bu.Body, func(y ast.Node) bool {
						as, ok := y.(*ast.AssignStmt)
						if !ok || len(as.Lhs) != 1 || len(as.Rhs) != 1 || exprStr(as.Lhs[0]) != subject {
							return true
						}
						if ac, ok := as.Rhs[0].(*ast.CallExpr); ok && calleeBuiltin(info, ac) == "append" && len(ac.Args) >= 2 && g.DominatesNode(as, ix) {
							guarded = true
							why = "appended to just before"
						}
						return true
					})
				}
				if !guarded {
					// inside `for len(x) > 0` / range over x handled by facts; also a loop `for i := ...; i < len(x)` is not a guard
					why = "no dominating fact shows " + subject + " is non-empty"
				}
				if !inScope {
					// outside the analysis/highlight packages the rule only serves as a live positive control
					r.InfoOb(rule, bu.Name+"/"+subject+"[len-1]", ix.Pos(), fmt.Sprintf("outside C19's packages (guarded=%v: %s)", guarded, why))
					return true
				}
				nScope++
				r.Ob(rule, bu.Name+"/"+subject+"[len-1]", ix.Pos(), guarded, "last-element access "+exprStr(ix)+": "+why+" (an empty slice here panics with index out of range [-1])")
				return true
			})
		}
	}
	if n < 3 {
		undecidedf("last-element rule matched %d sites in all of bleve (pattern recogniser broken?)", n)
	}
	r.Ob(rule, "analysis+highlight/all-last-element-accesses-guarded", p.Pkg("analysis").Syntax[0].Pos(), true, fmt.Sprintf("%d x[len(x)-1] accesses exist in bleve, %d of them in the analysis/highlight packages; each of those was checked above", n, nScope))
}

// ruleRangeIndexNotAdjusted (K6): the filters that delete or insert runes while
// walking a token re-examine a position by stepping the loop index back.
// That only works in a three-clause loop: in `for i, r := range runes` the
// index is a per-iteration copy, so `i--` (or any assignment to it) inside the
// body is a no-op, the loop runs over the ORIGINAL length of the slice and
// reads past the shortened one (index out of range panic on ordinary input).
// Every assignment to the key variable of a range loop inside its own body,
// in the analysis and highlight packages, is reported.
func ruleRangeIndexNotAdjusted(r *Report, rule string) {
	p := r.P
	n, loops := 0, 0
	for _, fi := range p.flist {
		rel := relPkg(fi.Pkg.PkgPath)
		if fi.Decl == nil || fi.Decl.Body == nil || !(strings.HasPrefix(rel, "analysis") || strings.HasPrefix(rel, "search/highlight")) {
			continue
		}
		info := fi.Pkg.TypesInfo
		ast.Inspect(fi.Decl.Body, func(x ast.Node) bool {
			rs, ok := x.(*ast.RangeStmt)
			if !ok || rs.Tok != token.DEFINE || rs.Key == nil {
				return true
			}
			key := objOf(info, rs.Key)
			if key == nil {
				return true
			}
			loops++
			ast.Inspect(rs.Body, func(y ast.Node) bool {
				var pos token.Pos
				switch s := y.(type) {
				case *ast.IncDecStmt:
					if objOf(info, s.X) == key {
						pos = s.Pos()
					}
				case *ast.AssignStmt:
					for _, l := range s.Lhs {
						if id, isID := l.(*ast.Ident); isID && info.Uses[id] == key {
							pos = s.Pos()
						}
					}
				}
				if pos != token.NoPos {
					n++
					r.Fn(fi)
					r.Ob(rule, fmt.Sprintf("%s/range-index-%s-adjusted#%d", fi.Name, key.Name(), n), pos, false, "the key variable of a range loop is assigned inside the loop body: the adjustment has no effect on the iteration (per-iteration copy), so a position meant to be re-examined is skipped and the loop keeps the slice's original length")
				}
				return true
			})
			return true
		})
	}
	if loops < 20 {
		undecidedf("range loops of the analysis packages not found (%d)", loops)
	}
	if n == 0 {
		r.InfoOb(rule, "no-range-index-adjusted", 0, fmt.Sprintf("no range loop of the analysis/highlight packages assigns to its own key variable (%d range loops checked)", loops))
	}
}
