package main

import (
	"go/ast"
	"go/types"
	"sort"
	"strings"
)

func init() { register("C02", propC02) }

func propC02(r *Report, tier string) {
	r.Explanation = "Structural necessary conditions of 'a search returns exactly the live matching documents' (hit-set side only): (a) K8 every posting / doc-number source opened for a reader subtracts that segment's exclusion bitmap (no deleted document can be returned from scorch); (b) score:none bitmap algebra (unadorned optimisations): per-segment state is re-initialised in every iteration of the per-segment loop, and bitmaps obtained from ActualBitmap() (shared with every other reader of the segment) are only combined through allocating operations, never mutated in place; (c) K12 compound searchers never advance a child that is already at/after the target (a match would be lost), BooleanSearcher's cursor derivation agrees at all sites; (d) K13 every concrete query type's Searcher returns a non-nil searcher or a non-nil error. (g) K8 a successor helper whose result is used as the exclusive end of a prefix range over its own argument drops the overflowed bytes (x[:i+1]); (h) K14 the unadorned disjunction builds each per-segment result from all of its input collections unless the ignored one is provably empty; (i) K6 a nil ActualBitmap() is treated as 'skip', or as 'empty' only after DocNum1Hit() was excluded (1-hit postings of merged segments have no bitmap). (j) K14 the composite bitmap optimisation cannot reach Finish() in an iteration that skipped the child's Optimize call: a child that cannot take part vetoes the optimisation."
	r.NotCovered = "the meaning of each query kind (term/phrase/fuzzy/regexp/range semantics), analysis, independence of the hit set from scoring options beyond (b), upsidedown reader correctness, correctness of the compound merge loops"
	ruleExclusionAtReadSites(r, "K8-exclusion-at-read-sites")
	rulePerSegmentStateReset(r, "K5-per-segment-state-reset")
	ruleSharedBitmapsNotMutated(r, "K6-shared-bitmaps-immutable")
	ruleLookAheadGuard(r, "K12-lookahead-guard")
	ruleBooleanCursorSiblings(r, "K12-boolean-cursor-siblings")
	ruleQuerySearcherNeverNilNil(r, "K13-searcher-never-nil-nil")
	ruleSuccessorKeepsIncrementedByte(r, "K8-prefix-successor", func(rel string) bool { return !strings.HasPrefix(rel, storeBase) }, 3)
	ruleUnionConsumesAllCollections(r, "K14-union-consumes-all-inputs", "index/scorch.(*OptimizeTFRDisjunctionUnadorned).Finish", "IndexSnapshotTermFieldReader", "iterators")
	ruleNilActualBitmapIsNotEmpty(r, "K6-nil-actual-bitmap-is-not-empty")
	rulePooledLocationsDeepCopied(r, "K6-pooled-locations-deep-copied")
	rulePooledMatchResetIsTotal(r, "K9b-pooled-match-reset-total")
	ruleHeapRestoredBeforePeek(r, "K5-heap-restored-before-peek")
	ruleOptimisedDisjunctionKeepsMin(r, "K12-optimised-disjunction-keeps-min")
	ruleCompositeOptimisationCoversAllChildren(r, "K14-composite-optimisation-covers-all-children")
	ruleSearcherCountIsAnEstimate(r, "K7-searcher-count-is-an-estimate")
	ruleMustNotGetsMatchAllBase(r, "K5-must-not-gets-match-all-base")
	ruleCarryLoopCoversIndexZero(r, "K8-carry-loop-covers-index-zero", func(rel string) bool { return rel == "index/scorch" || rel == "search/searcher" }, 2)
	ruleFilteringWrappersFilterEveryResult(r, "K5-filter-wrapper-filters-every-result")
	ruleFieldwiseEqualityComplete(r, "K9b-fieldwise-equality-complete", []string{"search", "search/searcher", "search/highlight", "search/collector", "index/scorch", "index/upsidedown", "document"}, map[string]string{})
	r.Floor("K8-exclusion-at-read-sites", 6)
	r.Floor("K5-per-segment-state-reset", 3)
	r.Floor("K6-shared-bitmaps-immutable", 2)
	r.Floor("K12-lookahead-guard", 10)
	r.Floor("K13-searcher-never-nil-nil", 20)
}

// rulePerSegmentStateReset: in the per-segment loops of the unadorned
// optimisations every variable that is declared outside the loop, assigned in
// the loop body and read in the loop body must be reset by a statement that
// dominates all its reads in the body (state of segment k must not leak into
// segment k+1).
func rulePerSegmentStateReset(r *Report, rule string) {
	p := r.P
	n := 0
	for _, fi := range p.funcsInPkg(scorchPkg) {
		if !strings.HasPrefix(baseFile(p, fi.Decl.Pos()), "optimize") {
			continue
		}
		info := fi.Pkg.TypesInfo
		for _, rs := range rangesOverField(info, fi.Decl.Body, "IndexSnapshot", "segment") {
			n++
			r.Fn(fi)
			g := buildCFG(info, fi.Decl.Body)
			// variables assigned (as plain identifiers) inside the body but declared outside it
			cand := map[types.Object][]*ast.AssignStmt{}
			ast.Inspect(rs.Body, func(x ast.Node) bool {
				as, ok := x.(*ast.AssignStmt)
				if !ok {
					return true
				}
				for _, l := range as.Lhs {
					id, ok := l.(*ast.Ident)
					if !ok {
						continue
					}
					obj := info.ObjectOf(id)
					if obj == nil || declaredWithin(info, rs.Body, obj) {
						continue
					}
					if _, isVar := obj.(*types.Var); !isVar {
						continue
					}
					if isSigVar(fi, obj) { // parameters / named results
						continue
					}
					cand[obj] = append(cand[obj], as)
				}
				return true
			})
			var objs []types.Object
			for o := range cand {
				objs = append(objs, o)
			}
			sort.Slice(objs, func(i, j int) bool { return objs[i].Pos() < objs[j].Pos() })
			for _, obj := range objs {
				// the reset: an assignment in the body whose RHS does not depend on the old value (x = x[:0] allowed)
				var resets []*ast.AssignStmt
				for _, as := range cand[obj] {
					for i, l := range as.Lhs {
						if objOf(info, l) != obj || i >= len(as.Rhs) {
							continue
						}
						rhs := ast.Unparen(as.Rhs[i])
						dep := usesObj(info, rhs, obj)
						if se, ok := rhs.(*ast.SliceExpr); ok && objOf(info, se.X) == obj && se.High != nil && exprStr(se.High) == "0" {
							dep = false
						}
						if !dep {
							resets = append(resets, as)
						}
					}
				}
				// reads in the body
				okAll := true
				nreads := 0
				ast.Inspect(rs.Body, func(x ast.Node) bool {
					id, ok := x.(*ast.Ident)
					if !ok || info.Uses[id] != obj {
						return true
					}
					// skip the identifier on the LHS of a plain assignment
					isLhs := false
					for _, as := range cand[obj] {
						for _, l := range as.Lhs {
							if l == ast.Expr(id) {
								isLhs = true
							}
						}
						for _, rr := range resets {
							if rr == as && len(enclosing(as, id)) > 0 {
								isLhs = true // the x[:0] of the reset itself
							}
						}
					}
					if isLhs {
						return true
					}
					nreads++
					dominated := false
					for _, rst := range resets {
						if g.DominatesNode(rst, id) {
							dominated = true
						}
					}
					if !dominated {
						okAll = false
					}
					return true
				})
				if nreads == 0 {
					continue
				}
				r.Ob(rule, fi.Name+"/"+obj.Name()+"-reset-each-segment", cand[obj][0].Pos(), okAll,
					"variable "+obj.Name()+" is declared outside the per-segment loop, written and read inside it, but no write that ignores the old value dominates its reads in the loop body: what was computed for one segment is still in force for the next")
			}
		}
	}
	if n < 2 {
		undecidedf("per-segment loops in optimize*.go not found (%d)", n)
	}
}

// ruleSharedBitmapsNotMutated (K6, AST form): a roaring bitmap variable that
// receives an in-place mutator call must only ever be assigned fresh bitmaps
// (results of allocating constructors/combinators or Clone), in the functions
// that handle ActualBitmap() results.
func ruleSharedBitmapsNotMutated(r *Report, rule string) {
	p := r.P
	mutators := map[string]bool{"Add": true, "AddMany": true, "AddRange": true, "AddInt": true, "Remove": true, "RemoveRange": true, "Or": true, "And": true, "AndNot": true, "Xor": true, "Flip": true, "Clear": true, "CheckedAdd": true, "CheckedRemove": true, "RunOptimize": true, "FlipInt": true}
	fresh := map[string]bool{"Or": true, "And": true, "AndNot": true, "Xor": true, "HeapOr": true, "HeapXor": true, "FastOr": true, "FastAnd": true, "ParOr": true, "ParAnd": true, "New": true, "NewBitmap": true, "BitmapOf": true, "Clone": true, "Flip": true, "AddOffset": true}
	n := 0
	for _, fi := range p.funcsInPkg(scorchPkg) {
		info := fi.Pkg.TypesInfo
		// functions that touch shared postings bitmaps
		if len(callsMatching(info, fi.Decl.Body, func(f *types.Func) bool { return f.Name() == "ActualBitmap" })) == 0 {
			continue
		}
		r.Fn(fi)
		// mutated variables
		mutated := map[types.Object]*ast.CallExpr{}
		for _, c := range callsDeep(fi.Decl.Body) {
			f := callee(info, c)
			if f == nil || !mutators[f.Name()] || !strings.Contains(qname(f), "roaring") {
				continue
			}
			sig := f.Type().(*types.Signature)
			if sig.Recv() == nil {
				continue // package-level roaring.Or etc. allocate
			}
			sel := ast.Unparen(c.Fun).(*ast.SelectorExpr)
			// direct mutation of an ActualBitmap() result
			if inner, ok := ast.Unparen(sel.X).(*ast.CallExpr); ok {
				if g := callee(info, inner); g != nil && g.Name() == "ActualBitmap" {
					n++
					r.Ob(rule, fi.Name+"/"+exprShort(c), c.Pos(), false, "in-place mutator applied directly to ActualBitmap(): that bitmap IS the segment's postings list shared by all readers")
				}
				continue
			}
			if obj := objOf(info, sel.X); obj != nil {
				mutated[obj] = c
			} else if ix, ok := ast.Unparen(sel.X).(*ast.IndexExpr); ok {
				if obj := objOf(info, ix.X); obj != nil {
					mutated[obj] = c
				}
			}
		}
		var objs []types.Object
		for o := range mutated {
			objs = append(objs, o)
		}
		sort.Slice(objs, func(i, j int) bool { return objs[i].Pos() < objs[j].Pos() })
		for _, obj := range objs {
			n++
			bad := ""
			ast.Inspect(fi.Decl.Body, func(x ast.Node) bool {
				as, ok := x.(*ast.AssignStmt)
				if !ok {
					return true
				}
				for i, l := range as.Lhs {
					if objOf(info, l) != obj || i >= len(as.Rhs) {
						continue
					}
					rhs := ast.Unparen(as.Rhs[i])
					c, isCall := rhs.(*ast.CallExpr)
					okFresh := false
					if isCall {
						if f := callee(info, c); f != nil && fresh[f.Name()] && strings.Contains(qname(f), "roaring") {
							okFresh = true
						}
						if calleeBuiltin(info, c) == "make" || calleeBuiltin(info, c) == "append" {
							okFresh = true // slices of bitmaps, not a bitmap
						}
					}
					if se, isSl := rhs.(*ast.SliceExpr); isSl && objOf(info, se.X) == obj {
						okFresh = true
					}
					if !okFresh {
						bad = exprShort(as.Rhs[i])
					}
				}
				return true
			})
			// a slice of bitmaps that is appended ActualBitmap() results and then mutated element-wise is also shared
			r.Ob(rule, fi.Name+"/"+obj.Name()+"-mutated-only-if-fresh", mutated[obj].Pos(), bad == "",
				"bitmap "+obj.Name()+" receives the in-place mutator "+exprShort(mutated[obj])+" but may hold "+bad+", which is not a freshly allocated bitmap (ActualBitmap() results alias the segment's postings shared by every reader)")
		}
	}
	if n == 0 {
		undecidedf("no mutated bitmap found in the functions that use ActualBitmap()")
	}
}

// ruleQuerySearcherNeverNilNil: every Searcher method of a query type returns
// either a searcher or an error on each return statement.
func ruleQuerySearcherNeverNilNil(r *Report, rule string) {
	p := r.P
	n := 0
	for _, fi := range p.funcsInPkg(queryPkg) {
		if fi.Obj.Name() != "Searcher" || fi.Decl.Recv == nil {
			continue
		}
		info := fi.Pkg.TypesInfo
		n++
		r.Fn(fi)
		bad := false
		for _, rs := range returnsOf(fi.Decl.Body) {
			if len(rs.Results) == 2 && isNilIdent(info, rs.Results[0]) && isNilIdent(info, rs.Results[1]) {
				bad = true
			}
		}
		r.Ob(rule, fi.Name, fi.Decl.Pos(), !bad, "Searcher() must not return (nil, nil): the caller would dereference a nil searcher or silently match nothing")
	}
	if n < 20 {
		undecidedf("only %d query Searcher methods found", n)
	}
}

// ruleCompositeOptimisationCoversAllChildren (K14): optimizeCompositeSearcher
// replaces a conjunction/disjunction by ONE reader built from its children's
// postings.  That reader stands for the whole clause list only if every child
// contributed: inside the loop over the children no iteration may go on - and
// finally reach Finish() - without having passed the child's Optimize call (a
// child that is not Optimizable has to veto the optimisation by leaving the
// function).  Skipping such a child silently drops its clause.
func ruleCompositeOptimisationCoversAllChildren(r *Report, rule string) {
	p := r.P
	fi := p.MustFunc("search/searcher.optimizeCompositeSearcher")
	r.Fn(fi)
	info := fi.Pkg.TypesInfo
	g := buildCFG(info, fi.Decl.Body)
	sig := fi.Obj.Type().(*types.Signature)
	children := map[types.Object]bool{}
	for i := 0; i < sig.Params().Len(); i++ {
		if sl, ok := sig.Params().At(i).Type().Underlying().(*types.Slice); ok {
			if nt := namedOf(sl.Elem()); nt != nil && nt.Obj().Name() == "Searcher" {
				children[sig.Params().At(i)] = true
			}
		}
	}
	var opt, finish *ast.CallExpr
	nOpt := 0
	for _, c := range callsIn(fi.Decl.Body) {
		f := callee(info, c)
		if f == nil {
			continue
		}
		switch f.Name() {
		case "Optimize":
			opt = c
			nOpt++
		case "Finish":
			finish = c
		}
	}
	if opt == nil || finish == nil || nOpt != 1 || len(children) != 1 {
		undecidedf("%s: Optimize/Finish protocol not recognised", fi.Name)
	}
	var body *ast.BlockStmt
	for _, anc := range enclosing(fi.Decl.Body, opt) {
		switch l := anc.(type) {
		case *ast.RangeStmt:
			if children[objOf(info, l.X)] {
				body = l.Body
			}
		case *ast.ForStmt:
			if l.Cond != nil {
				ast.Inspect(l.Cond, func(y ast.Node) bool {
					if ce, ok := y.(*ast.CallExpr); ok && calleeBuiltin(info, ce) == "len" && len(ce.Args) == 1 && children[objOf(info, ce.Args[0])] {
						body = l.Body
					}
					return true
				})
			}
		}
	}
	ok := false
	if body != nil && len(body.List) > 0 {
		var start ast.Node
		ast.Inspect(body, func(y ast.Node) bool {
			if start != nil || y == nil {
				return false
			}
			if _, located := g.Locate(y); located && y != ast.Node(body) {
				start = y
				return false
			}
			return true
		})
		// the first located node of the body may be the Optimize statement's own operand; start before it
		ok = start != nil && (nodeContains(start, opt) || !g.reachesAvoiding(start, finish, opt))
	}
	r.Ob(rule, fi.Name+"/every-child-optimised-or-veto", opt.Pos(), ok, "inside the loop over the children an iteration can reach Finish() without the child's Optimize call: a child that cannot take part is skipped instead of cancelling the optimisation, and its clause disappears from the result")
}

func nodeContains(outer, inner ast.Node) bool {
	found := false
	ast.Inspect(outer, func(n ast.Node) bool {
		if n == inner {
			found = true
		}
		return !found
	})
	return found
}
