package main

import (
	"go/ast"
	"go/types"
)

func init() { register("C14", propC14) }

func propC14(r *Report, tier string) {
	r.Explanation = "Structural necessary conditions of 'an online backup is a consistent point-in-time copy': (a) CopyReader reads the root pointer, takes its reference and schedules every segment file (persisted name or future name zapFileName(id)) inside ONE rootLock write critical section; CloseCopyReader un-schedules with a stored decrement over the same file-name function and deletes an entry only at zero (shared with C12); (b) indexImpl.CopyTo acquires the copy reader under the handle lock after the open test, defers CloseCopyReader immediately after obtaining it, and releases it exactly once (no explicit second release on any path); (c) IndexSnapshot.CopyTo copies/persists every segment inside prepareBoltSnapshot before tx.Commit, then Sync, rolling back on failure (shared ordering rule with C03); (d) the copy path reads only the pinned snapshot, never Scorch.root; (e) the purger honours copyScheduled (shared with C12); (f) prepareBoltSnapshot writes the deleted bits of every segment whatever its kind (shared with C03/C13: the copy has no later persist round to catch up); (g) a published snapshot - the one a copy reader pins - is never written again: every store through a snapshot field goes to storage allocated for the new snapshot (shared with C04)."
	r.NotCovered = "equality of the copied contents; that the destination opens; behaviour under destination write errors beyond rollback; index_meta.json copy"
	ruleCopyScheduledPairing(r, "K12-copy-scheduled-pairing")
	ruleCopyToReleasesOnce(r, "K1-copy-reader-released-once")
	ruleSnapshotPersisterOrder(r, "K5-persist-order")
	ruleCopyReadsOnlyPinned(r, "K7-copy-reads-pinned-snapshot")
	rulePurgerGuards(r, "K5-purger-guards")
	// the copy is written by the same prepareBoltSnapshot as a persist round, but has no following round
	ruleDeletedBitsWrittenForEverySegment(r, "K5-deleted-bits-for-every-segment")
	// the pinned snapshot is a point in time only if published snapshots are never written again
	rulePublishedSnapshotsImmutable(r, "K6-published-immutable")
	r.Floor("K12-copy-scheduled-pairing", 5)
	r.Floor("K1-copy-reader-released-once", 3)
	r.Floor("K5-persist-order", 14)
	r.Floor("K7-copy-reads-pinned-snapshot", 2)
}

func ruleCopyToReleasesOnce(r *Report, rule string) {
	p := r.P
	fi := p.MustFunc("bleve.(*indexImpl).CopyTo")
	r.Fn(fi)
	info := fi.Pkg.TypesInfo
	g := buildCFG(info, fi.Decl.Body)
	var acquire *ast.CallExpr
	for _, c := range callsIn(fi.Decl.Body) {
		if f := callee(info, c); f != nil && f.Name() == "CopyReader" {
			acquire = c
		}
	}
	// the acquisition may have been extracted into a helper of the same type (one level)
	var helper *FuncInfo
	var innerAcquire *ast.CallExpr
	if acquire == nil {
		for _, c := range callsIn(fi.Decl.Body) {
			f := callee(info, c)
			if f == nil {
				continue
			}
			hf := p.funcs[funcName(f)]
			if hf == nil || hf.Decl.Body == nil || hf.Pkg != fi.Pkg {
				continue
			}
			for _, c2 := range callsIn(hf.Decl.Body) {
				if f2 := callee(hf.Pkg.TypesInfo, c2); f2 != nil && f2.Name() == "CopyReader" {
					helper, innerAcquire, acquire = hf, c2, c
				}
			}
		}
	}
	if acquire == nil {
		undecidedf("%s: CopyReader acquisition not found", fi.Name)
	}
	var reader, acqErr types.Object
	for _, anc := range enclosing(fi.Decl.Body, acquire) {
		if as, ok := anc.(*ast.AssignStmt); ok && len(as.Lhs) >= 1 && len(as.Rhs) == 1 {
			if helper != nil && len(as.Lhs) == 2 {
				acqErr = objOf(info, as.Lhs[1]) // the helper reports "no reader" through its error result
			}
			reader = objOf(info, as.Lhs[0])
		}
	}
	var deferred []*ast.DeferStmt
	var direct []*ast.CallExpr
	ast.Inspect(fi.Decl.Body, func(x ast.Node) bool {
		if ds, ok := x.(*ast.DeferStmt); ok {
			for _, c := range callsDeep(ds) {
				if f := callee(info, c); f != nil && f.Name() == "CloseCopyReader" {
					if sel, ok := ast.Unparen(c.Fun).(*ast.SelectorExpr); ok && objOf(info, sel.X) == reader {
						deferred = append(deferred, ds)
					}
				}
			}
			return false
		}
		if c, ok := x.(*ast.CallExpr); ok {
			if f := callee(info, c); f != nil && f.Name() == "CloseCopyReader" {
				direct = append(direct, c)
			}
		}
		return true
	})
	okDefer := len(deferred) == 1 && g.DominatesNode(acquire, deferred[0])
	// nothing that can fail/return lies between the acquisition (and its nil test) and the defer
	if okDefer {
		for _, rs := range returnsOf(fi.Decl.Body) {
			if g.DominatesNode(acquire, rs) && !g.DominatesNode(deferred[0], rs) {
				// allowed only when the reader is nil (nothing to release)
				nilPath := false
				for _, f := range g.GuardsOf(rs) {
					if x, isEq, ok := nilTest(info, f.Expr); ok && objOf(info, x) == reader && (isEq == f.Truth) {
						nilPath = true
					}
					if x, isEq, ok := nilTest(info, f.Expr); ok && acqErr != nil && objOf(info, x) == acqErr && (isEq != f.Truth) {
						nilPath = true
					}
				}
				if !nilPath {
					okDefer = false
				}
			}
		}
	}
	r.Ob(rule, fi.Name+"/CloseCopyReader-deferred-right-after-acquire", acquire.Pos(), okDefer, "the copy reader (snapshot reference + scheduled-copy marks) is released by a defer registered immediately after it was obtained, so every exit releases it")
	r.Ob(rule, fi.Name+"/released-exactly-once", acquire.Pos(), len(direct) == 0 && len(deferred) == 1, "CloseCopyReader is not idempotent (it drops a snapshot reference and decrements the scheduled-copy counts): besides the deferred call there must be no explicit call on any path")
	// acquisition under the handle lock after the open test
	locked := lockHeldAt(g, info, acquire, "mutex", "R")
	open := false
	for _, f := range g.GuardsOf(acquire) {
		if f.Truth && isField(info, f.Expr, "indexImpl", "open") {
			open = true
		}
	}
	if helper != nil {
		r.Fn(helper)
		hinfo := helper.Pkg.TypesInfo
		hg := buildCFG(hinfo, helper.Decl.Body)
		locked = lockHeldAt(hg, hinfo, innerAcquire, "mutex", "R")
		for _, f := range hg.GuardsOf(innerAcquire) {
			if f.Truth && isField(hinfo, f.Expr, "indexImpl", "open") {
				open = true
			}
		}
	}
	r.Ob(rule, fi.Name+"/acquired-under-lock-on-open-index", acquire.Pos(), locked && open, "the backup starts under the handle's read lock on an open index (Close waits for it)")
	// the copy uses the acquired reader
	uses := false
	for _, c := range callsIn(fi.Decl.Body) {
		if f := callee(info, c); f != nil && f.Name() == "CopyTo" {
			if sel, ok := ast.Unparen(c.Fun).(*ast.SelectorExpr); ok && objOf(info, sel.X) == reader {
				uses = true
			}
		}
	}
	r.Ob(rule, fi.Name+"/copies-from-the-pinned-reader", acquire.Pos(), uses, "the data is copied through the pinned copy reader")
	// the handle's read lock spans the whole copy: Close (which takes the write lock) waits for a running backup
	for _, c := range callsIn(fi.Decl.Body) {
		if f := callee(info, c); f != nil && f.Name() == "CopyTo" {
			if sel, ok := ast.Unparen(c.Fun).(*ast.SelectorExpr); ok && objOf(info, sel.X) == reader {
				r.Ob(rule, fi.Name+"/handle-lock-held-during-copy", c.Pos(), lockHeldAt(g, info, c, "mutex", "R"), "the copy itself runs under the handle's read lock: otherwise Close returns while a backup is in flight and the scheduled-copy protection of its files dies with the closed engine (a reopen purges files the backup still reads)")
			}
		}
	}
}

// ruleCopyReadsOnlyPinned: functions reachable from IndexSnapshot.CopyTo (one
// level inside package scorch) never read Scorch.root.
func ruleCopyReadsOnlyPinned(r *Report, rule string) {
	p := r.P
	start := p.MustFunc("index/scorch.(*IndexSnapshot).CopyTo")
	seen := map[*FuncInfo]bool{}
	work := []*FuncInfo{start}
	for depth := 0; depth < 3 && len(work) > 0; depth++ {
		var next []*FuncInfo
		for _, fi := range work {
			if seen[fi] {
				continue
			}
			seen[fi] = true
			info := fi.Pkg.TypesInfo
			for _, c := range callsDeep(fi.Decl.Body) {
				if f := callee(info, c); f != nil && f.Pkg() != nil && f.Pkg().Path() == blevePath+"/"+scorchPkg {
					if cf := p.Func(funcName(f)); cf != nil && cf.Decl.Body != nil {
						next = append(next, cf)
					}
				}
			}
		}
		work = next
	}
	n := 0
	for fi := range seen {
		n++
		r.Fn(fi)
		reads := selsOfField(fi.Pkg.TypesInfo, fi.Decl.Body, "Scorch", "root")
		r.Ob(rule, fi.Name+"/no-live-root-read", fi.Decl.Pos(), len(reads) == 0, "the copy path works on the pinned snapshot only; reading the live root would mix a later state into the backup")
	}
	if n < 2 {
		undecidedf("copy path has only %d functions", n)
	}
}
