package main

import (
	"fmt"
	"go/ast"
	"go/types"
	"strings"

	"golang.org/x/tools/go/cfg"
	"golang.org/x/tools/go/packages"
)

// K1: pairing on all exits (go/cfg forward may-hold dataflow).

type pairEvent struct {
	Acquire bool
	Key     string // resource identity, e.g. "s.rootLock:W"
}

// pairSpec classifies calls as acquire/release events of some resource.
type pairSpec struct {
	Name     string
	Classify func(info *types.Info, call *ast.CallExpr) (pairEvent, bool)
}

var lockSpec = pairSpec{Name: "lock", Classify: func(info *types.Info, call *ast.CallExpr) (pairEvent, bool) {
	f := callee(info, call)
	if f == nil {
		return pairEvent{}, false
	}
	sel, ok := ast.Unparen(call.Fun).(*ast.SelectorExpr)
	if !ok {
		return pairEvent{}, false
	}
	recv := exprStr(sel.X)
	switch qname(f) {
	case "sync.(*Mutex).Lock", "sync.(*RWMutex).Lock":
		return pairEvent{true, recv + ":W"}, true
	case "sync.(*RWMutex).RLock":
		return pairEvent{true, recv + ":R"}, true
	case "sync.(*Mutex).Unlock", "sync.(*RWMutex).Unlock":
		return pairEvent{false, recv + ":W"}, true
	case "sync.(*RWMutex).RUnlock":
		return pairEvent{false, recv + ":R"}, true
	}
	return pairEvent{}, false
}}

type heldExit struct {
	Fn     string
	Key    string
	Exit   Exit
	AcqPos ast.Node
	Body   *ast.BlockStmt
	Info   *types.Info
	Pkg    *packages.Package
}

type pairStats struct {
	Funcs    int
	Acquires int
}

// funcBodies enumerates every function body (declarations and literals) of fi.
type bodyUnit struct {
	Name string
	Body *ast.BlockStmt
	Lit  *ast.FuncLit
}

func bodiesOf(fi *FuncInfo) []bodyUnit {
	var out []bodyUnit
	if fi.Decl.Body == nil {
		return nil
	}
	out = append(out, bodyUnit{fi.Name, fi.Decl.Body, nil})
	n := 0
	ast.Inspect(fi.Decl.Body, func(x ast.Node) bool {
		if l, ok := x.(*ast.FuncLit); ok {
			n++
			out = append(out, bodyUnit{fmt.Sprintf("%s$%d", fi.Name, n), l.Body, l})
		}
		return true
	})
	return out
}

// checkPairing runs the may-hold analysis on one body and returns the exits
// that may still hold an acquired resource (no release, no deferred release).
func checkPairing(spec pairSpec, pk *packages.Package, name string, body *ast.BlockStmt, st *pairStats) []heldExit {
	info := pk.TypesInfo
	// quick pre-scan: any acquire at all?
	has := false
	acqNode := map[string]ast.Node{}
	inspectNoLit(body, func(x ast.Node) bool {
		if c, ok := x.(*ast.CallExpr); ok {
			if ev, ok := spec.Classify(info, c); ok && ev.Acquire {
				// acquires inside defer/go statements are handled below
				has = true
				if _, dup := acqNode[ev.Key]; !dup {
					acqNode[ev.Key] = c
				}
				st.Acquires++
			}
		}
		return true
	})
	if !has {
		return nil
	}
	st.Funcs++
	g := buildCFG(info, body)
	fl := &Flow{F: g, Must: false, Entry: Set{}}
	fl.Transfer = func(n ast.Node, in Set) Set {
		out := in
		switch s := n.(type) {
		case *ast.DeferStmt:
			// deferred release (direct or inside a deferred closure)
			var scan ast.Node = s.Call
			for _, c := range callsDeep(scan) {
				if ev, ok := spec.Classify(info, c); ok && !ev.Acquire {
					out = out.with("deferred:" + ev.Key)
				}
			}
			return out
		case *ast.GoStmt:
			return out
		}
		for _, c := range callsIn(n) {
			ev, ok := spec.Classify(info, c)
			if !ok {
				continue
			}
			if ev.Acquire {
				out = out.with(ev.Key)
			} else {
				out = out.without(ev.Key)
			}
		}
		return out
	}
	// nil-correlated resources: on a branch edge where "<resource expr> == nil"
	// holds, no reference can be held through that expression.
	fl.Edge = func(from *cfg.Block, succ int, out Set) (Set, bool) {
		cond, tag, ok := branchCond(from)
		if !ok || tag != nil {
			return out, true
		}
		var facts []Fact
		splitCond(cond, succ == 0, &facts)
		for _, f := range facts {
			if x, isNil, ok := errNilFact(info, f); ok && isNil && out[x] {
				out = out.without(x)
			}
		}
		return out, true
	}
	fl.Solve()
	var res []heldExit
	for _, ex := range g.Exits() {
		if ex.Kind == ExitPanic {
			continue
		}
		s, ok := fl.AtEnd(ex.B)
		if !ok {
			continue
		}
		for _, k := range s.sorted() {
			if strings.HasPrefix(k, "deferred:") || s["deferred:"+k] {
				continue
			}
			res = append(res, heldExit{Fn: name, Key: k, Exit: ex, AcqPos: acqNode[k], Body: body, Info: info, Pkg: pk})
		}
	}
	return res
}

// releasingMethodTransfer recognises the ownership-transfer idiom: the exit
// returns a composite literal of a named type one of whose methods releases a
// lock field with the same field name and mode (e.g. FieldDict returning an
// indexImplFieldDict whose Close defers index.mutex.RUnlock()).
func (p *Prog) releasingMethodTransfer(h heldExit) (string, bool) {
	if h.Exit.Ret == nil {
		return "", false
	}
	key := h.Key // e.g. "i.mutex:R"
	colon := strings.LastIndex(key, ":")
	recv, mode := key[:colon], key[colon+1:]
	field := recv
	if i := strings.LastIndex(recv, "."); i >= 0 {
		field = recv[i+1:]
	}
	for _, res := range h.Exit.Ret.Results {
		var lit *ast.CompositeLit
		ast.Inspect(res, func(x ast.Node) bool {
			if l, ok := x.(*ast.CompositeLit); ok && lit == nil {
				lit = l
			}
			return lit == nil
		})
		var t types.Type
		if lit != nil {
			t = h.Info.TypeOf(lit)
		} else {
			t = h.Info.TypeOf(res)
		}
		if t == nil {
			continue
		}
		if pt, ok := t.(*types.Pointer); ok {
			t = pt.Elem()
		}
		nt, ok := t.(*types.Named)
		if !ok || nt.Obj().Pkg() == nil {
			continue
		}
		for i := 0; i < nt.NumMethods(); i++ {
			m := nt.Method(i)
			fi := p.funcs[funcName(m)]
			if fi == nil || fi.Decl.Body == nil {
				continue
			}
			for _, c := range callsDeep(fi.Decl.Body) {
				ev, ok := lockSpec.Classify(fi.Pkg.TypesInfo, c)
				if !ok || ev.Acquire {
					continue
				}
				if strings.HasSuffix(ev.Key, "."+field+":"+mode) {
					return fmt.Sprintf("ownership transfer: returned %s whose method %s releases .%s (%s)", nt.Obj().Name(), m.Name(), field, mode), true
				}
			}
		}
	}
	return "", false
}

// lockWrapper reports whether the function is itself a lock-acquire wrapper:
// its only statements are acquires (every path returns holding).  None exist
// today; kept so that a refactor into a helper is UNDECIDED-free.
func isAcquireWrapper(body *ast.BlockStmt, info *types.Info) bool {
	if len(body.List) == 0 {
		return false
	}
	for _, s := range body.List {
		es, ok := s.(*ast.ExprStmt)
		if !ok {
			return false
		}
		c, ok := es.X.(*ast.CallExpr)
		if !ok {
			return false
		}
		ev, ok := lockSpec.Classify(info, c)
		if !ok || !ev.Acquire {
			return false
		}
	}
	return true
}

// k1Locks checks lock pairing over the given packages (nil = all bleve).
func k1Locks(r *Report, rule string, pkgFilter func(rel string) bool) pairStats {
	st := pairStats{}
	for _, fi := range r.P.flist {
		rel := relPkg(fi.Pkg.PkgPath)
		if pkgFilter != nil && !pkgFilter(rel) {
			continue
		}
		for _, bu := range bodiesOf(fi) {
			before := st.Funcs
			held := checkPairing(lockSpec, fi.Pkg, bu.Name, bu.Body, &st)
			if st.Funcs > before {
				r.Fn(fi)
			}
			if st.Funcs == before {
				continue
			}
			if len(held) == 0 {
				r.Ob(rule, bu.Name, bu.Body.Pos(), true, "every acquired mutex is released (directly or by defer) on all non-panicking exits")
				continue
			}
			if isAcquireWrapper(bu.Body, fi.Pkg.TypesInfo) {
				r.Allow(rule, bu.Name, bu.Body.Pos(), "acquire wrapper (body consists only of lock acquisitions)")
				continue
			}
			seen := map[string]bool{}
			for _, h := range held {
				if why, ok := r.P.releasingMethodTransfer(h); ok {
					if !seen["t"+h.Key] {
						seen["t"+h.Key] = true
						r.Allow(rule, bu.Name+"/"+h.Key, h.Exit.B.Nodes[len(h.Exit.B.Nodes)-1].Pos(), why)
					}
					continue
				}
				if seen[h.Key] {
					continue
				}
				seen[h.Key] = true
				pos := bu.Body.End()
				if n := len(h.Exit.B.Nodes); n > 0 {
					pos = h.Exit.B.Nodes[n-1].Pos()
				}
				r.Ob(rule, bu.Name+"/"+h.Key, pos, false,
					fmt.Sprintf("exit at %s may return with %s still held (acquired in %s, no release or deferred release on this path)", r.P.Pos(pos), h.Key, bu.Name))
			}
		}
	}
	return st
}
