package main

import (
	"go/ast"
	"go/token"
	"go/types"
)

// K4 channel discipline (package scorch): every send/receive on one of the
// Scorch inter-goroutine channels is (a) a case of a select that also has a
// case receiving from the close channel, or (b) a case of a select with a
// default, or (c) listed in the rendezvous table with the reason the peer is
// guaranteed.  K3b: no such blocking operation happens while rootLock is held.

type chanOp struct {
	fi     *FuncInfo
	node   ast.Node // SendStmt or UnaryExpr(<-)
	chExpr ast.Expr
	send   bool
	sel    *ast.SelectStmt // enclosing select whose comm clause is this op (nil if bare)
}

func chanOpsIn(fi *FuncInfo) []chanOp {
	var out []chanOp
	var selStack []*ast.SelectStmt
	commOf := map[ast.Node]*ast.SelectStmt{}
	ast.Inspect(fi.Decl.Body, func(n ast.Node) bool {
		if s, ok := n.(*ast.SelectStmt); ok {
			for _, c := range s.Body.List {
				cc := c.(*ast.CommClause)
				switch comm := cc.Comm.(type) {
				case *ast.SendStmt:
					commOf[comm] = s
				case *ast.ExprStmt:
					commOf[ast.Unparen(comm.X)] = s
				case *ast.AssignStmt:
					if len(comm.Rhs) == 1 {
						commOf[ast.Unparen(comm.Rhs[0])] = s
					}
				}
			}
		}
		return true
	})
	_ = selStack
	ast.Inspect(fi.Decl.Body, func(n ast.Node) bool {
		switch x := n.(type) {
		case *ast.SendStmt:
			out = append(out, chanOp{fi, x, x.Chan, true, commOf[x]})
		case *ast.UnaryExpr:
			if x.Op == token.ARROW {
				out = append(out, chanOp{fi, x, x.X, false, commOf[x]})
			}
		}
		return true
	})
	return out
}

func selectHasCloseOrDefault(info *types.Info, s *ast.SelectStmt) (hasClose, hasDefault bool) {
	for _, c := range s.Body.List {
		cc := c.(*ast.CommClause)
		if cc.Comm == nil {
			hasDefault = true
			continue
		}
		var rx ast.Expr
		switch comm := cc.Comm.(type) {
		case *ast.ExprStmt:
			rx = comm.X
		case *ast.AssignStmt:
			if len(comm.Rhs) == 1 {
				rx = comm.Rhs[0]
			}
		}
		if u, ok := ast.Unparen(rx).(*ast.UnaryExpr); ok && u.Op == token.ARROW {
			if isField(info, u.X, "Scorch", "closeCh") {
				hasClose = true
			}
			// ctx.Done()
			if c, ok := ast.Unparen(u.X).(*ast.CallExpr); ok {
				if f := callee(info, c); f != nil && f.Name() == "Done" {
					hasClose = true
				}
			}
		}
	}
	return
}

func ruleScorchChannelDiscipline(r *Report, rule string) {
	p := r.P
	chanFields := map[string]bool{"introductions": true, "persists": true, "merges": true, "introducerNotifier": true, "persisterNotifier": true, "forceMergeRequestCh": true}
	rendezvous := map[string]string{
		"index/scorch.(*Scorch).prepareSegment/send/introductions": "API side: the introducer loop is running (Batch holds the handle's read lock, so Close cannot have started) and always receives",
	}
	n := 0
	for _, fi := range p.funcsInPkg(scorchPkg) {
		info := fi.Pkg.TypesInfo
		for _, op := range chanOpsIn(fi) {
			fs, ok := asFieldSel(info, op.chExpr)
			if !ok || fs.Owner != "Scorch" || !chanFields[canonFieldName(fs.Field)] {
				continue
			}
			n++
			r.Fn(fi)
			dir := "recv"
			if op.send {
				dir = "send"
			}
			construct := fi.Name + "/" + dir + "/" + canonFieldName(fs.Field)
			if op.sel != nil {
				hc, hd := selectHasCloseOrDefault(info, op.sel)
				r.Ob(rule, construct, op.node.Pos(), hc || hd, "channel operation on s."+canonFieldName(fs.Field)+" is a select case but the select has neither a closeCh/ctx.Done case nor a default: it can block forever once the peer loop has exited")
			} else if why, ok := rendezvous[construct]; ok {
				r.Allow(rule, construct, op.node.Pos(), why)
			} else {
				r.Ob(rule, construct, op.node.Pos(), false, "unselected "+dir+" on s."+canonFieldName(fs.Field)+": blocks forever if the peer loop is not receiving (no closeCh case)")
			}
			// K3b: not under rootLock
			body := innermostFuncBody(fi.Decl, op.node)
			g := buildCFG(info, body)
			var held bool
			if op.sel != nil {
				held = lockHeldAtMay(g, info, op.sel, "rootLock")
			} else {
				held = lockHeldAtMay(g, info, op.node, "rootLock")
			}
			r.Ob("K3-no-blocking-under-rootLock", construct, op.node.Pos(), !held, "blocking channel operation on s."+canonFieldName(fs.Field)+" while rootLock may be held: every loop needs rootLock to make progress, so the peer may never get to serve the channel")
		}
	}
	if n < 12 {
		undecidedf("channel discipline matched only %d operations", n)
	}
	// reply channels: the party that accepted a message always answers
	in := findIntroducers(p)
	replies := []struct {
		fi    *FuncInfo
		owner string
		field string
		what  string
	}{
		{in.Segment, "segmentIntroduction", "applied", "close(next.applied) on every exit"},
		{in.Persist, "persistIntroduction", "applied", "close(persist.applied) on every exit"},
		{in.Merge, "segmentMerge", "notifyCh", "notifyCh answered on every exit"},
	}
	for _, rp := range replies {
		info := rp.fi.Pkg.TypesInfo
		g := buildCFG(info, rp.fi.Decl.Body)
		var answers []ast.Node
		for _, c := range builtinCalls(info, rp.fi.Decl.Body, "close") {
			if isField(info, c.Args[0], rp.owner, rp.field) {
				answers = append(answers, c)
			}
		}
		okAll := len(answers) > 0
		for _, ex := range g.Exits() {
			if ex.Kind == ExitPanic {
				continue
			}
			var exitNode ast.Node
			if n := len(ex.B.Nodes); n > 0 {
				exitNode = ex.B.Nodes[n-1]
			}
			dominated := false
			for _, a := range answers {
				if exitNode != nil && (g.DominatesNode(a, exitNode) || a == exitNode) {
					dominated = true
				}
				// the answer is the last statement of the block
				if la, ok := g.Locate(a); ok && la.B == ex.B {
					dominated = true
				}
			}
			if !dominated {
				okAll = false
			}
		}
		r.Ob(rule, rp.fi.Name+"/always-answers-"+rp.field, rp.fi.Decl.Pos(), okAll, "the introducer accepted the message, so the sender is parked on the reply channel: "+rp.what)
	}
	// the merger answers a force-merge requester's done channel on EVERY exit
	pm := p.MustFunc("index/scorch.(*Scorch).planMergeAtSnapshot")
	r.Fn(pm)
	pinfo := pm.Pkg.TypesInfo
	pg := buildCFG(pinfo, pm.Decl.Body)
	var replyDefer *ast.DeferStmt
	inspectNoLit(pm.Decl.Body, func(x ast.Node) bool {
		ds, ok := x.(*ast.DeferStmt)
		if !ok {
			return true
		}
		sends := false
		usesKey := false
		ast.Inspect(ds, func(y ast.Node) bool {
			if _, ok := y.(*ast.SendStmt); ok {
				sends = true
			}
			if id, ok := y.(*ast.Ident); ok && id.Name == "mergeDoneKey" {
				usesKey = true
			}
			return true
		})
		if sends && usesKey {
			replyDefer = ds
		}
		return true
	})
	okReply := replyDefer != nil
	if okReply {
		for _, rs := range returnsOf(pm.Decl.Body) {
			if !pg.DominatesNode(replyDefer, rs) {
				okReply = false
			}
		}
	}
	r.Ob(rule, pm.Name+"/always-answers-merge-done", pm.Decl.Pos(), okReply, "the deferred reply on the requester's merge-done channel is registered before every return (a requester is parked on <-doneCh; an unanswered early return blocks it forever)")
}

// lockHeldAtMay: may-hold (any mode) of a mutex field at node n.
func lockHeldAtMay(g *FCFG, info *types.Info, n ast.Node, field string) bool {
	l, ok := g.Locate(n)
	if !ok {
		return false
	}
	fl := mayHoldFlow(g, info)
	s, ok := fl.At(l)
	if !ok {
		return false
	}
	for k := range s {
		for _, m := range []string{":R", ":W"} {
			if len(k) > len(m) && k[len(k)-2:] == m {
				recv := k[:len(k)-2]
				if recv == field || (len(recv) > len(field) && recv[len(recv)-len(field)-1:] == "."+field) {
					return true
				}
			}
		}
	}
	return false
}

// ruleLoopLifecycle: background loops are registered in the wait group before
// they start and deregister on exit; Close signals, waits, then closes bolt.
func ruleLoopLifecycle(r *Report, rule string) {
	p := r.P
	open := p.MustFunc("index/scorch.(*Scorch).Open")
	info := open.Pkg.TypesInfo
	r.Fn(open)
	var stmts []ast.Stmt
	ast.Inspect(open.Decl.Body, func(n ast.Node) bool {
		if b, ok := n.(*ast.BlockStmt); ok {
			for i, st := range b.List {
				gs, ok := st.(*ast.GoStmt)
				if !ok {
					continue
				}
				stmts = append(stmts, gs)
				prevAdd := false
				if i > 0 {
					if es, ok := b.List[i-1].(*ast.ExprStmt); ok {
						if c, ok := es.X.(*ast.CallExpr); ok {
							if f := callee(info, c); f != nil && qname(f) == "sync.(*WaitGroup).Add" && isField(info, ast.Unparen(c.Fun).(*ast.SelectorExpr).X, "Scorch", "asyncTasks") && exprStr(c.Args[0]) == "1" {
								prevAdd = true
							}
						}
					}
				}
				r.Ob(rule, open.Name+"/asyncTasks.Add(1)-before-go/"+exprShort(gs.Call.Fun), gs.Pos(), prevAdd, "each background loop is counted in asyncTasks immediately before it is started (Close waits on that group)")
				// the loop function defers asyncTasks.Done()
				if lf := callee(info, gs.Call); lf != nil {
					if lfi := p.Func(funcName(lf)); lfi != nil && lfi.Decl.Body != nil {
						r.Fn(lfi)
						done := false
						if len(lfi.Decl.Body.List) > 0 {
							if ds, ok := lfi.Decl.Body.List[0].(*ast.DeferStmt); ok {
								for _, c := range callsDeep(ds) {
									if f := callee(lfi.Pkg.TypesInfo, c); f != nil && qname(f) == "sync.(*WaitGroup).Done" {
										done = true
									}
								}
							}
						}
						r.Ob(rule, lfi.Name+"/defers-asyncTasks.Done-first", lfi.Decl.Pos(), done, "the loop's first statement defers asyncTasks.Done() (runs on every exit incl. panics)")
					}
				}
			}
		}
		return true
	})
	if len(stmts) < 3 {
		undecidedf("%s: expected >= 3 go statements", open.Name)
	}
	cl := p.MustFunc("index/scorch.(*Scorch).Close")
	r.Fn(cl)
	cinfo := cl.Pkg.TypesInfo
	g := buildCFG(cinfo, cl.Decl.Body)
	var closeCh, wait, boltClose ast.Node
	for _, c := range callsIn(cl.Decl.Body) {
		if calleeBuiltin(cinfo, c) == "close" && isField(cinfo, c.Args[0], "Scorch", "closeCh") {
			closeCh = c
		}
		if f := callee(cinfo, c); f != nil {
			if qname(f) == "sync.(*WaitGroup).Wait" {
				wait = c
			}
			if f.Name() == "Close" {
				if sel, ok := ast.Unparen(c.Fun).(*ast.SelectorExpr); ok && isField(cinfo, sel.X, "Scorch", "rootBolt") {
					boltClose = c
				}
			}
		}
	}
	ok := closeCh != nil && wait != nil && boltClose != nil && g.DominatesNode(closeCh, wait) && g.DominatesNode(wait, boltClose)
	r.Ob(rule, cl.Name+"/signal-then-wait-then-close-bolt", cl.Decl.Pos(), ok, "Close: close(closeCh) -> asyncTasks.Wait() -> rootBolt.Close(), in that order on every path")
	// closeCh closed only by Close
	for _, fi := range p.funcsInPkg(scorchPkg) {
		for _, c := range builtinCalls(fi.Pkg.TypesInfo, fi.Decl.Body, "close") {
			if isField(fi.Pkg.TypesInfo, c.Args[0], "Scorch", "closeCh") {
				r.Ob(rule, fi.Name+"/close(closeCh)-only-in-Close", c.Pos(), fi.Name == cl.Name, "the close channel is closed exactly once, by Close")
			}
		}
	}
}

// ruleCancellationPolled: every `case <-ctx.Done()` in the collectors returns
// the context error; the main collect loop polls inside the loop.
func ruleCancellationPolled(r *Report, rule string) {
	p := r.P
	n := 0
	for _, fi := range p.funcsInPkg("search/collector") {
		info := fi.Pkg.TypesInfo
		ast.Inspect(fi.Decl.Body, func(x ast.Node) bool {
			cc, ok := x.(*ast.CommClause)
			if !ok || cc.Comm == nil {
				return true
			}
			es, ok := cc.Comm.(*ast.ExprStmt)
			if !ok {
				return true
			}
			u, ok := ast.Unparen(es.X).(*ast.UnaryExpr)
			if !ok || u.Op != token.ARROW {
				return true
			}
			c, ok := ast.Unparen(u.X).(*ast.CallExpr)
			if !ok {
				return true
			}
			if f := callee(info, c); f == nil || qname(f) != "context.(Context).Done" {
				return true
			}
			n++
			r.Fn(fi)
			ret := false
			isCtxErrReturn := func(rs *ast.ReturnStmt) bool {
				if len(rs.Results) == 0 {
					return false
				}
				last := rs.Results[len(rs.Results)-1]
				if lc, ok := ast.Unparen(last).(*ast.CallExpr); ok {
					if f := callee(info, lc); f != nil && qname(f) == "context.(Context).Err" {
						return true
					}
				}
				return false
			}
			if len(cc.Body) > 0 {
				if rs, ok := cc.Body[len(cc.Body)-1].(*ast.ReturnStmt); ok && isCtxErrReturn(rs) {
					ret = true
				}
				if !ret {
					// the case may leave through a jump (an expanded helper): every function exit that can be
					// reached from the case must then be a `return ctx.Err()`
					body := innermostFuncBody(fi.Decl, cc)
					g := buildCFG(info, body)
					var start ast.Node
					for _, st := range cc.Body {
						ast.Inspect(st, func(y ast.Node) bool {
							if start != nil || y == nil {
								return false
							}
							if _, ok := g.Locate(y); ok {
								start = y
								return false
							}
							return true
						})
					}
					if start != nil {
						good, bad := 0, 0
						for _, rs := range returnsOf(body) {
							if rs == start || g.ReachesNode(start, rs) {
								if isCtxErrReturn(rs) {
									good++
								} else {
									bad++
								}
							}
						}
						ret = good > 0 && bad == 0
					}
				}
			}
			inLoop := false
			for _, anc := range enclosing(fi.Decl.Body, cc) {
				if _, ok := anc.(*ast.ForStmt); ok {
					inLoop = true
				}
			}
			where := "pre-loop"
			if inLoop {
				where = "in-loop"
			}
			r.Ob(rule, fi.Name+"/ctx.Done-returns-ctx.Err/"+where, cc.Pos(), ret, "the ctx.Done() case must end with `return ctx.Err()` (a break only leaves the select and the search would go on and report success)")
			return true
		})
	}
	if n < 2 {
		undecidedf("cancellation rule matched only %d ctx.Done cases", n)
	}
	// TopN Collect: an in-loop poll exists, reachable on a periodic counter test
	fi := p.MustFunc("search/collector.(*TopNCollector).Collect")
	info := fi.Pkg.TypesInfo
	okPoll := false
	ast.Inspect(fi.Decl.Body, func(x ast.Node) bool {
		fs, ok := x.(*ast.ForStmt)
		if !ok {
			return true
		}
		ast.Inspect(fs.Body, func(y ast.Node) bool {
			is, ok := y.(*ast.IfStmt)
			if !ok {
				return true
			}
			be, ok := ast.Unparen(is.Cond).(*ast.BinaryExpr)
			if !ok || be.Op != token.EQL {
				return true
			}
			if m, ok := ast.Unparen(be.X).(*ast.BinaryExpr); ok && m.Op == token.REM && exprStr(be.Y) == "0" {
				// contains a select on ctx.Done
				ast.Inspect(is.Body, func(z ast.Node) bool {
					if _, ok := z.(*ast.SelectStmt); ok {
						okPoll = true
					}
					return true
				})
				_ = info
			}
			return true
		})
		return true
	})
	r.Ob(rule, fi.Name+"/periodic-poll-inside-match-loop", fi.Decl.Pos(), okPoll, "the match loop polls ctx.Done() every N matches (counter % N == 0)")
}
