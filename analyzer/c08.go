package main

import (
	"fmt"
	"go/ast"
	"go/constant"
	"go/token"
	"go/types"
	"os"
	"sort"
	"strings"

	"golang.org/x/tools/go/cfg"
)

func init() { register("C08", propC08) }

const searcherPkg = "search/searcher"

func propC08(r *Report, tier string) {
	r.Explanation = "Structural necessary conditions of 'ascending ids; Advance lands on the first match at/after the target': (a) K13 every concrete search.Searcher in bleve defines Next and Advance; (b) K12 look-ahead guard: in every compound searcher's Advance (and the guarded child advances inside BooleanSearcher.Next) each delegated child.Advance(ctx, target) cannot be reached on the branch edge on which the cached position of that searcher compared AT-OR-AFTER the target (Compare(target) >= 0 true / < 0 false): a child already at or past the target is never advanced again; comparisons with the off-by-one operators (>, <=) are violations; the compared value is the value passed on; the method ends by delegating to its own Next; (c) the three places that recompute BooleanSearcher's cursor agree; (d) scorch term-field reader: backward-target re-seek guard present, global id = offsets[k] + local number with the same k that indexes the iterator, in Next and Advance; (e) K14 segment offsets advance by the full segment count (shared with C05). (f) K14 NestedConjunctionSearcher: whenever a child's current match is replaced (Next/Advance) its ancestor chain and join key slots of the same index are recomputed on the continuing path; (g) K6 the 1-hit unadorned iterator reports exhaustion only in (or after entering) the finished state and consumes its hit when returning it; (h) K3 in Next/Advance of the lazily initialised compound searchers every step of a child is dominated by a test of the initialised flag."
	r.NotCovered = "monotonicity of Next itself and the correctness of the merge loops of conjunction/disjunction/phrase (value reasoning over all streams)"
	ruleSearcherMethodSets(r, "K13-searcher-methods")
	ruleLookAheadGuard(r, "K12-lookahead-guard")
	ruleBooleanCursorSiblings(r, "K12-boolean-cursor-siblings")
	ruleTFRGlobalIDs(r, "K8-tfr-global-ids")
	ruleParallelSlotsUpdatedTogether(r, "K14-parallel-slots", "search/searcher", "NestedConjunctionSearcher", "currs", []string{"currAncestors", "currKeys"})
	ruleExhaustionSticky(r, "K6-exhaustion-sticky")
	ruleHeapRestoredBeforePeek(r, "K5-heap-restored-before-peek")
	ruleFilteringWrappersFilterEveryResult(r, "K5-filter-wrapper-filters-every-result")
	ruleCompoundAdvanceCoversAllChildren(r, "K12-compound-advance-covers-all-children", "BooleanSearcher", "ConjunctionSearcher", "DisjunctionSliceSearcher", "PhraseSearcher", "FilteringSearcher")
	rulePivotFixedDuringAlignment(r, "K14-pivot-fixed-during-alignment")
	ruleNestedAdvanceTargetsJoinLevel(r, "K5dep-nested-advance-join-level")
	ruleFirstCallFlagSiblings(r, "K12-first-call-flag", "index/upsidedown", "UpsideDownCouchTermFieldReader")
	rulePooledObjectReset(r, "K9b-pooled-tfr-reset", "index/scorch", "IndexSnapshotTermFieldReader", []string{"Next", "Advance"}, "index/scorch.(*IndexSnapshot).TermFieldReader", "index/scorch.(*IndexSnapshot).recycleTermFieldReader")
	ruleLazyInitBeforeChildren(r, "K3-lazy-init-before-children")
	in := findIntroducers(r.P)
	ruleOffsetsAlignment(r, "K14-offsets-alignment", snapshotConstructors(r, in))
	r.Floor("K13-searcher-methods", 10)
	r.Floor("K12-lookahead-guard", 10)
	r.Floor("K12-boolean-cursor-siblings", 3)
	r.Floor("K8-tfr-global-ids", 3)
}

func ruleSearcherMethodSets(r *Report, rule string) {
	p := r.P
	iface, _ := p.Pkg("search").Types.Scope().Lookup("Searcher").Type().Underlying().(*types.Interface)
	if iface == nil {
		undecidedf("search.Searcher not found")
	}
	n := 0
	for _, pk := range p.Pkgs {
		for _, name := range pk.Types.Scope().Names() {
			tn, ok := pk.Types.Scope().Lookup(name).(*types.TypeName)
			if !ok || tn.IsAlias() {
				continue
			}
			nt, ok := tn.Type().(*types.Named)
			if !ok {
				continue
			}
			if _, isI := nt.Underlying().(*types.Interface); isI {
				continue
			}
			if !types.Implements(types.NewPointer(nt), iface) && !types.Implements(nt, iface) {
				continue
			}
			n++
			has := map[string]bool{}
			for i := 0; i < nt.NumMethods(); i++ {
				has[nt.Method(i).Name()] = true
			}
			r.Ob(rule, relPkg(pk.PkgPath)+"."+name, tn.Pos(), has["Next"] && has["Advance"], "searcher type declares its own Next and Advance (not inherited from an embedded searcher with a different cursor)")
		}
	}
	if n < 10 {
		undecidedf("only %d Searcher implementations found", n)
	}
}

// targetCompare recognises `<x>.Compare(<target>) <op> 0`, also through an
// intermediate variable (`cmp := x.Compare(target); if cmp < 0`), and returns
// the Compare call and the operator.  targets holds the source text of the
// accepted target expressions.
func targetCompare(info *types.Info, body ast.Node, e ast.Expr, targets map[string]bool) (*ast.CallExpr, token.Token, bool) {
	be, ok := ast.Unparen(e).(*ast.BinaryExpr)
	if !ok || exprStr(be.Y) != "0" {
		return nil, 0, false
	}
	isCmp := func(x ast.Expr) (*ast.CallExpr, bool) {
		c, ok := ast.Unparen(x).(*ast.CallExpr)
		if !ok || len(c.Args) != 1 {
			return nil, false
		}
		f := callee(info, c)
		if f == nil || f.Name() != "Compare" || !targets[exprStr(ast.Unparen(c.Args[0]))] {
			return nil, false
		}
		return c, true
	}
	if c, ok := isCmp(be.X); ok {
		return c, be.Op, true
	}
	if obj := objOf(info, be.X); obj != nil && body != nil {
		var found *ast.CallExpr
		ast.Inspect(body, func(n ast.Node) bool {
			as, ok := n.(*ast.AssignStmt)
			if !ok || len(as.Lhs) != 1 || len(as.Rhs) != 1 || objOf(info, as.Lhs[0]) != obj {
				return true
			}
			if c, ok := isCmp(as.Rhs[0]); ok {
				found = c
			}
			return true
		})
		if found != nil {
			return found, be.Op, true
		}
	}
	return nil, 0, false
}

type cmpSite struct {
	blk    *cfg.Block
	op     token.Token
	neg    bool // appears under an odd number of negations
	call   *ast.CallExpr
	cond   ast.Expr
	atEdge int // successor index taken when the cached position is at-or-after the target
}

// collectCompares finds branch blocks whose condition contains a target
// comparison (possibly under &&, ||).
func collectCompares(g *FCFG, info *types.Info, targets map[string]bool) (sites []cmpSite, offByOne []cmpSite) {
	for _, b := range g.G.Blocks {
		cond, tag, ok := branchCond(b)
		if !ok || tag != nil {
			continue
		}
		var walk func(e ast.Expr, neg bool)
		walk = func(e ast.Expr, neg bool) {
			e = ast.Unparen(e)
			if u, ok := e.(*ast.UnaryExpr); ok && u.Op == token.NOT {
				walk(u.X, !neg)
				return
			}
			if be, ok := e.(*ast.BinaryExpr); ok && (be.Op == token.LAND || be.Op == token.LOR) {
				walk(be.X, neg)
				walk(be.Y, neg)
				return
			}
			c, op, ok := targetCompare(info, g.Body, e, targets)
			if !ok {
				return
			}
			s := cmpSite{blk: b, op: op, neg: neg, call: c, cond: cond}
			switch op {
			case token.GEQ:
				s.atEdge = 0 // cond true  => at-or-after
			case token.LSS:
				s.atEdge = 1 // cond false => at-or-after
			case token.GTR, token.LEQ:
				offByOne = append(offByOne, s)
				return
			default:
				return // ==, != : equality tests, not position guards
			}
			if neg {
				s.atEdge = 1 - s.atEdge
			}
			sites = append(sites, s)
		}
		walk(cond, false)
	}
	return
}

// reachableForward: is target reachable from block `from` without taking a
// loop back edge (an edge to a block that dominates its source)?
func (f *FCFG) reachableForward(from *cfg.Block, target Loc) bool {
	seen := map[int32]bool{}
	var st []*cfg.Block
	st = append(st, from)
	for len(st) > 0 {
		b := st[len(st)-1]
		st = st[:len(st)-1]
		if seen[b.Index] {
			continue
		}
		seen[b.Index] = true
		if b == target.B {
			return true
		}
		for _, s := range b.Succs {
			if f.dom[b.Index][s.Index] { // back edge: s dominates b
				continue
			}
			st = append(st, s)
		}
	}
	return false
}

func ruleLookAheadGuard(r *Report, rule string) {
	p := r.P
	siface, _ := p.Pkg("search").Types.Scope().Lookup("Searcher").Type().Underlying().(*types.Interface)
	isChildAdvance := func(info *types.Info, c *ast.CallExpr, recv types.Object) bool {
		f := callee(info, c)
		if f == nil || f.Name() != "Advance" || len(c.Args) != 2 {
			return false
		}
		sel, ok := ast.Unparen(c.Fun).(*ast.SelectorExpr)
		if !ok {
			return false
		}
		if objOf(info, sel.X) == recv {
			return false // own method
		}
		t := info.TypeOf(sel.X)
		if t == nil {
			return false
		}
		return types.Implements(t, siface) || types.Identical(t.Underlying(), siface)
	}
	type unit struct {
		fn      string
		method  string
		exempt  string
		extraOK bool
	}
	units := []unit{
		{searcherPkg + ".(*ConjunctionSearcher).Advance", "Advance", "", false},
		{searcherPkg + ".(*DisjunctionSliceSearcher).Advance", "Advance", "", false},
		{searcherPkg + ".(*DisjunctionHeapSearcher).Advance", "Advance", "", false},
		{searcherPkg + ".(*BooleanSearcher).Advance", "Advance", "", false},
		{searcherPkg + ".(*NestedConjunctionSearcher).Advance", "Advance", "", false},
		{searcherPkg + ".(*PhraseSearcher).Advance", "Advance", "", false},
		{searcherPkg + ".(*BooleanSearcher).Next", "Next", "", false},
	}
	total := 0
	for _, u := range units {
		fi := p.MustFunc(u.fn)
		r.Fn(fi)
		info := fi.Pkg.TypesInfo
		recv := recvObj(fi)
		g := buildCFG(info, fi.Decl.Body)
		// advance sites: direct child.Advance calls, or calls to a same-receiver helper whose body is a child.Advance
		type site struct {
			call   *ast.CallExpr
			target ast.Expr
		}
		var sites []site
		inspectNoLit(fi.Decl.Body, func(x ast.Node) bool {
			c, ok := x.(*ast.CallExpr)
			if !ok {
				return true
			}
			if isChildAdvance(info, c, recv) {
				sites = append(sites, site{c, c.Args[1]})
				return true
			}
			// one-level helper on the same receiver
			if sel, ok := ast.Unparen(c.Fun).(*ast.SelectorExpr); ok && objOf(info, sel.X) == recv {
				if f := callee(info, c); f != nil {
					if hf := p.Func(funcName(f)); hf != nil && hf.Decl.Body != nil && hf != fi && f.Name() != "Next" && f.Name() != "Advance" {
						hr := recvObj(hf)
						hsig := hf.Obj.Type().(*types.Signature)
						for _, hc := range callsDeep(hf.Decl.Body) {
							if isChildAdvance(hf.Pkg.TypesInfo, hc, hr) {
								// map helper's target parameter back to the argument
								for i := 0; i < hsig.Params().Len(); i++ {
									if objOf(hf.Pkg.TypesInfo, hc.Args[1]) == hsig.Params().At(i) && i < len(c.Args) {
										sites = append(sites, site{c, c.Args[i]})
									}
								}
							}
						}
					}
				}
			}
			return true
		})
		if len(sites) == 0 {
			undecidedf("%s: no delegated child Advance found", fi.Name)
		}
		for _, s := range sites {
			total++
			construct := fi.Name + "/" + exprShort(s.call)
			targets := map[string]bool{exprStr(ast.Unparen(s.target)): true}
			cmps, bad := collectCompares(g, info, targets)
			loc, _ := g.Locate(s.call)
			guarded := false
			var used string
			for _, c := range cmps {
				if !g.reachableForward(c.blk.Succs[c.atEdge], loc) && g.Reaches(Loc{c.blk, len(c.blk.Nodes)}, loc) {
					guarded = true
					used = exprStr(c.cond)
				}
			}
			offBy := ""
			for _, c := range bad {
				r0 := g.reachableForward(c.blk.Succs[0], loc)
				r1 := g.reachableForward(c.blk.Succs[1], loc)
				if r0 != r1 { // the comparison decides whether the child is advanced
					offBy = exprStr(c.cond)
				}
			}
			// sign analysis over the branch facts at the call: whatever the spelling (`== 0` and `> 0` handled by
			// earlier cases, a negated >=, ...), the child may be advanced only where its cached position
			// compared strictly BEFORE the target
			{
				allowed := map[int]bool{-1: true, 0: true, 1: true}
				matched := false
				for _, fc := range g.GuardsOf(s.call) {
					be, isB := ast.Unparen(fc.Expr).(*ast.BinaryExpr)
					if !isB || fc.Tag != nil {
						continue
					}
					if k, isC := intConst(info, be.Y); !isC || k != 0 {
						continue
					}
					cc, isCall := ast.Unparen(resolveCopies(info, fi.Decl.Body, be.X)).(*ast.CallExpr)
					if !isCall || len(cc.Args) != 1 || !targets[exprStr(ast.Unparen(cc.Args[0]))] {
						continue
					}
					if f := callee(info, cc); f == nil || f.Name() != "Compare" {
						continue
					}
					matched = true
					for sgn := range allowed {
						holds := false
						switch be.Op {
						case token.EQL:
							holds = sgn == 0
						case token.NEQ:
							holds = sgn != 0
						case token.LSS:
							holds = sgn < 0
						case token.LEQ:
							holds = sgn <= 0
						case token.GTR:
							holds = sgn > 0
						case token.GEQ:
							holds = sgn >= 0
						default:
							holds = true
						}
						if holds != fc.Truth {
							delete(allowed, sgn)
						}
					}
				}
				if matched && len(allowed) == 1 && allowed[-1] {
					guarded, offBy, used = true, "", "the branch facts (position strictly before the target)"
				}
			}
			detail := "child advance " + exprShort(s.call) + " is guarded by `" + used + "`: not reachable when the cached position is already at/after the target"
			if !guarded {
				detail = "child advance " + exprShort(s.call) + " can be reached although the searcher's cached position already compared at-or-after the target (or no such comparison exists): a clause sitting ON the target would be advanced again and lose its pending match"
			}
			if offBy != "" {
				guarded = false
				detail = "guard `" + offBy + "` uses an off-by-one operator: a position EQUAL to the target must count as 'no advance needed' (only `>= 0` / `< 0` separate correctly)"
			}
			r.Ob(rule, construct, s.call.Pos(), guarded, detail)
		}
		if u.method == "Advance" {
			// ends by delegating to own Next: every return of a non-nil match is `return s.Next(ctx)` (or a buffered match that was compared >= target)
			okNext := false
			for _, rs := range returnsOf(fi.Decl.Body) {
				if len(rs.Results) == 1 {
					if c, ok := ast.Unparen(rs.Results[0]).(*ast.CallExpr); ok {
						if sel, ok := ast.Unparen(c.Fun).(*ast.SelectorExpr); ok && objOf(info, sel.X) == recv && sel.Sel.Name == "Next" {
							okNext = true
						}
					}
				}
			}
			if fi.Name == searcherPkg+".(*NestedConjunctionSearcher).Advance" {
				// loops Next until >= ID
				okNext = len(callsMatching(info, fi.Decl.Body, methodIs(searcherPkg, "NestedConjunctionSearcher", "Next"))) > 0
			}
			r.Ob(rule, fi.Name+"/ends-with-own-Next", fi.Decl.Pos(), okNext, "after re-synchronising the children Advance returns the first match of the new state through its own Next")
		}
	}
	if total < 8 {
		undecidedf("look-ahead rule matched only %d child advances", total)
	}
}

// ruleBooleanCursorSiblings: the cursor recomputation (s.currentID = ...) is
// the same if/else chain wherever it appears.
func ruleBooleanCursorSiblings(r *Report, rule string) {
	p := r.P
	chains := map[string]string{}
	var fns []string
	for _, fi := range p.funcsInPkg(searcherPkg) {
		if fi.Decl.Recv == nil || !typeIs(fi.Obj.Type().(*types.Signature).Recv().Type(), searcherPkg, "BooleanSearcher") {
			continue
		}
		info := fi.Pkg.TypesInfo
		var parts []string
		for _, st := range storesToField(info, fi.Decl.Body, "BooleanSearcher", "currentID") {
			// the conditions of the if/else chain the store sits in
			var conds []string
			anc := enclosing(fi.Decl.Body, st.Stmt)
			for i := len(anc) - 1; i >= 0; i-- {
				is, ok := anc[i].(*ast.IfStmt)
				if !ok {
					continue
				}
				branch := "else"
				if len(enclosing(is.Body, st.Stmt)) > 0 {
					branch = "then"
				}
				conds = append(conds, branch+"("+exprStr(is.Cond)+")")
				// stop when this if is not itself an else-branch of another if
				if i == 0 {
					break
				}
				if outer, ok := anc[i-1].(*ast.IfStmt); !ok || outer.Else != ast.Stmt(is) {
					break
				}
			}
			parts = append(parts, exprStr(st.Rhs)+" when "+strings.Join(conds, " of "))
		}
		if len(parts) > 0 {
			sort.Strings(parts)
			chains[fi.Name] = strings.Join(parts, " ; ")
			fns = append(fns, fi.Name)
			r.Fn(fi)
		}
	}
	sort.Strings(fns)
	if len(fns) < 2 {
		undecidedf("BooleanSearcher cursor recomputation found in %d functions", len(fns))
	}
	ref := chains[fns[0]]
	for _, fn := range fns {
		r.Ob(rule, fn+"/cursor-recomputation", p.MustFunc(fn).Decl.Pos(), chains[fn] == ref,
			fmt.Sprintf("the rule that derives the boolean searcher's cursor (must stream if a must clause exists, else the should stream) must be identical at every site; here: %s; reference (%s): %s", chains[fn], fns[0], ref))
	}
}

// ruleTFRGlobalIDs: scorch term-field reader.
func ruleTFRGlobalIDs(r *Report, rule string) {
	p := r.P
	adv := p.MustFunc("index/scorch.(*IndexSnapshotTermFieldReader).Advance")
	nxt := p.MustFunc("index/scorch.(*IndexSnapshotTermFieldReader).Next")
	for _, fi := range []*FuncInfo{adv, nxt} {
		r.Fn(fi)
		info := fi.Pkg.TypesInfo
		// global id = posting.Number() + offsets[k], iterator indexed by the same k
		d := newDeps(info, fi.Decl.Body)
		n := 0
		for _, c := range callsDeep(fi.Decl.Body) {
			f := callee(info, c)
			if f == nil || f.Name() != "NewIndexInternalID" || len(c.Args) != 2 {
				continue
			}
			n++
			sl := d.SliceOfExpr(c.Args[1])
			isSum := sl["fld:IndexSnapshot.offsets"] && sliceHasSuffix(sl, ".Number")
			// index expressions used on offsets and on iterators
			var offIdx, itIdx []string
			ast.Inspect(fi.Decl.Body, func(x ast.Node) bool {
				ix, ok := x.(*ast.IndexExpr)
				if !ok {
					return true
				}
				if isField(info, ix.X, "IndexSnapshot", "offsets") {
					offIdx = append(offIdx, exprStr(ix.Index))
				}
				if isField(info, ix.X, "IndexSnapshotTermFieldReader", "iterators") {
					itIdx = append(itIdx, exprStr(ix.Index))
				}
				return true
			})
			sameK := false
			for _, o := range offIdx {
				for _, it := range itIdx {
					if o == it {
						sameK = true
					}
					// iterators[i.segmentOffset] with i.segmentOffset = <o> assigned just before
					if strings.HasSuffix(it, ".segmentOffset") {
						for _, st := range storesToField(info, fi.Decl.Body, "IndexSnapshotTermFieldReader", "segmentOffset") {
							if st.Rhs != nil && exprStr(st.Rhs) == o {
								sameK = true
							}
						}
					}
				}
			}
			r.Ob(rule, fi.Name+"/global-id=local+offsets[k]", c.Pos(), isSum && sameK, fmt.Sprintf("the global id is the posting's local number plus the offset of the SAME segment whose iterator produced it (offsets indexed by %v, iterators by %v)", offIdx, itIdx))
		}
		if n == 0 {
			r.Ob(rule, fi.Name+"/global-id=local+offsets[k]", fi.Decl.Pos(), false, "no global id construction found")
		}
	}
	// backward-target re-seek guard in Advance
	info := adv.Pkg.TypesInfo
	g := buildCFG(info, adv.Decl.Body)
	sig := adv.Obj.Type().(*types.Signature)
	targets := map[string]bool{sig.Params().At(0).Name(): true}
	cmps, bad := collectCompares(g, info, targets)
	okSeek := false
	for _, c := range cmps {
		if c.op != token.GEQ {
			continue
		}
		// on the at-or-after edge the reader is re-opened or every resetable iterator is reset
		reopen := false
		for _, cc := range callsDeep(adv.Decl.Body) {
			f := callee(info, cc)
			if f == nil {
				continue
			}
			l, ok := g.Locate(cc)
			if !ok {
				continue
			}
			if (f.Name() == "TermFieldReader" || f.Name() == "ResetIterator") && g.reachableForward(c.blk.Succs[c.atEdge], l) && !g.reachableForward(c.blk.Succs[1-c.atEdge], l) {
				reopen = true
			}
		}
		if reopen {
			okSeek = true
		}
	}
	r.Ob(rule, adv.Name+"/backward-target-reseeks", adv.Decl.Pos(), okSeek && len(bad) == 0, "when the current position is already at/after the target (`currID.Compare(ID) >= 0`) the reader is re-opened (or the unadorned iterators reset) before positioning, so Advance never answers from a stale forward-only iterator")
}

// ruleLazyInitBeforeChildren (K3): the compound searchers position their
// children lazily - a boolean field is set by the one method that fetches every
// child's first match, and the stepping methods start with a test of it.  In
// Next and Advance of such a type every call that steps a child (an interface
// call of search.Searcher.Next/Advance) must be dominated by a test of that
// field: stepping children first and initialising afterwards (through the
// trailing s.Next) fetches the children's first matches a second time and the
// first conjunction/disjunction match at or after the target is skipped.
func ruleLazyInitBeforeChildren(r *Report, rule string) {
	p := r.P
	pk := p.Pkg("search/searcher")
	if pk == nil {
		undecidedf("package search/searcher not loaded")
	}
	info := pk.TypesInfo
	// methods by receiver type
	byType := map[string][]*FuncInfo{}
	for _, fi := range p.flist {
		if fi.Pkg != pk || fi.Decl == nil || fi.Decl.Body == nil || fi.Decl.Recv == nil {
			continue
		}
		if ro := recvObj(fi); ro != nil {
			if nt := namedOf(ro.Type()); nt != nil {
				byType[nt.Obj().Name()] = append(byType[nt.Obj().Name()], fi)
			}
		}
	}
	var tnames []string
	for t := range byType {
		tnames = append(tnames, t)
	}
	sort.Strings(tnames)
	n := 0
	for _, tn := range tnames {
		tobj, _ := pk.Types.Scope().Lookup(tn).(*types.TypeName)
		if tobj == nil {
			continue
		}
		st, _ := tobj.Type().Underlying().(*types.Struct)
		if st == nil {
			continue
		}
		for i := 0; i < st.NumFields(); i++ {
			fld := st.Field(i)
			if b, ok := fld.Type().Underlying().(*types.Basic); !ok || b.Kind() != types.Bool {
				continue
			}
			// set to true by exactly one method, tested (negated) by some stepping method
			setters := 0
			for _, m := range byType[tn] {
				for _, s := range storesToField(info, m.Decl.Body, tn, fld.Name()) {
					if tv, ok := info.Types[s.Rhs]; s.Rhs != nil && ok && tv.Value != nil && tv.Value.Kind() == constant.Bool && constant.BoolVal(tv.Value) {
						setters++
					}
				}
			}
			if setters != 1 {
				continue
			}
			tested := false
			for _, m := range byType[tn] {
				if m.Decl.Name.Name != "Next" && m.Decl.Name.Name != "Advance" {
					continue
				}
				ast.Inspect(m.Decl.Body, func(x ast.Node) bool {
					if is, ok := x.(*ast.IfStmt); ok {
						if u, ok := ast.Unparen(is.Cond).(*ast.UnaryExpr); ok && u.Op == token.NOT && isField(info, u.X, tn, fld.Name()) {
							tested = true
						}
					}
					return true
				})
			}
			if !tested {
				continue
			}
			// own helper methods that step a child (not the initialiser, not the stepping methods themselves)
			ifaceStep := func(c *ast.CallExpr) bool {
				f := callee(info, c)
				if f == nil || (f.Name() != "Next" && f.Name() != "Advance") {
					return false
				}
				sig, _ := f.Type().(*types.Signature)
				if sig == nil || sig.Recv() == nil {
					return false
				}
				_, isIface := sig.Recv().Type().Underlying().(*types.Interface)
				return isIface
			}
			stepHelpers := map[string]bool{}
			for _, m := range byType[tn] {
				if m.Decl.Name.Name == "Next" || m.Decl.Name.Name == "Advance" {
					continue
				}
				isInit := false
				for _, s := range storesToField(info, m.Decl.Body, tn, fld.Name()) {
					if s.Rhs != nil {
						isInit = true
					}
				}
				if isInit {
					continue
				}
				for _, c := range callsIn(m.Decl.Body) {
					if ifaceStep(c) {
						stepHelpers[m.Name] = true
					}
				}
			}
			for _, m := range byType[tn] {
				if m.Decl.Name.Name != "Next" && m.Decl.Name.Name != "Advance" {
					continue
				}
				g := buildCFG(info, m.Decl.Body)
				var reads []ast.Node
				ast.Inspect(m.Decl.Body, func(x ast.Node) bool {
					if _, isLit := x.(*ast.FuncLit); isLit {
						return false
					}
					if sel, ok := x.(*ast.SelectorExpr); ok && isField(info, sel, tn, fld.Name()) {
						reads = append(reads, sel)
					}
					return true
				})
				k := 0
				for _, c := range callsIn(m.Decl.Body) {
					// s.Next(ctx) is the type's own method and tests the flag itself; a helper that steps a child counts
					if f := callee(info, c); !ifaceStep(c) && (f == nil || !stepHelpers[funcName(f)]) {
						continue
					}
					if _, located := g.Locate(c); !located {
						continue
					}
					dominated := false
					for _, rd := range reads {
						if g.DominatesNode(rd, c) {
							dominated = true
						}
					}
					n++
					k++
					if os.Getenv("VERIF_DEBUG") != "" {
						fmt.Println("lazy-init:", m.Name, exprStr(c), dominated)
					}
					r.Fn(m)
					r.Ob(rule, fmt.Sprintf("%s/child-step#%d-after-test-of-%s", m.Name, k, fld.Name()), c.Pos(), dominated, "a child searcher is stepped here before the lazily-initialised state ("+fld.Name()+") was looked at: when this is the first call, the later initialisation fetches the children's first matches again and a match is skipped")
				}
			}
		}
	}
	if n < 10 {
		undecidedf("lazy-initialisation protocol of the compound searchers not recognised (%d child steps)", n)
	}
}
