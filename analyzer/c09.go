package main

import (
	"fmt"
	"go/ast"
	"go/token"
	"go/types"
	"sort"
	"strings"
)

func init() { register("C09", propC09) }

func propC09(r *Report, tier string) {
	r.Explanation = "Structural necessary conditions of 'an alias over shards equals one index': (a) K9b the per-member request built by copySearchRequest carries every field of SearchRequest (allow-list with reasons), asks each member for Size+From hits from offset 0, and gets its own copy of the sort; (b) K6 sort Copy() methods share no mutable scratch buffer with the original (members search concurrently); (c) K5 MultiSearch: the page is cut only after all members were merged, facets are fixed up after the merges, SearchBefore reverse/restore parity with the cut before and the re-sort after the restore; (d) K9b SearchResult.Merge accumulates Status, Hits, Total, Cost, MaxScore and Facets; FacetResult.Merge accumulates Total, Missing and Other unconditionally before any early return and merges all three bucket kinds; (e) hitsInCurrentPage sorts with the request's order before slicing From/Size. (f) the request handed to each member's goroutine is built by the copy function inside the same loop iteration (members share no request)."
	r.NotCovered = "equality with the unsharded answer (needs contents); comparability of scores across shards; pre-search/KNN paths"
	ruleCopySearchRequest(r, "K9b-member-request-carries-all")
	ruleCopyIsolation(r, "K6-copy-isolation")
	ruleMultiSearchOrder(r, "K5-multisearch-order")
	ruleSearchBeforeReverse(r, "K5-search-before-reverse")
	ruleResultMerges(r, "K9b-result-merge")
	ruleHitsInCurrentPage(r, "K5-page-after-sort")
	rulePageTrimCoversSizeZero(r, "K5-page-trim-covers-size-zero")
	// member facet results are merged range by range through Same()
	ruleOptionalFieldEqualityKeepsAbsence(r, "K9b-optional-bound-equality", "search")
	// the alias decides from ExtractFields whether the synonym / bm25 pre-search phase is needed
	ruleCompoundSwitchCoverage(r, "K13-compound-coverage")
	ruleAccumulatingWalkVisitsWholeTree(r, "K13-accumulating-walk-whole-tree", "search/query")
	ruleMergeAccumulates(r, "K9b-merge-accumulates", "search.(FieldTermSynonymMap).MergeWith", "search.(*FacetResult).Merge", "search.(FacetResults).Merge")
	r.Floor("K9b-member-request-carries-all", 12)
	r.Floor("K6-copy-isolation", 2)
	r.Floor("K5-multisearch-order", 3)
	r.Floor("K9b-result-merge", 8)
	r.Floor("K5-page-after-sort", 2)
}

func ruleCopySearchRequest(r *Report, rule string) {
	p := r.P
	fi := p.MustFunc("bleve.copySearchRequest")
	r.Fn(fi)
	info := fi.Pkg.TypesInfo
	_, st := structOf(p, "bleve", "SearchRequest")
	sig := fi.Obj.Type().(*types.Signature)
	reqParam := sig.Params().At(0)
	var lit *ast.CompositeLit
	ast.Inspect(fi.Decl.Body, func(n ast.Node) bool {
		if cl, ok := n.(*ast.CompositeLit); ok && lit == nil {
			if nt := namedOf(info.TypeOf(cl)); nt != nil && nt.Obj().Name() == "SearchRequest" {
				lit = cl
			}
		}
		return true
	})
	vals := map[string]ast.Expr{}
	anchor := fi.Decl.Pos()
	if lit != nil {
		anchor = lit.Pos()
		for _, el := range lit.Elts {
			if kv, ok := el.(*ast.KeyValueExpr); ok {
				vals[kv.Key.(*ast.Ident).Name] = kv.Value
			}
		}
	}
	// the same object built field by field: `rv.F = v` on a local of type (*)SearchRequest
	ast.Inspect(fi.Decl.Body, func(n ast.Node) bool {
		as, ok := n.(*ast.AssignStmt)
		if !ok || len(as.Lhs) != len(as.Rhs) {
			return true
		}
		for k, l := range as.Lhs {
			sel, ok := ast.Unparen(l).(*ast.SelectorExpr)
			if !ok {
				continue
			}
			base, isVar := objOf(info, sel.X).(*types.Var)
			if !isVar || base == reqParam || base.IsField() {
				continue
			}
			if nt := namedOf(info.TypeOf(sel.X)); nt != nil && nt.Obj().Name() == "SearchRequest" {
				if _, dup := vals[sel.Sel.Name]; !dup {
					vals[sel.Sel.Name] = as.Rhs[k]
				}
			}
		}
		return true
	})
	if len(vals) == 0 {
		undecidedf("%s: the member request is built neither by a literal nor field by field", fi.Name)
	}
	allow := map[string]string{
		"ClientContextID": "opaque client tag; members do not need it",
		"Params":          "root-only: score fusion / rescoring parameters are applied once on the merged result",
		"sortFunc":        "root-only: custom sort function used when merging",
		"PreSearchData":   "replaced by the per-member pre-search data argument",
	}
	for i := 0; i < st.NumFields(); i++ {
		f := st.Field(i)
		v, has := vals[f.Name()]
		if why, ok := allow[f.Name()]; ok && (!has || f.Name() == "PreSearchData") {
			r.Allow(rule, "SearchRequest."+f.Name(), f.Pos(), why)
			continue
		}
		switch f.Name() {
		case "Size":
			be, ok := ast.Unparen(resolveCopies(info, fi.Decl.Body, v)).(*ast.BinaryExpr) // possibly held in a local
			okv := ok && be.Op == token.ADD && ((isField(info, be.X, "SearchRequest", "Size") && isField(info, be.Y, "SearchRequest", "From")) || (isField(info, be.X, "SearchRequest", "From") && isField(info, be.Y, "SearchRequest", "Size")))
			r.Ob(rule, "SearchRequest.Size=Size+From", anchor, has && okv, "each member is asked for req.Size+req.From hits (any of them could fill the whole page)")
		case "From":
			r.Ob(rule, "SearchRequest.From=0", anchor, has && exprStr(v) == "0", "each member returns its hits from offset 0 (the offset is applied once, after merging)")
		case "Sort":
			okv := false
			if c, ok := ast.Unparen(v).(*ast.CallExpr); ok {
				if f2 := callee(info, c); f2 != nil && f2.Name() == "Copy" {
					okv = true
				}
			}
			r.Ob(rule, "SearchRequest.Sort=Copy()", anchor, has && okv, "each member gets its own copy of the sort order (sort objects carry per-search scratch state)")
		default:
			okv := has && isField(info, v, "SearchRequest", f.Name()) && objOf(info, ast.Unparen(v).(*ast.SelectorExpr).X) == reqParam
			r.Ob(rule, "SearchRequest."+f.Name()+"-carried", anchor, okv, "request field "+f.Name()+" must be passed on to every member unchanged (a dropped field changes what members return)")
		}
	}
}

// ruleCopyIsolation: every Copy() that starts from a shallow struct copy
// resets (or deep-copies) each slice/map field.
func ruleCopyIsolation(r *Report, rule string) {
	p := r.P
	n := 0
	for _, fi := range p.funcsInPkg("search") {
		if fi.Obj.Name() != "Copy" || fi.Decl.Recv == nil {
			continue
		}
		info := fi.Pkg.TypesInfo
		recv := recvObj(fi)
		// rv := *s
		var rv types.Object
		ast.Inspect(fi.Decl.Body, func(x ast.Node) bool {
			as, ok := x.(*ast.AssignStmt)
			if !ok || len(as.Lhs) != 1 || len(as.Rhs) != 1 {
				return true
			}
			if st, ok := ast.Unparen(as.Rhs[0]).(*ast.StarExpr); ok && objOf(info, st.X) == recv {
				rv = objOf(info, as.Lhs[0])
			}
			return true
		})
		if rv == nil {
			// literal style: return &T{F: s.F, ...}: every configuration field must be carried
			var lit *ast.CompositeLit
			ast.Inspect(fi.Decl.Body, func(x ast.Node) bool {
				if cl, ok := x.(*ast.CompositeLit); ok && lit == nil {
					if nt := namedOf(info.TypeOf(cl)); nt != nil && recv != nil && namedOf(recv.Type()) == nt {
						lit = cl
					}
				}
				return true
			})
			if lit == nil {
				continue
			}
			stt, ok := namedOf(recv.Type()).Underlying().(*types.Struct)
			if !ok {
				continue
			}
			r.Fn(fi)
			keyed := map[string]ast.Expr{}
			for _, el := range lit.Elts {
				if kv, ok := el.(*ast.KeyValueExpr); ok {
					if id, ok := kv.Key.(*ast.Ident); ok {
						keyed[id.Name] = kv.Value
					}
				}
			}
			for i := 0; i < stt.NumFields(); i++ {
				f := stt.Field(i)
				n++
				switch f.Type().Underlying().(type) {
				case *types.Slice, *types.Map:
					v, has := keyed[f.Name()]
					shared := has && isSelectorChain(v)
					r.Ob(rule, fi.Name+"/"+f.Name()+"-not-shared", fi.Decl.Pos(), !shared, "the slice/map field "+f.Name()+" of the copy must not be the original's (scratch buffers are appended to by concurrently searching alias members)")
				default:
					v, has := keyed[f.Name()]
					carried := has && strings.HasSuffix(exprStr(v), "."+f.Name())
					r.Ob("K9b-copy-carries-every-field", fi.Name+"/"+f.Name()+"-carried", fi.Decl.Pos(), carried, "Copy() builds the copy field by field; configuration field "+f.Name()+" is not carried over, so the per-member requests an alias builds from the copy sort differently from the original request (merged order differs from a single index)")
				}
			}
			continue
		}
		stt, ok := rv.Type().Underlying().(*types.Struct)
		if !ok {
			continue
		}
		r.Fn(fi)
		for i := 0; i < stt.NumFields(); i++ {
			f := stt.Field(i)
			switch f.Type().Underlying().(type) {
			case *types.Slice, *types.Map:
			default:
				continue
			}
			n++
			reset := false
			ast.Inspect(fi.Decl.Body, func(x ast.Node) bool {
				as, ok := x.(*ast.AssignStmt)
				if !ok {
					return true
				}
				for _, l := range as.Lhs {
					if sel, ok := ast.Unparen(l).(*ast.SelectorExpr); ok && objOf(info, sel.X) == rv && sel.Sel.Name == f.Name() {
						reset = true
					}
				}
				return true
			})
			r.Ob(rule, fi.Name+"/"+f.Name()+"-not-shared", fi.Decl.Pos(), reset, "Copy() starts from a shallow struct copy; the slice/map field "+f.Name()+" must be reset or deep-copied, otherwise the copies handed to concurrently searching alias members append into one backing array")
		}
	}
	if n == 0 {
		undecidedf("no shallow-copy Copy() with slice fields found in package search")
	}
}

func ruleMultiSearchOrder(r *Report, rule string) {
	p := r.P
	fi := p.MustFunc("bleve.MultiSearch")
	r.Fn(fi)
	info := fi.Pkg.TypesInfo
	g := buildCFG(info, fi.Decl.Body)
	var merges, pages, fixups []*ast.CallExpr
	for _, c := range callsIn(fi.Decl.Body) {
		f := callee(info, c)
		if f == nil {
			continue
		}
		switch {
		case methodIs("bleve/v2", "SearchResult", "Merge")(f):
			merges = append(merges, c)
		case f.Name() == "hitsInCurrentPage":
			pages = append(pages, c)
		case f.Name() == "Fixup":
			fixups = append(fixups, c)
		}
	}
	if len(merges) == 0 || len(pages) == 0 {
		undecidedf("%s: merge/page anchors not found", fi.Name)
	}
	for _, pg := range pages {
		ok := true
		for _, m := range merges {
			if g.ReachesNode(pg, m) { // a merge after the page cut
				ok = false
			}
			if !g.ReachesNode(m, pg) {
				ok = false
			}
		}
		r.Ob(rule, fi.Name+"/page-after-all-merges", pg.Pos(), ok, "the page is cut only after every member's result was merged (no merge can follow the cut)")
		// the cut is what applies From/Size (members were asked for Size+From from 0): it must run on every
		// successful return, whatever the members contributed
		uncond := true
		why := ""
		for _, rs := range returnsOf(fi.Decl.Body) {
			if len(rs.Results) == 2 && isNilIdent(info, rs.Results[1]) && g.ReachesNode(merges[0], rs) && !g.DominatesNode(pg, rs) {
				// a success return after merging that the cut does not dominate
				if !isNilIdent(info, rs.Results[0]) {
					uncond, why = false, "success return at "+p.Pos(rs.Pos())+" is reachable without the page cut (guards of the cut: "+factsString(g.GuardsOf(pg))+")"
				}
			}
		}
		r.Ob(rule, fi.Name+"/page-cut-on-every-success-path", pg.Pos(), uncond, "hitsInCurrentPage applies the requested From/Size to the merged list; "+why+" - a path that skips it returns hits [0, From+Size) instead of the requested page")
	}
	for _, fx := range fixups {
		ok := true
		for _, m := range merges {
			if g.ReachesNode(fx, m) {
				ok = false
			}
		}
		r.Ob(rule, fi.Name+"/facet-fixup-after-merges", fx.Pos(), ok, "facet buckets are trimmed to the requested size only after all members' facets were merged")
	}
	// the merge loop receives from every member: the range over the result channel has no early exit besides errors
	// members search concurrently and a request carries mutable scratch (the sort's buffers): what a goroutine
	// started inside a loop receives as its request must be built by the copy function in that same iteration
	isCopyCall := func(e ast.Expr) bool {
		c, ok := ast.Unparen(e).(*ast.CallExpr)
		if !ok {
			return false
		}
		f := callee(info, c)
		return f != nil && (f.Name() == "copySearchRequest" || f.Name() == "createChildSearchRequest")
	}
	nGo := 0
	ast.Inspect(fi.Decl.Body, func(x ast.Node) bool {
		gs, ok := x.(*ast.GoStmt)
		if !ok {
			return true
		}
		var loopBody *ast.BlockStmt
		for _, anc := range enclosing(fi.Decl.Body, gs) {
			switch l := anc.(type) {
			case *ast.RangeStmt:
				loopBody = l.Body
			case *ast.ForStmt:
				loopBody = l.Body
			}
		}
		if loopBody == nil {
			return true
		}
		for _, a := range gs.Call.Args {
			pt, isPtr := info.TypeOf(a).(*types.Pointer)
			if !isPtr {
				continue
			}
			if nt := namedOf(pt.Elem()); nt == nil || nt.Obj().Name() != "SearchRequest" {
				continue
			}
			nGo++
			own := isCopyCall(a)
			if id, isID := ast.Unparen(a).(*ast.Ident); isID {
				o := info.ObjectOf(id)
				defs, good := 0, 0
				ast.Inspect(fi.Decl.Body, func(y ast.Node) bool {
					as, ok := y.(*ast.AssignStmt)
					if !ok || len(as.Lhs) != len(as.Rhs) {
						return true
					}
					for k, l := range as.Lhs {
						if objOf(info, l) == o {
							defs++
							if isCopyCall(as.Rhs[k]) && as.Pos() >= loopBody.Pos() && as.End() <= loopBody.End() {
								good++
							}
						}
					}
					return true
				})
				own = defs > 0 && defs == good && declaredWithin(info, loopBody, o)
			}
			r.Ob(rule, fmt.Sprintf("%s/member-goroutine#%d-gets-its-own-request", fi.Name, nGo), gs.Pos(), own, "the request handed to a member's goroutine is not built by the copy function inside the same loop iteration: members searching concurrently then share one request and its sort's scratch buffers (data race, hits ordered by another member's values)")
		}
		return true
	})
	r.Ob(rule, fi.Name+"/member-requests-built-by-copySearchRequest", fi.Decl.Pos(), len(callsMatching(info, fi.Decl.Body, func(f *types.Func) bool { return f.Name() == "copySearchRequest" })) > 0 || len(callsMatching(info, fi.Decl.Body, func(f *types.Func) bool { return f.Name() == "createChildSearchRequest" })) > 0, "each member is queried with a request derived by copySearchRequest")
}

func ruleResultMerges(r *Report, rule string) {
	p := r.P
	// SearchResult.Merge
	sm := p.MustFunc("bleve.(*SearchResult).Merge")
	r.Fn(sm)
	info := sm.Pkg.TypesInfo
	g := buildCFG(info, sm.Decl.Body)
	for _, fld := range []string{"Hits", "Total", "Cost", "MaxScore"} {
		st := storesToField(info, sm.Decl.Body, "SearchResult", fld)
		ok := len(st) > 0
		for _, s := range st {
			// reachable on every path: no return before it
			for _, rs := range returnsOf(sm.Decl.Body) {
				if !g.DominatesNode(g.condOf(s.Stmt), rs) {
					ok = false
				}
			}
			other := false
			ast.Inspect(s.Stmt, func(x ast.Node) bool {
				if sel, isSel := x.(*ast.SelectorExpr); isSel && sel.Sel.Name == fld && objOf(info, sel.X) != recvObj(sm) {
					other = true
				}
				return true
			})
			if !other {
				ok = false
			}
		}
		r.Ob(rule, sm.Name+"/"+fld, sm.Decl.Pos(), ok, "SearchResult.Merge folds other."+fld+" into the receiver on every path")
	}
	statusMerged := len(callsMatching(info, sm.Decl.Body, methodIs("bleve/v2", "SearchStatus", "Merge"))) == 1
	facetsMerged := len(callsMatching(info, sm.Decl.Body, methodIs("search", "FacetResults", "Merge"))) == 1
	r.Ob(rule, sm.Name+"/Status", sm.Decl.Pos(), statusMerged, "member status (errors, successful/failed counts) is merged")
	r.Ob(rule, sm.Name+"/Facets", sm.Decl.Pos(), facetsMerged, "member facets are merged")
	// FacetResult.Merge
	fm := p.MustFunc("search.(*FacetResult).Merge")
	r.Fn(fm)
	finfo := fm.Pkg.TypesInfo
	fg := buildCFG(finfo, fm.Decl.Body)
	for _, fld := range []string{"Total", "Missing", "Other"} {
		st := storesToField(finfo, fm.Decl.Body, "FacetResult", fld)
		ok := len(st) == 1 && st[0].Tok == token.ADD_ASSIGN && len(fg.GuardsOf(st[0].Stmt)) == 0
		if ok {
			for _, rs := range returnsOf(fm.Decl.Body) {
				if !fg.DominatesNode(st[0].Stmt, rs) {
					ok = false
				}
			}
			ok = ok && isField(finfo, st[0].Rhs, "FacetResult", fld)
		}
		r.Ob(rule, fm.Name+"/"+fld+"-accumulated-unconditionally", fm.Decl.Pos(), ok, "FacetResult.Merge adds other."+fld+" unconditionally, before any early return (a member whose matches all lack the field still contributes its Missing/Total/Other)")
	}
	kinds := map[string]bool{}
	for _, fld := range []string{"Terms", "NumericRanges", "DateRanges"} {
		if len(selsOfField(finfo, fm.Decl.Body, "FacetResult", fld)) >= 2 {
			kinds[fld] = true
		}
	}
	var ks []string
	for k := range kinds {
		ks = append(ks, k)
	}
	sort.Strings(ks)
	r.Ob(rule, fm.Name+"/all-bucket-kinds-merged", fm.Decl.Pos(), len(kinds) == 3, fmt.Sprintf("terms, numeric-range and date-range buckets are all merged (found %s)", strings.Join(ks, ",")))
}

func ruleHitsInCurrentPage(r *Report, rule string) {
	p := r.P
	fi := p.MustFunc("bleve.hitsInCurrentPage")
	r.Fn(fi)
	info := fi.Pkg.TypesInfo
	g := buildCFG(info, fi.Decl.Body)
	var sorter *ast.CallExpr
	for _, c := range callsIn(fi.Decl.Body) {
		if f := callee(info, c); f != nil && f.Name() == "newSearchHitSorter" {
			sorter = c
		}
	}
	okSort := sorter != nil && len(sorter.Args) == 2 && isField(info, sorter.Args[0], "SearchRequest", "Sort")
	r.Ob(rule, fi.Name+"/sorts-with-request-order", fi.Decl.Pos(), okSort, "all merged hits are sorted with the request's sort order")
	// every slicing of hits happens after the sort
	okSlice := sorter != nil
	n := 0
	ast.Inspect(fi.Decl.Body, func(x ast.Node) bool {
		if se, ok := x.(*ast.SliceExpr); ok {
			n++
			if sorter == nil || !g.ReachesNode(sorter, se) || g.ReachesNode(se, sorter) {
				okSlice = false
			}
		}
		return true
	})
	r.Ob(rule, fi.Name+"/slices-after-sort", fi.Decl.Pos(), okSlice && n >= 2, "From/Size are applied to the sorted list, never before sorting")
	// From then Size
	fromFirst := false
	var fromSl, sizeSl *ast.SliceExpr
	ast.Inspect(fi.Decl.Body, func(x ast.Node) bool {
		if se, ok := x.(*ast.SliceExpr); ok {
			if se.Low != nil && isField(info, se.Low, "SearchRequest", "From") {
				fromSl = se
			}
			if se.High != nil {
				hi := ast.Unparen(resolveCopies(info, fi.Decl.Body, se.High))
				if isField(info, hi, "SearchRequest", "Size") {
					sizeSl = se
				}
				// min(len(hits), req.Size)
				if c, isCall := hi.(*ast.CallExpr); isCall && calleeBuiltin(info, c) == "min" {
					for _, a := range c.Args {
						if isField(info, resolveCopies(info, fi.Decl.Body, a), "SearchRequest", "Size") {
							sizeSl = se
						}
					}
				}
			}
		}
		return true
	})
	if fromSl != nil && sizeSl != nil {
		fromFirst = g.ReachesNode(fromSl, sizeSl) && !g.ReachesNode(sizeSl, fromSl)
	}
	r.Ob(rule, fi.Name+"/skip-From-then-take-Size", fi.Decl.Pos(), fromFirst, "the first From hits are skipped, then Size hits are kept")
}
