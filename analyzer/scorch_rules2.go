package main

import (
	"fmt"
	"go/ast"
	"go/token"
	"go/types"
	"sort"
	"strings"
)

// ruleMergeIntroducerRemap: deletions that arrived while a merge was running
// are mapped onto the merged segment before it replaces its inputs.
func ruleMergeIntroducerRemap(r *Report, in introducers, rule string) {
	fi := in.Merge
	r.Fn(fi)
	info := fi.Pkg.TypesInfo
	d := newDeps(info, fi.Decl.Body)
	g := buildCFG(info, fi.Decl.Body)
	rootVars := varsHoldingRoot(fi, d)
	// the per-new-segment accumulator: the variable used as `deleted:` of the
	// composite literal whose `segment:` is an element of segmentMerge.newSegments
	var acc types.Object
	var accPos token.Pos
	ast.Inspect(fi.Decl.Body, func(n ast.Node) bool {
		cl, ok := n.(*ast.CompositeLit)
		if !ok {
			return true
		}
		if nt := namedOf(info.TypeOf(cl)); nt == nil || nt.Obj().Name() != "SegmentSnapshot" {
			return true
		}
		var del, seg ast.Expr
		for _, el := range cl.Elts {
			if kv, ok := el.(*ast.KeyValueExpr); ok {
				switch kv.Key.(*ast.Ident).Name {
				case "deleted":
					del = kv.Value
				case "segment":
					seg = kv.Value
				}
			}
		}
		if del == nil || seg == nil {
			return true
		}
		sl := d.SliceOfExpr(seg)
		if sl["fld:segmentMerge.newSegments"] {
			if id := baseIdent(del); id != nil {
				acc = info.ObjectOf(id)
				accPos = cl.Pos()
			}
		}
		return true
	})
	if acc == nil {
		undecidedf("%s: cannot find the merged segment's exclusion accumulator", fi.Name)
	}
	accVar := acc.(*types.Var)
	sl := d.Slice(varKeyOf(accVar))
	hasRootDeleted := false
	for a := range sl {
		if strings.HasSuffix(a, ".deleted") && strings.HasPrefix(a, "v:") && rootVars[a[:strings.LastIndex(a, ".")]] {
			hasRootDeleted = true
		}
	}
	r.Ob(rule, fi.Name+"/merged.deleted<-root.deleted", accPos, hasRootDeleted, "the merged segment's exclusion bitmap depends on the CURRENT root's .deleted of each merged-away segment (deletions since the merge started)")
	r.Ob(rule, fi.Name+"/merged.deleted<-oldNewDocIDs", accPos, sl["fld:mergedSegmentHistory.oldNewDocIDs"], "old doc numbers are translated through the merge's old->new doc number map")
	r.Ob(rule, fi.Name+"/merged.deleted<-known-at-merge-start", accPos, sl["fld:mergedSegmentHistory.oldSegment"], "deletions already known when the merge started (history.oldSegment.deleted) are taken into account")
	r.Ob(rule, fi.Name+"/merged.deleted<-segments-dropped-meanwhile", accPos, sliceHasSuffix(sl, ".DocNumbersLive"), "inputs that vanished from the root meanwhile are applied through DocNumbersLive + remap")
	// guards of the remap sites
	nAdd := 0
	for _, c := range callsMatching(info, fi.Decl.Body, func(f *types.Func) bool { return f.Name() == "Add" && strings.Contains(qname(f), "roaring") }) {
		sel := ast.Unparen(c.Fun).(*ast.SelectorExpr)
		if id := baseIdent(sel.X); id == nil || info.ObjectOf(id) != acc {
			continue
		}
		nAdd++
		facts := g.RawGuardsOf(c) // a universal check: only the conditions as written count
		bad := ""
		for _, f := range facts {
			at := map[string]bool{}
			d.atoms(f.Expr, at)
			if at["fld:mergedSegmentHistory.oldSegment"] || at["fld:SegmentSnapshot.deleted"] && !factOnRootDeleted(info, f, rootVars) {
				bad = f.String()
			}
		}
		r.Ob(rule, fi.Name+"/remap-not-conditional-on-old-deletions", c.Pos(), bad == "",
			"the remap of newly deleted docs must not be conditional on the merge-time snapshot having had deletions ("+bad+"); guards: "+factsString(facts))
		// index of accumulator = history.batchID, value derives from oldNewDocIDs
		asl := d.SliceOfExpr(c.Args[0])
		r.Ob(rule, fi.Name+"/remap-through-oldNewDocIDs", c.Pos(), asl["fld:mergedSegmentHistory.oldNewDocIDs"], "the added doc number is the translated (new) doc number")
		if ix, ok := ast.Unparen(sel.X).(*ast.IndexExpr); ok {
			r.Ob(rule, fi.Name+"/remap-into-own-batch", c.Pos(), isField(info, ix.Index, "mergedSegmentHistory", "batchID"), "the deletion is recorded against the merged segment (batchID) that absorbed the old segment")
		}
	}
	if nAdd < 2 {
		r.Ob(rule, fi.Name+"/remap-sites", fi.Decl.Pos(), false, fmt.Sprintf("expected 2 remap sites (still-in-root and dropped-from-root inputs), found %d", nAdd))
	}
	// AndNot operands: current root's deleted minus the merge-time deleted (order matters)
	for _, c := range callsMatching(info, fi.Decl.Body, calleeIs("github.com/RoaringBitmap/roaring/v2.AndNot")) {
		if len(c.Args) != 2 {
			continue
		}
		a0 := map[string]bool{}
		d.atoms(resolveCopies(info, fi.Decl.Body, c.Args[0]), a0) // operands may be held in single-definition locals
		a1 := map[string]bool{}
		d.atoms(resolveCopies(info, fi.Decl.Body, c.Args[1]), a1)
		ok := !a0["fld:mergedSegmentHistory.oldSegment"] && a1["fld:mergedSegmentHistory.oldSegment"] && a0["fld:SegmentSnapshot.deleted"]
		r.Ob(rule, fi.Name+"/deletedSince=current-minus-known", c.Pos(), ok, "deletedSince = root's current .deleted AND NOT the merge-time .deleted (operand order)")
	}
	// carried-over (staying) segments keep id/segment/deleted of the same root element
	ast.Inspect(fi.Decl.Body, func(n ast.Node) bool {
		cl, ok := n.(*ast.CompositeLit)
		if !ok {
			return true
		}
		if nt := namedOf(info.TypeOf(cl)); nt == nil || nt.Obj().Name() != "SegmentSnapshot" {
			return true
		}
		vals := map[string]ast.Expr{}
		for _, el := range cl.Elts {
			if kv, ok := el.(*ast.KeyValueExpr); ok {
				vals[kv.Key.(*ast.Ident).Name] = resolveCopies(info, fi.Decl.Body, kv.Value) // `segmentID := x.id` earlier in the iteration
			}
		}
		seg := vals["segment"]
		if seg == nil || !isField(info, seg, "SegmentSnapshot", "segment") {
			return true
		}
		base := exprStr(ast.Unparen(seg).(*ast.SelectorExpr).X)
		ok2 := true
		for _, f := range []string{"id", "deleted", "stats", "cachedDocs"} {
			v := vals[f]
			if v == nil || !isField(info, v, "SegmentSnapshot", f) || exprStr(ast.Unparen(v).(*ast.SelectorExpr).X) != base {
				ok2 = false
			}
		}
		r.Ob(rule, fi.Name+"/carried-segment-keeps-own-fields", cl.Pos(), ok2, "a segment that stays is copied with id, segment, deleted, stats, cachedDocs all taken from the same root element "+base)
		return true
	})
}

func factOnRootDeleted(info *types.Info, f Fact, rootVars map[string]bool) bool {
	ok := false
	ast.Inspect(f.Expr, func(n ast.Node) bool {
		if sel, isSel := n.(*ast.SelectorExpr); isSel && isField(info, sel, "SegmentSnapshot", "deleted") {
			if id := baseIdent(sel.X); id != nil {
				if v, isVar := info.ObjectOf(id).(*types.Var); isVar && rootVars[varKeyOf(v)] {
					ok = true
				}
			}
		}
		return true
	})
	return ok
}

// ruleOffsetsAlignment (K14): in every constructor of a published snapshot,
// each append to .segment is paired with an append of the running offset to
// .offsets on the same path, and the accumulator advances by the segment's
// FULL Count() (raw segment, not the live count).
func ruleOffsetsAlignment(r *Report, rule string, fns []*FuncInfo) {
	for _, fi := range fns {
		r.Fn(fi)
		info := fi.Pkg.TypesInfo
		g := buildCFG(info, fi.Decl.Body)
		segApp := storesToField(info, fi.Decl.Body, "IndexSnapshot", "segment")
		offApp := storesToField(info, fi.Decl.Body, "IndexSnapshot", "offsets")
		isAppend := func(fs fieldStore) (*ast.CallExpr, bool) {
			c, ok := fs.Rhs.(*ast.CallExpr)
			if !ok || calleeBuiltin(info, c) != "append" || len(c.Args) != 2 {
				return nil, false
			}
			return c, true
		}
		n := 0
		for _, sa := range segApp {
			sc, ok := isAppend(sa)
			if !ok {
				continue
			}
			n++
			// partner: an offsets append in the same basic block
			ls, _ := g.Locate(sa.Stmt)
			var partner *ast.CallExpr
			var partnerStmt *ast.AssignStmt
			for _, oa := range offApp {
				oc, ok := isAppend(oa)
				if !ok {
					continue
				}
				lo, _ := g.Locate(oa.Stmt)
				if lo.B == ls.B && exprStr(oa.Lhs.X) == exprStr(sa.Lhs.X) {
					partner, partnerStmt = oc, oa.Stmt
				}
			}
			if partner == nil {
				r.Ob(rule, fi.Name+"/segment-append-has-offset-append", sa.Stmt.Pos(), false, "append to .segment without an append to .offsets on the same path (segments and offsets are consumed index-aligned)")
				continue
			}
			r.Ob(rule, fi.Name+"/segment-append-has-offset-append", sa.Stmt.Pos(), true, "")
			runObj := objOf(info, partner.Args[1])
			if runObj == nil {
				r.Ob(rule, fi.Name+"/offset=running", partnerStmt.Pos(), false, "appended offset is not the running accumulator variable")
				continue
			}
			// accumulator advance in the same block, after the offsets append, by <seg>.segment.Count() or <rawseg>.Count()
			adv := false
			detail := "no `running += <segment>.Count()` after the offset append on the same path"
			var advs []*ast.AssignStmt
			ast.Inspect(fi.Decl.Body, func(x ast.Node) bool {
				if as, ok := x.(*ast.AssignStmt); ok && as.Tok == token.ADD_ASSIGN && len(as.Lhs) == 1 && objOf(info, as.Lhs[0]) == runObj {
					advs = append(advs, as)
				}
				return true
			})
			for _, as := range advs {
				if factsString(g.GuardsOf(as)) != factsString(g.GuardsOf(sa.Stmt)) {
					continue // belongs to another branch
				}
				if !g.DominatesNode(partnerStmt, as) {
					detail = "accumulator advanced before its value is recorded as this segment's offset"
					continue
				}
				c, ok := as.Rhs[0].(*ast.CallExpr)
				if !ok {
					continue
				}
				f := callee(info, c)
				if f == nil || f.Name() != "Count" {
					continue
				}
				if methodIs(scorchPkg, "SegmentSnapshot", "Count")(f) {
					detail = "accumulator advanced by the LIVE count (SegmentSnapshot.Count) instead of the segment's full Count()"
					continue
				}
				// the counted segment is the one appended
				if sameSegmentExpr(info, sc.Args[1], ast.Unparen(c.Fun).(*ast.SelectorExpr).X, fi) {
					adv = true
				} else {
					detail = "accumulator advanced by the count of a different segment than the one appended"
				}
			}
			// the last append (brand-new segment at the end) needs no advance if nothing follows
			if !adv && !anyLaterAppend(g, sa, segApp) {
				r.Allow(rule, fi.Name+"/running-advanced-by-full-count", sa.Stmt.Pos(), "last segment appended; no later offset depends on the accumulator")
				continue
			}
			r.Ob(rule, fi.Name+"/running-advanced-by-full-count", sa.Stmt.Pos(), adv, detail)
		}
		if n == 0 {
			// element-wise copy form (persist introducer): offsets[i] = root.offsets[i]
			okCopy := false
			var copies []ast.Node
			ast.Inspect(fi.Decl.Body, func(nd ast.Node) bool {
				as, ok := nd.(*ast.AssignStmt)
				if !ok || len(as.Lhs) != 1 || len(as.Rhs) != 1 {
					return true
				}
				li, ok1 := ast.Unparen(as.Lhs[0]).(*ast.IndexExpr)
				ri, ok2 := ast.Unparen(as.Rhs[0]).(*ast.IndexExpr)
				if ok1 && ok2 && isField(info, li.X, "IndexSnapshot", "offsets") && isField(info, ri.X, "IndexSnapshot", "offsets") && exprStr(li.Index) == exprStr(ri.Index) {
					copies = append(copies, as)
				}
				return true
			})
			if len(copies) > 0 {
				// no iteration of the enclosing loop can end (or leave the function) without one of the copies
				var body *ast.BlockStmt
				for _, anc := range enclosing(fi.Decl.Body, copies[0]) {
					switch l := anc.(type) {
					case *ast.ForStmt:
						body = l.Body
					case *ast.RangeStmt:
						body = l.Body
					}
				}
				if body != nil {
					var start ast.Node
					ast.Inspect(body, func(y ast.Node) bool {
						if start != nil || y == nil {
							return false
						}
						if _, ok := g.Locate(y); ok && y != ast.Node(body) {
							start = y
							return false
						}
						return true
					})
					okCopy = start != nil && !g.exitAvoidingAll(start, copies)
				}
			}
			r.Ob(rule, fi.Name+"/offsets-copied-elementwise", fi.Decl.Pos(), okCopy, "a layout-preserving introducer copies offsets[i] = root.offsets[i] unconditionally for every i")
		}
	}
}

func anyLaterAppend(g *FCFG, sa fieldStore, all []fieldStore) bool {
	for _, o := range all {
		if o.Stmt != sa.Stmt && g.ReachesNode(sa.Stmt, o.Stmt) {
			return true
		}
	}
	// loops: the append may reach itself
	l, _ := g.Locate(sa.Stmt)
	return blockInLoop(g, l)
}

func blockInLoop(g *FCFG, l Loc) bool {
	seen := map[int32]bool{}
	var work []int32
	for _, s := range l.B.Succs {
		work = append(work, s.Index)
	}
	for len(work) > 0 {
		x := work[len(work)-1]
		work = work[:len(work)-1]
		if seen[x] {
			continue
		}
		seen[x] = true
		if x == l.B.Index {
			return true
		}
		for _, s := range g.G.Blocks[x].Succs {
			work = append(work, s.Index)
		}
	}
	return false
}

// sameSegmentExpr: the appended element `appended` (a *SegmentSnapshot value
// or composite literal) wraps the raw segment expression `raw`.
func sameSegmentExpr(info *types.Info, appended ast.Expr, raw ast.Expr, fi *FuncInfo) bool {
	rs := exprStr(raw)
	// appended is an identifier x and raw is x.segment
	if id, ok := ast.Unparen(appended).(*ast.Ident); ok {
		if rs == id.Name+".segment" {
			return true
		}
		// x was built from a literal with segment: E, and raw is E or root.segment[i].segment
		found := false
		ast.Inspect(fi.Decl.Body, func(n ast.Node) bool {
			as, ok := n.(*ast.AssignStmt)
			if !ok || len(as.Lhs) != 1 || objOf(info, as.Lhs[0]) != info.ObjectOf(id) {
				return true
			}
			if segOfLiteral(as.Rhs[0]) == rs {
				found = true
			}
			return true
		})
		return found
	}
	return segOfLiteral(appended) == rs
}

func segOfLiteral(e ast.Expr) string {
	e = ast.Unparen(e)
	if u, ok := e.(*ast.UnaryExpr); ok {
		e = u.X
	}
	cl, ok := e.(*ast.CompositeLit)
	if !ok {
		return ""
	}
	for _, el := range cl.Elts {
		if kv, ok := el.(*ast.KeyValueExpr); ok {
			if k, ok := kv.Key.(*ast.Ident); ok && k.Name == "segment" {
				return exprStr(kv.Value)
			}
		}
	}
	return ""
}

// ruleMergeUsingAlignment (K14): segments/drops given to MergeUsing are
// extended pairwise from the same SegmentSnapshot, and the merge history
// pairs newDocNums[j] with snapshots[j].
func ruleMergeUsingAlignment(r *Report, rule string) {
	p := r.P
	n := 0
	for _, fi := range p.funcsInPkg(scorchPkg) {
		info := fi.Pkg.TypesInfo
		// pairwise appends
		type app struct {
			field string
			stmt  *ast.AssignStmt
			val   ast.Expr
			recv  string
		}
		var apps []app
		for _, pair := range [][2]string{{"mergeBatch", "segments"}, {"mergeBatch", "drops"}, {"mergeBatch", "snapshots"},
			{"flushable", "sbsBatch"}, {"flushable", "sbsBatchDrops"}, {"flushable", "sbsBatchSnapshots"}} {
			for _, fs := range storesToField(info, fi.Decl.Body, pair[0], pair[1]) {
				if c, ok := fs.Rhs.(*ast.CallExpr); ok && calleeBuiltin(info, c) == "append" && len(c.Args) == 2 {
					apps = append(apps, app{pair[1], fs.Stmt, c.Args[1], exprStr(fs.Lhs.X)})
				}
			}
		}
		if len(apps) > 0 {
			r.Fn(fi)
			g := buildCFG(info, innermostFuncBody(fi.Decl, apps[0].stmt))
			groups := map[string][]app{}
			for _, a := range apps {
				l, _ := g.Locate(a.stmt)
				key := fmt.Sprintf("%s@b%d", a.recv, l.B.Index)
				groups[key] = append(groups[key], a)
			}
			for _, grp := range groups {
				n++
				var segBase, dropBase, snapBase string
				for _, a := range grp {
					switch a.field {
					case "segments", "sbsBatch":
						if isField(info, a.val, "SegmentSnapshot", "segment") {
							segBase = exprStr(ast.Unparen(a.val).(*ast.SelectorExpr).X)
						}
					case "drops", "sbsBatchDrops":
						if isField(info, a.val, "SegmentSnapshot", "deleted") {
							dropBase = exprStr(ast.Unparen(a.val).(*ast.SelectorExpr).X)
						}
					case "snapshots", "sbsBatchSnapshots":
						snapBase = exprStr(a.val)
					}
				}
				ok := segBase != "" && segBase == dropBase && segBase == snapBase
				r.Ob(rule, fi.Name+"/segments,drops,snapshots-extended-pairwise", grp[0].stmt.Pos(), ok,
					fmt.Sprintf("the merge inputs are extended together from one SegmentSnapshot: segment from %q, drops from %q, snapshot %q", segBase, dropBase, snapBase))
			}
		}
		// history literal
		ast.Inspect(fi.Decl.Body, func(nd ast.Node) bool {
			cl, ok := nd.(*ast.CompositeLit)
			if !ok {
				return true
			}
			if nt := namedOf(info.TypeOf(cl)); nt == nil || nt.Obj().Name() != "mergedSegmentHistory" {
				return true
			}
			r.Fn(fi)
			n++
			vals := map[string]ast.Expr{}
			for _, el := range cl.Elts {
				if kv, ok := el.(*ast.KeyValueExpr); ok {
					vals[kv.Key.(*ast.Ident).Name] = kv.Value
				}
			}
			// enclosing `for j, ss := range batch.snapshots`
			ok2 := false
			detail := "history entry must pair oldNewDocIDs: <batch>.newDocNums[j] with oldSegment: ss of `for j, ss := range <batch>.snapshots`, keyed by ss.id, batchID of the enclosing batch loop"
			for _, anc := range enclosing(fi.Decl.Body, cl) {
				rs, isR := anc.(*ast.RangeStmt)
				if !isR || !isField(info, rs.X, "mergeBatch", "snapshots") {
					continue
				}
				batchBase := exprStr(ast.Unparen(rs.X).(*ast.SelectorExpr).X)
				ix, isIx := ast.Unparen(vals["oldNewDocIDs"]).(*ast.IndexExpr)
				if !isIx || !isField(info, ix.X, "mergeBatch", "newDocNums") {
					continue
				}
				if exprStr(ast.Unparen(ix.X).(*ast.SelectorExpr).X) != batchBase {
					continue
				}
				if rs.Key == nil || objOf(info, ix.Index) != objOf(info, rs.Key) {
					continue
				}
				if rs.Value == nil || objOf(info, vals["oldSegment"]) != objOf(info, rs.Value) {
					continue
				}
				ok2 = true
			}
			// map key is ss.id
			for _, anc := range enclosing(fi.Decl.Body, cl) {
				if as, isAs := anc.(*ast.AssignStmt); isAs && len(as.Lhs) == 1 {
					if ix, isIx := ast.Unparen(as.Lhs[0]).(*ast.IndexExpr); isIx {
						if !isField(info, ix.Index, "SegmentSnapshot", "id") || objOf(info, ast.Unparen(ix.Index).(*ast.SelectorExpr).X) != objOf(info, vals["oldSegment"]) {
							ok2 = false
							detail = "history map must be keyed by the id of the same old segment"
						}
					}
				}
			}
			r.Ob(rule, fi.Name+"/history-pairs-docnums-with-snapshot", cl.Pos(), ok2, detail)
			return true
		})
		// MergeUsing arguments: same batch's segments and drops
		for _, c := range callsMatching(info, fi.Decl.Body, func(f *types.Func) bool { return f.Name() == "MergeUsing" }) {
			if len(c.Args) < 3 || !isField(info, c.Args[0], "mergeBatch", "segments") {
				continue
			}
			r.Fn(fi)
			n++
			ok := isField(info, c.Args[1], "mergeBatch", "drops") &&
				exprStr(ast.Unparen(c.Args[0]).(*ast.SelectorExpr).X) == exprStr(ast.Unparen(c.Args[1]).(*ast.SelectorExpr).X)
			// result stored into the same batch's newDocNums
			stored := false
			for _, anc := range enclosing(fi.Decl.Body, c) {
				if as, isAs := anc.(*ast.AssignStmt); isAs && len(as.Lhs) >= 1 && isField(info, as.Lhs[0], "mergeBatch", "newDocNums") {
					stored = exprStr(ast.Unparen(as.Lhs[0]).(*ast.SelectorExpr).X) == exprStr(ast.Unparen(c.Args[0]).(*ast.SelectorExpr).X)
				}
			}
			r.Ob(rule, fi.Name+"/MergeUsing(batch.segments,batch.drops)->batch.newDocNums", c.Pos(), ok && stored, "MergeUsing receives the segments and drops of one batch and its doc-number maps are stored on that batch")
		}
	}
	if n < 5 {
		undecidedf("merge alignment rule matched only %d sites", n)
	}
}

// ruleMarkBeforeCreate (C03d / C12d): the file a merge produces is marked
// ineligible for removal before MergeUsing creates it; the path handed to
// MergeUsing is that file; marks of merge INPUT files are cleared only when
// the merge task succeeded; the produced file is un-marked by the merger only
// on failure/skip.
func ruleMarkBeforeCreate(r *Report, rule string) {
	p := r.P
	n := 0
	for _, fi := range p.funcsInPkg(scorchPkg) {
		info := fi.Pkg.TypesInfo
		for _, c := range callsMatching(info, fi.Decl.Body, func(f *types.Func) bool { return f.Name() == "MergeUsing" }) {
			if len(c.Args) < 3 || !isField(info, c.Args[0], "mergeBatch", "segments") {
				continue
			}
			r.Fn(fi)
			n++
			body := innermostFuncBody(fi.Decl, c)
			g := buildCFG(info, body)
			d := newDeps(info, body)
			marks := callsMatching(info, body, methodIs(scorchPkg, "Scorch", "markIneligibleForRemoval"))
			dom := false
			sameFile := false
			for _, m := range marks {
				if g.DominatesNode(m, c) && isField(info, m.Args[0], "mergeBatch", "newFilename") {
					dom = true
				}
			}
			psl := d.SliceOfExpr(c.Args[2])
			sameFile = psl["fld:mergeBatch.newFilename"]
			r.Ob(rule, fi.Name+"/mark-dominates-MergeUsing", c.Pos(), dom, "markIneligibleForRemoval(batch.newFilename) is executed on every path before MergeUsing creates that file (the purger may run at any moment)")
			r.Ob(rule, fi.Name+"/MergeUsing-path=marked-file", c.Pos(), sameFile, "the path given to MergeUsing is built from the marked file name")
		}
	}
	if n < 2 {
		undecidedf("expected 2 MergeUsing sites on mergeBatch, found %d", n)
	}
	// un-mark discipline in the file merger
	fi := p.MustFunc("index/scorch.(*Scorch).planMergeAtSnapshot")
	info := fi.Pkg.TypesInfo
	// (1) deletes of input file marks (range over batch.filenames) only under err == nil
	nIn := 0
	for _, rs := range rangesOverField(info, fi.Decl.Body, "mergeBatch", "filenames") {
		for _, c := range builtinCalls(info, rs.Body, "delete") {
			if !isField(info, c.Args[0], "Scorch", "ineligibleForRemoval") {
				continue
			}
			nIn++
			body := innermostFuncBody(fi.Decl, c)
			g := buildCFG(info, body)
			facts := g.GuardsOf(c)
			ok := false
			for _, f := range facts {
				if x, isNil, isT := errNilFact(info, f); isT && isNil && isErrorType(info.TypeOf(nilTestOperand(info, f.Expr))) {
					_ = x
					ok = true
				}
			}
			r.Ob(rule, fi.Name+"/input-marks-cleared-only-on-success", c.Pos(), ok, "the ineligible marks of a merge's INPUT files are cleared only when the whole task succeeded (err == nil); on failure the inputs may still be unpersisted merge products in the root (guards: "+factsString(facts)+")")
			r.Ob(rule, fi.Name+"/input-marks-cleared-under-rootLock", c.Pos(), lockHeldAt(g, info, c, "rootLock", "W"), "ineligibleForRemoval is mutated with rootLock write-held")
		}
	}
	if nIn == 0 {
		r.Ob(rule, fi.Name+"/input-marks-cleared-only-on-success", fi.Decl.Pos(), false, "no site clears the input files' marks")
	}
	// (2) un-mark of the produced file by the merger: only on err != nil or skipped
	for _, nm := range []string{"index/scorch.(*Scorch).planMergeAtSnapshot", "index/scorch.(*Scorch).mergeAndPersistInMemorySegments"} {
		fi := p.MustFunc(nm)
		info := fi.Pkg.TypesInfo
		sites := []*ast.CallExpr{}
		for _, c := range callsMatching(info, fi.Decl.Body, methodIs(scorchPkg, "Scorch", "unmarkIneligibleForRemoval")) {
			if isField(info, c.Args[0], "mergeBatch", "newFilename") {
				sites = append(sites, c)
			}
		}
		for _, c := range builtinCalls(info, fi.Decl.Body, "delete") {
			if len(c.Args) == 2 && isField(info, c.Args[0], "Scorch", "ineligibleForRemoval") && isField(info, c.Args[1], "mergeBatch", "newFilename") {
				sites = append(sites, c)
			}
		}
		for _, c := range sites {
			body := innermostFuncBody(fi.Decl, c)
			g := buildCFG(info, body)
			facts := g.GuardsOf(c)
			ok := false
			for _, f := range facts {
				if _, isNil, isT := errNilFact(info, f); isT && !isNil && isErrorType(info.TypeOf(nilTestOperand(info, f.Expr))) {
					ok = true
				}
				// the per-batch "introduction was skipped" flag: the value variable of a range over introStatus.skipped
				if id, isID := ast.Unparen(f.Expr).(*ast.Ident); isID && f.Truth {
					for _, anc := range enclosing(fi.Decl.Body, c) {
						if rs, isRange := anc.(*ast.RangeStmt); isRange && rs.Value != nil && objOf(info, rs.Value) == info.ObjectOf(id) && isField(info, rs.X, "mergeTaskIntroStatus", "skipped") {
							ok = true
						}
					}
				}
			}
			r.Ob(rule, fi.Name+"/produced-file-unmarked-only-on-failure-or-skip", c.Pos(), ok, "the merger un-marks the file it produced only when the task failed or the introduction was skipped; otherwise the mark stays until a committed bolt snapshot names the file (guards: "+factsString(facts)+")")
		}
		if len(sites) == 0 {
			r.Ob(rule, fi.Name+"/produced-file-unmarked-only-on-failure-or-skip", fi.Decl.Pos(), false, "no un-mark of the produced file on failure/skip: failed merges would leak files forever")
		}
	}
}

// rulePersistIntroducerCarry (K9b): a segment replaced by its persisted twin
// keeps id, deleted, stats, cachedDocs, cachedMeta of the in-memory one.
func rulePersistIntroducerCarry(r *Report, in introducers, rule string) {
	fi := in.Persist
	r.Fn(fi)
	info := fi.Pkg.TypesInfo
	n := 0
	ast.Inspect(fi.Decl.Body, func(nd ast.Node) bool {
		cl, ok := nd.(*ast.CompositeLit)
		if !ok {
			return true
		}
		if nt := namedOf(info.TypeOf(cl)); nt == nil || nt.Obj().Name() != "SegmentSnapshot" {
			return true
		}
		n++
		vals := map[string]ast.Expr{}
		for _, el := range cl.Elts {
			if kv, ok := el.(*ast.KeyValueExpr); ok {
				vals[kv.Key.(*ast.Ident).Name] = kv.Value
			}
		}
		// the replaced snapshot: the range value over root.segment
		var base string
		for _, anc := range enclosing(fi.Decl.Body, cl) {
			if rs, ok := anc.(*ast.RangeStmt); ok && isField(info, rs.X, "IndexSnapshot", "segment") && rs.Value != nil {
				base = exprStr(rs.Value)
			}
		}
		for _, f := range []string{"id", "deleted", "stats", "cachedDocs", "cachedMeta"} {
			v := vals[f]
			ok := v != nil && isField(info, v, "SegmentSnapshot", f) && base != "" && exprStr(ast.Unparen(v).(*ast.SelectorExpr).X) == base
			r.Ob(rule, fi.Name+"/replacement-keeps-"+f, cl.Pos(), ok, "the persisted replacement of a segment must carry ."+f+" of the segment it replaces (allow-listed as freshly set: segment, creator, mmaped)")
		}
		// segment = the replacement looked up by the same id
		seg := vals["segment"]
		okSeg := false
		if seg != nil {
			d := newDeps(info, fi.Decl.Body)
			sl := d.SliceOfExpr(seg)
			okSeg = sl["fld:persistIntroduction.persisted"]
		}
		r.Ob(rule, fi.Name+"/replacement-segment-from-persisted-map", cl.Pos(), okSeg, "the new raw segment is the entry of persist.persisted for this segment id")
		return true
	})
	if n != 1 {
		undecidedf("%s: expected one SegmentSnapshot literal, found %d", fi.Name, n)
	}
	// untouched segments are carried as-is: newSnapshot.segment[i] = root.segment[i]
	okCarry := false
	ast.Inspect(fi.Decl.Body, func(nd ast.Node) bool {
		as, ok := nd.(*ast.AssignStmt)
		if !ok || len(as.Lhs) != 1 || len(as.Rhs) != 1 {
			return true
		}
		li, ok1 := ast.Unparen(as.Lhs[0]).(*ast.IndexExpr)
		if !ok1 || !isField(info, li.X, "IndexSnapshot", "segment") {
			return true
		}
		// the right-hand side is the old root's element at the same index: root.segment[i], or the
		// value variable of `for i, v := range root.segment`
		coll, key, ok2 := elemOfCollection(info, fi.Decl.Body, as.Rhs[0])
		if ok2 && isField(info, coll, "IndexSnapshot", "segment") && key != nil && exprStr(li.Index) == exprStr(key) && exprStr(ast.Unparen(li.X)) != exprStr(ast.Unparen(coll)) {
			okCarry = true
		}
		return true
	})
	r.Ob(rule, fi.Name+"/unreplaced-segments-carried-at-same-index", fi.Decl.Pos(), okCarry, "segments without a persisted twin are carried over at the same index")
}

// ruleFlushableAlignment (K14, persister side): the three parallel slices a
// flushable carries (raw segments, drops, snapshots) are extended pairwise
// from one SegmentSnapshot / one index and stored into the literal in role
// order.
func ruleFlushableAlignment(r *Report, rule string) {
	p := r.P
	var fi *FuncInfo
	for _, f := range p.funcsInPkg(scorchPkg) {
		info := f.Pkg.TypesInfo
		found := false
		ast.Inspect(f.Decl.Body, func(n ast.Node) bool {
			if cl, ok := n.(*ast.CompositeLit); ok {
				if nt := namedOf(info.TypeOf(cl)); nt != nil && nt.Obj().Name() == "flushable" {
					found = true
				}
			}
			return true
		})
		if found {
			if fi != nil {
				undecidedf("two functions build flushable literals: %s, %s", fi.Name, f.Name)
			}
			fi = f
		}
	}
	if fi == nil {
		undecidedf("no function builds a flushable")
	}
	r.Fn(fi)
	info := fi.Pkg.TypesInfo
	g := buildCFG(info, fi.Decl.Body)
	type app struct {
		lhs  types.Object
		val  ast.Expr
		stmt *ast.AssignStmt
	}
	groups := map[int32][]app{}
	ast.Inspect(fi.Decl.Body, func(n ast.Node) bool {
		as, ok := n.(*ast.AssignStmt)
		if !ok || len(as.Lhs) != 1 || len(as.Rhs) != 1 {
			return true
		}
		c, ok := as.Rhs[0].(*ast.CallExpr)
		if !ok || calleeBuiltin(info, c) != "append" || len(c.Args) != 2 {
			return true
		}
		lo := objOf(info, as.Lhs[0])
		if lo == nil {
			return true
		}
		l, ok := g.Locate(as)
		if !ok {
			return true
		}
		groups[l.B.Index] = append(groups[l.B.Index], app{lo, c.Args[1], as})
		return true
	})
	// role triples: (segments, drops, snapshots)
	type triple struct{ seg, drop, snap types.Object }
	var triples []triple
	for _, grp := range groups {
		var t triple
		var segBase, dropBase, snapBase string
		var idx []string
		for _, a := range grp {
			v := ast.Unparen(a.val)
			switch {
			case isField(info, v, "SegmentSnapshot", "segment"):
				t.seg, segBase = a.lhs, exprStr(v.(*ast.SelectorExpr).X)
			case isField(info, v, "SegmentSnapshot", "deleted"):
				t.drop, dropBase = a.lhs, exprStr(v.(*ast.SelectorExpr).X)
			default:
				if typeIs(info.TypeOf(v), scorchPkg, "SegmentSnapshot") {
					if ix, ok := v.(*ast.IndexExpr); ok {
						idx = append(idx, exprStr(ix.Index))
						_ = ix
					} else {
						t.snap, snapBase = a.lhs, exprStr(v)
					}
				}
			}
		}
		if t.seg != nil || t.drop != nil {
			ok := t.seg != nil && t.drop != nil && t.snap != nil && segBase == dropBase && segBase == snapBase
			r.Ob(rule, fi.Name+"/unpersisted-triple-extended-from-one-snapshot", grp[0].stmt.Pos(), ok,
				fmt.Sprintf("raw segment, drops and snapshot lists are extended together from one SegmentSnapshot (segment of %q, deleted of %q, snapshot %q)", segBase, dropBase, snapBase))
			if ok {
				triples = append(triples, t)
			}
			continue
		}
	}
	// index-form groups: X = append(X, A[i]) for A in a known triple with the same i
	for _, grp := range groups {
		var t triple
		var idxs = map[string]bool{}
		n := 0
		for _, a := range grp {
			ix, ok := ast.Unparen(a.val).(*ast.IndexExpr)
			if !ok {
				continue
			}
			src := objOf(info, ix.X)
			for _, k := range triples {
				switch src {
				case k.seg:
					t.seg = a.lhs
					n++
					idxs[exprStr(ix.Index)] = true
				case k.drop:
					t.drop = a.lhs
					n++
					idxs[exprStr(ix.Index)] = true
				case k.snap:
					t.snap = a.lhs
					n++
					idxs[exprStr(ix.Index)] = true
				}
			}
		}
		if n == 0 {
			continue
		}
		ok := t.seg != nil && t.drop != nil && t.snap != nil && len(idxs) == 1
		r.Ob(rule, fi.Name+"/batch-triple-extended-at-one-index", grp[0].stmt.Pos(), ok, "per-worker batches take segment, drops and snapshot at the same index of the aligned source lists")
		if ok {
			triples = append(triples, t)
		}
	}
	// literals
	nlit := 0
	for _, bo := range builtObjects(info, fi.Decl.Body, "flushable") {
		cl := bo
		nlit++
		got := map[string]types.Object{}
		for name, val := range bo.Vals {
			v := ast.Unparen(val)
			if c, ok := v.(*ast.CallExpr); ok && len(c.Args) == 1 { // slices.Clone(x)
				v = c.Args[0]
			}
			got[name] = objOf(info, v)
		}
		ok2 := false
		for _, k := range triples {
			if got["sbsBatch"] == k.seg && got["sbsBatchDrops"] == k.drop && got["sbsBatchSnapshots"] == k.snap && k.seg != nil {
				ok2 = true
			}
		}
		r.Ob(rule, fi.Name+"/flushable-fields-in-role-order", cl.Pos, ok2, "flushable{sbsBatch, sbsBatchDrops, sbsBatchSnapshots} is filled from one aligned (segments, drops, snapshots) triple in that order")
		// a working slice that is re-sliced to [:0] and refilled must be COPIED into the literal
		var fnames []string
		for name := range bo.Vals {
			fnames = append(fnames, name)
		}
		sort.Strings(fnames)
		for _, fname := range fnames {
			val := bo.Vals[fname]
			v := ast.Unparen(val)
			copied := false
			if c, ok := v.(*ast.CallExpr); ok {
				copied = true
				if len(c.Args) >= 1 {
					v = c.Args[0]
				}
			}
			src := objOf(info, v)
			if src == nil {
				continue
			}
			reused := false
			ast.Inspect(fi.Decl.Body, func(m ast.Node) bool {
				as, ok := m.(*ast.AssignStmt)
				if !ok {
					return true
				}
				for i, l := range as.Lhs {
					if objOf(info, l) != src || i >= len(as.Rhs) {
						continue
					}
					if se, ok := ast.Unparen(as.Rhs[i]).(*ast.SliceExpr); ok && objOf(info, se.X) == src {
						reused = true
					}
				}
				return true
			})
			if reused {
				r.Ob(rule, fi.Name+"/reused-working-slice-copied/"+fname, val.Pos(), copied, "the working slice "+src.Name()+" is truncated with [:0] and refilled for the next group, so the flushable must hold a copy (slices.Clone); an alias would make an earlier group see a later group's entries")
			}
		}
	}
	if nlit < 1 || len(triples) < 1 {
		undecidedf("%s: flushable alignment anchors not found (literals=%d triples=%d)", fi.Name, nlit, len(triples))
	}
	// mergeBatch literal built from a flushable keeps the roles
	mf := p.MustFunc("index/scorch.(*Scorch).mergeAndPersistInMemorySegments")
	r.Fn(mf)
	minfo := mf.Pkg.TypesInfo
	ast.Inspect(mf.Decl.Body, func(n ast.Node) bool {
		cl, ok := n.(*ast.CompositeLit)
		if !ok {
			return true
		}
		if nt := namedOf(minfo.TypeOf(cl)); nt == nil || nt.Obj().Name() != "mergeBatch" {
			return true
		}
		want := map[string]string{"segments": "sbsBatch", "drops": "sbsBatchDrops", "snapshots": "sbsBatchSnapshots"}
		ok2 := true
		base := ""
		for _, el := range cl.Elts {
			kv, ok := el.(*ast.KeyValueExpr)
			if !ok {
				continue
			}
			k := kv.Key.(*ast.Ident).Name
			if w, has := want[k]; has {
				if !isField(minfo, kv.Value, "flushable", w) {
					ok2 = false
				} else {
					b := exprStr(ast.Unparen(kv.Value).(*ast.SelectorExpr).X)
					if base != "" && b != base {
						ok2 = false
					}
					base = b
				}
				delete(want, k)
			}
		}
		r.Ob(rule, mf.Name+"/mergeBatch-from-one-flushable", cl.Pos(), ok2 && len(want) == 0, "mergeBatch{snapshots, segments, drops} are the three aligned lists of ONE flushable")
		return true
	})
}

// elemOfCollection: e denotes "the element of collection C at index K" - spelled
// C[K], or as the value variable of a `for K, v := range C` loop enclosing it.
func elemOfCollection(info *types.Info, body ast.Node, e ast.Expr) (coll ast.Expr, key ast.Expr, ok bool) {
	e = ast.Unparen(e)
	if ix, isIx := e.(*ast.IndexExpr); isIx {
		return ix.X, ix.Index, true
	}
	id, isId := e.(*ast.Ident)
	if !isId {
		return nil, nil, false
	}
	o := info.ObjectOf(id)
	ast.Inspect(body, func(n ast.Node) bool {
		if rs, isR := n.(*ast.RangeStmt); isR && rs.Value != nil {
			if vid, isV := rs.Value.(*ast.Ident); isV && info.ObjectOf(vid) == o && o != nil {
				coll, key, ok = rs.X, rs.Key, true
			}
		}
		return true
	})
	return
}
