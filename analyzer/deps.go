package main

import (
	"go/ast"
	"go/token"
	"go/types"
	"sort"
	"strings"
)

// Flow-insensitive intra-procedural data dependence over the AST.
//
// Locations:   "v:<name>@<declpos>"            a local variable / parameter
//              "v:<name>@<declpos>.<field>"    a field stored through it
// Atoms (leaves of the dependence relation, reported in slices):
//              "fld:<Type>.<field>"            read of a struct field
//              "call:<qualified callee>"       result of a call
//              "v:..."                         variables (also locations)
//
// Slice(loc) = everything loc may be computed from (transitively).  It is an
// over-approximation of data dependence (no kill), therefore a "must depend
// on X" rule built on it can miss a violation but cannot raise a false alarm
// because of flow-insensitivity alone.

type Deps struct {
	info  *types.Info
	edges map[string]map[string]bool
}

func newDeps(info *types.Info, body ast.Node) *Deps {
	d := &Deps{info: info, edges: map[string]map[string]bool{}}
	d.build(body)
	return d
}

func (d *Deps) add(loc string, atoms map[string]bool) {
	if loc == "" {
		return
	}
	m := d.edges[loc]
	if m == nil {
		m = map[string]bool{}
		d.edges[loc] = m
	}
	for a := range atoms {
		if a != loc {
			m[a] = true
		}
	}
}

func (d *Deps) varKey(id *ast.Ident) string {
	obj := d.info.ObjectOf(id)
	if obj == nil {
		return ""
	}
	if _, ok := obj.(*types.Var); !ok {
		return ""
	}
	return "v:" + obj.Name() + "@" + itoa(int(obj.Pos()))
}

func itoa(i int) string {
	if i == 0 {
		return "0"
	}
	neg := i < 0
	if neg {
		i = -i
	}
	var b [20]byte
	p := len(b)
	for i > 0 {
		p--
		b[p] = byte('0' + i%10)
		i /= 10
	}
	if neg {
		p--
		b[p] = '-'
	}
	return string(b[p:])
}

// baseVar finds the root identifier of an lvalue/receiver expression.
func baseIdent(e ast.Expr) *ast.Ident {
	for {
		switch x := ast.Unparen(e).(type) {
		case *ast.Ident:
			return x
		case *ast.SelectorExpr:
			e = x.X
		case *ast.IndexExpr:
			e = x.X
		case *ast.StarExpr:
			e = x.X
		case *ast.SliceExpr:
			e = x.X
		case *ast.UnaryExpr:
			e = x.X
		case *ast.TypeAssertExpr:
			e = x.X
		case *ast.CallExpr:
			return nil
		default:
			return nil
		}
	}
}

// fieldOfSel resolves a selector expression to the struct field it selects.
func fieldOfSel(info *types.Info, sel *ast.SelectorExpr) *types.Var {
	if s, ok := info.Selections[sel]; ok && s.Kind() == types.FieldVal {
		if v, ok := s.Obj().(*types.Var); ok {
			return v
		}
	}
	return nil
}

func fieldAtom(info *types.Info, sel *ast.SelectorExpr) string {
	v := fieldOfSel(info, sel)
	if v == nil {
		return ""
	}
	s := info.Selections[sel]
	t := s.Recv()
	if pt, ok := t.(*types.Pointer); ok {
		t = pt.Elem()
	}
	name := t.String()
	if nt, ok := t.(*types.Named); ok {
		name = nt.Obj().Name()
	}
	return "fld:" + name + "." + canonFieldName(v)
}

// atoms collects the leaves an expression is computed from.
func (d *Deps) atoms(e ast.Node, out map[string]bool) {
	if e == nil {
		return
	}
	ast.Inspect(e, func(n ast.Node) bool {
		switch x := n.(type) {
		case *ast.FuncLit:
			// values captured by a closure flow into it
			return true
		case *ast.Ident:
			if k := d.varKey(x); k != "" {
				out[k] = true
			}
		case *ast.SelectorExpr:
			if a := fieldAtom(d.info, x); a != "" {
				out[a] = true
				if id := baseIdent(x.X); id != nil {
					if k := d.varKey(id); k != "" {
						fname := x.Sel.Name
						if fv := fieldOfSel(d.info, x); fv != nil {
							fname = canonFieldName(fv)
						}
						out[k+"."+fname] = true
					}
				}
			}
		case *ast.CallExpr:
			if f := callee(d.info, x); f != nil {
				out["call:"+qname(f)] = true
			} else if b := calleeBuiltin(d.info, x); b != "" {
				out["call:builtin."+b] = true
			} else if v := calleeVarName(d.info, x); v != "" {
				out["call:"+v] = true
			}
		}
		return true
	})
}

// lhsLoc returns the location keys written by an assignment to e.
func (d *Deps) lhsLocs(e ast.Expr) []string {
	e = ast.Unparen(e)
	switch x := e.(type) {
	case *ast.Ident:
		if x.Name == "_" {
			return nil
		}
		if k := d.varKey(x); k != "" {
			return []string{k}
		}
	case *ast.SelectorExpr:
		id := baseIdent(x.X)
		if id == nil {
			return nil
		}
		k := d.varKey(id)
		if k == "" {
			return nil
		}
		// field store: the specific field location and the whole variable
		fname := x.Sel.Name
		if fv := fieldOfSel(d.info, x); fv != nil {
			fname = canonFieldName(fv)
		}
		return []string{k + "." + fname, k + ".*"}
	case *ast.IndexExpr, *ast.StarExpr, *ast.SliceExpr:
		if id := baseIdent(e); id != nil {
			if k := d.varKey(id); k != "" {
				return []string{k}
			}
		}
	}
	return nil
}

func (d *Deps) build(body ast.Node) {
	ast.Inspect(body, func(n ast.Node) bool {
		switch s := n.(type) {
		case *ast.AssignStmt:
			if len(s.Lhs) == len(s.Rhs) {
				for i := range s.Lhs {
					at := map[string]bool{}
					d.atoms(s.Rhs[i], at)
					if s.Tok != token.ASSIGN && s.Tok != token.DEFINE {
						d.atoms(s.Lhs[i], at) // x op= y
					}
					// index expressions on the LHS contribute (m[k] = v depends on k)
					if ix, ok := ast.Unparen(s.Lhs[i]).(*ast.IndexExpr); ok {
						d.atoms(ix.Index, at)
					}
					for _, l := range d.lhsLocs(s.Lhs[i]) {
						d.add(l, at)
					}
				}
			} else if len(s.Rhs) == 1 {
				at := map[string]bool{}
				d.atoms(s.Rhs[0], at)
				for _, lh := range s.Lhs {
					for _, l := range d.lhsLocs(lh) {
						d.add(l, at)
					}
				}
			}
		case *ast.ValueSpec:
			for i, name := range s.Names {
				at := map[string]bool{}
				if len(s.Values) == len(s.Names) {
					d.atoms(s.Values[i], at)
				} else if len(s.Values) == 1 {
					d.atoms(s.Values[0], at)
				}
				for _, l := range d.lhsLocs(name) {
					d.add(l, at)
				}
			}
		case *ast.RangeStmt:
			at := map[string]bool{}
			d.atoms(s.X, at)
			if s.Key != nil {
				for _, l := range d.lhsLocs(s.Key) {
					d.add(l, at)
				}
			}
			if s.Value != nil {
				for _, l := range d.lhsLocs(s.Value) {
					d.add(l, at)
				}
			}
		case *ast.IncDecStmt:
		case *ast.CallExpr:
			// method call with a variable receiver: x.M(args) may mutate x
			if sel, ok := ast.Unparen(s.Fun).(*ast.SelectorExpr); ok {
				if _, isMethod := d.info.Selections[sel]; isMethod {
					if id := baseIdent(sel.X); id != nil {
						at := map[string]bool{}
						for _, a := range s.Args {
							d.atoms(a, at)
						}
						if len(at) > 0 {
							if f := callee(d.info, s); f != nil {
								at["call:"+qname(f)] = true
							}
							locs := d.lhsLocs(sel.X)
							for _, l := range locs {
								d.add(l, at)
							}
						}
					}
				}
			}
			// append(x, y): handled through the assignment x = append(x, y)
		}
		return true
	})
}

// expandLoc lists the location keys a read of atom a depends on: a field
// location also depends on whole-variable assignments; a whole-variable read
// also depends on every field store through it.
func expandLoc(a string) []string {
	if !strings.HasPrefix(a, "v:") {
		return nil
	}
	at := strings.Index(a, "@")
	if at < 0 {
		return []string{a}
	}
	if i := strings.Index(a[at:], "."); i >= 0 {
		return []string{a, a[:at+i]}
	}
	return []string{a, a + ".*"}
}

// Slice returns the transitive closure of atoms the given location keys may
// be computed from.
func (d *Deps) Slice(locs ...string) map[string]bool {
	out := map[string]bool{}
	var work []string
	for _, l := range locs {
		work = append(work, expandLoc(l)...)
	}
	seen := map[string]bool{}
	for len(work) > 0 {
		l := work[len(work)-1]
		work = work[:len(work)-1]
		if seen[l] {
			continue
		}
		seen[l] = true
		for a := range d.edges[l] {
			out[a] = true
			work = append(work, expandLoc(a)...)
		}
	}
	return out
}

// SliceOfExpr returns the slice of everything an expression is computed from.
func (d *Deps) SliceOfExpr(e ast.Node) map[string]bool {
	at := map[string]bool{}
	d.atoms(e, at)
	out := map[string]bool{}
	var locs []string
	for a := range at {
		out[a] = true
		locs = append(locs, a)
	}
	for a := range d.Slice(locs...) {
		out[a] = true
	}
	return out
}

func sliceHas(sl map[string]bool, atom string) bool { return sl[atom] }

func sliceHasPrefix(sl map[string]bool, prefix string) bool {
	for a := range sl {
		if strings.HasPrefix(a, prefix) {
			return true
		}
	}
	return false
}

func sliceAtoms(sl map[string]bool, prefixes ...string) []string {
	var out []string
	for a := range sl {
		for _, p := range prefixes {
			if strings.HasPrefix(a, p) {
				out = append(out, a)
				break
			}
		}
	}
	sort.Strings(out)
	return out
}
